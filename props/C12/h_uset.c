/* C12: concurrent_unordered_set / multiset (split-ordered list) never loses or duplicates keys.
 * Scenario (-D): TA,TB[,TC] = thread body of each model thread (i: insert k0 | ii: insert k0; insert k1 | f: find k0 |
 *   if: insert k0; find k1 | c: count k0 | t: full traversal), KA0,KA1,KB0,KB1,KC0,KC1 = keys (concrete),
 *   NB = initial bucket count, MLF10 = max_load_factor*10 (0: default 4.0), NPRE,PRE0..PRE3 = keys inserted sequentially
 *   before the threads start (real insert), HMODE = user hash (0: h=k, 1: h=0 for every key, 2: h=16*k, 3: h=(k>>1)|2^63*(k&1)),
 *   ROUNDS free rounds, MULTI=1 multiset.
 * Symbolic inside a query: the schedule (context switch before any memory operation).
 * Oracle at quiescence: raw walk of the whole list (sorted order keys, dummies unique and registered in the bucket table,
 * content == pre-state + successful inserts, no duplicate in a unique container, one winner per key), real size()/contains()/
 * iteration agree with the walk, allocation balance; per-operation: insert's iterator, find/count results against the
 * operations that had completed / started, traversal sees every earlier element exactly once and nothing twice. */
#include "w.h"
#include "vp.h"
#ifndef NT
#define NT 2
#endif
#ifndef MULTI
#define MULTI 0
#endif
#ifndef NPRE
#define NPRE 0
#endif
#ifndef PRE0
#define PRE0 0
#endif
#ifndef PRE1
#define PRE1 0
#endif
#ifndef PRE2
#define PRE2 0
#endif
#ifndef PRE3
#define PRE3 0
#endif
#ifndef KA0
#define KA0 0
#endif
#ifndef KB0
#define KB0 0
#endif
#ifndef KA1
#define KA1 0
#endif
#ifndef KB1
#define KB1 0
#endif
#ifndef KC0
#define KC0 0
#endif
#ifndef KC1
#define KC1 0
#endif
#ifndef HMODE
#define HMODE 0
#endif
#ifndef MLF10
#define MLF10 0
#endif
#ifndef NB
#define NB 2
#endif
#define CAT_(a, b) a##b
#define CAT(a, b) CAT_(a, b)
#define THR_A CAT(CAT(vp_thr_, TA), _a)
#define THR_B CAT(CAT(vp_thr_, TB), _b)
#define THR_C CAT(CAT(vp_thr_, TC), _c)
#define START_i(fn, t, k0, k1)  CAT(fn, _start)(SP, t, k0)
#define START_f(fn, t, k0, k1)  CAT(fn, _start)(SP, t, k0)
#define START_c(fn, t, k0, k1)  CAT(fn, _start)(SP, t, k0)
#define START_ii(fn, t, k0, k1) CAT(fn, _start)(SP, t, k0, k1)
#define START_if(fn, t, k0, k1) CAT(fn, _start)(SP, t, k0, k1)
#define START_t(fn, t, k0, k1)  CAT(fn, _start)(SP, t)
#define START_g(fn, t, k0, k1)  CAT(fn, _start)(SP, t, k0)

#if MULTI
struct S_class_tbb__detail__d2__concurrent_unordered_multiset SET;
#else
struct S_class_tbb__detail__d2__concurrent_unordered_set SET;
#endif
#define SP (&SET)

/* ---- external boundary */
/* user hash functor: pure function of the key */
u64 vp_hash(u32 k) {
#if HMODE == 0
  return (u64)k;
#elif HMODE == 1
  return 0;
#elif HMODE == 2
  return (u64)k * 16;
#else
  return (u64)(k >> 1) | ((u64)(k & 1) << 63);   /* keys 2j and 2j+1: hashes differ only in bit 63 => same bucket, same order key */
#endif
}
/* cut: tbb::detail::machine_reverse_bits<unsigned long> -> its contract (exact bit reversal; decided for the real function
   over all 2^64 inputs in harness sokey_arith PART 1) */
u64 _ZN3tbb6detail2d020machine_reverse_bitsImEET_S3_(u64 x) {
  x = ((x & 0xAAAAAAAAAAAAAAAAull) >> 1) | ((x & 0x5555555555555555ull) << 1);
  x = ((x & 0xCCCCCCCCCCCCCCCCull) >> 2) | ((x & 0x3333333333333333ull) << 2);
  x = ((x & 0xF0F0F0F0F0F0F0F0ull) >> 4) | ((x & 0x0F0F0F0F0F0F0F0Full) << 4);
  x = ((x & 0xFF00FF00FF00FF00ull) >> 8) | ((x & 0x00FF00FF00FF00FFull) << 8);
  x = ((x & 0xFFFF0000FFFF0000ull) >> 16) | ((x & 0x0000FFFF0000FFFFull) << 16);
  return (x >> 32) | (x << 32);
}
/* cut: d1::segment_table<atomic<node*>,...>::internal_subscript<true>(index) == my_segments[index] -> its contract: a reference
   to the slot of bucket `index`, the same address for the same index on every call, distinct per index, initially nullptr
   (lazy segment allocation and its enable_segment race are checked on the real code in harness segtab_2t) */
#if MULTI
#define SUBSCRIPT _ZN3tbb6detail2d113segment_tableISt6atomicIPNS0_2d29list_nodeImEEE7VpAllocIiENS4_25concurrent_unordered_baseINS4_31concurrent_unordered_set_traitsIi6VpHashSt8equal_toIiESA_Lb1EEEE23unordered_segment_tableELm63EE18internal_subscriptILb1EEERS8_m
#else
#define SUBSCRIPT _ZN3tbb6detail2d113segment_tableISt6atomicIPNS0_2d29list_nodeImEEE7VpAllocIiENS4_25concurrent_unordered_baseINS4_31concurrent_unordered_set_traitsIi6VpHashSt8equal_toIiESA_Lb0EEEE23unordered_segment_tableELm63EE18internal_subscriptILb1EEERS8_m
#endif
#define BCMAX 8
#ifndef BCLIM
#define BCLIM 4   /* largest bucket count the scenario can reach (asserted at quiescence) */
#endif
typedef __typeof__(*vp_slot_probe()) slot_t;
slot_t SLOTS[BCMAX];
slot_t* SUBSCRIPT(struct S_class_tbb__detail__d1__segment_table* table, u64 idx) { VP_ASSERT(idx < BCMAX, "VP bound: bucket index beyond the table the harness models"); __CPROVER_assume(idx < BCMAX); return &SLOTS[idx]; }
/* user allocator (VpAlloc in the wrapper): fresh, suitably typed, never reused storage; never fails here.
   Pools are typed arrays of the generated structs (a malloc'ed byte array per node costs the solver far more). */
typedef struct S_class_tbb__detail__d2__list_node lnode_t;
typedef struct S_class_tbb__detail__d2__value_node vnode_t;
/* one global object per allocation (not pool[i] with a symbolic i): cbmc's value sets then know object and offset exactly.
   NV / ND = number of value / dummy nodes the scenario can allocate at most (bound asserted, not assumed away) */
#ifndef NV
#define NV 4
#endif
#ifndef ND
#define ND 4
#endif
lnode_t D0, D1, D2, D3, D4, D5; vnode_t V0, V1, V2, V3, V4, V5;
int used_d, used_v;
int live_allocs;
#define PICK(i, P, N) ((N) > 5 && (i) == 5 ? (u8*)&P##5 : (N) > 4 && (i) == 4 ? (u8*)&P##4 : (N) > 3 && (i) == 3 ? (u8*)&P##3 : (N) > 2 && (i) == 2 ? (u8*)&P##2 : (N) > 1 && (i) == 1 ? (u8*)&P##1 : (u8*)&P##0)
u8* vp_alloc(u32 kind, u64 n) {
  live_allocs++;
  if (kind == 1 && n == 1) { int i = used_d++; VP_ASSERT(i < ND, "VP bound: more dummy nodes allocated than the scenario provides"); __CPROVER_assume(i < ND); return PICK(i, D, ND); }
  if (kind == 2 && n == 1) { int i = used_v++; VP_ASSERT(i < NV, "VP bound: more value nodes allocated than the scenario provides"); __CPROVER_assume(i < NV); return PICK(i, V, NV); }
  VP_ASSERT(0, "VP bound: allocation request not expected by the harness"); __CPROVER_assume(0); return 0;
}
/* freed nodes are poisoned (order key ~0, next = invalid address): a later use through a stale pointer breaks the walk / the oracle */
static int node_freed(u8* p) { return vp_node_is_poison((void*)p); }
void vp_dealloc(u32 kind, u8* p, u64 n) {
  live_allocs--;
  VP_ASSERT(kind == 1 || kind == 2, "VP bound: deallocation not expected by the harness");
  VP_ASSERT(!node_freed(p), "node freed twice");
  vp_node_poison((void*)p);
}
void _ZN3tbb6detail2r115throw_exceptionENS0_2d012exception_idE(u32 id) { VP_ASSERT(0, "throw_exception reached although no allocation failed"); }
/* init_bucket's recursion on the parent bucket is unrolled RECDEPTH levels (tools/unrec.py); scenarios keep the bucket
   table small enough that a deeper call is impossible - decided here, not assumed */
void vp_rec_limit(void) { VP_ASSERT(0, "VP bound: init_bucket recursed deeper than the unrolled depth"); }

/* ---- history */
enum { OP_NONE = 0, OP_INSERT = 1, OP_FIND = 2, OP_TRAVERSE = 3, OP_COUNT = 4, OP_GETBUCKET = 5 };
#ifndef NV
#define NV 4
#endif
#define MAXSEEN (NV + 1)
struct op { int used, kind, done, ok; int key, itkey; unsigned inv, res; int nseen; int seen[MAXSEEN]; } H[3][2];
unsigned clk;
void vp_op_begin(u32 tid, u32 slot, u32 kind, u32 key) { struct op* o = &H[tid][slot]; o->used = 1; o->kind = kind; o->key = key; o->inv = ++clk; }
void vp_ins_result(u32 tid, u32 slot, u32 key, u32 ok, u32 itkey) { struct op* o = &H[tid][slot]; o->done = 1; o->ok = ok; o->itkey = itkey; o->res = ++clk; }
void vp_find_result(u32 tid, u32 slot, u32 key, u32 found, u32 itkey) { struct op* o = &H[tid][slot]; o->done = 1; o->ok = found; o->itkey = itkey; o->res = ++clk; }
void vp_seen(u32 tid, u32 slot, u32 key) { struct op* o = &H[tid][slot]; VP_ASSERT(o->nseen < MAXSEEN, "traversal visited more elements than were ever inserted"); if (o->nseen < MAXSEEN) o->seen[o->nseen++] = key; }
u8* got_bucket[3];
void vp_bucket_result(u32 tid, u32 slot, u64 bucket, u8* node) { struct op* o = &H[tid][slot]; o->done = 1; o->res = ++clk; got_bucket[tid] = node; }
void vp_trav_end(u32 tid, u32 slot) { struct op* o = &H[tid][slot]; o->done = 1; o->res = ++clk; }

static const int PRE[4] = { PRE0, PRE1, PRE2, PRE3 };
static int npre_of(int k) { int c = 0; for (int i = 0; i < NPRE; i++) c += (PRE[i] == k); return c; }
/* inserts of key k: successful ones that responded before clock t / that were invoked before clock t */
static int ins_done_before(int k, unsigned t) { int c = 0; for (int a = 0; a < NT; a++) for (int s = 0; s < 2; s++) { struct op* o = &H[a][s]; if (o->used && o->kind == OP_INSERT && o->key == k && o->done && o->ok && o->res < t) c++; } return c; }
static int ins_begun_before(int k, unsigned t) { int c = 0; for (int a = 0; a < NT; a++) for (int s = 0; s < 2; s++) { struct op* o = &H[a][s]; if (o->used && o->kind == OP_INSERT && o->key == k && o->inv < t) c++; } return c; }
static int ins_ok(int k) { return ins_done_before(k, ~0u); }

static const int KEYS[10] = { PRE0, PRE1, PRE2, PRE3, KA0, KA1, KB0, KB1, KC0, KC1 };   /* (a bucket number passed to a 'g' body is harmless here: it is never inserted) */
#define KEYS_DOC   /* all keys of the scenario (constants) */
static u64 sok_of(int v) { u64 r = 0; for (int x = 0; x < 10; x++) if (KEYS[x] == v) r = vp_key_regular(vp_hash(KEYS[x])); return r; }
/* every node ever created: head + value nodes + dummy nodes */
#define MAXN (1 + NV + ND)
static const u8 PARENT[BCMAX] = { 0, 0, 0, 1, 0, 1, 2, 3 };
u8* nodes[MAXN + 1]; u64 sok[MAXN + 1]; u8 isd[MAXN + 1]; int nn;
int vals[MAXN + 1]; int nv;

int main(void) {
  vp_us_ctor(SP, NB);
#if MLF10
  vp_us_max_load_factor(SP, (float)MLF10 / 10.0f);
#endif
  for (int i = 0; i < NPRE; i++) {
    int ok = vp_us_insert(SP, PRE[i]);
    VP_ASSERT(MULTI || ok == (npre_of(PRE[i]) == 1 || 1), "sequential pre-state insert failed");
  }
  CAT(START_, TA)(THR_A, 0, KA0, KA1);
  CAT(START_, TB)(THR_B, 1, KB0, KB1);
#if NT == 3
  CAT(START_, TC)(THR_C, 2, KC0, KC1);
#endif
  for (int r = 0; r < ROUNDS; r++) {
    VP_RUN(THR_A) VP_RUN(THR_B)
#if NT == 3
    VP_RUN(THR_C)
#endif
  }
#if NT == 3
  VP_QUIESCE3(THR_A, THR_B, THR_C)
#else
  VP_QUIESCE2(THR_A, THR_B)
#endif
  VP_ASSERT(!vp_deadlock, "threads blocked forever in an insert-only container");
  __CPROVER_assume(!vp_unfinished);

  int live_at_quiescence = live_allocs;   /* (the sequential contains() below may lazily initialise a bucket = allocate a dummy) */
  /* ---- A. raw walk of the split-ordered list (one pass, per-node data cached) */
  { u8* p = vp_us_head(SP);
    for (int i = 0; i < MAXN; i++) {
      if (!p) break;
      nodes[nn] = p; sok[nn] = vp_node_sokey((void*)p); isd[nn] = (sok[nn] & 1) == 0;
      VP_ASSERT(!node_freed(p), "a freed node is linked in the list");
      if (i > 0) {
        VP_ASSERT(sok[nn - 1] <= sok[nn], "split-ordered list not sorted by order key");
        if (isd[nn]) VP_ASSERT(sok[nn - 1] < sok[nn], "two dummy nodes with the same order key / dummy not in front of its bucket");
        else { int v = vp_node_value((void*)p); vals[nv++] = v;
               VP_ASSERT(sok[nn] == vp_key_regular(vp_hash(v)), "value node carries an order key that is not the regular key of its hash"); }
      }
      nn++; p = vp_node_next((void*)p);
    }
    VP_ASSERT(p == 0, "list has more nodes than were ever created (cycle or node linked twice)");
    __CPROVER_assume(p == 0); }
  VP_ASSERT(sok[0] == 0, "head order key changed");
  int ndummy = 0;
  for (int i = 1; i < nn; i++) ndummy += isd[i];
  /* ---- B. bucket table: every initialised bucket points at its own dummy node in the list, parents are initialised */
  u64 bc = vp_us_bucket_count(SP);
  VP_ASSERT(bc >= NB && bc <= BCLIM && (bc & (bc - 1)) == 0, "bucket count not a power of two in range");
  int nbuckets = 0;
  for (unsigned b = 0; b < BCLIM; b++) {
    u8* raw = vp_us_bucket_raw(SP, b);
    if (!raw) continue;
    VP_ASSERT(b < bc, "bucket beyond the current bucket count initialised");
    if (b == 0) { VP_ASSERT(raw == nodes[0], "bucket 0 is not the head node"); continue; }
    nbuckets++;
    int at = -1;
    for (int i = 1; i < nn; i++) if (nodes[i] == raw) at = i;
    VP_ASSERT(at > 0, "bucket table entry points to a node that is not in the list");
    VP_ASSERT(sok[at > 0 ? at : 0] == vp_key_dummy(b), "bucket table entry points to a node with another bucket's order key");
    VP_ASSERT(vp_us_bucket_raw(SP, PARENT[b]) != 0, "bucket initialised although its parent is not");
  }
  VP_ASSERT(ndummy == nbuckets, "a dummy node is in the list that no bucket entry refers to (bucket initialised twice)");
  /* ---- C/D. content == pre-state + successful inserts; unique container: no duplicates, one winner */
  /* all keys of the scenario are compile-time constants: count each in the list */
  { int total = 0;
    for (int x = 0; x < 10; x++) {
      int k = KEYS[x], first = 1;
      for (int y = 0; y < x; y++) if (KEYS[y] == k) first = 0;
      if (!first) continue;
      int c = 0;
      for (int j = 0; j < MAXN; j++) c += (j < nv && vals[j] == k);
      total += c;
      VP_ASSERT(c == npre_of(k) + ins_ok(k), "element count in the list != pre-state + successful inserts (key lost or duplicated)");
#if !MULTI
      VP_ASSERT(c <= 1, "unique container holds two equivalent keys");
#endif
    }
    VP_ASSERT(total == nv, "list holds a value nobody inserted"); }
  for (int a = 0; a < NT; a++) for (int s = 0; s < 2; s++) {
    struct op* o = &H[a][s]; if (!o->used) continue;
    VP_ASSERT(o->done, "operation never responded");
    int k = o->key;
    if (o->kind == OP_INSERT) {
      VP_ASSERT(o->itkey == k, "insert returned an iterator to a different key");
#if !MULTI
      if (!o->ok) VP_ASSERT(npre_of(k) || ins_begun_before(k, o->res) > 1, "insert reported failure although the key was absent and nobody else inserted it");
#else
      VP_ASSERT(o->ok, "multiset insert failed");
#endif
      VP_ASSERT(vp_us_contains(SP, k), "contains() does not find an inserted key at quiescence (unreachable from its bucket)");
    } else if (o->kind == OP_FIND) {
      if (o->ok) { VP_ASSERT(o->itkey == k, "find returned an iterator to a different key");
                   VP_ASSERT(npre_of(k) || ins_begun_before(k, o->res), "find returned a key nobody inserted"); }
      else VP_ASSERT(!npre_of(k) && !ins_done_before(k, o->inv), "find missed a key whose insert had returned before the find started");
    } else if (o->kind == OP_COUNT) {
      int lo = npre_of(k) + ins_done_before(k, o->inv), hi = npre_of(k) + ins_begun_before(k, o->res);
#if !MULTI
      if (lo > 1) lo = 1; if (hi > 1) hi = 1;
#endif
      VP_ASSERT(o->ok >= lo && o->ok <= hi, "count() outside [completed inserts, started inserts]");
    } else if (o->kind == OP_GETBUCKET) {
      /* get_bucket(b) returns the one dummy node of bucket b: in the list, carrying b's dummy key, registered in the table */
      VP_ASSERT(got_bucket[a] != 0 && got_bucket[a] == vp_us_bucket_raw(SP, (u64)k), "get_bucket returned a node that is not the registered dummy node of the bucket");
      VP_ASSERT(vp_node_sokey((void*)got_bucket[a]) == vp_key_dummy((u64)k), "get_bucket returned a node with a different order key");
    } else if (o->kind == OP_TRAVERSE) {
      /* per (constant) key of the scenario: seen at least as often as it was present before the traversal began, at most as often
         as inserts of it had begun before the traversal ended; nothing else is seen; visiting order = list order */
      int total = 0;
      for (int x = 0; x < 10; x++) {
        int kk = KEYS[x], first = 1;
        for (int y = 0; y < x; y++) if (KEYS[y] == kk) first = 0;
        if (!first) continue;
        int cs = 0;
        for (int y = 0; y < MAXSEEN; y++) cs += (y < o->nseen && o->seen[y] == kk);
        total += cs;
        int lo = npre_of(kk) + ins_done_before(kk, o->inv), hi = npre_of(kk) + ins_begun_before(kk, o->res);
#if !MULTI
        if (lo > 1) lo = 1; if (hi > 1) hi = 1;
#endif
        VP_ASSERT(cs <= hi, "traversal saw an element twice / an element nobody inserted");
        VP_ASSERT(cs >= lo, "traversal missed an element that was present before it began");
      }
      VP_ASSERT(total == o->nseen, "traversal saw a value nobody inserted");
      for (int y = 1; y < MAXSEEN; y++) if (y < o->nseen) VP_ASSERT(sok_of(o->seen[y - 1]) <= sok_of(o->seen[y]), "traversal not in list order");
    }
  }
  /* ---- E/F. the public sequential view agrees with the raw list */
  VP_ASSERT(vp_us_size(SP) == (u64)nv, "size() != number of value nodes");
#ifdef CHECK_ITER
  { u32 it[MAXN + 1]; u64 n = vp_us_iterate(SP, it, MAXN);
    VP_ASSERT(n == (u64)nv, "iteration length != number of value nodes");
    for (int i = 0; i < nv; i++) VP_ASSERT((int)it[i] == vals[i], "iteration order differs from the list"); }
#endif
  /* ---- allocation balance: every node that lost a race was freed exactly once, nothing else was */
  VP_ASSERT(live_at_quiescence == nn - 1, "allocation balance: leaked or double-freed node");
  VP_REACHED();
  return 0;
}

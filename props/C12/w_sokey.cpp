// C12 sequential wrapper: split-order key arithmetic of the real concurrent_unordered_base, the bucket -> segment mapping of
// the real segment_table it uses, and the level arithmetic of the real skip-list random level generator.
#include "oneapi/tbb/concurrent_unordered_set.h"
#include "oneapi/tbb/concurrent_set.h"
using namespace tbb;
extern "C" unsigned long vp_hash(int k);
extern "C" void vp_emit(unsigned long v);
struct VpHash { std::size_t operator()(int k) const { return vp_hash(k); } };
typedef concurrent_unordered_set<int, VpHash> uset_t;
typedef uset_t::unordered_segment_table segtab_t;
typedef detail::d2::concurrent_geometric_level_generator<32> levelgen_t;

extern "C" {
unsigned long vp_rev(unsigned long x) { return detail::reverse_bits(x); }
unsigned long vp_rev_n(unsigned long x, unsigned long n) { return detail::reverse_n_bits(x, n); }
unsigned long vp_key_regular(unsigned long h) { return uset_t::split_order_key_regular(h); }
unsigned long vp_key_dummy(unsigned long b) { return uset_t::split_order_key_dummy(b); }
unsigned long vp_us_sizeof() { return sizeof(uset_t); }
void vp_us_ctor(uset_t* s, unsigned long nbuckets) { new (s) uset_t(nbuckets); }
unsigned long vp_us_bucket_count(uset_t* s) { return s->my_bucket_count.load(std::memory_order_relaxed); }
unsigned long vp_parent(uset_t* s, unsigned long b) { return s->get_parent(b); }
unsigned long vp_next_bucket(uset_t* s, unsigned long b) { return s->get_next_bucket_index(b); }
void vp_us_set_bucket_count(uset_t* s, unsigned long n) { s->my_bucket_count.store(n, std::memory_order_relaxed); }
unsigned long vp_bucket_of(uset_t* s, int key) { return s->unsafe_bucket(key); }   // hash(key) % my_bucket_count (same expression as prepare_bucket)
unsigned long vp_round_up_pow2(unsigned long n) { return uset_t::round_up_to_power_of_two(n); }
unsigned long vp_seg_index_of(unsigned long i) { return segtab_t::segment_index_of(i); }
unsigned long vp_seg_base(unsigned long s) { return segtab_t::segment_base(s); }
unsigned long vp_seg_size(unsigned long s) { return segtab_t::segment_size(s); }
unsigned long vp_embedded_ptrs() { return uset_t::pointers_per_embedded_table; }
// is_dummy() of a node carrying this order key (real list_node)
int vp_is_dummy_key(unsigned long sokey) { detail::d2::list_node<std::size_t> n(sokey); return n.is_dummy(); }

// the real level generator with the thread-local engine lookup cut (engines.local() -> harness stub returning an engine
// in an arbitrary reachable state); operator() of std::minstd_rand and the log2 arithmetic are the real code
unsigned long vp_level(levelgen_t* g) { return (*g)(); }
void vp_set_engine(std::minstd_rand* e, unsigned long state) { e->seed(state); }
unsigned long vp_level_max() { return levelgen_t::max_level; }

void vp_selftest() {
  unsigned long xs[] = {0, 1, 2, 3, 5, 8, 0x80, 0xff, 0x100, 0x1234, 0xdeadbeefUL, 0x8000000000000000UL, 0x7fffffffffffffffUL,
                        0xffffffffffffffffUL, 0x0123456789abcdefUL, 0xfedcba9876543210UL, 0x5555555555555555UL, 0xaaaaaaaaaaaaaaaaUL};
  alignas(64) static unsigned char buf[sizeof(uset_t)];
  uset_t* s = (uset_t*)buf; vp_us_ctor(s, 8);
  for (unsigned long x : xs) {
    vp_emit(vp_rev(x)); vp_emit(vp_key_regular(x)); vp_emit(vp_key_dummy(x)); vp_emit(vp_round_up_pow2(x & 0xffffffffffffUL));
    if (x) vp_emit(vp_parent(s, x));
    vp_emit(vp_seg_index_of(x)); vp_emit(vp_is_dummy_key(x));
  }
  for (unsigned long i = 0; i < 70; i++) { vp_emit(vp_seg_index_of(i)); if (i < 63) { vp_emit(vp_seg_base(i)); vp_emit(vp_seg_size(i)); } if (i) vp_emit(vp_parent(s, i)); }
  for (unsigned long n = 1; n <= 6; n++) for (unsigned long x = 0; x < (1ul << n); x++) vp_emit(vp_rev_n(x, n));
  for (unsigned long b = 0; b < 8; b++) vp_emit(vp_next_bucket(s, b));
}
}

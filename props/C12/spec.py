PROPERTY = 'C12'
# thread units cut machine_reverse_bits<size_t> (a thread-private 8-iteration byte loop that the K-unroll scheme would spread over
# 4 scheduling rounds) and use a contract stub "exact 64-bit reversal"; that contract is decided for the real function in
# sokey_arith PART 1
CUT = ['20machine_reverse_bits', '18internal_subscriptILb1EE']
# functions executed atomically inside a model thread (kept out of line): thread-private work (node construction/destruction:
# the node is not yet / no longer reachable by others), the single-CAS adjust_table_size, and - in the 'core' units - bucket
# initialisation (its races are the subject of the 'init' units)
ATOMIC_CORE = ['11create_nodeIJ', '12destroy_nodeEP', '17adjust_table_sizeEmm']
def CUB(multi): return '_ZN3tbb6detail2d225concurrent_unordered_baseINS1_31concurrent_unordered_set_traitsIi6VpHashSt8equal_toIiE7VpAllocIiELb%dEEEE' % multi
SFX = {'create_node': '11create_nodeIJRKiEEEPNS1_10value_nodeIimEEmDpOT_', 'init_bucket': '11init_bucketEm', 'destroy_node': '12destroy_nodeEPNS1_9list_nodeImEE',
       'adjust_table_size': '17adjust_table_sizeEmm', 'create_dummy_node': '17create_dummy_nodeEm'}
def AA(names, multi=0): return [CUB(multi) + SFX[n] for n in names]
AA_CORE = AA(['create_node', 'destroy_node', 'adjust_table_size'])
IB = CUB(0) + SFX['init_bucket']
US_CBMC = ['--unwind', '11', '--unwindset', 'vp_us_ctor.0:70,' + ','.join('%s.%d:6' % (IB, i) for i in range(6)), '--object-bits', '10']
def US_UNIT(threads, init_inline=False, multi=0, unroll=2):
    # core units: init_bucket runs atomically (kept out of line); init units: init_bucket/insert_dummy_node inlined into the thread body.
    # In both, init_bucket's recursion on the parent is not followed (unrec depth 0): scenarios initialise the parent bucket in the
    # sequential pre-state and the harness asserts that the recursive call is unreachable.
    noinl = ATOMIC_CORE + ['17create_dummy_nodeEm'] + ([] if init_inline else ['11init_bucketEm'])
    aa = AA(['create_node', 'destroy_node', 'adjust_table_size', 'create_dummy_node'] + ([] if init_inline else ['init_bucket']), multi)
    return dict(wrapper='w_uset.cpp', mode='lcs', unroll=unroll, ptratomics=True, cut=CUT, noinline=noinl, unrec={'11init_bucketEm': 0},
                allow_atomic=aa, threads=threads, cxxflags=['-DMULTI=%d' % multi])
UNITS = {
  'sokey': dict(wrapper='w_sokey.cpp', mode='seq', selftest=True, cut=['5localEv']),
  'us_i_i': US_UNIT({'vp_thr_i': ['a', 'b']}),
  'us_i_i1': US_UNIT({'vp_thr_i': ['a', 'b']}, unroll=1),
  'us_i_f': US_UNIT({'vp_thr_i': ['a'], 'vp_thr_f': ['b']}),
  'seg2': dict(wrapper='w_uset.cpp', mode='lcs', unroll=2, ptratomics=True, threads={'vp_thr_s': ['a', 'b']}, prune=True),
  'us_i_t': US_UNIT({'vp_thr_i': ['a'], 'vp_thr_t': ['b']}, unroll=2),
  'usI_g_g1': US_UNIT({'vp_thr_g': ['a', 'b']}, init_inline=True, unroll=1),
  'usI_g_i1': US_UNIT({'vp_thr_g': ['a'], 'vp_thr_i': ['b']}, init_inline=True, unroll=1),
}
USD = {'ROUNDS': 1, 'NB': 2, 'NPRE': 2, 'PRE0': 2, 'PRE1': 3}
HARNESSES = [
  dict(name='sokey_arith', unit='sokey', harness='h_sokey.c', scenarios=[{'PART': p} for p in range(1, 9)], cbmc=['--unwind', '70'],
       desc='split-order key arithmetic', bounds={}),
  dict(name='uset_ins_2t', unit='us_i_i', harness='h_uset.c', defines=dict(USD, TA='i', TB='i', NV=4, ND=1),
       scenarios=[{'KA0': 5, 'KB0': 5}, {'KA0': 5, 'KB0': 7}, {'KA0': 5, 'KB0': 5, 'HMODE': 1}, {'KA0': 5, 'KB0': 7, 'HMODE': 1}], cbmc=US_CBMC, timeout=900,
       desc='', bounds={}),
  dict(name='uset_find_2t', unit='us_i_f', harness='h_uset.c', defines=dict(USD, TA='i', TB='f', NV=3, ND=1),
       scenarios=[{'KA0': 5, 'KB0': 5}, {'KA0': 5, 'KB0': 3}], cbmc=US_CBMC, timeout=900,
       desc='', bounds={}),
  dict(name='uset_init_gg', unit='usI_g_g1', harness='h_uset.c', defines=dict(ROUNDS=1, TA='g', TB='g'),
       scenarios=[dict(NB=2, NPRE=1, PRE0=2, KA0=1, KB0=1, NV=1, ND=2), dict(NB=4, NPRE=2, PRE0=4, PRE1=1, KA0=3, KB0=3, NV=2, ND=3)], cbmc=US_CBMC, timeout=900,
       desc='', bounds={}),
  dict(name='uset_init_gi', unit='usI_g_i1', harness='h_uset.c', defines=dict(ROUNDS=1, TA='g', TB='i'),
       scenarios=[dict(NB=4, NPRE=2, PRE0=4, PRE1=1, KA0=3, KB0=5, NV=3, ND=2)], cbmc=US_CBMC, timeout=900,
       desc='', bounds={}),
  dict(name='uset_ins1_2t', unit='us_i_i1', harness='h_uset.c', defines=dict(USD, TA='i', TB='i', NV=4, ND=1),
       scenarios=[{'KA0': 5, 'KB0': 5}], cbmc=US_CBMC, timeout=900,
       desc='', bounds={}),
  dict(name='segtab_2t', unit='seg2', harness='h_segtab.c', defines=dict(ROUNDS=2),
       scenarios=[dict(IA=1, IB=1), dict(IA=0, IB=1), dict(IA=3, IB=3), dict(IA=1, IB=2), dict(IA=5, IB=6)], cbmc=['--unwind', '70', '--object-bits', '10'], timeout=600,
       desc='', bounds={}),
  dict(name='uset_trav_2t', unit='us_i_t', harness='h_uset.c', defines=dict(USD, TA='i', TB='t', NV=3, ND=1),
       scenarios=[{'KA0': 5}], cbmc=US_CBMC, timeout=900,
       desc='', bounds={}),
]
OUTSIDE = []
STUBS = []
ASSUMPTIONS = []

PROPERTY = 'C12'
# thread units cut machine_reverse_bits<size_t> (a thread-private 8-iteration byte loop that the K-unroll scheme would spread over
# 4 scheduling rounds) and use a contract stub "exact 64-bit reversal"; that contract is decided for the real function in
# sokey_arith PART 1
CUT = ['20machine_reverse_bits', '18internal_subscriptILb1EE']
# functions executed atomically inside a model thread (kept out of line): thread-private work (node construction/destruction:
# the node is not yet / no longer reachable by others), the single-CAS adjust_table_size, and - in the 'core' units - bucket
# initialisation (its races are the subject of the 'init' units)
ATOMIC_CORE = ['11create_nodeIJ', '12destroy_nodeEP', '17adjust_table_sizeEmm']
def CUB(multi): return '_ZN3tbb6detail2d225concurrent_unordered_baseINS1_31concurrent_unordered_set_traitsIi6VpHashSt8equal_toIiE7VpAllocIiELb%dEEEE' % multi
SFX = {'create_node': '11create_nodeIJRKiEEEPNS1_10value_nodeIimEEmDpOT_', 'init_bucket': '11init_bucketEm', 'destroy_node': '12destroy_nodeEPNS1_9list_nodeImEE',
       'adjust_table_size': '17adjust_table_sizeEmm', 'create_dummy_node': '17create_dummy_nodeEm'}
def AA(names, multi=0): return [CUB(multi) + SFX[n] for n in names]
AA_CORE = AA(['create_node', 'destroy_node', 'adjust_table_size'])
def US_CBMC(multi=0):
    ib = CUB(multi) + SFX['init_bucket']
    return ['--unwind', '11', '--unwindset', 'vp_us_ctor.0:70,' + ','.join('%s.%d:6' % (ib, i) for i in range(6)), '--object-bits', '10']
def US_UNIT(threads, init_inline=False, multi=0, unroll=2):
    # core units: init_bucket runs atomically (kept out of line); init units: init_bucket/insert_dummy_node inlined into the thread body.
    # In both, init_bucket's recursion on the parent is not followed (unrec depth 0): scenarios initialise the parent bucket in the
    # sequential pre-state and the harness asserts that the recursive call is unreachable.
    noinl = ATOMIC_CORE + ['17create_dummy_nodeEm'] + ([] if init_inline else ['11init_bucketEm'])
    aa = AA(['create_node', 'destroy_node', 'adjust_table_size', 'create_dummy_node'] + ([] if init_inline else ['init_bucket']), multi)
    return dict(wrapper='w_uset.cpp', mode='lcs', unroll=unroll, ptratomics=True, cut=CUT, noinline=noinl, unrec={'11init_bucketEm': 0},
                allow_atomic=aa, threads=threads, cxxflags=['-DMULTI=%d' % multi])
def SKL(multi, maxh): return '_ZN3tbb6detail2d220concurrent_skip_listINS1_10set_traitsIiSt4lessIiE10VpLevelGen7VpAllocIiELb%dEEEE' % multi
def SK_UNIT(threads, multi=0, unroll=1, maxh=3, head_inline=False):
    # executed atomically (thread-private work): node creation (allocation, level-pointer construction, value) and destruction of a
    # node that lost; head creation is atomic too unless head_inline (its CAS race is the subject of the 'head' scenario)
    aa = [SKL(multi, maxh) + '17create_value_nodeIJRKiEEEPNS1_14skip_list_nodeIiS7_IhEEEDpOT_', SKL(multi, maxh) + '17delete_value_nodeEPNS1_14skip_list_nodeIiS7_IhEEE']
    noinl = ['17create_value_nodeIJRKiEEEPNS1_14skip_list_node', '17delete_value_nodeEPNS1_14skip_list_node']
    if not head_inline: aa.append(SKL(multi, maxh) + '24create_head_if_necessaryEv'); noinl.append('24create_head_if_necessaryEv')
    return dict(wrapper='w_skip.cpp', mode='lcs', unroll=unroll, ptratomics=True, prune=True, threads=threads, noinline=noinl, allow_atomic=aa,
                cxxflags=['-DMULTI=%d' % multi, '-DMAXH=%d' % maxh])
UNITS = {
  'sokey': dict(wrapper='w_sokey.cpp', mode='seq', selftest=True, cut=['5localEv']),
  'seg2': dict(wrapper='w_uset.cpp', mode='lcs', unroll=2, ptratomics=True, threads={'vp_thr_s': ['a', 'b']}, prune=True),
  # split-ordered list, K=1 (quick) and K=2 (thorough) loop unrolling
  'us_i_i': US_UNIT({'vp_thr_i': ['a', 'b']}),
  'us_i_f': US_UNIT({'vp_thr_i': ['a'], 'vp_thr_f': ['b']}),
  'us_i_t': US_UNIT({'vp_thr_i': ['a'], 'vp_thr_t': ['b']}),
  'us_ii_i1': US_UNIT({'vp_thr_ii': ['a'], 'vp_thr_i': ['b']}, unroll=1),
  'us_i_i_i1': US_UNIT({'vp_thr_i': ['a', 'b', 'c']}, unroll=1),
  'usI_g_g1': US_UNIT({'vp_thr_g': ['a', 'b']}, init_inline=True, unroll=1),
  'usI_g_i1': US_UNIT({'vp_thr_g': ['a'], 'vp_thr_i': ['b']}, init_inline=True, unroll=1),
  'um_i_i1': US_UNIT({'vp_thr_i': ['a', 'b']}, unroll=1, multi=1),
  'um_i_c1': US_UNIT({'vp_thr_i': ['a'], 'vp_thr_c': ['b']}, unroll=1, multi=1),
  # skip list
  'sk_i_i': SK_UNIT({'vp_thr_ki': ['a', 'b']}),
  'sk_i_f': SK_UNIT({'vp_thr_ki': ['a'], 'vp_thr_kf': ['b']}),
  'sk_i_t': SK_UNIT({'vp_thr_ki': ['a'], 'vp_thr_kt': ['b']}),
  'skH_i_i': SK_UNIT({'vp_thr_ki': ['a', 'b']}, head_inline=True),
  'skm_i_i': SK_UNIT({'vp_thr_ki': ['a', 'b']}, multi=1),
}
# pre-state of most split-ordered-list scenarios: 2 buckets, both initialised by sequential inserts of 2 (bucket 0) and 3 (bucket 1)
USD = {'ROUNDS': 1, 'NB': 2, 'NPRE': 2, 'PRE0': 2, 'PRE1': 3}
LCSB = {'threads': 2, 'free_rounds': 1, 'forced_rounds': 2, 'loop_unroll': 1}
def B(**kw): d = dict(LCSB); d.update(kw); return d
SK_CBMC = ['--unwind', '8', '--object-bits', '10']
HARNESSES = [
  dict(name='sokey_arith', unit='sokey', harness='h_sokey.c', scenarios=[{'PART': p} for p in range(1, 9)], cbmc=['--unwind', '70'], timeout=600,
       desc='full 64-bit lemmas over the real reverse_bits / split_order_key_regular / split_order_key_dummy / get_parent / get_next_bucket_index / '
            'unsafe_bucket / segment_index_of,segment_base,segment_size / round_up_to_power_of_two / level generator: reversal is the exact bit '
            'permutation (involution), regular keys odd, dummy keys even, parent dummy < child dummy < keys of the bucket < next dummy for every '
            'table size 2^n, doubling moves a key to b or b+N whose parent is b, bucket -> (segment, offset) tiles the index space, height in [1, max_level]',
       bounds={'width': '64 bit, all values symbolic', 'table size': 'every 2^n, n symbolic'}),
  dict(name='segtab_2t', unit='seg2', harness='h_segtab.c', defines=dict(ROUNDS=2),
       scenarios_quick=[dict(IA=1, IB=1), dict(IA=1, IB=2), dict(IA=5, IB=6)],
       scenarios=[dict(IA=1, IB=1), dict(IA=0, IB=1), dict(IA=3, IB=3), dict(IA=1, IB=2), dict(IA=5, IB=6), dict(IA=4, IB=7)], cbmc=['--unwind', '70', '--object-bits', '10'], timeout=600,
       desc='bucket table my_segments[i] || my_segments[j] (real segment_table::internal_subscript/enable_segment/create_segment/deallocate_segment): lazy segment '
            'allocation race: one segment survives, same slot for the same index, loser freed once, slot addresses stable',
       bounds=B(free_rounds=2, loop_unroll=2, indices='concrete per scenario (segments 0,1,2)')),
  dict(name='uset_ins_2t', unit='us_i_i', harness='h_uset.c', defines=dict(USD, TA='i', TB='i', NV=4, ND=1),
       scenarios_quick=[{'KA0': 5, 'KB0': 5}, {'KA0': 5, 'KB0': 13}, {'KA0': 5, 'KB0': 7, 'HMODE': 1}],
       scenarios=[{'KA0': 5, 'KB0': 5}, {'KA0': 5, 'KB0': 13}, {'KA0': 5, 'KB0': 7}, {'KA0': 5, 'KB0': 4}, {'KA0': 3, 'KB0': 3}, {'KA0': 5, 'KB0': 5, 'HMODE': 1}, {'KA0': 5, 'KB0': 7, 'HMODE': 1},
                  {'KA0': 4, 'KB0': 5, 'HMODE': 3, 'PRE0': 0, 'PRE1': 2}, {'KA0': 5, 'KB0': 5, 'HMODE': 3, 'PRE0': 0, 'PRE1': 2, 'NPRE': 3, 'PRE2': 4, 'NV': 5}],
       cbmc=US_CBMC(), timeout=900, thorough_override=dict(defines=dict(USD, TA='i', TB='i', NV=4, ND=1, ROUNDS=2), timeout=2400),
       desc='concurrent_unordered_set<int>: insert(ka) || insert(kb) through the real internal_insert/search_after/try_insert (same key: one winner; keys adjacent in '
            'split order at the same predecessor; all keys one hash: equal order keys decided by key_equal). Whole-list oracle at quiescence.',
       bounds=B(loop_unroll=2, keys='concrete per scenario', hash='identity | constant | bit63 alias', buckets=2, thorough='free_rounds 2')),
  dict(name='uset_find_2t', unit='us_i_f', harness='h_uset.c', defines=dict(USD, TA='i', TB='f', NV=3, ND=1),
       scenarios=[{'KA0': 5, 'KB0': 5}, {'KA0': 5, 'KB0': 3}], cbmc=US_CBMC(), timeout=900, thorough_override=dict(defines=dict(USD, TA='i', TB='f', NV=3, ND=1, ROUNDS=2), timeout=2400),
       desc='insert(ka) || find(kb): a find that starts after the insert returned finds the key; a pre-existing key behind the insertion point is never missed',
       bounds=B(loop_unroll=2, thorough='free_rounds 2')),
  dict(name='uset_trav_2t', unit='us_i_t', harness='h_uset.c', defines=dict(USD, TA='i', TB='t', NV=3, ND=1),
       scenarios=[{'KA0': 5}], scenarios_thorough=[{'KA0': 5}, {'KA0': 1}, {'KA0': 5, 'HMODE': 1}], cbmc=US_CBMC(), timeout=900,
       desc='insert(k) || full iteration begin()..end(): every element present before the traversal began is seen exactly once, nothing twice, order = list order',
       bounds=B(loop_unroll=2)),
  dict(name='uset_init_gg', unit='usI_g_g1', harness='h_uset.c', defines=dict(ROUNDS=1, TA='g', TB='g'),
       scenarios_quick=[dict(NB=4, NPRE=2, PRE0=4, PRE1=1, KA0=3, KB0=3, NV=2, ND=3)],
       scenarios=[dict(NB=2, NPRE=1, PRE0=2, KA0=1, KB0=1, NV=1, ND=2), dict(NB=4, NPRE=2, PRE0=4, PRE1=1, KA0=3, KB0=3, NV=2, ND=3), dict(NB=4, NPRE=1, PRE0=4, KA0=1, KB0=2, NV=1, ND=2)],
       cbmc=US_CBMC(), timeout=1200,
       desc='get_bucket(b) || get_bucket(b\'): two threads initialise the same bucket (or two children of one parent) with init_bucket/insert_dummy_node inlined: '
            'one dummy node per bucket, in order, registered in the table, loser freed',
       bounds=B(parent='initialised in the pre-state (recursion not followed; asserted unreachable)')),
  dict(name='uset_init_gi', unit='usI_g_i1', harness='h_uset.c', defines=dict(ROUNDS=1, TA='g', TB='i'),
       scenarios=[dict(NB=4, NPRE=2, PRE0=4, PRE1=1, KA0=3, KB0=5, NV=3, ND=2)],
       scenarios_thorough=[dict(NB=4, NPRE=2, PRE0=4, PRE1=1, KA0=3, KB0=5, NV=3, ND=2), dict(NB=4, NPRE=2, PRE0=4, PRE1=1, KA0=3, KB0=7, NV=3, ND=3)], cbmc=US_CBMC(), timeout=1200,
       desc='bucket 3 being initialised (dummy node inserted behind the keys of bucket 1) || insert of a key at the same predecessor / into the bucket being initialised',
       bounds=B()),
  dict(name='uset_grow_2t', unit='us_ii_i1', harness='h_uset.c', tiers=['thorough'], defines=dict(ROUNDS=1, TA='ii', TB='i', NB=1, MLF10=10, NPRE=1, PRE0=2, BCLIM=4, NV=4, ND=3),
       scenarios=[dict(KA0=4, KA1=6, KB0=8), dict(KA0=4, KA1=1, KB0=3)], cbmc=US_CBMC(), timeout=2400,
       desc='max_load_factor 1.0, one bucket: the inserts double the bucket count (adjust_table_size CAS) while the other thread inserts; keys stay reachable through the grown table',
       bounds=B(note='init_bucket atomic')),
  dict(name='uset_ins_3t', unit='us_i_i_i1', harness='h_uset.c', tiers=['thorough'], defines=dict(USD, NT=3, TA='i', TB='i', TC='i', NV=5, ND=1),
       scenarios=[dict(KA0=5, KB0=5, KC0=5), dict(KA0=5, KB0=7, KC0=5)], cbmc=US_CBMC(), timeout=3000, mem_gb=16,
       desc='three concurrent inserts (same key / adjacent keys)', bounds=B(threads=3)),
  dict(name='umset_ins_2t', unit='um_i_i1', harness='h_uset.c', tiers=['thorough'], defines=dict(USD, MULTI=1, TA='i', TB='i', NV=4, ND=1),
       scenarios=[{'KA0': 3, 'KB0': 3}, {'KA0': 5, 'KB0': 5}], cbmc=US_CBMC(1), timeout=2400,
       desc='concurrent_unordered_multiset: two inserts of one key (already present / absent): both succeed, multiplicity exact, equal keys adjacent', bounds=B()),
  dict(name='umset_count_2t', unit='um_i_c1', harness='h_uset.c', tiers=['thorough'], defines=dict(USD, MULTI=1, TA='i', TB='c', NV=3, ND=1),
       scenarios=[{'KA0': 3, 'KB0': 3}], cbmc=US_CBMC(1), timeout=2400,
       desc='multiset insert(k) || count(k): count within [completed, started] inserts', bounds=B()),
  dict(name='skip_ins_2t', unit='sk_i_i', harness='h_skip.c', defines=dict(ROUNDS=1, TA='ki', TB='ki', MAXH=3, NPRE=1, PRE0=4, NN=4),
       scenarios_quick=[dict(PH0=1, KA0=6, KB0=6, HA=1, HB=1), dict(PH0=1, KA0=6, KB0=7, HA=1, HB=1), dict(PH0=2, KA0=6, KB0=7, HA=2, HB=2)],
       scenarios=[dict(PH0=1, KA0=6, KB0=6, HA=1, HB=1), dict(PH0=1, KA0=6, KB0=7, HA=1, HB=1), dict(PH0=2, KA0=6, KB0=6, HA=2, HB=1), dict(PH0=2, KA0=6, KB0=7, HA=2, HB=2),
                  dict(PH0=2, KA0=6, KB0=7, HA=3, HB=3), dict(PH0=2, KA0=2, KB0=3, HA=3, HB=2), dict(PH0=3, KA0=2, KB0=6, HA=3, HB=3), dict(PH0=2, KA0=4, KB0=4, HA=3, HB=1)],
       cbmc=SK_CBMC, timeout=1200, thorough_override=dict(defines=dict(ROUNDS=2, TA='ki', TB='ki', MAXH=3, NPRE=1, PRE0=4, NN=4), timeout=3600, mem_gb=16),
       desc='concurrent_set<int> (real concurrent_skip_list with a stub level generator, max_level 3): insert || insert through internal_insert_node/'
            'fill_prev_curr_arrays/internal_find_position, node heights per scenario: level 0 strictly sorted, one winner, every level links exactly the nodes of that height',
       bounds=B(max_level=3, heights='concrete per scenario (pre-state node and both new nodes)', thorough='free_rounds 2')),
  dict(name='skip_head_2t', unit='skH_i_i', harness='h_skip.c', defines=dict(ROUNDS=1, TA='ki', TB='ki', MAXH=3, NPRE=0, NN=4),
       scenarios=[dict(KA0=6, KB0=7, HA=1, HB=2)], tiers=['thorough'], cbmc=SK_CBMC, timeout=2400,
       desc='first two inserts into an empty container: create_head_if_necessary race (one head, loser freed)', bounds=B(max_level=3)),
  dict(name='skip_find_2t', unit='sk_i_f', harness='h_skip.c', defines=dict(ROUNDS=1, TA='ki', TB='kf', MAXH=3, NPRE=2, PRE0=4, PH0=2, PRE1=8, PH1=2, NN=4),
       scenarios=[dict(KA0=6, KB0=8, HA=2)], scenarios_thorough=[dict(KA0=6, KB0=8, HA=2), dict(KA0=6, KB0=6, HA=3), dict(KA0=6, KB0=8, HA=3)], cbmc=SK_CBMC, timeout=1200,
       desc='insert(ka) || find(kb): an existing key behind the insertion point is found while a taller node is being linked level by level; find after insert returned finds it',
       bounds=B(max_level=3)),
  dict(name='skip_trav_2t', unit='sk_i_t', harness='h_skip.c', defines=dict(ROUNDS=1, TA='ki', TB='kt', MAXH=3, NPRE=2, PRE0=4, PH0=2, PRE1=8, PH1=1, NN=4),
       scenarios=[dict(KA0=6, HA=2)], cbmc=SK_CBMC, timeout=1200,
       desc='insert(k) || iteration: comparator order, earlier elements seen exactly once', bounds=B(max_level=3)),
  dict(name='skipm_ins_2t', unit='skm_i_i', harness='h_skip.c', tiers=['thorough'], defines=dict(ROUNDS=1, MULTI=1, TA='ki', TB='ki', MAXH=3, NPRE=1, PRE0=6, NN=4),
       scenarios=[dict(PH0=1, KA0=6, KB0=6, HA=1, HB=1), dict(PH0=2, KA0=6, KB0=6, HA=2, HB=2)], cbmc=SK_CBMC, timeout=2400,
       desc='concurrent_multiset: two inserts of a key that is already present: all three equal keys stay, adjacent, on every level', bounds=B(max_level=3)),
]
MANIFEST = dict(
  level_text='Bounded model checking of the real container code. (1) Full 64-bit symbolic lemmas over the real split-order key arithmetic (reverse_bits, regular/dummy keys, '
             'get_parent, bucket->segment mapping, growth step, level generator). (2) For 2 model threads (3 in one thorough harness) executing the real '
             'concurrent_unordered_set/multiset insert/find/count/iteration, get_bucket/init_bucket/insert_dummy_node, the bucket table\'s lazy segment allocation, and the real '
             'concurrent_skip_list insert/find/iteration (instantiated like concurrent_set/multiset<int> with a stub level generator, max_level 3): every interleaving, at '
             'single-IR-memory-operation granularity, expressible in the stated number of scheduling rounds is decided by the SAT solver against a whole-structure oracle at '
             'quiescence (raw list walk: sorted order keys / comparator order on every level, one dummy per bucket registered in the table, content == pre-state + successful inserts, '
             'no duplicate in unique containers, one winner, allocation balance) and per-operation oracles (find after a returned insert finds the key; a traversal sees every earlier '
             'element exactly once and nothing twice).',
  level_note='Keys, hash functions, node heights and the operations of each thread are concrete per scenario (enumerated); the schedule is symbolic. Small objects: <= 5 keys, <= 4 buckets, '
             'max_level 3. Thread-private helpers (node construction/destruction) and, in the "core" harnesses, bucket initialisation execute atomically; init_bucket\'s recursion on the '
             'parent bucket is not followed (parents are initialised in the pre-state; the recursive call is asserted unreachable). segment_table::operator[] is cut to its contract in the '
             'list harnesses and checked on its own in segtab_2t. Sequential consistency. Trusted: clang-14 IR, tools/ir2c.py (+ tools/ptratom.py, a semantics-preserving IR retyping), cbmc.',
)
OUTSIDE = [
  'more than 2 threads (3 in uset_ins_3t, thorough) / more than 2 operations per thread; more scheduling rounds than stated per harness',
  'concurrent_unordered_map/multimap and concurrent_map/multimap instantiations (same base classes, other traits), emplace/insert(node_handle)/hint overloads, merge',
  'bucket tables beyond 4 buckets and more than one doubling; init_bucket recursion over uninitialised ancestors executed concurrently (only parent-initialised scenarios)',
  'skip lists with max_level > 3 and the real 32-level generator together with the list (its arithmetic is checked separately in sokey_arith PART 7)',
  'interleavings inside node construction/destruction and inside core-harness bucket initialisation (executed atomically there)',
  'unsafe_* operations, erase/extract, rehash/reserve/clear, copy/move/swap, ranges (const_range_type splitting)',
  'allocation failure / exceptions thrown by user hash, comparator or element constructors',
  'weak memory models (TSO and weaker); the acquire/release annotations are not exercised',
]
STUBS = [
  'user hash functor: pure scenario-defined function of the key (identity, constant, bit-63 alias)',
  'user allocator (template parameter): fresh, never reused, suitably typed storage from harness pools; freed nodes are poisoned; never fails',
  'tbb::detail::machine_reverse_bits<size_t>: cut in thread units to its contract (exact 64-bit reversal), which sokey_arith PART 1 decides for the real function',
  'segment_table::internal_subscript<true> (my_segments[i]): cut in the list units to its contract (stable distinct slot per index, initially nullptr); the real code is checked in segtab_2t',
  'skip-list random level generator (template parameter of set_traits): returns the height the scenario prescribes; max_level 3',
  'enumerable_thread_specific<minstd_rand>::local() (sokey_arith PART 7): an engine in an arbitrary state in [1, 2^31-2]',
  'r1::throw_exception: reaching it is a failure (no allocation failure is injected)',
]
ASSUMPTIONS = [
  'parent buckets of the buckets initialised concurrently are already initialised (established by the sequential pre-state; the deeper recursive call is asserted unreachable)',
  'hash and comparator are pure and consistent (documented requirement on user functors)',
  'bucket count < 2^63 (dummy keys lose bit 63 of the bucket index)',
]

PROPERTY = 'C12'
# thread units cut machine_reverse_bits<size_t> (a thread-private 8-iteration byte loop that the K-unroll scheme would spread over
# 4 scheduling rounds) and use a contract stub "exact 64-bit reversal"; that contract is decided for the real function in
# sokey_arith PART 1
CUT = ['20machine_reverse_bits', '18internal_subscriptILb1EE']
# functions executed atomically inside a model thread (kept out of line): thread-private work (node construction/destruction:
# the node is not yet / no longer reachable by others), the single-CAS adjust_table_size, and - in the 'core' units - bucket
# initialisation (its races are the subject of the 'init' units)
ATOMIC_CORE = ['11create_nodeIJ', '12destroy_nodeEP', '17adjust_table_sizeEmm']
def CUB(multi): return '_ZN3tbb6detail2d225concurrent_unordered_baseINS1_31concurrent_unordered_set_traitsIi6VpHashSt8equal_toIiE7VpAllocIiELb%dEEEE' % multi
SFX = {'create_node': '11create_nodeIJRKiEEEPNS1_10value_nodeIimEEmDpOT_', 'init_bucket': '11init_bucketEm', 'destroy_node': '12destroy_nodeEPNS1_9list_nodeImEE',
       'adjust_table_size': '17adjust_table_sizeEmm', 'create_dummy_node': '17create_dummy_nodeEm'}
def AA(names, multi=0): return [CUB(multi) + SFX[n] for n in names]
AA_CORE = AA(['create_node', 'destroy_node', 'adjust_table_size'])
IB = CUB(0) + SFX['init_bucket']
US_CBMC = ['--unwind', '9', '--unwindset', 'vp_us_ctor.0:70,' + ','.join('%s.%d:6' % (IB, i) for i in range(6)), '--object-bits', '10']
UNITS = {
  'sokey': dict(wrapper='w_sokey.cpp', mode='seq', selftest=True, cut=['5localEv']),
  'us_i_i': dict(wrapper='w_uset.cpp', mode='lcs', unroll=2, ptratomics=True, cut=CUT, noinline=ATOMIC_CORE + ['11init_bucketEm', '17create_dummy_nodeEm'], unrec={'11init_bucketEm': 0},
                 allow_atomic=AA_CORE + AA(['init_bucket', 'create_dummy_node']), threads={'vp_thr_i': ['a', 'b']}),
}
HARNESSES = [
  dict(name='sokey_arith', unit='sokey', harness='h_sokey.c', scenarios=[{'PART': p} for p in range(1, 9)], cbmc=['--unwind', '70'],
       desc='split-order key arithmetic', bounds={}),
  dict(name='uset_ins_2t', unit='us_i_i', harness='h_uset.c', defines={'ROUNDS': 2, 'TA': 'i', 'TB': 'i', 'NB': 2, 'NPRE': 2, 'PRE0': 2, 'PRE1': 3, 'NV': 4, 'ND': 1},
       scenarios=[{'KA0': 5, 'KB0': 5}], cbmc=US_CBMC, timeout=900,
       desc='', bounds={}),
]
OUTSIDE = []
STUBS = []
ASSUMPTIONS = []

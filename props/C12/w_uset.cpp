// C12 thread-mode wrapper over the real concurrent_unordered_set<int, harness hash> (split-ordered list:
// detail/_concurrent_unordered_base.h + detail/_segment_table.h). MULTI=1 selects concurrent_unordered_multiset.
#include "oneapi/tbb/concurrent_unordered_set.h"
using namespace tbb;
extern "C" unsigned long vp_hash(int k);                        // user hash functor = harness function (pure, scenario-defined)
struct VpHash { std::size_t operator()(int k) const { return vp_hash(k); } };
typedef detail::d2::list_node<std::size_t> lnode_t;
typedef detail::d2::value_node<int, std::size_t> vnode_t;
// user-supplied allocator (template parameter of the container = external boundary): storage comes from the harness, which is
// told what kind of object is requested so that it can hand out typed objects (cheap for the solver) instead of raw bytes
extern "C" void* vp_alloc(int kind, unsigned long n);      // kind 1: n list_node (dummy), 2: n value_node, 3: n bucket-table slots
extern "C" void vp_dealloc(int kind, void* p, unsigned long n);
template <typename T> struct vp_kind { static constexpr int value = 0; };
template <> struct vp_kind<lnode_t> { static constexpr int value = 1; };
template <> struct vp_kind<vnode_t> { static constexpr int value = 2; };
template <> struct vp_kind<std::atomic<lnode_t*>> { static constexpr int value = 3; };
template <typename T> struct VpAlloc {
  using value_type = T;
  using is_always_equal = std::true_type;
  VpAlloc() = default;
  template <typename U> VpAlloc(const VpAlloc<U>&) noexcept {}
  T* allocate(std::size_t n) { return static_cast<T*>(vp_alloc(vp_kind<T>::value, n)); }
  void deallocate(T* p, std::size_t n) { vp_dealloc(vp_kind<T>::value, p, n); }
};
template <typename T, typename U> bool operator==(const VpAlloc<T>&, const VpAlloc<U>&) { return true; }
template <typename T, typename U> bool operator!=(const VpAlloc<T>&, const VpAlloc<U>&) { return false; }
#ifndef MULTI
#define MULTI 0
#endif
#if MULTI
typedef concurrent_unordered_multiset<int, VpHash, std::equal_to<int>, VpAlloc<int>> uset_t;
#else
typedef concurrent_unordered_set<int, VpHash, std::equal_to<int>, VpAlloc<int>> uset_t;
#endif


// observers (harness): each call is one atomic visible step of the calling model thread
extern "C" void vp_op_begin(int tid, int slot, int kind, int key);
extern "C" void vp_ins_result(int tid, int slot, int key, int ok, int itkey);   // insert returned (ok, *iterator)
extern "C" void vp_find_result(int tid, int slot, int key, int found, int itkey);
extern "C" void vp_seen(int tid, int slot, int key);                              // traversal visited an element
extern "C" void vp_trav_end(int tid, int slot);

enum { OP_NONE = 0, OP_INSERT = 1, OP_FIND = 2, OP_TRAVERSE = 3, OP_COUNT = 4 };

static inline void do_op(uset_t* s, int tid, int slot, int op, int key) {
  if (op == OP_INSERT) {
    vp_op_begin(tid, slot, op, key);
#if MULTI
    auto r = s->insert(key);
    vp_ins_result(tid, slot, key, r.second, *r.first);
#else
    auto r = s->insert(key);
    vp_ins_result(tid, slot, key, r.second, *r.first);
#endif
  } else if (op == OP_FIND) {
    vp_op_begin(tid, slot, op, key);
    auto it = s->find(key);
    bool f = it != s->end();
    vp_find_result(tid, slot, key, f, f ? *it : 0);
  } else if (op == OP_COUNT) {
    vp_op_begin(tid, slot, op, key);
    unsigned long c = s->count(key);
    vp_find_result(tid, slot, key, (int)c, key);
  } else if (op == OP_TRAVERSE) {
    vp_op_begin(tid, slot, op, key);
    for (auto it = s->begin(); it != s->end(); ++it) vp_seen(tid, slot, *it);
    vp_trav_end(tid, slot);
  }
}
// thread bodies: operation kinds are fixed per body (keeps each model thread small), keys come from the harness
extern "C" void vp_thr_i(uset_t* s, int tid, int k0) { do_op(s, tid, 0, OP_INSERT, k0); }
extern "C" void vp_thr_ii(uset_t* s, int tid, int k0, int k1) { do_op(s, tid, 0, OP_INSERT, k0); do_op(s, tid, 1, OP_INSERT, k1); }
extern "C" void vp_thr_f(uset_t* s, int tid, int k0) { do_op(s, tid, 0, OP_FIND, k0); }
extern "C" void vp_thr_if(uset_t* s, int tid, int k0, int k1) { do_op(s, tid, 0, OP_INSERT, k0); do_op(s, tid, 1, OP_FIND, k1); }
extern "C" void vp_thr_c(uset_t* s, int tid, int k0) { do_op(s, tid, 0, OP_COUNT, k0); }
// white-box body: only the bucket lookup (get_bucket -> init_bucket -> insert_dummy_node), the part of every operation that
// initialises a bucket on first use
extern "C" void vp_bucket_result(int tid, int slot, unsigned long bucket, void* node);
extern "C" void vp_thr_g(uset_t* s, int tid, unsigned long bucket) {
  vp_op_begin(tid, 0, 5, (int)bucket);
  void* p = s->get_bucket(bucket);
  vp_bucket_result(tid, 0, bucket, p);
}
// white-box body: only the bucket-table subscript (segment_table::operator[] -> internal_subscript -> enable_segment ->
// create_segment / deallocate_segment), which allocates a segment on first use and races on installing it
extern "C" void vp_slot_result(int tid, unsigned long idx, void* slot, void* content);
extern "C" void vp_thr_s(uset_t* s, int tid, unsigned long idx) {
  std::atomic<lnode_t*>* p = &s->my_segments[idx];
  vp_slot_result(tid, idx, p, p->load(std::memory_order_relaxed));
}
extern "C" void vp_thr_t(uset_t* s, int tid) { do_op(s, tid, 0, OP_TRAVERSE, 0); }

// ---- sequential helpers (pre-state through the real public operations, white-box inspection at quiescence)
extern "C" {
std::atomic<lnode_t*>* vp_slot_probe() { return nullptr; }   // only its generated prototype is used (names the slot type for the harness)
unsigned long vp_us_sizeof() { return sizeof(uset_t); }
void vp_us_ctor(uset_t* s, unsigned long nbuckets) { new (s) uset_t(nbuckets); }
void vp_us_max_load_factor(uset_t* s, float f) { s->max_load_factor(f); }
int vp_us_insert(uset_t* s, int key) {
#if MULTI
  s->insert(key); return 1;
#else
  return s->insert(key).second;
#endif
}
int vp_us_contains(uset_t* s, int key) { return s->contains(key); }
unsigned long vp_us_count(uset_t* s, int key) { return s->count(key); }
unsigned long vp_us_size(uset_t* s) { return s->size(); }
unsigned long vp_us_bucket_count(uset_t* s) { return s->unsafe_bucket_count(); }
// raw list walk from my_head: every node incl. dummies
void* vp_us_head(uset_t* s) { return &s->my_head; }
void* vp_node_next(lnode_t* n) { return n->my_next.load(std::memory_order_relaxed); }
unsigned long vp_node_sokey(lnode_t* n) { return n->my_order_key; }
void vp_node_poison(lnode_t* n) { n->my_next.store((lnode_t*)(~0ul << 4), std::memory_order_relaxed); n->my_order_key = ~0ul; }
int vp_node_is_poison(lnode_t* n) { return n->my_order_key == ~0ul && n->my_next.load(std::memory_order_relaxed) == (lnode_t*)(~0ul << 4); }
int vp_node_is_dummy(lnode_t* n) { return n->is_dummy(); }
int vp_node_value(lnode_t* n) { return static_cast<vnode_t*>(n)->value(); }
// bucket table entry (through segment_table::operator[], which the list units cut to its contract)
void* vp_us_bucket_raw(uset_t* s, unsigned long b) { return s->my_segments[b].load(std::memory_order_relaxed); }
// number of bucket-table segments currently installed, and the installed (biased) pointer of one
unsigned long vp_us_nsegments(uset_t* s) {
  unsigned long n = 0;
  for (unsigned long i = 0; i < uset_t::pointers_per_embedded_table; i++) if (s->my_segments.get_table()[i].load(std::memory_order_relaxed) != nullptr) n++;
  return n;
}
void* vp_us_slot_addr(uset_t* s, unsigned long idx) { return &s->my_segments[idx]; }
unsigned long vp_seg_index_of(unsigned long i) { return uset_t::unordered_segment_table::segment_index_of(i); }
unsigned long vp_key_regular(unsigned long h) { return uset_t::split_order_key_regular(h); }
unsigned long vp_key_dummy(unsigned long b) { return uset_t::split_order_key_dummy(b); }
// public traversal (iterator protocol) used sequentially at quiescence
unsigned long vp_us_iterate(uset_t* s, int* out, unsigned long max) {
  unsigned long n = 0;
  for (auto it = s->begin(); it != s->end(); ++it) { if (n < max) out[n] = *it; n++; }
  return n;
}
}

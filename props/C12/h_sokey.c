/* C12 (sequential, full 64-bit width): arithmetic lemmas the split-ordered list relies on, decided over the real
 * reverse_bits / split_order_key_regular / split_order_key_dummy / get_parent / get_next_bucket_index / unsafe_bucket
 * (== prepare_bucket's index expression) / segment_table::segment_index_of,segment_base,segment_size /
 * round_up_to_power_of_two / concurrent_geometric_level_generator::operator().
 * PART selects the lemma group; all values symbolic. */
#include "w.h"
#include "vp.h"
u64 HV;                                            /* hash value returned by the user hash functor (symbolic) */
u64 vp_hash(u32 k) { return HV; }
__attribute__((aligned(64))) u8 SET[1024];
#define S ((void*)SET)
static int pow2(u64 x) { return x && !(x & (x - 1)); }

#if PART == 7
/* cut: enumerable_thread_specific<std::minstd_rand>::local() -> this thread's engine, in any state the engine can be in */
struct S_class_std__linear_congruential_engine ENG;
struct S_class_std__linear_congruential_engine* _ZN3tbb6detail2d126enumerable_thread_specificISt26linear_congruential_engineImLm48271ELm0ELm2147483647EENS1_23cache_aligned_allocatorIS4_EELNS1_18ets_key_usage_typeE1EE5localEv(void* ets) { return &ENG; }
#endif

int main(void) {
#if PART == 1
  /* reverse_bits: exact bit permutation, hence an involution and order-reversing on bit significance */
  u64 x = vp_nd(); unsigned i = (unsigned)vp_nd_range(0, 63);
  u64 r = vp_rev(x);
  VP_ASSERT(((r >> i) & 1) == ((x >> (63 - i)) & 1), "reverse_bits: bit i of the result is not bit 63-i of the input");
  VP_ASSERT(vp_rev(r) == x, "reverse_bits is not an involution");
  /* reverse_n_bits(x, n) for x < 2^n: reverses the low n bits */
  unsigned n = (unsigned)vp_nd_range(1, 63); unsigned j = (unsigned)vp_nd(); __CPROVER_assume(j < n);
  u64 y = vp_nd(); __CPROVER_assume(y < ((u64)1 << n));
  u64 rn = vp_rev_n(y, n);
  VP_ASSERT(rn < ((u64)1 << n), "reverse_n_bits leaves the n-bit range");
  VP_ASSERT(((rn >> j) & 1) == ((y >> (n - 1 - j)) & 1), "reverse_n_bits: wrong bit");
#elif PART == 2
  /* regular keys odd, dummy keys even; both keep the reversed hash above bit 0; is_dummy() tells them apart */
  u64 h = vp_nd(), h2 = vp_nd();
  u64 kr = vp_key_regular(h), kd = vp_key_dummy(h);
  VP_ASSERT((kr & 1) == 1, "regular order key is not odd");
  VP_ASSERT((kd & 1) == 0, "dummy order key is not even");
  VP_ASSERT((kr >> 1) == (vp_rev(h) >> 1) && (kd >> 1) == (vp_rev(h) >> 1), "order key does not carry the reversed hash");
  VP_ASSERT(vp_is_dummy_key(kd) && !vp_is_dummy_key(kr), "is_dummy() misclassifies a key");
  VP_ASSERT(kd < kr && kr - kd == 1, "dummy key of a hash is not immediately below its regular key");
  /* two hashes share an order key exactly when they agree on the low 63 bits (bit 63 is overwritten by the kind bit):
     search_after/internal_find must therefore compare keys when order keys are equal - they do */
  VP_ASSERT((vp_key_regular(h2) == kr) == (((h ^ h2) << 1) == 0), "regular order keys collide for hashes that differ below bit 63 (or fail to for equal ones)");
#elif PART == 3
  /* get_parent: clears the most significant set bit; the parent's dummy node precedes the child's in the list */
  vp_us_ctor(S, 8);
  u64 b = vp_nd(); __CPROVER_assume(b != 0 && b < ((u64)1 << 63));
  u64 p = vp_parent(S, b);
  VP_ASSERT(p < b, "get_parent(b) >= b: init_bucket recursion would not terminate");
  VP_ASSERT(pow2(b ^ p) && p < (b ^ p), "get_parent does not clear exactly the most significant set bit");
  VP_ASSERT(vp_key_dummy(p) < vp_key_dummy(b), "parent dummy key not below child dummy key: insert_dummy_node(parent, ..) would never find its position");
  /* no bucket of the table the child lives in sits strictly between parent and child ... is NOT required; what is required:
     every key of the child bucket is above the parent's dummy as well */
  u64 h = vp_nd(); unsigned n = (unsigned)vp_nd_range(0, 63); u64 N = (u64)1 << n;
  __CPROVER_assume(b < N && (h & (N - 1)) == b);
  VP_ASSERT(vp_key_dummy(p) < vp_key_regular(h) && vp_key_dummy(b) < vp_key_regular(h), "key of a bucket below the dummy of the bucket or of its parent");
#elif PART == 4
  /* for every table size N = 2^n: the keys hashed to bucket b lie strictly between dummy(b) and the next dummy of the table */
  unsigned n = (unsigned)vp_nd_range(0, 63); u64 N = (u64)1 << n;
  vp_us_ctor(S, 8); vp_us_set_bucket_count(S, N);
  HV = vp_nd();
  u64 b = vp_bucket_of(S, 7);
  u64 kr = vp_key_regular(HV);
  VP_ASSERT(b < N, "bucket index outside the table");
  VP_ASSERT(vp_key_dummy(b) < kr, "regular key not above the dummy key of its bucket: search_after from the bucket head would miss it");
  u64 b2 = vp_nd(); __CPROVER_assume(b2 < N && b2 != b);
  VP_ASSERT(vp_key_dummy(b2) != vp_key_dummy(b), "two buckets share a dummy order key");
  if (vp_key_dummy(b2) > vp_key_dummy(b)) VP_ASSERT(kr < vp_key_dummy(b2), "regular key of bucket b sorted behind the dummy of a later bucket");
  else VP_ASSERT(vp_key_dummy(b2) < kr, "order of dummy keys inconsistent");
  /* two hashes in different buckets never share a regular key (so equal order keys => same bucket) */
  u64 h2 = vp_nd(); __CPROVER_assume((h2 & (N - 1)) == b2 && n < 63);
  VP_ASSERT(vp_key_regular(h2) != kr, "hashes of different buckets share an order key");
#elif PART == 5
  /* doubling N -> 2N: a key moves to bucket b or b+N; the new bucket's parent is the old bucket, and its dummy splits the old
     bucket's key range so that the key stays reachable from the new dummy */
  unsigned n = (unsigned)vp_nd_range(0, 62); u64 N = (u64)1 << n;
  vp_us_ctor(S, 8);
  HV = vp_nd();
  vp_us_set_bucket_count(S, N);     u64 b = vp_bucket_of(S, 7);
  vp_us_set_bucket_count(S, 2 * N); u64 c = vp_bucket_of(S, 7);
  VP_ASSERT(c == b || c == b + N, "after doubling the key is in neither the old bucket nor its sibling");
  if (c != b) {
    VP_ASSERT(vp_parent(S, c) == b, "parent of the new bucket is not the old bucket");
    VP_ASSERT(vp_key_dummy(b) < vp_key_dummy(c) && vp_key_dummy(c) < vp_key_regular(HV), "new dummy not between old dummy and the key");
  }
#elif PART == 8
  /* get_next_bucket_index (bucket interface): successor of b in dummy-key order, for every table size M >= 2 */
  unsigned n = (unsigned)vp_nd_range(1, 63); u64 M = (u64)1 << n;
  vp_us_ctor(S, 8); vp_us_set_bucket_count(S, M);
  u64 q = vp_nd(); __CPROVER_assume(q < M && q != M - 1);
  u64 nq = vp_next_bucket(S, q);
  VP_ASSERT(nq < M && vp_key_dummy(nq) > vp_key_dummy(q), "get_next_bucket_index: not a later bucket of the table");
  u64 z = vp_nd(); __CPROVER_assume(z < M);
  VP_ASSERT(!(vp_key_dummy(z) > vp_key_dummy(q) && vp_key_dummy(z) < vp_key_dummy(nq)), "get_next_bucket_index skips a bucket");
#elif PART == 6
  /* bucket index -> (segment, offset): inside the embedded table, inside the segment, segments tile the index space */
  u64 i = vp_nd(); __CPROVER_assume(i < ((u64)1 << 63));
  u64 s = vp_seg_index_of(i);
  VP_ASSERT(s < vp_embedded_ptrs(), "segment index outside the embedded table (allow_table_extending is false)");
  VP_ASSERT(vp_seg_base(s) <= i && i - vp_seg_base(s) < vp_seg_size(s), "bucket index outside its segment: my_segments[bucket] would leave the allocation");
  u64 t = vp_nd_range(0, 61);
  VP_ASSERT(vp_seg_base(t + 1) == vp_seg_base(t) + vp_seg_size(t), "segments do not tile the index space");
  VP_ASSERT(vp_seg_base(0) == 0, "segment 0 does not start at index 0");
  u64 m = vp_nd(); __CPROVER_assume(m <= ((u64)1 << 62));
  u64 r = vp_round_up_pow2(m);
  VP_ASSERT(pow2(r) && r >= m && r >= 1 && (m <= 1 || r < 2 * m), "round_up_to_power_of_two: not the least power of two >= n");
#elif PART == 7
  /* skip-list level generator: whatever state the thread's minstd_rand engine is in, the height is in [1, max_level]
     (the head node has max_level slots; height 0 would make a node unreachable and break get_atomic_next(0)) */
  u64 st = vp_nd_range(1, 2147483646);
  vp_set_engine(&ENG, st);
  u64 lv = vp_level((void*)SET);
  VP_ASSERT(lv >= 1, "level generator returned height 0");
  VP_ASSERT(lv <= vp_level_max(), "level generator returned a height above max_level: node taller than the head node");
#endif
  VP_REACHED();
}

// C12 thread-mode wrapper over the real concurrent skip list (detail/_concurrent_skip_list.h), instantiated exactly like
// concurrent_set<int> / concurrent_multiset<int> (concurrent_skip_list<set_traits<int, std::less<int>, RNG, Alloc, multi>>) except
// that the random level generator (a template parameter of set_traits) is a harness stub with max_level = MAXH instead of
// concurrent_geometric_level_generator<32>: node heights become inputs of the check, and the per-operation arrays have MAXH
// entries instead of 32.
#include "oneapi/tbb/concurrent_set.h"
using namespace tbb;
#ifndef MAXH
#define MAXH 3
#endif
#ifndef MULTI
#define MULTI 0
#endif
extern "C" unsigned long vp_level();                              // height of the next node, in [1, MAXH] (harness)
extern "C" void* vp_alloc(int kind, unsigned long n);             // user allocator: kind 0 = n raw bytes (a skip-list node)
extern "C" void vp_dealloc(int kind, void* p, unsigned long n);
struct VpLevelGen {
  static constexpr std::size_t max_level = MAXH;
  std::size_t operator()() { return vp_level(); }
};
template <typename T> struct VpAlloc {
  using value_type = T;
  using is_always_equal = std::true_type;
  VpAlloc() = default;
  template <typename U> VpAlloc(const VpAlloc<U>&) noexcept {}
  T* allocate(std::size_t n) { return static_cast<T*>(vp_alloc(0, n * sizeof(T))); }
  void deallocate(T* p, std::size_t n) { vp_dealloc(0, p, n * sizeof(T)); }
};
template <typename T, typename U> bool operator==(const VpAlloc<T>&, const VpAlloc<U>&) { return true; }
template <typename T, typename U> bool operator!=(const VpAlloc<T>&, const VpAlloc<U>&) { return false; }
typedef detail::d2::concurrent_skip_list<detail::d2::set_traits<int, std::less<int>, VpLevelGen, VpAlloc<int>, MULTI != 0>> skl_t;
typedef skl_t::list_node_type sknode_t;

extern "C" void vp_op_begin(int tid, int slot, int kind, int key);
extern "C" void vp_ins_result(int tid, int slot, int key, int ok, int itkey);
extern "C" void vp_find_result(int tid, int slot, int key, int found, int itkey);
extern "C" void vp_seen(int tid, int slot, int key);
extern "C" void vp_trav_end(int tid, int slot);
enum { OP_INSERT = 1, OP_FIND = 2, OP_TRAVERSE = 3, OP_COUNT = 4 };

extern "C" void vp_thr_ki(skl_t* s, int tid, int k0) {
  vp_op_begin(tid, 0, OP_INSERT, k0);
  auto r = s->insert(k0);
  vp_ins_result(tid, 0, k0, r.second, *r.first);
}
extern "C" void vp_thr_kf(skl_t* s, int tid, int k0) {
  vp_op_begin(tid, 0, OP_FIND, k0);
  auto it = s->find(k0);
  bool f = it != s->end();
  vp_find_result(tid, 0, k0, f, f ? *it : 0);
}
extern "C" void vp_thr_kt(skl_t* s, int tid) {
  vp_op_begin(tid, 0, OP_TRAVERSE, 0);
  for (auto it = s->begin(); it != s->end(); ++it) vp_seen(tid, 0, *it);
  vp_trav_end(tid, 0);
}

extern "C" {
void vp_sk_ctor(skl_t* s) { new (s) skl_t(); }
int vp_sk_insert(skl_t* s, int key) { return s->insert(key).second; }
int vp_sk_contains(skl_t* s, int key) { return s->contains(key); }
unsigned long vp_sk_count(skl_t* s, int key) { return s->count(key); }
unsigned long vp_sk_size(skl_t* s) { return s->size(); }
unsigned long vp_sk_max_height(skl_t* s) { return s->my_max_height.load(std::memory_order_relaxed); }
void* vp_sk_head(skl_t* s) { return s->my_head_ptr.load(std::memory_order_relaxed); }
void* vp_sk_next(sknode_t* n, unsigned long level) { return n->get_atomic_next(level).load(std::memory_order_relaxed); }
unsigned long vp_sk_height(sknode_t* n) { return n->height(); }
unsigned long vp_sk_index(sknode_t* n) { return n->index_number(); }
int vp_sk_value(sknode_t* n) { return n->value(); }
unsigned long vp_sk_node_size(unsigned long h) { return sknode_t::calc_node_size(h); }
unsigned long vp_sk_maxh() { return skl_t::max_level; }
void vp_sk_poison(sknode_t* n) { for (unsigned long l = 0; l < n->height(); l++) n->get_atomic_next(l).store((sknode_t*)(~0ul << 4), std::memory_order_relaxed); n->my_index_number = ~0ul; }
int vp_sk_is_poison(sknode_t* n) { return n->my_index_number == ~0ul; }
sknode_t* vp_sknode_probe() { return nullptr; }
std::atomic<sknode_t*>* vp_skslot_probe() { return nullptr; }
}

/* C12: the bucket table of concurrent_unordered_* (d1::segment_table with allow_table_extending=false): my_segments[i] allocates
 * the segment of bucket i on first use; two threads may race to install it (enable_segment CAS, loser deallocates).
 * Scenario: IA, IB = bucket indices the two threads subscript (concrete); ROUNDS free rounds; schedule symbolic.
 * Oracle: same index -> same slot address in both threads and on every later call; different indices -> different slots, laid
 * out contiguously inside one segment; every slot starts as nullptr; exactly one segment stays allocated per touched segment
 * index and the loser's segment is freed exactly once (allocation balance); slots lie inside the segment that was kept. */
#include "w.h"
#include "vp.h"
struct S_class_tbb__detail__d2__concurrent_unordered_set SET;
#define SP (&SET)
typedef __typeof__(*vp_slot_probe()) slot_t;
u64 vp_hash(u32 k) { return k; }
/* user allocator: one typed object per allocation (exact value sets for the solver); kind 3 = n bucket-table slots */
slot_t SA[4], SB[4], SC[4];
int used, live_allocs; u8 freed[3]; u64 asz[3];
u8* vp_alloc(u32 kind, u64 n) {
  VP_ASSERT(kind == 3 && (n == 2 || n == 4), "VP bound: allocation request not expected by the harness");
  int i = used++; VP_ASSERT(i < 3, "VP bound: more segments allocated than threads could create"); __CPROVER_assume(i < 3);
  live_allocs++; asz[i] = n;
  return i == 0 ? (u8*)&SA[0] : i == 1 ? (u8*)&SB[0] : (u8*)&SC[0];
}
void vp_dealloc(u32 kind, u8* p, u64 n) {
  int i = p == (u8*)&SA[0] ? 0 : p == (u8*)&SB[0] ? 1 : p == (u8*)&SC[0] ? 2 : -1;
  VP_ASSERT(kind == 3 && i >= 0, "deallocate of a pointer that was not allocated (biased segment pointer freed?)");
  if (i >= 0) { VP_ASSERT(!freed[i], "segment freed twice"); VP_ASSERT(asz[i] == n, "segment freed with a different size"); freed[i] = 1; }
  live_allocs--;
}
void _ZN3tbb6detail2r115throw_exceptionENS0_2d012exception_idE(u32 id) { VP_ASSERT(0, "throw_exception reached although no allocation failed"); }
void vp_rec_limit(void) {}
void vp_op_begin(u32 a, u32 b, u32 c, u32 d) {} void vp_ins_result(u32 a, u32 b, u32 c, u32 d, u32 e) {} void vp_find_result(u32 a, u32 b, u32 c, u32 d, u32 e) {}
void vp_seen(u32 a, u32 b, u32 c) {} void vp_trav_end(u32 a, u32 b) {} void vp_bucket_result(u32 a, u32 b, u64 c, u8* d) {}
u64 _ZN3tbb6detail2d020machine_reverse_bitsImEET_S3_(u64 x) { return x; }   /* not reachable from the bodies used here */

u8* got[2]; int done[2];
void vp_slot_result(u32 tid, u64 idx, u8* slot, u8* content) {
  got[tid] = slot; done[tid] = 1;
  VP_ASSERT(content == 0, "fresh bucket slot is not nullptr");
}
static int inside(u8* p, int i, u64 n) { u8* b = i == 0 ? (u8*)&SA[0] : i == 1 ? (u8*)&SB[0] : (u8*)&SC[0]; u64 d = (u64)p - (u64)b; return d < 8 * n && d % 8 == 0; }

int main(void) {
  vp_us_ctor(SP, 8);
  vp_thr_s_a_start(SP, 0, IA); vp_thr_s_b_start(SP, 1, IB);
  for (int r = 0; r < ROUNDS; r++) { VP_RUN(vp_thr_s_a) VP_RUN(vp_thr_s_b) }
  VP_QUIESCE2(vp_thr_s_a, vp_thr_s_b)
  VP_ASSERT(!vp_deadlock, "threads blocked forever");
  __CPROVER_assume(!vp_unfinished);
  VP_ASSERT(done[0] && done[1] && got[0] && got[1], "subscript did not return a slot");
  u64 sa = vp_seg_index_of(IA), sb = vp_seg_index_of(IB);
  if (IA == IB) VP_ASSERT(got[0] == got[1], "the same bucket index gave two different slots (both racing segments in use)");
  else VP_ASSERT(got[0] != got[1], "two bucket indices share a slot");
  if (sa == sb) VP_ASSERT((u64)got[1] - (u64)got[0] == (u64)(8 * ((long)IB - (long)IA)), "slots of one segment are not laid out by index");
  /* stability: a later (sequential) subscript gives the same addresses */
  VP_ASSERT((u8*)vp_us_slot_addr(SP, IA) == got[0] && (u8*)vp_us_slot_addr(SP, IB) == got[1], "slot address changed after the race");
  /* allocation balance and placement */
  int nseg = (sa == sb) ? 1 : 2;
  VP_ASSERT((int)vp_us_nsegments(SP) == nseg, "number of installed segments wrong");
  VP_ASSERT(live_allocs == nseg, "allocation balance: losing segment leaked or winner freed");
  for (int t = 0; t < 2; t++) {
    int ok = 0;
    for (int i = 0; i < 3; i++) if (i < used && !freed[i] && inside(got[t], i, asz[i])) ok = 1;
    VP_ASSERT(ok, "returned slot does not lie inside a live segment (freed or out of bounds)");
  }
  VP_REACHED();
  return 0;
}

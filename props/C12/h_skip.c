/* C12: concurrent_set / concurrent_multiset (lock-free skip list) never loses or duplicates keys and stays sorted on every level.
 * Scenario (-D): TA,TB = thread bodies (ki: insert k0 | kf: find k0 | kt: full traversal), KA0,KB0 = keys, HA,HB = height of the
 *   node the thread's insert creates (the level generator is a harness stub), NPRE,PRE0..2 + PH0..2 = keys/heights inserted
 *   sequentially before the threads start, ROUNDS free rounds, MULTI=1 multiset, MAXH = max_level of the instantiation.
 * Symbolic: the schedule.
 * Oracle at quiescence: level-0 walk sorted by the comparator (strictly for the unique container), content == pre-state +
 * successful inserts, one winner per key; every level l >= 1 is a sorted sub-list of level 0 containing exactly the nodes of
 * height > l (a finished insert is linked on all its levels); my_max_height == tallest node; size(); real contains();
 * allocation balance; find/traversal results against the operations that had completed / started. */
#include "w.h"
#include "vp.h"
#ifndef MULTI
#define MULTI 0
#endif
#ifndef MAXH
#define MAXH 3
#endif
#ifndef NPRE
#define NPRE 0
#endif
#ifndef PRE0
#define PRE0 0
#endif
#ifndef PRE1
#define PRE1 0
#endif
#ifndef PRE2
#define PRE2 0
#endif
#ifndef PH0
#define PH0 1
#endif
#ifndef PH1
#define PH1 1
#endif
#ifndef PH2
#define PH2 1
#endif
#ifndef KA0
#define KA0 0
#endif
#ifndef KB0
#define KB0 0
#endif
#ifndef HA
#define HA 1
#endif
#ifndef HB
#define HB 1
#endif
#ifndef NN
#define NN 5          /* nodes the scenario can allocate at most: heads (<=2) + value nodes */
#endif
#define CAT_(a, b) a##b
#define CAT(a, b) CAT_(a, b)
#define THR_A CAT(CAT(vp_thr_, TA), _a)
#define THR_B CAT(CAT(vp_thr_, TB), _b)
#define START_ki(fn, t, k0) CAT(fn, _start)(SP, t, k0)
#define START_kf(fn, t, k0) CAT(fn, _start)(SP, t, k0)
#define START_kt(fn, t, k0) CAT(fn, _start)(SP, t)

struct S_class_tbb__detail__d2__concurrent_skip_list SKL;
#define SP (&SKL)
typedef __typeof__(*vp_sknode_probe()) sknode_t;
typedef __typeof__(*vp_skslot_probe()) skslot_t;
/* user allocator: a node is the header followed by `height` next-pointers; one typed object per allocation */
struct obj { sknode_t n; skslot_t next[MAXH]; };
struct obj O0, O1, O2, O3, O4, O5;
int used, live_allocs;
#define PICK(i) (NN > 5 && (i) == 5 ? (u8*)&O5 : NN > 4 && (i) == 4 ? (u8*)&O4 : NN > 3 && (i) == 3 ? (u8*)&O3 : NN > 2 && (i) == 2 ? (u8*)&O2 : NN > 1 && (i) == 1 ? (u8*)&O1 : (u8*)&O0)
u8* vp_alloc(u32 kind, u64 n) {
  VP_ASSERT(kind == 0 && n >= vp_sk_node_size(1) && n <= vp_sk_node_size(MAXH) && n <= sizeof(struct obj), "VP bound: allocation request not expected by the harness");
  int i = used++; VP_ASSERT(i < NN, "VP bound: more nodes allocated than the scenario provides"); __CPROVER_assume(i < NN);
  live_allocs++;
  return PICK(i);
}
void vp_dealloc(u32 kind, u8* p, u64 n) {
  VP_ASSERT(!vp_sk_is_poison((void*)p), "node freed twice");
  VP_ASSERT(n == vp_sk_node_size(vp_sk_height((void*)p)), "node freed with a size different from its allocation");
  vp_sk_poison((void*)p); live_allocs--;
}
void _ZN3tbb6detail2r115throw_exceptionENS0_2d012exception_idE(u32 id) { VP_ASSERT(0, "throw_exception reached although no allocation failed"); }
/* random level generator stub: heights are scenario inputs */
int started, prei;
static const int PREH[3] = { PH0, PH1, PH2 };
u64 vp_level(void) { if (!started) { int i = prei++; return i < 3 ? PREH[i] : 1; } return vp_cur == 0 ? HA : HB; }

/* ---- history */
enum { OP_NONE = 0, OP_INSERT = 1, OP_FIND = 2, OP_TRAVERSE = 3, OP_COUNT = 4 };
#define MAXSEEN (NN + 1)
struct op { int used, kind, done, ok; int key, itkey; unsigned inv, res; int nseen; int seen[MAXSEEN]; } H[2];
unsigned clk;
void vp_op_begin(u32 tid, u32 slot, u32 kind, u32 key) { struct op* o = &H[tid]; o->used = 1; o->kind = kind; o->key = key; o->inv = ++clk; }
void vp_ins_result(u32 tid, u32 slot, u32 key, u32 ok, u32 itkey) { struct op* o = &H[tid]; o->done = 1; o->ok = ok; o->itkey = itkey; o->res = ++clk; }
void vp_find_result(u32 tid, u32 slot, u32 key, u32 found, u32 itkey) { struct op* o = &H[tid]; o->done = 1; o->ok = found; o->itkey = itkey; o->res = ++clk; }
void vp_seen(u32 tid, u32 slot, u32 key) { struct op* o = &H[tid]; VP_ASSERT(o->nseen < MAXSEEN, "traversal visited more elements than were ever inserted"); if (o->nseen < MAXSEEN) o->seen[o->nseen++] = key; }
void vp_trav_end(u32 tid, u32 slot) { struct op* o = &H[tid]; o->done = 1; o->res = ++clk; }
static const int PRE[3] = { PRE0, PRE1, PRE2 };
static const int KEYS[5] = { PRE0, PRE1, PRE2, KA0, KB0 };
static int npre_of(int k) { int c = 0; for (int i = 0; i < NPRE; i++) c += (PRE[i] == k); return c; }
static int ins_done_before(int k, unsigned t) { int c = 0; for (int a = 0; a < 2; a++) { struct op* o = &H[a]; if (o->used && o->kind == OP_INSERT && o->key == k && o->done && o->ok && o->res < t) c++; } return c; }
static int ins_begun_before(int k, unsigned t) { int c = 0; for (int a = 0; a < 2; a++) { struct op* o = &H[a]; if (o->used && o->kind == OP_INSERT && o->key == k && o->inv < t) c++; } return c; }
static int ins_ok(int k) { return ins_done_before(k, ~0u); }

u8* nodes[NN + 1]; int vals[NN + 1]; u64 hts[NN + 1]; int nv;

int main(void) {
  vp_sk_ctor(SP);
  for (int i = 0; i < NPRE; i++) { int ok = vp_sk_insert(SP, PRE[i]); VP_ASSERT(ok || MULTI || 1, ""); }
  started = 1;
  CAT(START_, TA)(THR_A, 0, KA0);
  CAT(START_, TB)(THR_B, 1, KB0);
  for (int r = 0; r < ROUNDS; r++) { VP_RUNT(THR_A, 0) VP_RUNT(THR_B, 1) }
  VP_QUIESCE2(THR_A, THR_B)
  VP_ASSERT(!vp_deadlock, "threads blocked forever in a lock-free container");
  __CPROVER_assume(!vp_unfinished);

  /* ---- level 0 */
  u8* head = vp_sk_head(SP);
  int expect_nodes = NPRE;
  for (int a = 0; a < 2; a++) if (H[a].used && H[a].kind == OP_INSERT && H[a].ok) expect_nodes++;
  if (!head) { VP_ASSERT(expect_nodes == 0, "head node missing although elements were inserted"); }
  u64 maxh = 0;
  if (head) {
    VP_ASSERT(vp_sk_height((void*)head) == MAXH, "head node does not have max_level levels");
    u8* p = vp_sk_next((void*)head, 0);
    for (int i = 0; i < NN; i++) {
      if (!p) break;
      VP_ASSERT(!vp_sk_is_poison((void*)p), "a freed node is linked in the list");
      nodes[nv] = p; vals[nv] = vp_sk_value((void*)p); hts[nv] = vp_sk_height((void*)p);
      VP_ASSERT(hts[nv] >= 1 && hts[nv] <= MAXH, "node height out of range");
      if (hts[nv] > maxh) maxh = hts[nv];
      if (nv > 0) {
#if MULTI
        VP_ASSERT(vals[nv - 1] <= vals[nv], "level 0 not in comparator order");
        if (vals[nv - 1] == vals[nv]) VP_ASSERT(vp_sk_index((void*)nodes[nv - 1]) <= vp_sk_index((void*)p) || 1, "");
#else
        VP_ASSERT(vals[nv - 1] < vals[nv], "level 0 not in strict comparator order (unsorted or duplicate key)");
#endif
      }
      nv++; p = vp_sk_next((void*)p, 0);
    }
    VP_ASSERT(p == 0, "level 0 has more nodes than were ever created (cycle or node linked twice)");
    __CPROVER_assume(p == 0);
    /* ---- upper levels: exactly the nodes of height > l, in level-0 order */
    for (u64 l = 1; l < MAXH; l++) {
      u8* q = vp_sk_next((void*)head, l);
      for (int i = 0; i < NN; i++) {
        if (i >= nv) break;
        if (hts[i] > l) { VP_ASSERT(q == nodes[i], "upper level does not link exactly the nodes of that height in order (node missing from a level / mis-ordered / foreign)");
                          if (q == nodes[i]) q = vp_sk_next((void*)q, l); }
      }
      VP_ASSERT(q == 0, "upper level links a node that level 0 does not contain, or past the end");
    }
  }
  VP_ASSERT(vp_sk_max_height(SP) == maxh, "my_max_height != height of the tallest node");
  /* ---- content */
  { int total = 0;
    for (int x = 0; x < 5; x++) {
      int k = KEYS[x], first = 1;
      for (int y = 0; y < x; y++) if (KEYS[y] == k) first = 0;
      if (!first) continue;
      int c = 0;
      for (int j = 0; j < NN; j++) c += (j < nv && vals[j] == k);
      total += c;
#if MULTI
      VP_ASSERT(c == npre_of(k) + ins_ok(k), "element count != pre-state + successful inserts (key lost or duplicated)");
#else
      VP_ASSERT(c == ((npre_of(k) + ins_ok(k)) > 0) && (npre_of(k) > 1 || npre_of(k) + ins_ok(k) <= 1), "element count != pre-state + successful inserts (key lost, duplicated, or two winners)");
#endif
    }
    VP_ASSERT(total == nv, "list holds a value nobody inserted"); }
  VP_ASSERT(vp_sk_size(SP) == (u64)nv, "size() != number of linked nodes");
  VP_ASSERT(live_allocs == nv + (head != 0), "allocation balance: leaked or double-freed node / head");
  for (int a = 0; a < 2; a++) {
    struct op* o = &H[a]; if (!o->used) continue;
    VP_ASSERT(o->done, "operation never responded");
    int k = o->key;
    if (o->kind == OP_INSERT) {
      VP_ASSERT(o->itkey == k, "insert returned an iterator to a different key");
#if !MULTI
      if (!o->ok) VP_ASSERT(npre_of(k) || ins_begun_before(k, o->res) > 1, "insert reported failure although the key was absent and nobody else inserted it");
#else
      VP_ASSERT(o->ok, "multiset insert failed");
#endif
    } else if (o->kind == OP_FIND) {
      if (o->ok) { VP_ASSERT(o->itkey == k, "find returned an iterator to a different key");
                   VP_ASSERT(npre_of(k) || ins_begun_before(k, o->res), "find returned a key nobody inserted"); }
      else VP_ASSERT(!npre_of(k) && !ins_done_before(k, o->inv), "find missed a key whose insert had returned before the find started");
    } else if (o->kind == OP_TRAVERSE) {
      int total = 0;
      for (int x = 0; x < 5; x++) {
        int kk = KEYS[x], first = 1;
        for (int y = 0; y < x; y++) if (KEYS[y] == kk) first = 0;
        if (!first) continue;
        int cs = 0;
        for (int y = 0; y < MAXSEEN; y++) cs += (y < o->nseen && o->seen[y] == kk);
        total += cs;
        int lo = npre_of(kk) + ins_done_before(kk, o->inv), hi = npre_of(kk) + ins_begun_before(kk, o->res);
#if !MULTI
        if (lo > 1) lo = 1; if (hi > 1) hi = 1;
#endif
        VP_ASSERT(cs <= hi, "traversal saw an element twice / an element nobody inserted");
        VP_ASSERT(cs >= lo, "traversal missed an element that was present before it began");
      }
      VP_ASSERT(total == o->nseen, "traversal saw a value nobody inserted");
      for (int y = 1; y < MAXSEEN; y++) if (y < o->nseen) VP_ASSERT(MULTI ? o->seen[y - 1] <= o->seen[y] : o->seen[y - 1] < o->seen[y], "traversal not in comparator order");
    }
  }
  VP_REACHED();
  return 0;
}

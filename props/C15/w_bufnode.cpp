// C15 wrapper: buffer_node / queue_node / priority_queue_node / sequencer_node <int> (one node type per TU: -DNODEKIND=...)
#include "fg_common.h"
#if NODEKIND == 0
typedef buffer_node<int> node_t;
#elif NODEKIND == 1
typedef queue_node<int> node_t;
#elif NODEKIND == 2
typedef priority_queue_node<int> node_t;
#else
typedef sequencer_node<int> node_t;
extern "C" unsigned long vp_tag_of(int v);   // harness: sequence number of message v (concrete per scenario; the message value stays symbolic)
struct vp_seq_body { size_t operator()(const int& v) const { return vp_tag_of(v); } };
#endif
// Single-threaded model of the aggregator (explicit specialization replaces d1::aggregator_generic<Op>::execute for this
// operation type): one caller, no contention => the pending list is just this operation and the caller runs the handler
// inline; that is what the real execute() does when it finds the list empty. The concurrent protocol itself is C13's subject.
namespace tbb { namespace detail { namespace d1 {
template<> template<> void aggregator_generic<buffer_node<int>::buffer_operation>::execute<buffer_node<int>::handler_type>(
    buffer_node<int>::buffer_operation* op, buffer_node<int>::handler_type& handle_operations, bool) { op->next = nullptr; handle_operations(op); }
}}}
static vp_raw<node_t> vp_node_mem;
static node_t& N() { return vp_node_mem.x; }
typedef forward_task_bypass<buffer_node<int>> fwd_task_t;
VP_TASK_STORAGE(fwd_task_t)
extern "C" {
void vp_init(unsigned nsucc) {
  vp_graph_init();
#if NODEKIND == 3
  new (&vp_node_mem.x) node_t(vp_graph(), vp_seq_body());
#else
  new (&vp_node_mem.x) node_t(vp_graph());
#endif
  for (unsigned i = 0; i < nsucc; i++) { new (&vp_succ(i)) vp_recv(); vp_succ(i).id = i; N().register_successor(vp_succ(i)); }
}
unsigned vp_put(int v) { return N().try_put(v); }
unsigned vp_get(int* v) { return N().try_get(*v); }
unsigned vp_reserve(int* v) { return N().try_reserve(*v); }
unsigned vp_release() { return N().try_release(); }
unsigned vp_consume() { return N().try_consume(); }
unsigned vp_remove_succ(unsigned i) { return N().remove_successor(vp_succ(i)); }
unsigned vp_add_succ(unsigned i) { new (&vp_succ(i)) vp_recv(); vp_succ(i).id = i; return N().register_successor(vp_succ(i)); }   // a successor registered later
unsigned long vp_head() { return N().my_head; }
unsigned long vp_tail() { return N().my_tail; }
unsigned long vp_cap() { return N().my_array_size; }
unsigned vp_reserved() { return N().my_reserved; }
unsigned vp_fwd_busy() { return N().forwarder_busy; }
unsigned vp_slot_state(unsigned long i) { return N().element(i).state; }
int vp_slot_item(unsigned long i) { return N().element(i).item; }
}

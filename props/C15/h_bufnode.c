/* C15 / buffer_node (KIND 0), queue_node (KIND 1), priority_queue_node (KIND 2, std::less<int>): the real node (aggregator handler inline, forwarder task, round-robin
 * successor cache, item_buffer) driven through its public interface by operation sequences. One query = every sequence
 * number k in [FROM,FROM+CNT) (first op T, then LEN-1 ops = base-6 digits of k) x every accept pattern in ACCS:
 * (an op whose precondition does not hold -- release/consume without reservation, X without a pending task -- is skipped)
 *   T try_put(v)  G try_get  R try_reserve  L try_release  C try_consume  X run the oldest spawned task (forwarder)
 * Messages are symbolic 32-bit values, pairwise distinct among the buffered ones (assumed).  NSUCC harness receivers are registered as successors; every offer
 * is accepted iff the corresponding bit of the accept pattern is set (k-th offer <-> bit k; concrete per scenario: a symbolic answer turns
 * the returned graph_task* into a symbolic pointer, which cbmc's symbolic execution cannot dispatch on).  Spawned graph_tasks are collected by the r1::submit stub and executed by X
 * and at the end (all of them).
 * Oracle (abstract buffer m[0..n) + reservation):
 *   queue_node : every value handed out (get / reserve / offer accepted by a successor) is the oldest buffered one;
 *   buffer_node: every value handed out is a buffered, non-reserved one (get/offer) resp. any buffered one (reserve);
 *   priority_queue_node: every value handed out is a maximum of the buffered values; nothing is handed out while reserved;
 *   all: nothing is handed out while it is reserved, nothing twice, consume removes exactly the reserved item, release keeps
 *   it, a final drain returns exactly the remaining items; at quiescence a non-empty unreserved node has offered its front
 *   item to every successor (unless a try_get changed the front meanwhile); graph wait count returns to 0. */
#include "w.h"
#include "vp.h"
enum { T = 1, G, R, L, C, X, A };   /* A (only with -DBASE=7): a second push successor registers itself now */
#ifndef BASE
#define BASE 6
#endif
static unsigned nsucc;   /* successors registered so far */
#ifndef NSUCC
#define NSUCC 1
#endif
#define MAXM (LEN + 1)
/* ---- external boundary stubs ---- */
u8* _ZN3tbb6detail2r122cache_aligned_allocateEm(u64 n) { u8* p = malloc(n); __CPROVER_assume(p != 0); return p; }
void _ZN3tbb6detail2r124cache_aligned_deallocateEPv(u8* p) { free(p); }
#include "fg_stubs.h"
/* ---- abstract state ---- */
static int m[MAXM]; static unsigned n; static int reserved, res_idx; static int res_val;
static unsigned nput, noffer, acc_bits; static unsigned front_rejects; static int waive;
/* harness control stays concrete (n, loop bounds); positions found by value are symbolic data (ternaries, no branches) */
static void remove_at(int k) { for (unsigned i = 0; i + 1 < MAXM; i++) m[i] = ((int)i >= k) ? m[i + 1] : m[i]; n--; res_idx = (reserved && res_idx > k) ? res_idx - 1 : res_idx; }
static int find(int v) { int k = -1; for (unsigned i = n; i > 0; i--) k = (m[i - 1] == v) ? (int)(i - 1) : k; return k; }
static void front_changed(void) { front_rejects = 0; }
/* a value leaves the node towards a consumer (get or accepted offer) */
static void handed_out(int v, const char* who) {
  VP_ASSERT(n > 0, "handed out a message although nothing is buffered");
  int k = find(v);
  VP_ASSERT(k >= 0, "handed out a message that is not buffered (lost/duplicated/consumed twice/payload changed)");
  VP_ASSERT(!(reserved && k == res_idx), "reserved message handed out to somebody else");
#if KIND == 1
  VP_ASSERT(k == 0, "queue_node: handed out message is not the oldest buffered one (FIFO broken)");
#elif KIND == 2
  for (unsigned i = 0; i < n; i++) VP_ASSERT(m[i] <= v, "priority_queue_node: handed out message is not a highest-priority buffered one");
#endif
  remove_at(k); front_changed();
}
u32 vp_sink(u32 id, u32 v) {
  VP_ASSERT(id < nsucc, "offer to an unknown successor");
  int k = find((int)v);
  VP_ASSERT(n > 0 && k >= 0, "offered a message that is not buffered");
  VP_ASSERT(!reserved, "message offered to a successor while the node holds a reservation");
#if KIND == 1
  VP_ASSERT(k == 0, "queue_node: offered message is not the oldest buffered one");
#elif KIND == 2
  for (unsigned i = 0; i < n; i++) VP_ASSERT(m[i] <= (int)v, "priority_queue_node: offered message is not a highest-priority buffered one");
#endif
  int acc = (acc_bits >> noffer) & 1; noffer++;
  if (acc) { handed_out((int)v, "offer"); return 1; }
  front_rejects |= 1u << id;
  return 0;
}
static void run_one(void) { if (bag_n) { void* t = bag[0]; for (unsigned i = 0; i + 1 < BAGMAX; i++) bag[i] = bag[i + 1]; bag_n--; void* b = vp_run_task(t); VP_ASSERT(b == 0, "forwarder task returned a bypass task (unexpected for these successors)"); } }
static int opat(unsigned k, int s) { for (int i = 0; i < s; i++) k /= BASE; return (int)(k % BASE) + 1; }
static unsigned nrun;
static void run(unsigned k, unsigned accpat) {
  n = 0; reserved = 0; res_idx = 0; res_val = 0; nput = 0; noffer = 0; front_rejects = 0; waive = 0; acc_bits = accpat;
  fg_reset();
  vp_init(NSUCC); nsucc = NSUCC;
  for (int s = 0; s < LEN; s++) {
    int op = s == 0 ? T : opat(k, s - 1);
    int out = (int)vp_nd(), out0 = out;
    if (op == T) { int v = (int)vp_nd(); for (unsigned i = 0; i < n; i++) __CPROVER_assume(m[i] != v); nput++;
      VP_ASSERT(vp_put(v), "try_put rejected by a buffering node"); if (n == 0) front_changed(); m[n++] = v; }
    else if (op == G) { unsigned r = vp_get(&out);
      if (r) { handed_out(out, "get"); waive = 1; }
      else { VP_ASSERT(out == out0, "failed try_get wrote its output");
#if KIND == 1 || KIND == 2
        VP_ASSERT(n == 0 || reserved, "queue/priority node: try_get failed although an unreserved item is buffered and nothing is reserved");
#else
        VP_ASSERT(n == 0 || (reserved && n == 1), "buffer_node: try_get failed although an unreserved item is buffered");
#endif
      } }
    else if (op == R) { unsigned r = vp_reserve(&out);
      VP_ASSERT(r == (n > 0 && !reserved), "try_reserve: success iff non-empty and no reservation held");
      if (r) { int k2 = find(out); VP_ASSERT(k2 >= 0, "reserved a message that is not buffered");
#if KIND == 1
        VP_ASSERT(k2 == 0, "queue_node: reserved message is not the oldest one");
#elif KIND == 2
        for (unsigned i = 0; i < n; i++) VP_ASSERT(m[i] <= out, "priority_queue_node: reserved message is not a highest-priority one");
#endif
        reserved = 1; res_idx = k2; res_val = out; } }
    else if (op == L) { if (!reserved) continue; vp_release(); reserved = 0; front_changed(); }
    else if (op == C) { if (!reserved) continue; vp_consume(); int k2 = find(res_val);
      VP_ASSERT(k2 == res_idx && k2 >= 0, "reserved message vanished before consume"); remove_at(res_idx); reserved = 0; front_changed(); }
    else if (op == X) { if (!bag_n) continue; run_one(); }
    else if (op == A) { if (nsucc >= 2) continue; vp_add_succ(nsucc); nsucc++; }
    VP_ASSERT((vp_reserved() != 0) == (reserved != 0), "node reservation flag differs from the abstract one");
#if KIND == 2   /* the priority queue takes the reserved item out of the heap and keeps it aside */
    VP_ASSERT(vp_tail() - vp_head() == n - (reserved ? 1 : 0), "node size differs from the abstract buffer");
#else
    VP_ASSERT(vp_tail() - vp_head() == n, "node size differs from the abstract buffer");
#endif
  }
  /* quiescence: run every spawned task (and what they spawn) */
  for (int i = 0; i < BAGRUNS; i++) run_one();
  VP_ASSERT(bag_n == 0, "VP bound: tasks still pending after BAGRUNS executions");
  VP_ASSERT(vp_fwd_busy() == 0, "forwarder_busy left set with no forwarder task alive (node would never forward again)");
  VP_ASSERT(vp_graph_refs() == 0, "graph wait count not back to 0 although no task is alive");
  VP_ASSERT(n_alloc == n_free, "a finished task was not deallocated / deallocated twice");
  if (n > 0 && !reserved && !waive && nsucc > 0) VP_ASSERT(front_rejects == (1u << nsucc) - 1, "buffered front message was never offered to some successor (stuck message)");
  if (reserved) { vp_release(); reserved = 0; acc_bits = 0; for (int i = 0; i < BAGRUNS; i++) run_one(); }
  /* drain by try_get: exactly the remaining messages come out */
  for (unsigned i = 0; i < MAXM; i++) { int out = 0; unsigned r = vp_get(&out);
    VP_ASSERT(r == (n > 0), "drain: message lost or duplicated"); if (r) handed_out(out, "drain"); }
  nrun++;
}
static const unsigned accs[] = { ACCS };
int main(void) {
  for (unsigned k = FROM; k < FROM + CNT; k++)
    for (unsigned a = 0; a < sizeof accs / sizeof accs[0]; a++) run(k, accs[a]);
  VP_ASSERT(nrun >= 1, "no sequence of this chunk ran to completion");
  VP_REACHED();
}

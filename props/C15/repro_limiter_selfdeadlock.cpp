// limiter_node self-deadlock: a lightweight successor feeds the decrementer inline while the limiter's broadcast_cache
// lock is held; the nested forward_task() pulls from a cached predecessor and takes the same (non-recursive) lock again.
#include <oneapi/tbb/flow_graph.h>
#include <oneapi/tbb/global_control.h>
#include <cstdio>
#include <vector>
#include <csignal>
#include <unistd.h>
using namespace tbb::flow;
static void on_alarm(int) { const char m[] = "HANG: the last call did not return within 10 s (self-deadlock on broadcast_cache's mutex)\n"; (void)!write(1, m, sizeof m - 1); _exit(1); }
int main() {
  setvbuf(stdout, nullptr, _IONBF, 0); signal(SIGALRM, on_alarm); alarm(10);
  tbb::global_control gc(tbb::global_control::max_allowed_parallelism, 1);   // deterministic: spawned tasks run only inside wait_for_all
  graph g;
  queue_node<int> q(g);
  limiter_node<int> lim(g, 2);
  std::vector<int> got;
  function_node<int, continue_msg, lightweight> f(g, unlimited, [&](int v) noexcept { got.push_back(v); return continue_msg(); });
  make_edge(q, lim); make_edge(lim, f);
  for (int i = 1; i <= 5; i++) q.try_put(i);
  g.wait_for_all();                 // 1,2 pass (count == threshold), 3 is refused: q becomes a cached predecessor holding 3,4,5
  printf("after fill: f got %zu messages\n", got.size());
  make_edge(f, lim.decrementer());
  lim.decrementer().try_put(continue_msg());   // count 2->1, pulls 3 inline, f decrements again ...
  printf("after one decrement: f got %zu messages\n", got.size());
  printf("calling lim.try_put(100)\n");
  bool r = lim.try_put(100);        // push while q (unreserved, with items) sits in the predecessor cache and count < threshold
  alarm(0);
  printf("lim.try_put(100) returned %d\n", (int)r);
  g.wait_for_all();
  printf("done, f got %zu messages\n", got.size());
  return 0;
}

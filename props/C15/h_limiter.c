/* C15 / limiter_node<int,int>: the real try_put_task_impl / decrement_counter / forward_task (pull from a predecessor:
 * reserve -> put -> consume | release) / register_predecessor, driven by a concrete operation list OPS:
 *   1     try_put(v) from an upstream pusher          20+d  decrementer.try_put(d), d in 0..9
 *   3     run the oldest spawned forwarder task       4     register the harness predecessor (it offers AVAIL items to pull)
 *   50+d  try_put(v) during which the successor, while handling the message, sends decrement d back (re-entrant decrement:
 *         the sequential image of "decrement racing a put": it arrives while my_tries > 0)
 * (deltas are concrete: a symbolic delta makes my_count and with it every later lock/branch symbolic for cbmc's symex)
 * threshold THR concrete per scenario; message values symbolic; successor accepts the k-th offer iff bit k of the accept pattern (every pattern in ACCS is run;
 * offers beyond ACCW bits are accepted).
 * Oracle:
 *  (S) at every accepted forward: forwarded - sum of all decrement deltas received so far <= threshold;
 *  (A) a put is rejected without being offered to the successor only if the limiter may be full: the truncating count
 *      c (c = max(0, c - delta) on decrement, c + 1 on forward) -- an upper bound of every legal internal count -- is >= threshold;
 *  (B) a message offered and rejected by the successor is dropped and leaves the counters unchanged;
 *  (D) no stuck message at quiescence: NOT (below threshold AND cached predecessor holds a message AND no forwarder task);
 *  (C) pull protocol: after a successful reserve exactly one of consume (offer accepted) / release (rejected) follows,
 *      no offer without a reservation, my_tries back to 0 whenever no call is in flight, my_count <= threshold always. */
#include "w.h"
#include "vp.h"
static const int ops[] = { OPS };
#define NOPS ((int)(sizeof ops / sizeof ops[0]))
#ifndef ACCW
#define ACCW 4
#endif
#ifndef AVAIL
#define AVAIL 2
#endif
#include "fg_stubs.h"
static u64 T; static long fwd, dec_sum, ctrunc; static unsigned noffer, acc_bits;
static int in_put, cur_val, offered, reentrant;          /* state of the current push */
static int src_left, src_reserved, src_val, pulled_offer; static unsigned n_cons, n_rel, n_regsucc;
static void do_decrement(int d) {
  dec_sum += d; ctrunc = ctrunc - d < 0 ? 0 : ctrunc - d;
  VP_ASSERT(vp_decrement(d), "decrementer rejected a decrement");
}
u32 vp_sink(u32 id, u32 v) {
  int acc = noffer >= ACCW ? 1 : (acc_bits >> noffer) & 1; noffer++;
  if (in_put) { VP_ASSERT((int)v == cur_val, "pushed message altered"); offered = 1; }
  else { VP_ASSERT(src_reserved && (int)v == src_val, "limiter offered a message it has not reserved from its predecessor"); pulled_offer = 1; }
  VP_ASSERT(vp_count() + vp_tries() <= T && vp_tries() >= 1, "offer made without an accounted try / beyond the threshold");
  if (acc) {
    fwd++; ctrunc++;
    VP_ASSERT(fwd - dec_sum <= (long)T, "more un-decremented forwarded messages than the threshold");
    if (reentrant) { int d = reentrant - 1; reentrant = 0; do_decrement(d); }
  }
  return (u32)acc;
}
u32 vp_src_reserve(u32* v) { VP_ASSERT(!src_reserved, "second reservation on the predecessor"); if (src_left <= 0) return 0; src_val = (int)vp_nd(); *v = (u32)src_val; src_reserved = 1; pulled_offer = 0; return 1; }
void vp_src_release(void) { VP_ASSERT(src_reserved, "release without reservation"); src_reserved = 0; n_rel++; }
void vp_src_consume(void) { VP_ASSERT(src_reserved && pulled_offer, "consume without reservation/offer"); src_reserved = 0; src_left--; n_cons++; }
static int pred_cached;
void vp_src_regsucc(void) { n_regsucc++; pred_cached = 0; VP_ASSERT(src_left <= 0 || src_reserved, "limiter handed the edge back although the predecessor has a free message"); }
static void run_one(void) { if (bag_n) { void* t = bag[0]; for (unsigned i = 0; i + 1 < BAGMAX; i++) bag[i] = bag[i + 1]; bag_n--;
    void* b = vp_run_task(t);
    /* a bypass task (the limiter's retry forwarder after a rejected pull) is what the worker runs next */
    if (b) { VP_ASSERT(bag_n < BAGMAX, "VP bound: bag full"); for (unsigned i = BAGMAX - 1; i > 0; i--) bag[i] = bag[i - 1]; bag[0] = b; bag_n++; } } }
static void settled(void) {
  VP_ASSERT(vp_tries() == 0, "my_tries not back to 0 with no call in flight (limiter would under-admit forever)");
  VP_ASSERT(vp_count() <= T, "my_count above the threshold");
  VP_ASSERT(!src_reserved, "reservation on the predecessor left dangling");
  VP_ASSERT((long)vp_count() <= ctrunc, "internal count above the truncating count (a decrement was lost)");
}
static unsigned nrun;
static void run(unsigned accpat) {
  acc_bits = accpat; fwd = 0; dec_sum = 0; ctrunc = 0; noffer = 0; in_put = 0; offered = 0; reentrant = 0;
  src_reserved = 0; pulled_offer = 0; pred_cached = 0; n_cons = 0; n_rel = 0; n_regsucc = 0; fg_reset();
  T = THR;   /* concrete per scenario: a symbolic store into the node object defeats cbmc constant propagation of its other members */
  src_left = AVAIL;
  vp_init(T, 1);
  for (int s = 0; s < NOPS; s++) {
    int op = ops[s];
    if (op == 1 || op >= 50) {
      cur_val = (int)vp_nd(); in_put = 1; offered = 0; reentrant = (op >= 50) ? op - 50 + 1 : 0;
      long fwd0 = fwd, c0 = ctrunc; u64 cnt0 = vp_count(), fut0 = vp_future();
      unsigned r = vp_put(cur_val);
      in_put = 0; reentrant = 0;
      if (!offered) { VP_ASSERT(!r, "try_put succeeded without forwarding the message (limiter does not buffer)");
        VP_ASSERT(c0 >= (long)T, "put rejected although fewer than threshold messages are outstanding"); }
      else if (fwd == fwd0) {   /* offered, rejected, dropped (documented: no buffering). The return value is not part of C15: the real
                                   node answers false without cached predecessors and true (it returns a retry forwarder) with them */
        VP_ASSERT(vp_count() == cnt0 && vp_future() == fut0, "rejected message changed the counters"); }
      else VP_ASSERT(r, "try_put reported failure although the message was forwarded");
    }
    else if (op >= 20 && op < 30) do_decrement(op - 20);
    else if (op == 3) run_one();
    else if (op == 4) { pred_cached = 1; vp_add_pred(); }
    settled();
  }
  for (int i = 0; i < BAGRUNS; i++) { run_one(); settled(); }
  /* (a limiter whose successor keeps rejecting while its predecessor has items re-spawns its forwarder for ever: the accept
     patterns used let it terminate: offers beyond the pattern width are accepted) */
  VP_ASSERT(bag_n == 0, "VP bound: tasks still pending after BAGRUNS executions");
  /* no stuck message: below the threshold, a cached predecessor with a free message, a successor, and no forwarder left */
  VP_ASSERT(!(pred_cached && src_left > 0 && !src_reserved && vp_count() + vp_tries() < T), "stuck message: limiter below its threshold, cached predecessor holds a message, no forwarder task left");
  VP_ASSERT(vp_graph_refs() == 0 && n_alloc == n_free, "task accounting: graph wait count / allocations not balanced");
  nrun++;
}
static const unsigned accs[] = { ACCS };
int main(void) {
  for (unsigned a = 0; a < sizeof accs / sizeof accs[0]; a++) run(accs[a]);
  VP_REACHED();
}

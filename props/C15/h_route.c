/* C15 / routing nodes with two harness successors (ROUTE 0 broadcast_node<int>: both on the node; 1 split_node<tuple<int,int>>:
 * successor i on output port i; 2 indexer_node<int,int>: both on the node).  NPUT puts with symbolic values (indexer: symbolic
 * choice of input port per put); successors accept/reject by the bits of ACC (concrete).
 * Oracle: broadcast: every put is offered exactly once to every successor with the value put; split: element i of the tuple is
 * offered exactly once to the successor of port i and to nobody else; indexer: the message put on port p reaches every successor
 * exactly once as a tagged message with tag p carrying the value; broadcast/split try_put returns true; no task is allocated. */
#include "w.h"
#include "vp.h"
#include "fg_stubs.h"
static int cur_a, cur_b; static unsigned cur_port, seen[2], noffer;
static int accept(void) { int acc = (ACC >> noffer) & 1; noffer++; return acc; }
u32 vp_sink(u32 id, u32 v) {
  VP_ASSERT(id < 2, "unknown successor"); seen[id]++;
#if ROUTE == 0
  VP_ASSERT((int)v == cur_a, "broadcast_node delivered a different value");
#else
  VP_ASSERT((int)v == (id == 0 ? cur_a : cur_b), "split_node routed a tuple element to the wrong port");
#endif
  return (u32)accept();
}
u32 vp_sink_tag(u32 id, u64 tag, u32 v) {
  VP_ASSERT(id < 2, "unknown successor"); seen[id]++;
  VP_ASSERT(tag == cur_port, "indexer_node tagged the message with the wrong port index");
  VP_ASSERT((int)v == cur_a, "indexer_node delivered a different value");
  return (u32)accept();
}
int main(void) {
  vp_init();
  for (int i = 0; i < NPUT; i++) {
    cur_a = (int)vp_nd(); cur_b = (int)vp_nd(); cur_port = (unsigned)(vp_nd() & 1); seen[0] = seen[1] = 0;
    unsigned r = vp_put(cur_a, cur_b, cur_port);
#if ROUTE != 2   /* (an indexer port reports failure when every successor refused; not part of the routing property) */
    VP_ASSERT(r, "try_put on a broadcast/split node failed");
#endif
    VP_ASSERT(seen[0] == 1 && seen[1] == 1, "a successor was skipped or offered the message twice");
  }
  VP_ASSERT(n_alloc == 0 && bag_n == 0, "routing node spawned a task");
  VP_REACHED();
}

/* C15 / item_buffer: the real reservable_item_buffer<int> ring (constructor, push_back, pop_front, pop_back,
 * reserve_front, release_front, consume_front, grow_my_array, destructor) driven by operation sequences.
 * One query = every sequence number k in [FROM, FROM+CNT) (base-8 digits = ops, LEN ops each) x every ring origin in
 * ORGS (head == tail == origin on the fresh buffer: ring phase / index wrap), after PRE pushes.  Control is concrete
 * (cbmc's symbolic execution cannot bound the real loops `for i in [my_head,my_tail)` when head is symbolic: tried, see
 * NOTES.md); every item value is symbolic.
 * Oracle = abstract FIFO with one front reservation (m[0..n), reserved): after every step the real buffer's contents,
 * order, size, reservation flag and per-slot states must equal the abstract queue; return values/outputs must match;
 * final drain returns everything exactly once in order.
 * Ops: P push_back, Q pop_front, B pop_back, R reserve_front, L release_front, C consume_front,
 *      G grow_my_array(size+1), H grow_my_array(2*capacity+1).
 * Caller contract (what buffer_node/queue_node guarantee): L/C only while reserved, Q only while not reserved,
 * B not on the reserved item, at most one explicit grow per sequence. Sequences violating it are not run. */
#include "w.h"
#include "vp.h"
enum { P = 1, Q, B, R, L, C, G, H };
#ifndef PRE
#define PRE 0
#endif
#define MAXM (PRE + LEN + 1)
u8* _ZN3tbb6detail2r122cache_aligned_allocateEm(u64 n) { u8* p = malloc(n); __CPROVER_assume(p != 0); return p; }
void _ZN3tbb6detail2r124cache_aligned_deallocateEPv(u8* p) { free(p); }
struct S_class_tbb__detail__d2__reservable_item_buffer bufmem;
#define BUF (&bufmem)
static int m[MAXM]; static unsigned n; static int reserved;
static unsigned nrun;
static void check_state(u64 h0, unsigned popped) {
  u64 head = vp_buf_head(BUF), tail = vp_buf_tail(BUF), cap = vp_buf_cap(BUF);
  VP_ASSERT(head == h0 + popped, "head does not equal origin + number of items removed at the front");
  VP_ASSERT(tail - head == n, "size (tail-head) differs from the abstract queue");
  VP_ASSERT(cap >= 4 && (cap & (cap - 1)) == 0 && cap >= n, "capacity not a power of two >= size");
  VP_ASSERT((vp_buf_reserved(BUF) != 0) == (reserved != 0), "my_reserved differs from the abstract reservation");
  for (unsigned i = 0; i < n; i++) {
    VP_ASSERT(vp_buf_valid(BUF, head + i), "buffered item lost (slot not valid)");
    VP_ASSERT(vp_buf_item(BUF, head + i) == m[i], "buffered item value/order differs from arrival order");
    VP_ASSERT(vp_buf_state(BUF, head + i) == ((i == 0 && reserved) ? 2u : 1u), "slot state wrong (reserved flag on wrong item / not cleared)");
  }
  /* slots outside [head,tail) hold nothing: no stale item can be seen after wrap */
  for (u64 k = n; k < cap; k++) VP_ASSERT(vp_buf_state(BUF, head + k) == 0, "slot outside [head,tail) not empty");
}
static void shift(void) { for (unsigned i = 0; i + 1 < MAXM; i++) m[i] = m[i + 1]; n--; }
static int opat(unsigned k, int s) { for (int i = 0; i < s; i++) k /= 8; return (int)(k % 8) + 1; }
/* abstract-state simulation only: does sequence k respect the caller contract? */
static int valid_seq(unsigned k) {
  unsigned nn = PRE; int rr = 0, grows = 0;
  for (int s = 0; s < LEN; s++) { int op = opat(k, s);
    if (op == P) nn++;
    else if (op == Q) { if (rr) return 0; if (nn) nn--; }
    else if (op == B) { if (rr && nn <= 1) return 0; if (nn) nn--; }
    else if (op == R) { if (nn && !rr) rr = 1; }
    else if (op == L) { if (!rr) return 0; rr = 0; }
    else if (op == C) { if (!rr) return 0; rr = 0; nn--; }
    else { if (grows) return 0; grows = 1; } }
  return 1;
}
static void run(u64 h0, unsigned k) {
  vp_buf_ctor(BUF);
  vp_buf_set_origin(BUF, h0);
  n = 0; reserved = 0;
  unsigned popped = 0;
  for (int i = 0; i < PRE; i++) { int v = (int)vp_nd(); VP_ASSERT(vp_buf_push_back(BUF, v), "push_back failed"); m[n++] = v; }
  check_state(h0, popped);
  for (int s = 0; s < LEN; s++) {
    int op = opat(k, s);
    int out = (int)vp_nd(); int out0 = out;
    if (op == P) { int v = (int)vp_nd(); VP_ASSERT(vp_buf_push_back(BUF, v), "push_back failed"); m[n++] = v; }
    else if (op == Q) {
      unsigned r = vp_buf_pop_front(BUF, &out);
      VP_ASSERT(r == (n > 0), "pop_front: success iff non-empty");
      if (n > 0) { VP_ASSERT(out == m[0], "pop_front: not the oldest item (FIFO broken)"); shift(); popped++; } else VP_ASSERT(out == out0, "failed pop wrote output"); }
    else if (op == B) {
      unsigned r = vp_buf_pop_back(BUF, &out);
      VP_ASSERT(r == (n > 0), "pop_back: success iff non-empty");
      if (n > 0) { VP_ASSERT(out == m[n - 1], "pop_back: not the newest item"); n--; } }
    else if (op == R) {
      unsigned r = vp_buf_reserve_front(BUF, &out);
      VP_ASSERT(r == (n > 0 && !reserved), "reserve_front: success iff non-empty and not already reserved");
      if (r) { VP_ASSERT(out == m[0], "reserve_front: not the oldest item"); reserved = 1; } }
    else if (op == L) { vp_buf_release_front(BUF); reserved = 0; }
    else if (op == C) { vp_buf_consume_front(BUF); shift(); popped++; reserved = 0; }
    else { u64 c0 = vp_buf_cap(BUF); u64 mn = op == G ? n + 1 : 2 * c0 + 1; vp_buf_grow(BUF, mn);
      VP_ASSERT(vp_buf_cap(BUF) >= mn && vp_buf_cap(BUF) >= 2 * c0, "grow_my_array: new capacity too small"); }
    check_state(h0, popped);
  }
  /* drain: everything still buffered comes out exactly once, oldest first */
  if (reserved) { vp_buf_release_front(BUF); reserved = 0; }
  for (unsigned i = 0; i < MAXM; i++) { int out = 0; unsigned r = vp_buf_pop_front(BUF, &out);
    VP_ASSERT(r == (i < n), "drain: item lost or duplicated"); if (r) VP_ASSERT(out == m[i], "drain: order differs from arrival order"); }
  vp_buf_dtor(BUF);
  nrun++;
}
static const u64 orgs[] = { ORGS };
#define NORG ((int)(sizeof orgs / sizeof orgs[0]))
int main(void) {
  VP_ASSERT(vp_sizeof_buf() <= sizeof bufmem, "harness storage too small");
  for (unsigned k = FROM; k < FROM + CNT; k++) if (valid_seq(k))
    for (int o = 0; o < NORG; o++) run(orgs[o], k);
  VP_ASSERT(nrun >= MINRUN, "fewer sequences executed than the runner expected");
  VP_REACHED();
}

// C15 wrapper: the real item_buffer / reservable_item_buffer (include/oneapi/tbb/detail/_flow_graph_item_buffer_impl.h)
#include "oneapi/tbb/flow_graph.h"
using namespace tbb::detail::d2;
typedef reservable_item_buffer<int> buf_t;
extern "C" void vp_emit(unsigned long v);
extern "C" {
unsigned vp_sizeof_buf() { return sizeof(buf_t); }
void vp_buf_ctor(buf_t* b) { new (b) buf_t(); }
void vp_buf_dtor(buf_t* b) { b->~buf_t(); }
// white-box positioning of the ring: head == tail == h on the freshly constructed (empty, all slots no_item) buffer.
// Reachable by h push_back/pop_front pairs; lets the solver pick any ring phase (index wrap) without h real steps.
void vp_buf_set_origin(buf_t* b, unsigned long h) { b->my_head = h; b->my_tail = h; }
unsigned long vp_buf_head(buf_t* b) { return b->my_head; }
unsigned long vp_buf_tail(buf_t* b) { return b->my_tail; }
unsigned long vp_buf_cap(buf_t* b) { return b->my_array_size; }
unsigned vp_buf_reserved(buf_t* b) { return b->my_reserved; }
unsigned vp_buf_state(buf_t* b, unsigned long i) { return b->element(i).state; }
unsigned vp_buf_valid(buf_t* b, unsigned long i) { return b->my_item_valid(i); }
int vp_buf_item(buf_t* b, unsigned long i) { return b->element(i).item; }
unsigned vp_buf_push_back(buf_t* b, int v) { return b->push_back(v); }
unsigned vp_buf_pop_front(buf_t* b, int* v) { return b->pop_front(*v); }
unsigned vp_buf_pop_back(buf_t* b, int* v) { return b->pop_back(*v); }
unsigned vp_buf_reserve_front(buf_t* b, int* v) { return b->reserve_front(*v); }
void vp_buf_release_front(buf_t* b) { b->release_front(); }
void vp_buf_consume_front(buf_t* b) { b->consume_front(); }
void vp_buf_grow(buf_t* b, unsigned long m) { b->grow_my_array(m); }
unsigned vp_buf_place(buf_t* b, unsigned long i, int v) { return b->place_item(i, v); }
void vp_buf_swap(buf_t* b, unsigned long i, unsigned long j) { b->swap_items(i, j); }
void vp_buf_move(buf_t* b, unsigned long to, unsigned long from) { b->move_item(to, from); }

void vp_selftest() {
  buf_t b; int v;
  for (unsigned long org : {0ul, 3ul, 7ul, 1000003ul}) {
    b.reset(); b.my_head = b.my_tail = org;
    for (int i = 0; i < 11; i++) { int x = 100 + i; b.push_back(x); vp_emit(b.my_array_size); vp_emit(b.my_tail - b.my_head); }
    vp_emit(b.reserve_front(v)); vp_emit(v); vp_emit(b.reserve_front(v)); b.release_front();
    vp_emit(b.reserve_front(v)); vp_emit(v); b.consume_front();
    for (int i = 0; i < 4; i++) { v = -1; vp_emit(b.pop_front(v)); vp_emit(v); }
    for (int i = 0; i < 3; i++) { v = -1; vp_emit(b.pop_back(v)); vp_emit(v); }
    for (int i = 0; i < 9; i++) { int x = 200 + i; b.push_back(x); }
    for (int i = 0; i < 14; i++) { v = -1; vp_emit(b.pop_front(v)); vp_emit(v); vp_emit(b.my_head); }
  }
}
}

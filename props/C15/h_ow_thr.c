/* C15 / concurrent puts on overwrite_node<int> (WO 0) / write_once_node<int> (WO 1): NT threads (2|3), each doing one
 * try_put of its own value (symbolic, pairwise distinct) on a node that holds no value (PRE 0: fresh; PRE 1: a value was put and
 * clear()ed before), one successor present (records what it is offered, accepts).  Lazy-CSeq schedule: every interleaving of
 * the threads' memory operations with <= ROUNDS slices per thread + 2 forced rounds.  Afterwards (sequentially) try_get and a
 * late-registered second successor.
 * Oracle at quiescence: no thread blocked for ever on the spin_mutex (blocked-state oracle), the mutex is free;
 *  write_once: exactly one put returned true, the successor was offered exactly that value once, try_get and the late successor
 *              get that same value;
 *  overwrite : every put returned true, the successor was offered every value exactly once, the held value is the one offered
 *              last (broadcast happens inside the critical section, so the offer order is the mutex order), try_get and the
 *              late successor get it. */
#include "w.h"
#include "vp.h"
#define VP_NO_TASKS
#include "fg_stubs.h"
#ifndef NT
#define NT 2
#endif
static int val[3]; static int res[3], nres; static int logv[8]; static unsigned nlog; static int late_v, late_n;
void vp_put_result(u32 tid, u32 ok) { VP_ASSERT(tid < NT && res[tid] < 0, "put result reported twice"); VP_ASSERT(ok != 2, "try_put_task returned a task although the successor returns none"); res[tid] = (int)ok; nres++; }
u32 vp_sink(u32 id, u32 v) {
  if (id == 0) { VP_ASSERT(nlog < 8, "VP bound: successor log"); if (nlog < 8) logv[nlog++] = (int)v; }
  else { late_v = (int)v; late_n++; }
  return 1;
}
int main(void) {
  for (int i = 0; i < NT; i++) { val[i] = (int)vp_nd(); res[i] = -1; for (int j = 0; j < i; j++) __CPROVER_assume(val[i] != val[j]); }
  vp_init();
  vp_add_succ(0);
#if PRE
  { int v0 = (int)vp_nd(); for (int i = 0; i < NT; i++) __CPROVER_assume(v0 != val[i]);
    VP_ASSERT(vp_put(v0), "initial put refused"); VP_ASSERT(nlog == 1 && logv[0] == v0, "initial put not forwarded"); vp_clear(); nlog = 0;
    VP_ASSERT(!vp_valid(), "clear() left the value valid"); }
#endif
  vp_thr_put_a_start(0, (u32)val[0]); vp_thr_put_b_start(1, (u32)val[1]);
#if NT == 3
  vp_thr_put_c_start(2, (u32)val[2]);
#endif
  for (int r = 0; r < ROUNDS; r++) {
    VP_RUNT(vp_thr_put_a, 0) VP_RUNT(vp_thr_put_b, 1)
#if NT == 3
    VP_RUNT(vp_thr_put_c, 2)
#endif
  }
#if NT == 3
  VP_QUIESCE3(vp_thr_put_a, vp_thr_put_b, vp_thr_put_c)
#else
  VP_QUIESCE2(vp_thr_put_a, vp_thr_put_b)
#endif
  VP_ASSERT(!vp_deadlock, "a putter is blocked for ever on the node's spin_mutex (lost unlock / deadlock)");
  __CPROVER_assume(!vp_unfinished);
  VP_ASSERT(nres == NT && vp_mutex_word() == 0, "not every put returned / mutex left locked");
  int nok = 0, win = -1;
  for (int i = 0; i < NT; i++) if (res[i]) { nok++; win = i; }
#if WO
  VP_ASSERT(nok == 1, "write_once_node: not exactly one of the concurrent puts was accepted");
  VP_ASSERT(nlog == 1 && logv[0] == val[win], "write_once_node: the successor did not get exactly the accepted value once");
  int held = val[win];
#else
  VP_ASSERT(nok == NT, "overwrite_node refused a put");
  VP_ASSERT(nlog == NT, "overwrite_node: successor was not offered each accepted value exactly once");
  for (int i = 0; i < NT; i++) { int c = 0; for (unsigned k = 0; k < NT; k++) c += (logv[k] == val[i]); VP_ASSERT(c == 1, "overwrite_node: a value was offered to the successor zero or several times"); }
  int held = logv[NT - 1];
#endif
  VP_ASSERT(vp_valid() && vp_buffer() == held, "held value is not the accepted (write_once) / last forwarded (overwrite) one");
  int out = 0; VP_ASSERT(vp_get(&out) && out == held, "try_get does not return the held value");
  vp_add_succ(1);
  VP_ASSERT(late_n == 1 && late_v == held, "late successor was not given the held value exactly once");
  VP_ASSERT(n_alloc == 0, "unexpected task allocation");
  VP_REACHED();
}

/* harness-side stubs of the scheduler boundary used by flow-graph nodes (contract in comments) */
#ifndef BAGMAX
#define BAGMAX 8
#endif
#ifndef BAGRUNS
#define BAGRUNS 4
#endif
static void* bag[BAGMAX]; static unsigned bag_n; static unsigned n_alloc, n_free;
static unsigned vp_new_n;
static unsigned vp_new64_n, vp_new512_n;
static void fg_reset(void) { bag_n = 0; n_alloc = 0; n_free = 0; vp_new_n = 0; vp_new64_n = 0; vp_new512_n = 0; }
/* r1::allocate(small_object_pool*&, size_t): fresh storage */
u8* _ZN3tbb6detail2r18allocateERPNS0_2d117small_object_poolEm(struct S_class_tbb__detail__d1__small_object_pool** pool, u64 n) {
  VP_ASSERT(n <= vp_task_size() && n_alloc < 16, "VP bound: task allocation larger / more numerous than the typed task storage (16)");
  return (u8*)vp_task_mem(n_alloc++); }
/* r1::deallocate(small_object_pool&, void*, size_t, const execution_data&) */
void _ZN3tbb6detail2r110deallocateERNS0_2d117small_object_poolEPvmRKNS2_14execution_dataE(struct S_class_tbb__detail__d1__small_object_pool* pool, u8* p, u64 n, struct S_struct_tbb__detail__d1__execution_data* ed) { n_free++; }
/* r1::execution_slot(const task_arena_base&): the calling (external) thread is not in the graph arena */
u16 _ZN3tbb6detail2r114execution_slotERKNS0_2d115task_arena_baseE(struct S_class_tbb__detail__d1__task_arena_base* a) { return 0xffff; }
/* r1::notify_waiters(uintptr_t): wake-up only, no state */
void _ZN3tbb6detail2r114notify_waitersEm(u64 a) { }
/* libstdc++ out-of-line pieces of std::list (successor lists): documented node-hook semantics */
void _ZNSt8__detail15_List_node_base7_M_hookEPS0_(struct S_struct_std____detail___List_node_base* self, struct S_struct_std____detail___List_node_base* pos) {
  self->f0 = pos; self->f1 = pos->f1; pos->f1->f0 = self; pos->f1 = self; }
void _ZNSt8__detail15_List_node_base9_M_unhookEv(struct S_struct_std____detail___List_node_base* self) {
  struct S_struct_std____detail___List_node_base* nx = self->f0; struct S_struct_std____detail___List_node_base* pv = self->f1; pv->f0 = nx; nx->f1 = pv; }
/* operator new / delete */
/* operator new / delete: std::list nodes (<= 32 bytes), std::deque map (64 bytes) and chunk (512 bytes) of the predecessor
   caches; pointer-typed cells so that cbmc keeps stored pointers concrete; never reused (bounded, asserted) */
static struct { void* a[4]; } vp_new_pool[8];
static struct { void* a[8]; } vp_new_pool64[4];
static struct { void* a[64]; } vp_new_pool512[4];
u8* _Znwm(u64 n) {
  if (n <= 32) { VP_ASSERT(vp_new_n < 8, "VP bound: operator new beyond the node pool"); return (u8*)&vp_new_pool[vp_new_n++]; }
  if (n <= 64) { VP_ASSERT(vp_new64_n < 4, "VP bound: operator new beyond the 64-byte pool"); return (u8*)&vp_new_pool64[vp_new64_n++]; }
  VP_ASSERT(n <= 512 && vp_new512_n < 4, "VP bound: operator new beyond the 512-byte pool"); return (u8*)&vp_new_pool512[vp_new512_n++]; }
void _ZdlPv(u8* p) { }
void _ZdlPvm(u8* p, u64 n) { }
/* r1::submit(task&, task_group_context&, arena*, uintptr_t as_critical): the task becomes runnable; the harness runs it later */
void _ZN3tbb6detail2r16submitERNS0_2d14taskERNS2_18task_group_contextEPNS1_5arenaEm(struct S_class_tbb__detail__d1__task* t, struct S_class_tbb__detail__d1__task_group_context* c, struct S_class_tbb__detail__r1__arena* a, u64 crit) {
  VP_ASSERT(bag_n < BAGMAX, "VP bound: more spawned tasks than BAGMAX"); if (bag_n < BAGMAX) bag[bag_n++] = t; }
/* d2::prioritize_task(graph&, graph_task&) is cut (it drags the graph's concurrent_priority_queue into every caller): for a task
   without priority it is the identity; nodes in these units never have a priority (asserted) */
struct S_class_tbb__detail__d2__graph_task* _ZN3tbb6detail2d215prioritize_taskERNS1_5graphERNS1_10graph_taskE(struct S_class_tbb__detail__d2__graph* g, struct S_class_tbb__detail__d2__graph_task* t) {
  VP_ASSERT(!vp_task_has_priority(t), "prioritized task in a unit whose nodes have no priority"); return t; }
/* memset of the translated code (cbmc is run with -Dmemset=vp_memset): word-wise stores, which cbmc resolves to the struct members
   they hit; its built-in byte-wise memset turns the whole node object into a byte-array expression and ends constant propagation */
#ifdef memset
void* vp_memset(void* p, int c, size_t n) { u64 i = 0; u64 w = 0x0101010101010101ull * (u8)c;
  for (; i + 8 <= n; i += 8) *(u64*)((u8*)p + i) = w;
  for (; i < n; i++) ((u8*)p)[i] = (u8)c;
  return p; }
#endif

// C15 wrapper: limiter_node<int, int> (decrementer port takes an int delta)
#include "fg_common.h"
typedef limiter_node<int, int> node_t;
typedef forward_task_bypass<node_t> fwd_task_t;
VP_TASK_STORAGE(fwd_task_t)
extern "C" unsigned vp_src_reserve(int* v);     // harness predecessor: reserve an item?
extern "C" void vp_src_release();
extern "C" void vp_src_consume();
extern "C" void vp_src_regsucc();               // the limiter gave up pulling and re-registered itself as a successor
struct vp_send : sender<int> {
  bool try_get(int&) override { return false; }
  bool try_reserve(int& v) override { return vp_src_reserve(&v); }
  bool try_release() override { vp_src_release(); return true; }
  bool try_consume() override { vp_src_consume(); return true; }
  bool register_successor(successor_type&) override { vp_src_regsucc(); return true; }
  bool remove_successor(successor_type&) override { return true; }
};
static vp_raw<node_t> vp_node_mem;
static vp_raw<vp_send> vp_src_mem;
static node_t& N() { return vp_node_mem.x; }
extern "C" {
void vp_init(unsigned long threshold, unsigned nsucc) {
  vp_graph_init();
  new (&vp_node_mem.x) node_t(vp_graph(), threshold);
  new (&vp_src_mem.x) vp_send();
  for (unsigned i = 0; i < nsucc; i++) { new (&vp_succ(i)) vp_recv(); vp_succ(i).id = i; N().register_successor(vp_succ(i)); }
}
unsigned vp_put(int v) { return N().try_put(v); }
unsigned vp_decrement(int delta) { return N().decrementer().try_put(delta); }
void vp_add_pred() { N().register_predecessor(vp_src_mem.x); }
unsigned long vp_count() { return N().my_count; }
unsigned long vp_tries() { return N().my_tries; }
unsigned long vp_future() { return N().my_future_decrement; }
unsigned long vp_threshold() { return N().my_threshold; }
}

/* C15 / overwrite_node<int> (WO 0), write_once_node<int> (WO 1): concrete op list OPS: 1 try_put(v), 2 try_get, 3 try_reserve,
 * 40/41 register successor 0/1 (late successors), 6 X run the oldest spawned task (the retry of a refused registration), 8 clear().
 * Values symbolic; successors accept the k-th offer iff bit k of the accept pattern (every pattern in ACCS is run).
 * Oracle: the node holds the latest (overwrite) / first since the last clear (write_once) value; try_get/try_reserve return
 * exactly it iff one is held; a put that is taken is offered exactly once to every registered successor; a successor registered
 * while a value is held is offered that value at once, and if it refuses, again by the retry task until it accepts (only then
 * it is registered); write_once refuses puts while it holds a value and they change nothing. */
#include "w.h"
#include "vp.h"
static const int ops[] = { OPS };
#define NOPS ((int)(sizeof ops / sizeof ops[0]))
#include "fg_stubs.h"
static int cur, valid, registered[2], pending[2]; static unsigned offered_mask, noffer, acc_bits, nrun; static int expect_val, in_op;
u32 vp_sink(u32 id, u32 v) {
  VP_ASSERT(id < 2 && in_op, "offer outside an operation");
  VP_ASSERT((int)v == expect_val, "successor was offered a value that is not the latest (overwrite) / first (write_once) one");
  VP_ASSERT(registered[id] || pending[id], "offer to a successor that is not (being) registered");
  VP_ASSERT(!(offered_mask & (1u << id)), "same value offered twice to a successor in one operation");
  offered_mask |= 1u << id;
  int acc = noffer >= 4 ? 1 : (acc_bits >> noffer) & 1; noffer++;   /* offers beyond the 4 pattern bits are accepted (a refusing successor is retried for ever) */
  if (pending[id] && acc) { pending[id] = 0; registered[id] = 1; }
  return (u32)acc;
}
static int pq[8]; static unsigned pqn;   /* successors whose registration is being retried, in task order */
static void run_one(void) { if (bag_n) { void* t = bag[0]; for (unsigned i = 0; i + 1 < BAGMAX; i++) bag[i] = bag[i + 1]; bag_n--;
    VP_ASSERT(pqn > 0, "a task exists although no registration is pending");
    int id = pq[0]; for (unsigned i = 0; i + 1 < 8; i++) pq[i] = pq[i + 1]; pqn--;
    unsigned bag0 = bag_n;
    in_op = 1; offered_mask = 0; expect_val = cur; void* bp = vp_run_task(t); in_op = 0; VP_ASSERT(bp == 0, "unexpected bypass task");
    if (!valid) { VP_ASSERT(offered_mask == 0, "offer without a value"); pending[id] = 0; registered[id] = 1; }   /* value cleared meanwhile: plain registration */
    else VP_ASSERT(offered_mask == (1u << id), "retry task did not offer the held value to the successor being registered");
    if (pending[id]) { VP_ASSERT(bag_n == bag0 + 1 && pqn < 8, "refused again but no new retry task"); pq[pqn++] = id; }
    else VP_ASSERT(bag_n == bag0, "retry task spawned although the successor is registered now"); } }
static void run(unsigned accpat) {
  cur = 0; valid = 0; registered[0] = registered[1] = pending[0] = pending[1] = 0; noffer = 0; acc_bits = accpat; pqn = 0; fg_reset();
  vp_init();
  for (int s = 0; s < NOPS; s++) {
    int op = ops[s]; int out = (int)vp_nd(), out0 = out;
    if (op == 1) { int v = (int)vp_nd(); int take = !(WO && valid);
      unsigned before = (registered[0] ? 1u : 0) | (registered[1] ? 2u : 0);
      in_op = 1; offered_mask = 0; expect_val = v; unsigned r = vp_put(v); in_op = 0;
      VP_ASSERT(r == (unsigned)take, "try_put: overwrite always takes the value, write_once only while empty");
      if (take) { cur = v; valid = 1; VP_ASSERT(offered_mask == before, "a taken value was not offered to exactly the registered successors"); }
      else VP_ASSERT(offered_mask == 0, "refused put was forwarded"); }
    else if (op == 2 || op == 3) { unsigned r = op == 2 ? vp_get(&out) : vp_reserve(&out);
      VP_ASSERT(r == (unsigned)valid, "try_get/try_reserve: succeeds iff a value is held");
      if (r) VP_ASSERT(out == cur, "try_get/try_reserve: not the latest/first value"); else VP_ASSERT(out == out0, "failed get wrote output"); }
    else if (op == 40 || op == 41) { int id = op - 40; if (registered[id] || pending[id]) continue;
      in_op = 1; offered_mask = 0; expect_val = cur; pending[id] = 1; vp_add_succ((unsigned)id); in_op = 0;
      if (!valid) { VP_ASSERT(offered_mask == 0, "offer without a value"); pending[id] = 0; registered[id] = 1; }
      else { VP_ASSERT(offered_mask == (1u << id), "new successor was not offered the held value at registration"); if (pending[id]) pq[pqn++] = id; } }
    else if (op == 6) { if (!bag_n) continue; run_one(); }
    else if (op == 8) { vp_clear(); valid = 0; }
    VP_ASSERT((vp_valid() != 0) == (valid != 0), "my_buffer_is_valid differs from the abstract state");
    VP_ASSERT(pqn == bag_n, "number of retry tasks differs from the number of refused registrations (a successor would never get the value)");
  }
  for (int i = 0; i < BAGRUNS; i++) run_one();
  VP_ASSERT(pqn == bag_n, "registration still pending without a retry task");
  VP_ASSERT(n_alloc - n_free == bag_n, "task accounting: allocated - freed != tasks alive");
  nrun++;
}
static const unsigned accs[] = { ACCS };
int main(void) {
  for (unsigned k = 0; k < sizeof accs / sizeof accs[0]; k++) run(accs[k]);
  VP_ASSERT(nrun >= 1, "no run of this scenario completed");
  VP_REACHED();
}

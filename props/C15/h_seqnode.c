/* C15 / sequencer_node<int>: the real sequencer (internal_push placing the item at index tag, queue_node forwarding) driven
 * by a concrete operation list OPS:  10+t  try_put(message with sequence number t)   2 G try_get   3 R try_reserve
 *   4 L try_release   5 C try_consume   6 X run the oldest spawned forwarder task.
 * Message values are symbolic (pairwise distinct); the sequencer body maps a message to its (concrete) number through the
 * harness. One successor accepts the k-th offer iff bit k of the accept pattern (all patterns in ACCS are run).
 * Oracle: every message handed out (get / reserve / accepted offer) is the one that was put with number `next`, where next
 * counts the messages handed out so far: 0,1,2,... without gap, duplicate or overtaking; a put with a number below next
 * (already emitted) or equal to a buffered one is rejected and changes nothing; other puts are accepted; try_get fails iff
 * number `next` is not buffered (or reserved); at quiescence with an accepting successor the buffered prefix has been emitted. */
#include "w.h"
#include "vp.h"
static const int ops[] = { OPS };
#define NOPS ((int)(sizeof ops / sizeof ops[0]))
#define MAXT 12
u8* _ZN3tbb6detail2r122cache_aligned_allocateEm(u64 n) { u8* p = malloc(n); __CPROVER_assume(p != 0); return p; }
void _ZN3tbb6detail2r124cache_aligned_deallocateEPv(u8* p) { free(p); }
#include "fg_stubs.h"
static int val[MAXT]; static int have[MAXT];    /* buffered message per sequence number */
static unsigned next, noffer, acc_bits, cur_tag, nrun; static int reserved;
static unsigned last_offer_rejected;
u64 vp_tag_of(u32 v) { return cur_tag; }
static void emitted(int v, const char* who) {
  VP_ASSERT(next < MAXT && have[next], "a message was handed out although number `next` is not buffered (gap / overtaking / duplicate)");
  VP_ASSERT(val[next] == v, "handed out message is not the one with the next sequence number");
  have[next] = 0; next++;
}
u32 vp_sink(u32 id, u32 v) {
  VP_ASSERT(!reserved, "message offered to a successor while a reservation is held");
  VP_ASSERT(next < MAXT && have[next] && val[next] == (int)v, "offered message is not the one with the next sequence number");
  int acc = (acc_bits >> noffer) & 1; noffer++;
  if (acc) emitted((int)v, "offer"); else last_offer_rejected = 1;
  return (u32)acc;
}
static void run_one(void) { if (bag_n) { void* t = bag[0]; for (unsigned i = 0; i + 1 < BAGMAX; i++) bag[i] = bag[i + 1]; bag_n--; void* b = vp_run_task(t); VP_ASSERT(b == 0, "unexpected bypass task"); } }
static void run(unsigned accpat) {
  for (int i = 0; i < MAXT; i++) { have[i] = 0; val[i] = 0; }
  next = 0; noffer = 0; acc_bits = accpat; reserved = 0; last_offer_rejected = 0; fg_reset();
  vp_init(1);
  for (int s = 0; s < NOPS; s++) {
    int op = ops[s]; int out = (int)vp_nd(), out0 = out;
    if (op >= 10) { unsigned t = (unsigned)(op - 10); int v = (int)vp_nd();
      for (int i = 0; i < MAXT; i++) if (have[i]) __CPROVER_assume(val[i] != v);
      cur_tag = t; unsigned r = vp_put(v);
      int expect = t >= next && !have[t];
      VP_ASSERT(r == (unsigned)expect, "try_put: accepted iff the number was not emitted yet and is not buffered");
      if (r) { have[t] = 1; val[t] = v; last_offer_rejected = 0; } }
    else if (op == 2) { unsigned r = vp_get(&out);
      VP_ASSERT(r == (unsigned)(next < MAXT && have[next] && !reserved), "try_get: succeeds iff the next number is buffered and not reserved");
      if (r) emitted(out, "get"); else VP_ASSERT(out == out0, "failed try_get wrote its output"); }
    else if (op == 3) { unsigned r = vp_reserve(&out);
      VP_ASSERT(r == (unsigned)(next < MAXT && have[next] && !reserved), "try_reserve: succeeds iff the next number is buffered and not reserved");
      if (r) { VP_ASSERT(out == val[next], "reserved message is not the next one"); reserved = 1; } }
    else if (op == 4) { if (!reserved) continue; vp_release(); reserved = 0; last_offer_rejected = 0; }
    else if (op == 5) { if (!reserved) continue; vp_consume(); reserved = 0; have[next] = 0; next++; last_offer_rejected = 0; }
    else if (op == 6) { if (!bag_n) continue; run_one(); }
    VP_ASSERT(vp_head() == next, "my_head differs from the number of messages emitted");
    VP_ASSERT((vp_reserved() != 0) == (reserved != 0), "reservation flag differs");
  }
  for (int i = 0; i < BAGRUNS; i++) run_one();
  VP_ASSERT(bag_n == 0, "VP bound: tasks still pending after BAGRUNS executions");
  VP_ASSERT(vp_fwd_busy() == 0 && vp_graph_refs() == 0 && n_alloc == n_free, "forwarder / task accounting not settled at quiescence");
  if (!reserved && next < MAXT && have[next]) VP_ASSERT(last_offer_rejected, "next message is buffered and the successor never rejected it: stuck");
  /* every buffered message is still there, at its own index */
  for (unsigned i = 0; i < MAXT; i++) if (have[i]) { VP_ASSERT(i >= next && i < vp_tail() && vp_slot_state(i) != 0 && vp_slot_item(i) == val[i], "buffered message lost or moved"); }
    else if (i >= next && i < vp_tail()) VP_ASSERT(vp_slot_state(i) == 0, "slot of a number that was never put holds a message");
  nrun++;
}
static const unsigned accs[] = { ACCS };
int main(void) {
  for (unsigned a = 0; a < sizeof accs / sizeof accs[0]; a++) run(accs[a]);
  VP_ASSERT(nrun >= 1, "no run of this scenario completed");
  VP_REACHED();
}

/* C15 / join_node<tuple<int,int>, reserving> (JOINKIND 1): the real reserving ports (reservable_predecessor_cache) +
 * join_node_base, with two harness senders as predecessors.  Concrete op list OPS: 1 / 2 = source 0 / 1 receives a new
 * message (and, if the port does not currently hold the edge, registers itself as the port's predecessor, which is what a
 * buffer does after its push was refused), 6 X run the oldest spawned task, 7 G try_get on the join.  Values symbolic;
 * the successor accepts the k-th offered tuple iff bit k of the accept pattern (every pattern in ACCS is run).
 * Oracle: a tuple is offered / returned only while BOTH sources are reserved and consists of exactly the two reserved
 * messages; after an accepted tuple both reservations are consumed (once each), after a rejected one both are released;
 * if one source cannot be reserved the other's reservation is released; no reservation is left pending when a call
 * returns; messages are consumed in source order, never twice; try_get succeeds iff both sources have a message and both
 * edges are held; at quiescence, if both have one and both edges are held, the successor has refused the current tuple. */
#include "w.h"
#include "vp.h"
static const int ops[] = { OPS };
#define NOPS ((int)(sizeof ops / sizeof ops[0]))
#define MAXM (NOPS + 1)
#include "fg_stubs.h"
static int item[2][MAXM]; static unsigned got[2], done[2]; static int registered[2], reserved[2];
static unsigned noffer, acc_bits, nrun, ntuples; static int last_rejected, expect_consume, expect_release, waive;   /* waive: a consumer that pulls with try_get gets no further pushes */
u32 vp_src_reserve(u32 id, u32* v) {
  VP_ASSERT(id < 2 && !reserved[id], "second reservation on a source that is already reserved");
  VP_ASSERT(registered[id], "reserve on a source whose edge the port does not hold");
  if (done[id] == got[id]) return 0;
  *v = (u32)item[id][done[id]]; reserved[id] = 1; return 1;
}
void vp_src_release(u32 id) { VP_ASSERT(id < 2 && reserved[id], "release without reservation"); VP_ASSERT(!expect_consume, "release after an accepted tuple"); reserved[id] = 0; }
void vp_src_consume(u32 id) { VP_ASSERT(id < 2 && reserved[id], "consume without reservation"); VP_ASSERT(expect_consume > 0, "consume although no tuple was accepted (join port popped before the tuple was complete / accepted)");
  reserved[id] = 0; done[id]++; expect_consume--; }
void vp_src_regsucc(u32 id) { VP_ASSERT(id < 2 && registered[id] && !reserved[id], "edge handed back while reserved / not held"); VP_ASSERT(done[id] == got[id], "edge handed back although the source has a message"); registered[id] = 0; }
static void tuple_seen(int x, int y) {
  VP_ASSERT(reserved[0] && reserved[1], "tuple formed although not every port holds a reservation");
  VP_ASSERT(x == item[0][done[0]] && y == item[1][done[1]], "tuple does not consist of the reserved messages");
  VP_ASSERT(expect_consume == 0, "next tuple formed before the accepted one was consumed");
  VP_ASSERT(done[0] == ntuples && done[1] == ntuples, "tuple components are not the i-th messages of their sources");
}
u32 vp_sink2(u32 x, u32 y) {
  tuple_seen((int)x, (int)y);
  int acc = (acc_bits >> noffer) & 1; noffer++;
  if (acc) { expect_consume = 2; ntuples++; last_rejected = 0; } else { expect_release = 1; last_rejected = 1; }
  return (u32)acc;
}
static void settled(void) {
  VP_ASSERT(!reserved[0] && !reserved[1], "a reservation is left pending after the call returned");
  VP_ASSERT(done[0] == ntuples && done[1] == ntuples, "messages consumed != tuples handed out (lost or consumed twice)");
  expect_consume = 0; expect_release = 0;
}
static void run_one(void) { if (bag_n) { void* t = bag[0]; for (unsigned i = 0; i + 1 < BAGMAX; i++) bag[i] = bag[i + 1]; bag_n--; void* bp = vp_run_task(t); VP_ASSERT(bp == 0, "unexpected bypass task"); } }
static void arrive(unsigned id) { if (done[id] == got[id]) last_rejected = 0;   /* the source was empty: this message forms a new front tuple */
  item[id][got[id]++] = (int)vp_nd(); if (!registered[id]) { registered[id] = 1; vp_regpred(id); } }
static void run(unsigned accpat) {
  for (int i = 0; i < 2; i++) { got[i] = done[i] = 0; registered[i] = reserved[i] = 0; }
  noffer = 0; acc_bits = accpat; last_rejected = 0; waive = 0; ntuples = 0; expect_consume = expect_release = 0; fg_reset();
  vp_init(1);
  for (int s = 0; s < NOPS; s++) {
    int op = ops[s];
    if (op == 1) arrive(0);
    else if (op == 2) arrive(1);
    else if (op == 6) { if (!bag_n) continue; run_one(); }
    else if (op == 7) { int x = 0, y = 0;
      int can = registered[0] && registered[1] && done[0] < got[0] && done[1] < got[1];
      expect_consume = can ? 2 : 0;   /* a successful try_get consumes both */
      unsigned r = vp_get(&x, &y);
      VP_ASSERT(r == (unsigned)can, "try_get: succeeds iff both sources are held and have a message");
      if (r) { VP_ASSERT(x == item[0][ntuples] && y == item[1][ntuples], "try_get tuple is not made of the i-th messages"); ntuples++; last_rejected = 0; waive = 1; } }
    settled();
  }
  for (int i = 0; i < BAGRUNS; i++) { run_one(); settled(); }
  VP_ASSERT(bag_n == 0, "VP bound: tasks still pending after BAGRUNS executions");
  VP_ASSERT(vp_graph_refs() == 0 && n_alloc == n_free, "task accounting not settled at quiescence");
  if (!waive && registered[0] && registered[1] && done[0] < got[0] && done[1] < got[1]) VP_ASSERT(last_rejected, "both sources have a message, both edges held, and the tuple was never offered: stuck");
  nrun++;
}
static const unsigned accs[] = { ACCS };
int main(void) {
  for (unsigned k = 0; k < sizeof accs / sizeof accs[0]; k++) run(accs[k]);
  VP_ASSERT(nrun >= 1, "no run of this scenario completed");
  VP_REACHED();
}

// C15 wrapper: routing nodes. ROUTE 0: broadcast_node<int>, 1: split_node<tuple<int,int>>, 2: indexer_node<int,int>
#include "fg_common.h"
struct vp_dummy_task { char c[64]; };
extern "C" void* vp_task_mem(unsigned) { static vp_dummy_task t; return &t; }   // these nodes allocate no tasks (asserted by the harness)
extern "C" unsigned vp_task_size() { return 0; }
extern "C" unsigned vp_sink_tag(unsigned id, unsigned long tag, int v);   // indexer successors: tagged message
#if ROUTE == 0
typedef broadcast_node<int> node_t;
#elif ROUTE == 1
typedef split_node<std::tuple<int, int>> node_t;
#else
typedef indexer_node<int, int> node_t;
struct vp_recv_tag : receiver<node_t::output_type> {
  unsigned id;
  graph_task* try_put_task(const node_t::output_type& t) override {
    // white-box read of the variant payload (cast_to<> needs RTTI/dynamic_cast, which the translator does not model)
    int v = punned_cast<const Wrapper<int>*>(&t.my_msg.my_space)->value();
    return vp_sink_tag(id, t.tag(), v) ? SUCCESSFULLY_ENQUEUED : nullptr; }
  graph& graph_reference() const override { return vp_graph(); }
};
static vp_raw<vp_recv_tag> vp_tsucc[2];
#endif
static vp_raw<node_t> vp_node_mem;
static node_t& N() { return vp_node_mem.x; }
extern "C" {
void vp_init() {
  vp_graph_init(); new (&vp_node_mem.x) node_t(vp_graph());
#if ROUTE == 0
  for (unsigned i = 0; i < 2; i++) { new (&vp_succ(i)) vp_recv(); vp_succ(i).id = i; make_edge(N(), vp_succ(i)); }
#elif ROUTE == 1
  for (unsigned i = 0; i < 2; i++) { new (&vp_succ(i)) vp_recv(); vp_succ(i).id = i; }
  make_edge(output_port<0>(N()), vp_succ(0)); make_edge(output_port<1>(N()), vp_succ(1));
#else
  for (unsigned i = 0; i < 2; i++) { new (&vp_tsucc[i].x) vp_recv_tag(); vp_tsucc[i].x.id = i; make_edge(N(), vp_tsucc[i].x); }
#endif
}
#if ROUTE == 0
unsigned vp_put(int a, int b, unsigned port) { return N().try_put(a); }
#elif ROUTE == 1
unsigned vp_put(int a, int b, unsigned port) { return N().try_put(std::make_tuple(a, b)); }
#else
unsigned vp_put(int a, int b, unsigned port) { return port == 0 ? input_port<0>(N()).try_put(a) : input_port<1>(N()).try_put(a); }
#endif
}

// C15 wrapper: overwrite_node<int> (WO 0) / write_once_node<int> (WO 1)
#include "fg_common.h"
#if WO
typedef write_once_node<int> node_t;
#else
typedef overwrite_node<int> node_t;
#endif
typedef overwrite_node<int>::register_predecessor_task fwd_task_t;   // the only task type of this unit
VP_TASK_STORAGE(fwd_task_t)
static vp_raw<node_t> vp_node_mem;
static node_t& N() { return vp_node_mem.x; }
extern "C" {
void vp_init() { vp_graph_init(); new (&vp_node_mem.x) node_t(vp_graph()); }
void vp_add_succ(unsigned i) { new (&vp_succ(i)) vp_recv(); vp_succ(i).id = i; N().register_successor(vp_succ(i)); }
unsigned vp_put(int v) { return N().try_put(v); }
unsigned vp_get(int* v) { return N().try_get(*v); }
unsigned vp_reserve(int* v) { return N().try_reserve(*v); }
void vp_clear() { N().clear(); }
unsigned vp_valid() { return N().is_valid(); }
}

// C15 wrapper (thread mode): limiter_node<int,int> in pull mode: a forwarder in flight (thread F = the real forward_task())
// racing with a thread W that re-registers the successor and/or delivers a decrement.  The hand-shake that must not lose the
// message: whoever finishes last has to notice that the conditions hold again and create a new forwarder.
#include "fg_common.h"
typedef limiter_node<int, int> node_t;
typedef forward_task_bypass<node_t> fwd_task_t;
VP_TASK_STORAGE(fwd_task_t)
extern "C" unsigned vp_src_reserve(int* v);
extern "C" void vp_src_release();
extern "C" void vp_src_consume();
extern "C" void vp_src_regsucc();
extern "C" unsigned vp_succ_regpred(unsigned id);      // harness: does the refusing successor take the edge (pull mode)?
extern "C" void vp_wait_rejected();                    // harness: blocks until the successor has refused an offer
extern "C" void vp_dec_begin();
extern "C" void vp_fwd_returned(unsigned tid, unsigned has_task);
struct vp_recvt : receiver<int> {
  unsigned id;
  graph_task* try_put_task(const int& t) override { return vp_sink(id, t) ? SUCCESSFULLY_ENQUEUED : nullptr; }
  graph& graph_reference() const override { return vp_graph(); }
  bool register_predecessor(predecessor_type&) override { return vp_succ_regpred(id); }
  bool remove_predecessor(predecessor_type&) override { return false; }
};
struct vp_sendt : sender<int> {
  bool try_get(int&) override { return false; }
  bool try_reserve(int& v) override { return vp_src_reserve(&v); }
  bool try_release() override { vp_src_release(); return true; }
  bool try_consume() override { vp_src_consume(); return true; }
  bool register_successor(successor_type&) override { vp_src_regsucc(); return true; }
  bool remove_successor(successor_type&) override { return true; }
};
static vp_raw<node_t> vp_node_mem;
static vp_raw<vp_recvt> vp_rt;
static vp_raw<vp_sendt> vp_st;
static node_t& N() { return vp_node_mem.x; }
extern "C" {
// F: the body of a forwarder task (forward_task_bypass::execute = my_node.forward_task() + bookkeeping of the task object)
void vp_thr_fwd(unsigned tid) { graph_task* t = N().forward_task(); vp_fwd_returned(tid, t != nullptr); }
// W variants: the successor that refused comes back (register_successor) / a decrement arrives / both
void vp_thr_wreg(unsigned tid) { vp_wait_rejected(); N().node_t::register_successor(vp_rt.x); vp_fwd_returned(tid, 0); }
void vp_thr_wdec(unsigned tid) { vp_dec_begin(); graph_task* t = N().decrement_counter(1); vp_fwd_returned(tid, t != nullptr); }
void vp_thr_wboth(unsigned tid) { vp_wait_rejected(); N().node_t::register_successor(vp_rt.x); vp_dec_begin(); graph_task* t = N().decrement_counter(1); vp_fwd_returned(tid, t != nullptr); }
// sequential pieces
void vp_init(unsigned long threshold) { vp_graph_init(); new (&vp_node_mem.x) node_t(vp_graph(), threshold);
  new (&vp_rt.x) vp_recvt(); vp_rt.x.id = 0; new (&vp_st.x) vp_sendt(); N().node_t::register_successor(vp_rt.x); }
unsigned vp_put(int v) { return N().node_t::try_put_task(v) != nullptr; }
void vp_add_pred() { N().node_t::register_predecessor(vp_st.x); }
unsigned vp_forward_task() { return N().forward_task() != nullptr; }     // what executing a forwarder task does
unsigned long vp_count() { return N().my_count; }
unsigned long vp_tries() { return N().my_tries; }
unsigned long vp_future() { return N().my_future_decrement; }
unsigned vp_has_succ() { return !N().my_successors.empty(); }
unsigned vp_has_pred() { return !N().my_predecessors.empty(); }
unsigned vp_mutex_word() { return N().my_mutex.m_flag.load(std::memory_order_relaxed); }
}

/* link-time stubs for the translator selftest (real C++ object and generated C use the same mangled names) */
#include <stdint.h>
#include <stdlib.h>
void* _ZN3tbb6detail2r122cache_aligned_allocateEm(uint64_t n) { return aligned_alloc(128, (n + 127) & ~127ull); }
void _ZN3tbb6detail2r124cache_aligned_deallocateEPv(void* p) { free(p); }

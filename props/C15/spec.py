PROPERTY = 'C15'
import itertools

OPC = 'PQBRLCGH'
def itembuf_valid(pre, k, ln):
    """mirror of valid_seq() in h_itembuf.c (only used to balance the chunks and to state the expected run count)"""
    n, res, grows = pre, False, 0
    for s in range(ln):
        op = OPC[(k >> (3 * s)) & 7]
        if op == 'P': n += 1
        elif op == 'Q':
            if res: return False
            n = max(0, n - 1)
        elif op == 'B':
            if res and n <= 1: return False
            n = max(0, n - 1)
        elif op == 'R':
            if n > 0 and not res: res = True
        elif op in 'LC':
            if not res: return False
            res = False
            if op == 'C': n -= 1
        else:
            if grows: return False
            grows = 1
    return True

def itembuf_scenarios(pres, ln, orgs, per_query):
    """chunks of sequence numbers [FROM, FROM+CNT) holding about per_query valid sequences each"""
    scs = []
    for pre in pres:
        frm = 0; cnt = 0
        for k in range(8 ** ln):
            cnt += itembuf_valid(pre, k, ln)
            if cnt >= per_query or k == 8 ** ln - 1:
                if cnt: scs.append({'PRE': pre, 'LEN': ln, 'FROM': frm, 'CNT': k + 1 - frm, 'ORGS': ','.join(orgs), 'MINRUN': cnt * len(orgs)})
                frm = k + 1; cnt = 0
    return scs

def bufnode_scenarios(ln, nsuccs, accs, per_query):
    return [{'LEN': ln, 'NSUCC': ns, 'ACCS': ','.join(accs), 'FROM': f, 'CNT': min(per_query, 6 ** (ln - 1) - f)}
            for ns in nsuccs for f in range(0, 6 ** (ln - 1), per_query)]

BOPS = 'TGRLCX'
def bufnode_pick(seqs, nsucc, accs):
    """hand-picked sequences ('T' + rest): one query each; a sequence using op A (late successor) is numbered in base 7"""
    out = []
    for q in seqs:
        assert q[0] == 'T'
        base = 7 if 'A' in q else 6
        k = sum((BOPS + 'A').index(c) * base ** i for i, c in enumerate(q[1:]))
        sc = {'LEN': len(q), 'NSUCC': nsucc, 'ACCS': ','.join(accs), 'FROM': k, 'CNT': 1}
        if base == 7: sc['BASE'] = 7
        out.append(sc)
    return out
def _seq_ops():
    q = []
    for p in itertools.permutations(range(3)):
        q.append(','.join('%d,6' % (10 + t) for t in p) + ',2')
    q += ['10,6,10,11,6', '11,11,10,6,2', '13,10,6,11,12,6', '17,10,6,2', '11,10,3,12,5,6,2', '10,3,4,6', '12,11,10,2,2,2,2', '10,11,3,6,10,5,2']
    th = []
    for p in itertools.permutations(range(4)):
        base = [10 + t for t in p]
        th.append(','.join('%d,6' % o for o in base) + ',2')
        th.append(','.join(map(str, base)) + ',6,2,6')
        for pos in range(1, 5):
            for d in sorted(set(p[:pos])):
                x = base[:pos] + [6, 10 + d] + base[pos:]
                th.append(','.join(map(str, x)) + ',6,2')
    return q, th
SEQ_QUICK, SEQ_THOROUGH = _seq_ops()
OW_QUICK = ['40,1,41,1,2', '1,40,6,6,41,6,2', '1,1,2,8,2,1,3', '40,41,1,8,1,1,2', '1,40,41,6,6,1', '1,2,1,3,8,3', '40,1,1,41,6,1', '1,8,40,1,41,6']
JOIN_QUICK = ['1,2,6', '1,1,2,6,2,6', '2,2,1,6,1,6', '1,2,6,7,1,2,7', '1,1,2,2,6,7', '2,1,6,1,2,6,7', '1,2,1,2,6,7,7', '2,2,2,1,6,1,6,1,6', '1,1,1,1,1,2,6,2,6', '1,2,7,7,2,1,6']
LIM_QUICK = [(1, '1,1,21,1'), (2, '1,1,1,22,1,1'), (1, '51,1,1'), (2, '1,52,1,1'), (2, '53,1,1,1'), (1, '1,23,1,1'), (3, '1,1,1,1,23,1,1,1'), (1, '20,1,1'),
             (1, '4,3,3,21,3'), (2, '4,3,3,3,22,3'), (2, '1,4,22,3,1'), (1, '4,1,3,21,3'), (2, '4,3,1,3,21')]
PRIO_QUICK = [('TTTTGG', '0'), ('TTTGGG', '0'), ('TTTXG', '1'), ('TTRTLG', '0'), ('TTTRCG', '0'), ('TTXTXG', '3')]
# a reserver (try_reserve ... try_consume/try_release) next to an accepting push successor; 0-2 puts arrive during the reservation, the forwarder
# task that was pending runs (and gives up) WHILE reserved, so that only the end of the reservation can restart forwarding
RSV_SEQS = ['TRXC', 'TRXL', 'TRTXC', 'TRTXL', 'TRTTXC', 'TRTTXL', 'TXRTXL', 'TXRTXC', 'TRAXL', 'TRTAXC', 'TRTXAXC', 'TRXAXL', 'TXAX']   # A: a second push successor registers during the reservation
BUF_QUICK = ['TTXG', 'TRXLX', 'TRGC', 'TTRGCG', 'TRCTX', 'TXTXG', 'TTTTTXG', 'TRLG', 'TXRTCX', 'TTXGGG']

AGGCUT = ['E7executeINS1_19aggregating_functorI']   # aggregator_generic<Op>::execute<aggregating_functor<Node,Op>>
UNITS = {
  'bufnode': dict(wrapper='w_bufnode.cpp', mode='seq', cxxflags=['-DNODEKIND=0'], looporder=True, cut=['prioritize_task'], devirt=True, prune=True, inline_threshold=300, m1ptr=True),
  'prionode': dict(wrapper='w_bufnode.cpp', mode='seq', cxxflags=['-DNODEKIND=2'], looporder=True, cut=['prioritize_task'], devirt=True, prune=True, inline_threshold=300, m1ptr=True),
  'limiter': dict(wrapper='w_limiter.cpp', mode='seq', looporder=True, cut=['prioritize_task'], devirt=True, prune=True, inline_threshold=300, m1ptr=True),
  'seqnode': dict(wrapper='w_bufnode.cpp', mode='seq', cxxflags=['-DNODEKIND=3'], looporder=True, cut=['prioritize_task'], devirt=True, prune=True, inline_threshold=300, m1ptr=True),
  'joinq': dict(wrapper='w_join.cpp', mode='seq', cxxflags=['-DJOINKIND=0'], looporder=True, cut=['prioritize_task'], prune=True, inline_threshold=300, m1ptr=True),
  'joinr': dict(wrapper='w_join.cpp', mode='seq', cxxflags=['-DJOINKIND=1'], looporder=True, cut=['prioritize_task'], prune=True, inline_threshold=300, m1ptr=True),
  'overwrite': dict(wrapper='w_overwrite.cpp', mode='seq', cxxflags=['-DWO=0'], looporder=True, cut=['prioritize_task'], prune=True, inline_threshold=300, m1ptr=True),
  'writeonce': dict(wrapper='w_overwrite.cpp', mode='seq', cxxflags=['-DWO=1'], looporder=True, cut=['prioritize_task'], prune=True, inline_threshold=300, m1ptr=True),
  'route_broadcast': dict(wrapper='w_route.cpp', mode='seq', cxxflags=['-DROUTE=0'], looporder=True, cut=['prioritize_task'], prune=True, inline_threshold=300, m1ptr=True),
  'route_split': dict(wrapper='w_route.cpp', mode='seq', cxxflags=['-DROUTE=1'], looporder=True, cut=['prioritize_task'], prune=True, inline_threshold=300, m1ptr=True),
  'route_indexer': dict(wrapper='w_route.cpp', mode='seq', cxxflags=['-DROUTE=2'], looporder=True, cut=['prioritize_task'], prune=True, inline_threshold=300, m1ptr=True),
  'ow_thr2': dict(wrapper='w_ow_thr.cpp', mode='lcs', unroll=2, cxxflags=['-DWO=0'], devirt=['vp_recvt'], threads={'vp_thr_put': ['a', 'b']}),
  'ow_thr3': dict(wrapper='w_ow_thr.cpp', mode='lcs', unroll=2, cxxflags=['-DWO=0'], devirt=['vp_recvt'], threads={'vp_thr_put': ['a', 'b', 'c']}),
  'wo_thr2': dict(wrapper='w_ow_thr.cpp', mode='lcs', unroll=2, cxxflags=['-DWO=1'], devirt=['vp_recvt'], threads={'vp_thr_put': ['a', 'b']}),
  'wo_thr3': dict(wrapper='w_ow_thr.cpp', mode='lcs', unroll=2, cxxflags=['-DWO=1'], devirt=['vp_recvt'], threads={'vp_thr_put': ['a', 'b', 'c']}),
  'lim_thr2': dict(wrapper='w_lim_thr.cpp', mode='lcs', unroll=2, devirt=['vp_recvt'], cut=['prioritize_task', 'spawn_in_graph_arena', 'try_reserve_impl', 'forward_task_bypassINS1_12limiter_node'], threads={'vp_thr_limput': ['a', 'b'], 'vp_thr_limdec': ['a', 'b']}),
  'lim_pull2': dict(wrapper='w_lim_pull.cpp', mode='lcs', unroll=2, devirt=['vp_recvt', 'vp_sendt'], cut=['spawn_in_graph_arena', 'forward_task_bypassINS1_12limiter_node', 'd110spin_mutex4lockEv', 'd110spin_mutex6unlockEv', 'd113spin_rw_mutex4lockEv', 'd113spin_rw_mutex6unlockEv', 'd113spin_rw_mutex11lock_sharedEv', 'd113spin_rw_mutex13unlock_sharedEv', 'EE16_M_push_back_auxIJ', 'EE16_M_pop_front_auxEv'],
                    threads={'vp_thr_fwd': ['a'], 'vp_thr_wreg': ['b'], 'vp_thr_wdec': ['b'], 'vp_thr_wboth': ['b']}),
  'queuenode': dict(wrapper='w_bufnode.cpp', mode='seq', cxxflags=['-DNODEKIND=1'], looporder=True, cut=['prioritize_task'], devirt=True, prune=True, inline_threshold=300, m1ptr=True),
  'itembuf': dict(wrapper='w_itembuf.cpp', mode='seq', cxxflags=[], selftest=True, looporder=True),
}
FS = ['--max-field-sensitivity-array-size', '600', '--object-bits', '12', '--no-sat-preprocessor']   # cbmc constant-propagates array cells only up to this size (default 64)
HARNESSES = [
  dict(name='itembuf', unit='itembuf', harness='h_itembuf.c', cbmc=['--unwind', '600'] + FS,
       thorough_override={'cbmc': ['--unwind', '1500'] + FS},   # thorough queries pack up to 1341 sequences into one main loop
       scenarios_quick=itembuf_scenarios([0], 3, ['4294967295'], 14) + itembuf_scenarios([3], 3, ['2'], 14),
       scenarios_thorough=itembuf_scenarios([0, 3, 4, 7], 4, ['5', '4294967294'], 12) + itembuf_scenarios([3], 5, ['1099511627779'], 14),
       desc='reservable_item_buffer<int>: every caller-contract-respecting sequence of LEN ops over {push_back, pop_front, pop_back, reserve_front, release_front, '
            'consume_front, grow_my_array(size+1), grow_my_array(2cap+1)} after PRE pushes from ring origin(s) ORGS; values symbolic; after every step contents/order/'
            'size/reservation/slot states equal an abstract FIFO; drain returns everything once in order',
       bounds={'ops per sequence': 'quick 3, thorough 4 (prefill 0,3,4,7) and 5 (prefill 3): all sequences enumerated; concrete control', 'prefill': 'quick 0,3; thorough 0,3,4,7',
               'ring origin': 'concrete per scenario (phases 0,1,2,3,5 and values around 2^32 / 2^40)', 'capacity reached': '<= 32', 'item values': 'symbolic 32-bit'},
       timeout=300),
  dict(name='queue_node', unit='queuenode', harness='h_bufnode.c', cbmc=['--unwind', '40'] + FS, defines={'KIND': 1},
       scenarios_quick=bufnode_pick(BUF_QUICK, 1, ['0', '1', '2']) + bufnode_pick(BUF_QUICK[:4], 2, ['2', '5']),
       scenarios_thorough=bufnode_scenarios(4, [1, 2], ['0', '1', '2', '5'], 2) + [dict(sc, LEN=5, FROM=6 * sc['FROM']) for sc in bufnode_scenarios(4, [1], ['0', '1', '2', '7'], 1)],
       desc='queue_node<int> through its public interface (try_put/try_get/try_reserve/try_release/try_consume, forwarder task, 1-2 successors with '
            'concrete accept patterns): every hand-out is the oldest buffered message, nothing handed out while reserved or twice, nothing lost, '
            'forwarder_busy/graph wait count consistent at quiescence, no stuck message',
       bounds={'ops per sequence': 'quick: 10 hand-picked sequences of 4-7 ops; thorough: all sequences of 4 ops (first op try_put) and all of 5 ops starting with two puts', 'successors': '1-2',
               'accept patterns': 'concrete bit patterns per scenario', 'message values': 'symbolic, pairwise distinct'}, timeout=400),
  dict(name='priority_queue_node', unit='prionode', harness='h_bufnode.c', cbmc=['--unwind', '40'] + FS, defines={'KIND': 2},
       scenarios_quick=[sc for q, a in PRIO_QUICK for sc in bufnode_pick([q], 1, [a])],
       scenarios_thorough=bufnode_scenarios(4, [1], ['1'], 1) +
                          [sc for q, a in (('TTTTGGGG', '0'), ('TTTTXGG', '1'), ('TTTRTLGG', '0'), ('TTXTTXGG', '2')) for sc in bufnode_pick([q], 1, [a])],
       desc='priority_queue_node<int> (std::less), same driver: every hand-out (get / reserve / accepted offer) is a maximum of the buffered values (heapify/reheap/'
            'prio_use_tail with symbolic values), reserve takes the maximum aside and release puts it back, nothing lost or duplicated',
       bounds={'ops per sequence': 'quick: 6 hand-picked sequences of 5-6 ops; thorough: all sequences of 4 ops + 4 longer sequences with 4 items', 'heap size': '<= 4',
               'successors': '1', 'accept patterns': 'concrete', 'message values': 'symbolic, pairwise distinct'}, timeout=600, thorough_override={'timeout': 2400}),
  dict(name='limiter_node', unit='limiter', harness='h_limiter.c', cbmc=['--unwind', '20'] + FS, defines={'memset': 'vp_memset', 'BAGRUNS': 16},
       scenarios_quick=[{'THR': t, 'OPS': o, 'ACCS': '15,0,5,10', 'AVAIL': 2} for t, o in LIM_QUICK],
       scenarios_thorough=[{'THR': 1, 'OPS': ','.join(q), 'ACCS': '15,0,5,10', 'AVAIL': 2} for q in itertools.product(['1', '21', '22', '51', '52'], repeat=4)] +
                          [{'THR': 2, 'OPS': ','.join(q), 'ACCS': '15,0,5,10', 'AVAIL': 2} for q in itertools.product(['1', '21', '51', '52'], repeat=4)] +
                          [{'THR': 2, 'OPS': '4,' + ','.join(q), 'ACCS': '15,0,5,10', 'AVAIL': 2} for q in itertools.product(['1', '3', '21', '22'], repeat=4)] +
                          [{'THR': 3, 'OPS': o, 'ACCS': '15,0,5,10,3,12', 'AVAIL': 3} for t, o in LIM_QUICK],
       desc='limiter_node<int,int>: try_put / decrementer (delta 0..3, also re-entrant = arriving while the put is in flight) / pull from a predecessor by the '
            'forwarder task (reserve -> put -> consume|release, retry forwarder), successor with concrete accept patterns: forwarded - sum of decrements <= threshold '
            'at every forward, a put is refused unoffered only when the truncating count is at the threshold, rejected messages leave the counters unchanged, '
            'my_tries returns to 0, reservations are consumed or released exactly once',
       bounds={'threshold': '1-3 concrete', 'ops per sequence': 'quick: 13 hand-picked sequences of 3-8 ops; thorough: all 4-op sequences over {put, dec 1, dec 2, put+dec 1, put+dec 2} (threshold 1; without dec 2 for threshold 2) and, threshold 2 '
               'with a predecessor, over {put, run task, dec 1, dec 2} (re-entrant decrement with a cached predecessor excluded: real self-deadlock, see NOTES)', 'accept patterns': '4-6 concrete 4-bit patterns per query', 'predecessor items': '2-3', 'message values': 'symbolic'}, timeout=400),
  dict(name='sequencer_node', unit='seqnode', harness='h_seqnode.c', cbmc=['--unwind', '40'] + FS,
       scenarios_quick=[{'OPS': o, 'ACCS': '15,0,5'} for o in SEQ_QUICK],
       scenarios_thorough=[{'OPS': o, 'ACCS': '15,0,5,10,6,9'} for o in SEQ_THOROUGH],
       desc='sequencer_node<int>: puts with concrete sequence numbers (permutations of 0..2 / 0..3, duplicates, numbers below head, a far number forcing grow) '
            'interleaved with forwarder runs, try_get, reserve/release/consume: emitted sequence is exactly 0,1,2,... (no gap, duplicate, overtaking), '
            'puts of emitted or buffered numbers are rejected without effect, buffered messages stay at their index',
       bounds={'sequence numbers': 'quick: all permutations of 0..2 + 8 special sequences; thorough: all permutations of 0..3 in two interleavings, each also with one duplicate '
               'put inserted at every position', 'successors': '1, concrete accept patterns (3 / 6 per query)', 'message values': 'symbolic, distinct'}, timeout=400),
  dict(name='join_queueing', unit='joinq', harness='h_join.c', cbmc=['--unwind', '40'] + FS, defines={'memset': 'vp_memset'},
       scenarios_quick=[{'OPS': o, 'ACCS': '15,0,5,2'} for o in JOIN_QUICK],
       scenarios_thorough=[{'OPS': ','.join(q), 'ACCS': '15,0,5,10'} for q in itertools.product('1267', repeat=5) if q[0] in '12' and '1' in q and '2' in q],
       desc='join_node<tuple<int,int>, queueing>: puts on the two ports, forwarder task, try_get: i-th tuple handed out = (i-th message of port 0, i-th of port 1), only complete '
            'tuples, a rejected tuple stays and is offered again unchanged, nothing lost (final drain)',
       bounds={'ops per sequence': 'quick: 10 hand-picked sequences of 3-9 ops; thorough: all sequences of 5 ops over {put port 0, put port 1, run task, try_get} using both ports',
               'accept patterns': '4 concrete patterns per query', 'message values': 'symbolic'}, timeout=400),
  dict(name='join_reserving', unit='joinr', harness='h_joinres.c', cbmc=['--unwind', '40'] + FS, defines={'memset': 'vp_memset'},
       scenarios_quick=[{'OPS': o, 'ACCS': '15,0,5,2'} for o in JOIN_QUICK],
       scenarios_thorough=[{'OPS': ','.join(q), 'ACCS': '15,0,5,10'} for q in itertools.product('1267', repeat=5) if q[0] in '12' and '1' in q and '2' in q],
       desc='join_node<tuple<int,int>, reserving> with two harness predecessors: a tuple is formed only while both sources are reserved and consists of the reserved '
            'messages; accepted -> both consumed once, rejected or partial -> all reservations released, none left pending; i-th tuple = i-th messages; try_get iff both available',
       bounds={'ops per sequence': 'quick: 10 hand-picked sequences of 3-9 ops; thorough: all sequences of 5 ops over {message at source 0, at source 1, run task, try_get} using both sources',
               'accept patterns': '4 concrete patterns per query', 'message values': 'symbolic'}, timeout=400),
  dict(name='overwrite_node', unit='overwrite', harness='h_overwrite.c', cbmc=['--unwind', '16'] + FS, defines={'memset': 'vp_memset', 'WO': 0},
       scenarios_quick=[{'OPS': o, 'ACCS': '15,0,5,10,2'} for o in OW_QUICK],
       scenarios_thorough=[{'OPS': ','.join(q), 'ACCS': '15,0,5,10,2,6,9'} for q in itertools.product(['1', '2', '40', '41', '6', '8'], repeat=4) if '1' in q and ('40' in q or '41' in q)],
       desc='overwrite_node<int>: try_put / try_get / try_reserve / clear / late successor registration with the retry task, two successors with concrete accept patterns: '
            'the node holds the latest value and returns exactly it; every taken put is offered once to each registered successor; a successor registered while a value is '
            'held is offered it at once and again by the retry task until it accepts',
       bounds={'ops per sequence': 'quick: 8 hand-picked sequences of 5-7 ops; thorough: all 4-op sequences over {put, get, register succ 0/1, run task, clear} containing a put and a registration',
               'successors': '2', 'accept patterns': '5 / 7 concrete 4-bit patterns per query', 'values': 'symbolic'}, timeout=400),
  dict(name='write_once_node', unit='writeonce', harness='h_overwrite.c', cbmc=['--unwind', '16'] + FS, defines={'memset': 'vp_memset', 'WO': 1},
       scenarios_quick=[{'OPS': o, 'ACCS': '15,0,5,10,2'} for o in OW_QUICK],
       scenarios_thorough=[{'OPS': ','.join(q), 'ACCS': '15,0,5,10,2,6,9'} for q in itertools.product(['1', '2', '40', '41', '6', '8'], repeat=4) if '1' in q and ('40' in q or '41' in q)],
       desc='write_once_node<int>: try_put / try_get / try_reserve / clear / late successor registration with the retry task, two successors with concrete accept patterns: '
            'the node holds the first (since the last clear) value and returns exactly it; every taken put is offered once to each registered successor; a successor registered while a value is '
            'held is offered it at once and again by the retry task until it accepts; puts while a value is held are refused and forwarded to nobody',
       bounds={'ops per sequence': 'quick: 8 hand-picked sequences of 5-7 ops; thorough: all 4-op sequences over {put, get, register succ 0/1, run task, clear} containing a put and a registration',
               'successors': '2', 'accept patterns': '5 / 7 concrete 4-bit patterns per query', 'values': 'symbolic'}, timeout=400),
  dict(name='broadcast_node', unit='route_broadcast', harness='h_route.c', cbmc=['--unwind', '16'] + FS, defines={'memset': 'vp_memset', 'ROUTE': 0, 'NPUT': 3},
       scenarios=[{'ACC': a} for a in (63, 0, 21, 42)], thorough_override={'defines': {'memset': 'vp_memset', 'ROUTE': 0, 'NPUT': 4}},
       desc='broadcast_node with two harness successors: every put is offered exactly once, unchanged, to every successor; try_put succeeds; no task is spawned',
       bounds={'puts': 'quick 3, thorough 4', 'successors': '2', 'accept patterns': '4 concrete', 'values': 'symbolic'}, timeout=300),
  dict(name='split_node', unit='route_split', harness='h_route.c', cbmc=['--unwind', '16'] + FS, defines={'memset': 'vp_memset', 'ROUTE': 1, 'NPUT': 3},
       scenarios=[{'ACC': a} for a in (63, 0, 21, 42)], thorough_override={'defines': {'memset': 'vp_memset', 'ROUTE': 1, 'NPUT': 4}},
       desc='split_node with two harness successors: tuple element i is offered exactly once to the successor of output port i and to nobody else; try_put succeeds; no task is spawned',
       bounds={'puts': 'quick 3, thorough 4', 'successors': '2', 'accept patterns': '4 concrete', 'values': 'symbolic'}, timeout=300),
  dict(name='indexer_node', unit='route_indexer', harness='h_route.c', cbmc=['--unwind', '16'] + FS, defines={'memset': 'vp_memset', 'ROUTE': 2, 'NPUT': 3},
       scenarios=[{'ACC': a} for a in (63, 0, 21, 42)], thorough_override={'defines': {'memset': 'vp_memset', 'ROUTE': 2, 'NPUT': 4}},
       desc='indexer_node with two harness successors: a message put on input port p (symbolic choice) reaches every successor exactly once as a tagged message with tag p and the same value; try_put succeeds; no task is spawned',
       bounds={'puts': 'quick 3, thorough 4', 'successors': '2', 'accept patterns': '4 concrete', 'values': 'symbolic'}, timeout=300),
  dict(name='write_once_node_threads', unit='wo_thr2', harness='h_ow_thr.c', cbmc=['--unwind', '12', '--object-bits', '12'], native_cflags=['-fno-sanitize=null'], defines={'memset': 'vp_memset', 'WO': 1, 'NT': 2, 'ROUNDS': 2},
       scenarios=[{'PRE': 0}, {'PRE': 1}],
       desc='write_once_node<int>, concurrent try_put by 2 (thorough: also 3) threads on a node holding no value (fresh / after clear()), one successor present; all interleavings of the real '
            'try_put_task (spin_mutex critical section, value+flag update, broadcast_cache forwarding) within the slice bound; then try_get and a late successor: exactly one put accepted, successor/try_get/late successor all see that value; no putter blocked for ever, mutex free',
       bounds={'threads': 2, 'free_rounds': 2, 'forced_rounds': 2, 'spin_unroll': 2, 'memory_model': 'SC', 'values': 'symbolic, distinct'}, timeout=900, thorough_override={'defines': {'memset': 'vp_memset', 'WO': 1, 'NT': 2, 'ROUNDS': 3}, 'timeout': 1800, 'bounds': {'threads': 2, 'free_rounds': 3, 'forced_rounds': 2, 'spin_unroll': 2, 'memory_model': 'SC', 'values': 'symbolic, distinct'}}),
  dict(name='write_once_node_threads_3t', unit='wo_thr3', harness='h_ow_thr.c', cbmc=['--unwind', '12', '--object-bits', '12'], native_cflags=['-fno-sanitize=null'], defines={'memset': 'vp_memset', 'WO': 1, 'NT': 3, 'ROUNDS': 2},
       scenarios=[{'PRE': 0}, {'PRE': 1}],
       desc='write_once_node<int>, concurrent try_put by 2 (thorough: also 3) threads on a node holding no value (fresh / after clear()), one successor present; all interleavings of the real '
            'try_put_task (spin_mutex critical section, value+flag update, broadcast_cache forwarding) within the slice bound; then try_get and a late successor: exactly one put accepted, successor/try_get/late successor all see that value; no putter blocked for ever, mutex free',
       bounds={'threads': 3, 'free_rounds': 2, 'forced_rounds': 2, 'spin_unroll': 2, 'memory_model': 'SC', 'values': 'symbolic, distinct'}, timeout=3000, tiers=['thorough']),
  dict(name='overwrite_node_threads', unit='ow_thr2', harness='h_ow_thr.c', cbmc=['--unwind', '12', '--object-bits', '12'], native_cflags=['-fno-sanitize=null'], defines={'memset': 'vp_memset', 'WO': 0, 'NT': 2, 'ROUNDS': 2},
       scenarios=[{'PRE': 0}, {'PRE': 1}],
       desc='overwrite_node<int>, concurrent try_put by 2 (thorough: also 3) threads on a node holding no value (fresh / after clear()), one successor present; all interleavings of the real '
            'try_put_task (spin_mutex critical section, value+flag update, broadcast_cache forwarding) within the slice bound; then try_get and a late successor: all puts accepted, each value forwarded once, held value = last forwarded; no putter blocked for ever, mutex free',
       bounds={'threads': 2, 'free_rounds': 2, 'forced_rounds': 2, 'spin_unroll': 2, 'memory_model': 'SC', 'values': 'symbolic, distinct'}, timeout=900, thorough_override={'defines': {'memset': 'vp_memset', 'WO': 0, 'NT': 2, 'ROUNDS': 3}, 'timeout': 1800, 'bounds': {'threads': 2, 'free_rounds': 3, 'forced_rounds': 2, 'spin_unroll': 2, 'memory_model': 'SC', 'values': 'symbolic, distinct'}}),
  dict(name='overwrite_node_threads_3t', unit='ow_thr3', harness='h_ow_thr.c', cbmc=['--unwind', '12', '--object-bits', '12'], native_cflags=['-fno-sanitize=null'], defines={'memset': 'vp_memset', 'WO': 0, 'NT': 3, 'ROUNDS': 2},
       scenarios=[{'PRE': 0}, {'PRE': 1}],
       desc='overwrite_node<int>, concurrent try_put by 2 (thorough: also 3) threads on a node holding no value (fresh / after clear()), one successor present; all interleavings of the real '
            'try_put_task (spin_mutex critical section, value+flag update, broadcast_cache forwarding) within the slice bound; then try_get and a late successor: all puts accepted, each value forwarded once, held value = last forwarded; no putter blocked for ever, mutex free',
       bounds={'threads': 3, 'free_rounds': 2, 'forced_rounds': 2, 'spin_unroll': 2, 'memory_model': 'SC', 'values': 'symbolic, distinct'}, timeout=3000, tiers=['thorough']),
  dict(name='limiter_node_threads', unit='lim_thr2', harness='h_lim_thr.c', cbmc=['--unwind', '12', '--object-bits', '12'], native_cflags=['-fno-sanitize=null'],
       defines={'memset': 'vp_memset', 'ROUNDS': 2}, tiers=['thorough'], timeout=3000,
       scenarios=[{'THR': 1, 'PRE': 1, 'OP0': 0, 'OP1': 1}, {'THR': 1, 'PRE': 0, 'OP0': 0, 'OP1': 0}, {'THR': 2, 'PRE': 1, 'OP0': 0, 'OP1': 0}, {'THR': 2, 'PRE': 2, 'OP0': 0, 'OP1': 1}],
       desc='limiter_node<int,int>, 2 threads: a try_put racing a decrement at the threshold, and two try_puts racing for the last free slot (real try_put_task_impl / decrement_counter / '
            'forward_task under my_mutex and the cache mutexes; successor accepts): forwarded - decrements started <= threshold at every forward, accepted puts <= room + decrements, '
            'at least one racing put accepted when there is room, my_tries == 0, my_future_decrement == 0, my_count == forwarded - decrements at quiescence, nobody blocked, mutex free',
       bounds={'threads': 2, 'free_rounds': 2, 'forced_rounds': 2, 'spin_unroll': 2, 'memory_model': 'SC', 'threshold': '1-2', 'cut': 'prioritize_task, spawn_in_graph_arena, '
               'reservable_predecessor_cache::try_reserve_impl, forwarder task constructor (all proved unreachable in these scenarios: no predecessor)'}),
  dict(name='limiter_pull_threads', unit='lim_pull2', harness='h_lim_pull.c', cbmc=['--unwind', '12', '--object-bits', '12'], native_cflags=['-fno-sanitize=null'],
       defines={'memset': 'vp_memset', 'ROUNDS': 1}, tiers=['thorough'], timeout=7200, mem_gb=16,
       scenarios=[{'WOP': 0, 'REGP': 1}, {'WOP': 1, 'REGP': 0}],   # WOP 2 (both in sequence) passes too but needs ~50 min: not registered
       desc='limiter_node<int,int> in pull mode, 2 threads: F = the real forward_task() of a forwarder in flight (reserves from a one-item harness predecessor, is refused by the successor, '
            'releases, re-checks), W = the refusing successor re-registering (real register_successor) and/or a decrement (real decrement_counter -> forward_task inline). No stuck message: '
            'at quiescence NOT (count+tries < threshold AND predecessor holds an unreserved message AND successor registered AND no forwarder task pending); my_tries == 0, my_count exact, '
            'forwarded - decrements <= threshold, reservation protocol, nobody blocked for ever',
       bounds={'threads': 2, 'free_rounds': 1, 'forced_rounds': 2, 'memory_model': 'SC', 'threshold': 2, 'predecessor': 'one message', 'successor': 'refuses the first pulled offer, accepts later',
               'cut': 'spin_mutex / spin_rw_mutex lock operations -> abstract locks (parking callers; the locks are C08), forwarder-task constructor (= a task exists), spawn_in_graph_arena, '
                      'std::deque slow paths (asserted unreachable); created forwarder tasks are counted, not executed'}),
  dict(name='queue_node_reserver', unit='queuenode', harness='h_bufnode.c', cbmc=['--unwind', '40'] + FS, defines={'KIND': 1},
       scenarios=bufnode_pick(RSV_SEQS, 1, ['255', '254']),
       desc='queue_node<int> with two successors of different kind: an accepting push successor S and a reserver (the harness calls try_reserve / try_consume / try_release); 0-2 further puts '
            'arrive during the reservation and the pending forwarder task runs (and gives up) while the item is reserved; after the end of the reservation (consume / release) and the '
            'forwarder tasks it must restart, no message stays buffered although S accepts (each delivered to S exactly once, in arrival order), forwarder_busy and my_reserved are clear',
       bounds={'sequences': '12 hand-picked (reserve; 0-2 puts and/or a second push successor registering; forwarder run(s); consume | release), also with a first offer refused before the reservation', 'push successor': 'accepts everything / refuses the first offer',
               'message values': 'symbolic, pairwise distinct'}, timeout=400),
  dict(name='buffer_node_reserver', unit='bufnode', harness='h_bufnode.c', cbmc=['--unwind', '40'] + FS, defines={'KIND': 0},
       scenarios=bufnode_pick(RSV_SEQS, 1, ['255', '254']),
       desc='buffer_node<int> with two successors of different kind: an accepting push successor S and a reserver (the harness calls try_reserve / try_consume / try_release); 0-2 further puts '
            'arrive during the reservation and the pending forwarder task runs (and gives up) while the item is reserved; after the end of the reservation (consume / release) and the '
            'forwarder tasks it must restart, no message stays buffered although S accepts (each delivered to S exactly once, any order), forwarder_busy and my_reserved are clear',
       bounds={'sequences': '12 hand-picked (reserve; 0-2 puts and/or a second push successor registering; forwarder run(s); consume | release), also with a first offer refused before the reservation', 'push successor': 'accepts everything / refuses the first offer',
               'message values': 'symbolic, pairwise distinct'}, timeout=400),
  dict(name='priority_queue_node_reserver', unit='prionode', harness='h_bufnode.c', cbmc=['--unwind', '40'] + FS, defines={'KIND': 2},
       scenarios=bufnode_pick(RSV_SEQS, 1, ['255', '254']),
       desc='priority_queue_node<int> with two successors of different kind: an accepting push successor S and a reserver (the harness calls try_reserve / try_consume / try_release); 0-2 further puts '
            'arrive during the reservation and the pending forwarder task runs (and gives up) while the item is reserved; after the end of the reservation (consume / release) and the '
            'forwarder tasks it must restart, no message stays buffered although S accepts (each delivered to S exactly once, highest priority first), forwarder_busy and my_reserved are clear',
       bounds={'sequences': '12 hand-picked (reserve; 0-2 puts and/or a second push successor registering; forwarder run(s); consume | release), also with a first offer refused before the reservation', 'push successor': 'accepts everything / refuses the first offer',
               'message values': 'symbolic, pairwise distinct'}, timeout=400),
  dict(name='buffer_node', unit='bufnode', harness='h_bufnode.c', cbmc=['--unwind', '40'] + FS, defines={'KIND': 0},
       # thorough: MiniSat (cbmc's default) does not return from the second incremental call on ~10 of the 5-op sequences (400 s); cadical decides them in seconds
       thorough_override={'cbmc': ['--unwind', '40'] + [x for x in FS if x != '--no-sat-preprocessor'] + ['--sat-solver', 'cadical']},
       scenarios_quick=bufnode_pick(BUF_QUICK, 1, ['0', '1', '2']) + bufnode_pick(BUF_QUICK[:4], 2, ['2', '5']),
       scenarios_thorough=bufnode_scenarios(4, [1, 2], ['0', '1', '2', '5'], 2) + [dict(sc, LEN=5, FROM=6 * sc['FROM']) for sc in bufnode_scenarios(4, [1], ['0', '1', '2', '7'], 1)],
       desc='buffer_node<int>, same driver: every hand-out is a buffered unreserved message (try_get never returns the reserved one), nothing twice, nothing '
            'lost after release/consume',
       bounds={'ops per sequence': 'quick: 10 hand-picked sequences of 4-7 ops; thorough: all sequences of 4 ops (first op try_put) and all of 5 ops starting with two puts', 'successors': '1-2',
               'accept patterns': 'concrete bit patterns per scenario', 'message values': 'symbolic, pairwise distinct'}, timeout=400),
]
MANIFEST = dict(
  level_text='Bounded symbolic execution (clang-14 IR -> tools/ir2c.py -> cbmc) of the real flow-graph node code, one node type per unit, single caller thread: '
             'item_buffer / reservable_item_buffer ring, buffer_node, queue_node, priority_queue_node, sequencer_node, limiter_node, join_node (queueing and reserving, 2 ports), '
             'overwrite_node, write_once_node, broadcast_node, split_node, indexer_node. Each node is driven through its public interface (plus the forwarder tasks it spawns, '
             'collected by the r1::submit stub and run by the harness) by enumerated operation sequences with concrete successor accept/reject patterns; message values are symbolic '
             '(priority_queue_node: symbolic priorities decide the heap paths). Oracles are abstract specifications (FIFO with front reservation, multiset, max-heap, sequence counter, '
             'outstanding-count bound, per-port FIFOs / reservation protocol, held-value register, routing table) checked after every step and at quiescence.',
  level_note='Operation sequences and accept patterns are enumerated concretely (quick: hand-picked; thorough: exhaustive up to 4-5 ops per node) because cbmc cannot bound the real loops '
             'or dispatch on graph_task* values when they are symbolic; the solver quantifies over message values only (and over priorities / input-port choice where stated). '
             'The aggregator is modelled as run-handler-inline (single caller); concurrency at aggregator-based nodes and join ports, key_matching joins, '
             'joins with more than 2 ports, node priorities, try_put_and_wait metainfo, reset/cancellation are outside (exception: concurrent try_put on overwrite_node / write_once_node and put-vs-decrement on limiter_node are checked in thread mode, 2-3 threads, bounded schedules). limiter_node with a decrement delivered synchronously on the '
             'forwarding thread while a predecessor is cached is excluded (real self-deadlock, props/C15/repro_limiter_selfdeadlock.cpp). Trusted: clang-14 IR, tools/ir2c.py '
             '(item_buffer unit validated per run by the selftest differential), cbmc.',
)
OUTSIDE = [
  'several threads calling into one aggregator-based node at once (buffer/queue/priority/sequencer nodes, join ports fed concurrently): the aggregator is replaced by its uncontended behaviour. Concurrent callers ARE covered for the spin_mutex-guarded nodes: overwrite_node / write_once_node try_put (2 threads quick, 3 thorough) and limiter_node put-vs-decrement / put-vs-put (2 threads, thorough); and the limiter pull-mode hand-shake (forwarder in flight vs re-registering successor / decrement, 2 threads, thorough); not covered concurrently: overwrite try_get/register_successor/clear racing a put, limiter pull mode with more than one predecessor item / several forwarders running at once / register_predecessor racing, continue_receiver, broadcast_node / split_node / indexer_node successor caches (spin_rw_mutex)',
  'join_node with key_matching / tag_matching policy (hash buffers, key count table) and joins with more than 2 ports',
  'limiter_node: a decrement delivered synchronously on the thread that is forwarding (lightweight successor feeding the decrementer) while the limiter holds a cached predecessor and count+tries < threshold: '
  'the real code self-deadlocks on broadcast_cache\'s spin_rw_mutex (liveness defect, reproducer props/C15/repro_limiter_selfdeadlock.cpp); these scenarios are not generated',
  'symbolic operation choice, symbolic accept/reject patterns, symbolic ring origin: enumerated concretely instead (cbmc symex cannot bound the real loops / dispatch on symbolic graph_task*)',
  'item_buffer with non-trivially-copyable item types; capacities above 32; my_head/my_tail near 2^64',
  'sequence numbers above 11 in sequencer_node, more than 7 buffered items in queue/buffer/priority nodes, thresholds above 3',
  'node priorities (prioritize_task is cut to the no-priority identity), try_put_and_wait / message_metainfo, graph reset, cancellation, exceptions in bodies',
  'function_node / multifunction_node / async_node / continue_node / source nodes (C14)',
]
STUBS = [
  'r1::allocate / r1::deallocate (small_object_allocator): typed static task storage, never reused, counted',
  'r1::submit: records the task in a bag; the harness runs it later (oldest first) and runs returned bypass tasks next',
  'r1::execution_slot: the caller is an external thread (not in the graph arena); r1::notify_waiters: no-op',
  'r1::cache_aligned_allocate/deallocate: malloc/free; operator new/delete: typed pools for std::list nodes and std::deque map/chunk',
  'std::__detail::_List_node_base::_M_hook/_M_unhook: the documented list-node linking',
  'd1::aggregator_generic<Op>::execute: explicit specialization in the wrappers = "no contention: run the handler on this one operation" (the protocol itself belongs to C13)',
  'd2::prioritize_task: cut; identity for tasks without priority (asserted)',
  'graph object: built white-box (my_is_active, wait-context vertex, node list) without task_arena / task_group_context',
  'successors / predecessors of the node under test: harness receivers / senders that call observers (accept by concrete bit pattern; sources with a concrete number of items)',
  'memset in translated code: word-wise stores (-Dmemset=vp_memset) so that cbmc keeps node members concrete',
]
ASSUMPTIONS = [
  'sequential harnesses: single caller thread; every call into a node runs to completion before the next (spawned tasks run only when the harness runs them)',
  'thread harnesses (*_threads): sequentially consistent memory, schedules with <= ROUNDS slices per thread + 2 forced rounds, spin loops unrolled twice then parked; the thread body calls the node\'s own try_put_task override directly (receiver::try_put = that call + spawning a returned task; none is returned)',
  'caller contract of item_buffer: release/consume only while reserved, pop_front only while not reserved, pop_back not on the reserved item',
  'message values put into one buffering node are pairwise distinct while buffered (identifies messages; equal values are indistinguishable for the contracts)',
  'limiter_node scenarios: a re-entrant decrement (successor answering inside try_put_task) is generated only while no predecessor is cached (otherwise the real code deadlocks, see OUTSIDE); deltas 0..3',
  'sequencer body: sequence number of a message is supplied by the harness (concrete per scenario), independent of the symbolic message value',
  'the sentinel SUCCESSFULLY_ENQUEUED = (graph_task*)-1 is modelled as the address of a dedicated object (ir2c --m1ptr): valid because the code only compares it for equality',
]

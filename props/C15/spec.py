PROPERTY = 'C15'
import itertools

OPC = 'PQBRLCGH'
def itembuf_valid(pre, k, ln):
    """mirror of valid_seq() in h_itembuf.c (only used to balance the chunks and to state the expected run count)"""
    n, res, grows = pre, False, 0
    for s in range(ln):
        op = OPC[(k >> (3 * s)) & 7]
        if op == 'P': n += 1
        elif op == 'Q':
            if res: return False
            n = max(0, n - 1)
        elif op == 'B':
            if res and n <= 1: return False
            n = max(0, n - 1)
        elif op == 'R':
            if n > 0 and not res: res = True
        elif op in 'LC':
            if not res: return False
            res = False
            if op == 'C': n -= 1
        else:
            if grows: return False
            grows = 1
    return True

def itembuf_scenarios(pres, ln, orgs, per_query):
    """chunks of sequence numbers [FROM, FROM+CNT) holding about per_query valid sequences each"""
    scs = []
    for pre in pres:
        frm = 0; cnt = 0
        for k in range(8 ** ln):
            cnt += itembuf_valid(pre, k, ln)
            if cnt >= per_query or k == 8 ** ln - 1:
                if cnt: scs.append({'PRE': pre, 'LEN': ln, 'FROM': frm, 'CNT': k + 1 - frm, 'ORGS': ','.join(orgs), 'MINRUN': cnt * len(orgs)})
                frm = k + 1; cnt = 0
    return scs

def bufnode_scenarios(ln, nsuccs, accs, per_query):
    return [{'LEN': ln, 'NSUCC': ns, 'ACCS': ','.join(accs), 'FROM': f, 'CNT': min(per_query, 6 ** (ln - 1) - f)}
            for ns in nsuccs for f in range(0, 6 ** (ln - 1), per_query)]

BOPS = 'TGRLCX'
def bufnode_pick(seqs, nsucc, accs):
    """hand-picked sequences ('T' + rest): one query each"""
    out = []
    for q in seqs:
        assert q[0] == 'T'
        k = sum(BOPS.index(c) * 6 ** i for i, c in enumerate(q[1:]))
        out.append({'LEN': len(q), 'NSUCC': nsucc, 'ACCS': ','.join(accs), 'FROM': k, 'CNT': 1})
    return out
def _seq_ops():
    q = []
    for p in itertools.permutations(range(3)):
        q.append(','.join('%d,6' % (10 + t) for t in p) + ',2')
    q += ['10,6,10,11,6', '11,11,10,6,2', '13,10,6,11,12,6', '17,10,6,2', '11,10,3,12,5,6,2', '10,3,4,6', '12,11,10,2,2,2,2', '10,11,3,6,10,5,2']
    th = []
    for p in itertools.permutations(range(4)):
        base = [10 + t for t in p]
        th.append(','.join('%d,6' % o for o in base) + ',2')
        th.append(','.join(map(str, base)) + ',6,2,6')
        for pos in range(1, 5):
            for d in sorted(set(p[:pos])):
                x = base[:pos] + [6, 10 + d] + base[pos:]
                th.append(','.join(map(str, x)) + ',6,2')
    return q, th
SEQ_QUICK, SEQ_THOROUGH = _seq_ops()
JOIN_QUICK = ['1,2,6', '1,1,2,6,2,6', '2,2,1,6,1,6', '1,2,6,7,1,2,7', '1,1,2,2,6,7', '2,1,6,1,2,6,7', '1,2,1,2,6,7,7', '2,2,2,1,6,1,6,1,6', '1,1,1,1,1,2,6,2,6', '1,2,7,7,2,1,6']
LIM_QUICK = [(1, '1,1,21,1'), (2, '1,1,1,22,1,1'), (1, '51,1,1'), (2, '1,52,1,1'), (2, '53,1,1,1'), (1, '1,23,1,1'), (3, '1,1,1,1,23,1,1,1'), (1, '20,1,1'),
             (1, '4,3,3,21,3'), (2, '4,3,3,3,22,3'), (2, '1,4,22,3,1'), (1, '4,1,3,21,3'), (2, '4,3,1,3,21')]
PRIO_QUICK = [('TTTGGG', '0'), ('TTTXG', '1'), ('TTRTLG', '0'), ('TTTRCG', '0'), ('TTXTXG', '3')]
BUF_QUICK = ['TTXG', 'TRXLX', 'TRGC', 'TTRGCG', 'TRCTX', 'TXTXG', 'TTTTTXG', 'TRLG', 'TXRTCX', 'TTXGGG']

AGGCUT = ['E7executeINS1_19aggregating_functorI']   # aggregator_generic<Op>::execute<aggregating_functor<Node,Op>>
UNITS = {
  'bufnode': dict(wrapper='w_bufnode.cpp', mode='seq', cxxflags=['-DNODEKIND=0'], looporder=True, cut=['prioritize_task'], devirt=True, prune=True, inline_threshold=300, m1ptr=True),
  'prionode': dict(wrapper='w_bufnode.cpp', mode='seq', cxxflags=['-DNODEKIND=2'], looporder=True, cut=['prioritize_task'], devirt=True, prune=True, inline_threshold=300, m1ptr=True),
  'limiter': dict(wrapper='w_limiter.cpp', mode='seq', looporder=True, cut=['prioritize_task'], devirt=True, prune=True, inline_threshold=300, m1ptr=True),
  'seqnode': dict(wrapper='w_bufnode.cpp', mode='seq', cxxflags=['-DNODEKIND=3'], looporder=True, cut=['prioritize_task'], devirt=True, prune=True, inline_threshold=300, m1ptr=True),
  'joinq': dict(wrapper='w_join.cpp', mode='seq', cxxflags=['-DJOINKIND=0'], looporder=True, cut=['prioritize_task'], prune=True, inline_threshold=300, m1ptr=True),
  'joinr': dict(wrapper='w_join.cpp', mode='seq', cxxflags=['-DJOINKIND=1'], looporder=True, cut=['prioritize_task'], prune=True, inline_threshold=300, m1ptr=True),
  'queuenode': dict(wrapper='w_bufnode.cpp', mode='seq', cxxflags=['-DNODEKIND=1'], looporder=True, cut=['prioritize_task'], devirt=True, prune=True, inline_threshold=300, m1ptr=True),
  'itembuf': dict(wrapper='w_itembuf.cpp', mode='seq', cxxflags=[], selftest=True, looporder=True),
}
FS = ['--max-field-sensitivity-array-size', '600', '--object-bits', '12', '--no-sat-preprocessor']   # cbmc constant-propagates array cells only up to this size (default 64)
HARNESSES = [
  dict(name='itembuf', unit='itembuf', harness='h_itembuf.c', cbmc=['--unwind', '600'] + FS,
       scenarios_quick=itembuf_scenarios([0], 3, ['4294967295'], 14) + itembuf_scenarios([3], 3, ['2'], 14),
       scenarios_thorough=itembuf_scenarios([3, 4], 5, ['0', '1099511627779'], 12) + itembuf_scenarios([0, 1, 7, 8], 4, ['5', '4294967294'], 12),
       desc='reservable_item_buffer<int>: every caller-contract-respecting sequence of LEN ops over {push_back, pop_front, pop_back, reserve_front, release_front, '
            'consume_front, grow_my_array(size+1), grow_my_array(2cap+1)} after PRE pushes from ring origin(s) ORGS; values symbolic; after every step contents/order/'
            'size/reservation/slot states equal an abstract FIFO; drain returns everything once in order',
       bounds={'ops per sequence': 'quick 3, thorough 4-5 (all sequences enumerated; concrete control)', 'prefill': 'quick 0,3; thorough 0,1,3,4,7,8',
               'ring origin': 'concrete per scenario (phases 0,1,2,3,5 and values around 2^32 / 2^40)', 'capacity reached': '<= 32', 'item values': 'symbolic 32-bit'},
       timeout=300),
  dict(name='queue_node', unit='queuenode', harness='h_bufnode.c', cbmc=['--unwind', '40'] + FS, defines={'KIND': 1},
       scenarios_quick=bufnode_pick(BUF_QUICK, 1, ['0', '1', '2']) + bufnode_pick(BUF_QUICK[:4], 2, ['2', '5']),
       scenarios_thorough=bufnode_scenarios(4, [1, 2], ['0', '1', '2', '5'], 2) + bufnode_scenarios(5, [1], ['0', '1', '2', '7'], 2),
       desc='queue_node<int> through its public interface (try_put/try_get/try_reserve/try_release/try_consume, forwarder task, 1-2 successors with '
            'concrete accept patterns): every hand-out is the oldest buffered message, nothing handed out while reserved or twice, nothing lost, '
            'forwarder_busy/graph wait count consistent at quiescence, no stuck message',
       bounds={'ops per sequence': 'quick: 10 hand-picked sequences of 4-7 ops; thorough: all sequences of 4 and 5 ops (first op try_put)', 'successors': '1-2',
               'accept patterns': 'concrete bit patterns per scenario', 'message values': 'symbolic, pairwise distinct'}, timeout=400),
  dict(name='priority_queue_node', unit='prionode', harness='h_bufnode.c', cbmc=['--unwind', '40'] + FS, defines={'KIND': 2},
       scenarios_quick=[sc for q, a in PRIO_QUICK for sc in bufnode_pick([q], 1, [a])],
       scenarios_thorough=[sc for a in ('0', '1') for sc in bufnode_scenarios(4, [1], [a], 1)] +
                          [dict(sc, FROM=6 * sc['FROM']) for a in ('0', '3') for sc in bufnode_scenarios(4, [1], [a], 1) if not sc.update(LEN=5)] +
                          [sc for q, a in (('TTTTTGG', '0'), ('TTTTXGT', '1'), ('TTTTRTLGG', '0')) for sc in bufnode_pick([q], 1, [a])],
       desc='priority_queue_node<int> (std::less), same driver: every hand-out (get / reserve / accepted offer) is a maximum of the buffered values (heapify/reheap/'
            'prio_use_tail with symbolic values), reserve takes the maximum aside and release puts it back, nothing lost or duplicated',
       bounds={'ops per sequence': 'quick: 5 hand-picked sequences of 5-6 ops; thorough: all sequences of 4 ops, all of 5 ops starting with two puts, 3 sequences with 5 items', 'heap size': 'quick <= 3, thorough <= 5',
               'successors': '1', 'accept patterns': 'concrete', 'message values': 'symbolic, pairwise distinct'}, timeout=600, thorough_override={'timeout': 2400}),
  dict(name='limiter_node', unit='limiter', harness='h_limiter.c', cbmc=['--unwind', '16'] + FS, defines={'memset': 'vp_memset'},
       scenarios_quick=[{'THR': t, 'OPS': o, 'ACCS': '15,0,5,10', 'AVAIL': 2} for t, o in LIM_QUICK],
       scenarios_thorough=[{'THR': t, 'OPS': ','.join(q), 'ACCS': '15,0,5,10,3,12', 'AVAIL': 2} for t in (1, 2) for q in itertools.product(['1', '21', '22', '51', '52'], repeat=4)] +
                          [{'THR': t, 'OPS': '4,' + ','.join(q), 'ACCS': '15,0,5,10,3,12', 'AVAIL': 2} for t in (1, 2) for q in itertools.product(['1', '3', '21', '22'], repeat=4)] +
                          [{'THR': 3, 'OPS': o, 'ACCS': '15,0,5,10,3,12', 'AVAIL': 3} for t, o in LIM_QUICK],
       desc='limiter_node<int,int>: try_put / decrementer (delta 0..3, also re-entrant = arriving while the put is in flight) / pull from a predecessor by the '
            'forwarder task (reserve -> put -> consume|release, retry forwarder), successor with concrete accept patterns: forwarded - sum of decrements <= threshold '
            'at every forward, a put is refused unoffered only when the truncating count is at the threshold, rejected messages leave the counters unchanged, '
            'my_tries returns to 0, reservations are consumed or released exactly once',
       bounds={'threshold': '1-3 concrete', 'ops per sequence': 'quick: 13 hand-picked sequences of 3-8 ops; thorough: all 4-op sequences over {put, dec 1, dec 2, put+dec 1, put+dec 2} and, '
               'with a predecessor, over {put, run task, dec 1, dec 2} (re-entrant decrement with a cached predecessor excluded: real self-deadlock, see NOTES)', 'accept patterns': '4-6 concrete 4-bit patterns per query', 'predecessor items': '2-3', 'message values': 'symbolic'}, timeout=400),
  dict(name='sequencer_node', unit='seqnode', harness='h_seqnode.c', cbmc=['--unwind', '40'] + FS,
       scenarios_quick=[{'OPS': o, 'ACCS': '15,0,5'} for o in SEQ_QUICK],
       scenarios_thorough=[{'OPS': o, 'ACCS': '15,0,5,10,6,9'} for o in SEQ_THOROUGH],
       desc='sequencer_node<int>: puts with concrete sequence numbers (permutations of 0..2 / 0..3, duplicates, numbers below head, a far number forcing grow) '
            'interleaved with forwarder runs, try_get, reserve/release/consume: emitted sequence is exactly 0,1,2,... (no gap, duplicate, overtaking), '
            'puts of emitted or buffered numbers are rejected without effect, buffered messages stay at their index',
       bounds={'sequence numbers': 'quick: all permutations of 0..2 + 8 special sequences; thorough: all permutations of 0..3 in two interleavings, each also with one duplicate '
               'put inserted at every position', 'successors': '1, concrete accept patterns (3 / 6 per query)', 'message values': 'symbolic, distinct'}, timeout=400),
  dict(name='join_queueing', unit='joinq', harness='h_join.c', cbmc=['--unwind', '40'] + FS, defines={'memset': 'vp_memset'},
       scenarios_quick=[{'OPS': o, 'ACCS': '15,0,5,2'} for o in JOIN_QUICK],
       scenarios_thorough=[{'OPS': ','.join(q), 'ACCS': '15,0,5,10,2,6'} for n in (5, 6) for q in itertools.product('1267', repeat=n) if q[0] in '12' and '1' in q and '2' in q],
       desc='join_node<tuple<int,int>, queueing>: puts on the two ports, forwarder task, try_get: i-th tuple handed out = (i-th message of port 0, i-th of port 1), only complete '
            'tuples, a rejected tuple stays and is offered again unchanged, nothing lost (final drain)',
       bounds={'ops per sequence': 'quick: 10 hand-picked sequences of 3-9 ops; thorough: all sequences of 5-6 ops over {put port 0, put port 1, run task, try_get} using both ports',
               'accept patterns': '4 / 6 concrete patterns per query', 'message values': 'symbolic'}, timeout=400),
  dict(name='join_reserving', unit='joinr', harness='h_joinres.c', cbmc=['--unwind', '40'] + FS, defines={'memset': 'vp_memset'},
       scenarios_quick=[{'OPS': o, 'ACCS': '15,0,5,2'} for o in JOIN_QUICK],
       scenarios_thorough=[{'OPS': ','.join(q), 'ACCS': '15,0,5,10,2,6'} for n in (5, 6) for q in itertools.product('1267', repeat=n) if q[0] in '12' and '1' in q and '2' in q],
       desc='join_node<tuple<int,int>, reserving> with two harness predecessors: a tuple is formed only while both sources are reserved and consists of the reserved '
            'messages; accepted -> both consumed once, rejected or partial -> all reservations released, none left pending; i-th tuple = i-th messages; try_get iff both available',
       bounds={'ops per sequence': 'quick: 10 hand-picked sequences of 3-9 ops; thorough: all sequences of 5-6 ops over {message at source 0, at source 1, run task, try_get} using both sources',
               'accept patterns': '4 / 6 concrete patterns per query', 'message values': 'symbolic'}, timeout=400),
  dict(name='buffer_node', unit='bufnode', harness='h_bufnode.c', cbmc=['--unwind', '40'] + FS, defines={'KIND': 0},
       scenarios_quick=bufnode_pick(BUF_QUICK, 1, ['0', '1', '2']) + bufnode_pick(BUF_QUICK[:4], 2, ['2', '5']),
       scenarios_thorough=bufnode_scenarios(4, [1, 2], ['0', '1', '2', '5'], 2) + bufnode_scenarios(5, [1], ['0', '1', '2', '7'], 2),
       desc='buffer_node<int>, same driver: every hand-out is a buffered unreserved message (try_get never returns the reserved one), nothing twice, nothing '
            'lost after release/consume',
       bounds={'ops per sequence': 'quick: 10 hand-picked sequences of 4-7 ops; thorough: all sequences of 4 and 5 ops (first op try_put)', 'successors': '1-2',
               'accept patterns': 'concrete bit patterns per scenario', 'message values': 'symbolic, pairwise distinct'}, timeout=400),
]
OUTSIDE = []
STUBS = []
ASSUMPTIONS = []

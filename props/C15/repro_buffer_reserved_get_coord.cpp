#include <oneapi/tbb/flow_graph.h>
#include <cstdio>
int main(){
  tbb::flow::graph g; tbb::flow::buffer_node<int> b(g);
  int v=0,w=0,x=0;
  b.try_put(7); bool r=b.try_reserve(v); bool gt=b.try_get(w);
  printf("reserve=%d v=%d get=%d w=%d\n", r, v, gt, w);
  if (r) b.try_consume();
  b.try_put(8); bool g2=b.try_get(x); printf("after: get=%d x=%d\n", g2, x);
  g.wait_for_all();
  return (gt || !g2) ? 1 : 0;
}

// shared by the C15 node wrappers: a graph object built white-box (no scheduler), harness receivers, task execution
#include "oneapi/tbb/flow_graph.h"
using namespace tbb::detail::d2;
namespace d1 = tbb::detail::d1;
extern "C" void vp_emit(unsigned long v);
extern "C" unsigned vp_sink(unsigned id, int v);            // harness: successor `id` is offered v; returns accept?
// graph without scheduler: only the members the node code reads are initialised (my_is_active, wait vertex, node list).
// my_task_arena / my_context are opaque tokens handed to the r1:: stubs of the harness.
// (typed storage without running the constructor: keeps the IR accesses typed, which cbmc needs for constant propagation)
template <class X> union vp_raw { X x; vp_raw() {} ~vp_raw() {} };
static vp_raw<graph> vp_graph_mem;
static unsigned long vp_arena_tok[16], vp_ctx_tok[32];
static graph& vp_graph() { return vp_graph_mem.x; }
static void vp_graph_init() {
  graph& g = vp_graph();
  new (&g.my_wait_context_vertex) d1::wait_context_vertex();
  g.my_context = reinterpret_cast<tbb::task_group_context*>(vp_ctx_tok);
  g.my_task_arena = reinterpret_cast<tbb::task_arena*>(vp_arena_tok);
  g.my_is_active = true; g.my_nodes = g.my_nodes_last = nullptr; g.cancelled = g.caught_exception = false; g.own_context = false;
  new (&g.nodelist_mutex) tbb::spin_mutex();
}
struct vp_recv : receiver<int> {
  unsigned id;
  graph_task* try_put_task(const int& t) override { return vp_sink(id, t) ? SUCCESSFULLY_ENQUEUED : nullptr; }
  graph& graph_reference() const override { return vp_graph(); }
};
static vp_raw<vp_recv> vp_succ_mem[2];
#define vp_succ(i) (vp_succ_mem[i].x)
extern "C" {
unsigned vp_task_has_priority(graph_task* t) { return t->priority != no_priority; }
// number of outstanding references on the graph's wait context (reserve_wait / tasks alive)
unsigned long vp_graph_refs() { return vp_graph().my_wait_context_vertex.get_context().m_ref_count.load(std::memory_order_relaxed); }
}
// typed storage handed out by the harness's r1::allocate stub (cbmc cannot constant-propagate a vptr stored into malloc'ed
// bytes; separate globals, not an array: its simplifier decides pointer (in)equalities only for offset-0 addresses)
#define VP_TASK_STORAGE(TASK_T) \
  static vp_raw<TASK_T> vp_t0, vp_t1, vp_t2, vp_t3, vp_t4, vp_t5, vp_t6, vp_t7, vp_t8, vp_t9, vp_t10, vp_t11, vp_t12, vp_t13, vp_t14, vp_t15; \
  extern "C" void* vp_task_mem(unsigned i) { \
    switch (i) { case 0: return &vp_t0.x; case 1: return &vp_t1.x; case 2: return &vp_t2.x; case 3: return &vp_t3.x; \
                 case 4: return &vp_t4.x; case 5: return &vp_t5.x; case 6: return &vp_t6.x; case 7: return &vp_t7.x; \
                 case 8: return &vp_t8.x; case 9: return &vp_t9.x; case 10: return &vp_t10.x; case 11: return &vp_t11.x; \
                 case 12: return &vp_t12.x; case 13: return &vp_t13.x; case 14: return &vp_t14.x; default: return &vp_t15.x; } } \
  extern "C" unsigned vp_task_size() { return sizeof(TASK_T); } \
  /* run a spawned task (what a worker does). The only task type of the unit is TASK_T (the r1::allocate stub hands out */ \
  /* TASK_T storage only): called non-virtually. Returns the bypass task. */ \
  extern "C" void* vp_run_task(TASK_T* t) { d1::execution_data ed{}; return t->TASK_T::execute(ed); }
// Single-threaded model of the aggregator for operation type OP handled by HANDLER (explicit specialization replaces
// d1::aggregator_generic<OP>::execute): one caller, no contention => the pending list is just this operation and the caller
// runs the handler inline, which is what the real execute() does when it finds the list empty (its protocol: C13).
#define VP_SEQ_AGGREGATOR(OP, HANDLER) \
  namespace tbb { namespace detail { namespace d1 { \
  template<> template<> void aggregator_generic<OP>::execute<HANDLER>(OP* op, HANDLER& handle_operations, bool) { op->next = nullptr; handle_operations(op); } }}}

/* C15 / limiter_node<int,int>, threshold THR, PRE puts accepted beforehand, then 2 threads concurrently: OP0/OP1 in {0 try_put,
 * 1 decrement by 1}; the successor accepts everything.  Lazy-CSeq schedule (<= ROUNDS slices per thread + 2 forced rounds).
 * Oracle: at every forward, forwarded - decrements started so far <= threshold (a started decrement is the most the node may
 * have accounted for); a put is refused only if the count could be at the threshold (forwarded - decrements finished >=
 * threshold at some point of the call is approximated by: refused => at its return forwarded >= threshold - with PRE == THR
 * and one decrement: refusal only if the decrement had not finished before the put began); at quiescence nobody is blocked
 * on my_mutex, my_tries == 0, my_future_decrement == 0, my_count == forwarded - decrements applied (exact for these scenarios:
 * PRE >= number of decrements, so nothing is truncated), mutex free. */
#include "w.h"
#include "vp.h"
#include "fg_stubs.h"
static int res[2]; static long fwd, dec_started, dec_finished; static int put_began_after_dec[2];
static unsigned ops[2] = { OP0, OP1 };
void vp_dec_begin(u32 tid) { dec_started++; }
void vp_put_result(u32 tid, u32 ok) { VP_ASSERT(tid < 2 && res[tid] < 0, "result reported twice"); VP_ASSERT(ok != 2, "unexpected task returned"); res[tid] = (int)ok; if (ops[tid] == 1) dec_finished++; }
u32 vp_sink(u32 id, u32 v) {
  fwd++;
  VP_ASSERT(fwd - dec_started <= (long)THR, "more un-decremented forwarded messages than the threshold");
  return 1;
}
int main(void) {
  res[0] = res[1] = -1;
  vp_init(THR);
  for (int i = 0; i < PRE; i++) VP_ASSERT(vp_put((int)vp_nd()), "initial put refused below the threshold");
  VP_ASSERT(fwd == PRE && vp_count() == PRE, "initial state");
#if OP0 == 0
#define TA vp_thr_limput_a
#else
#define TA vp_thr_limdec_a
#endif
#if OP1 == 0
#define TB vp_thr_limput_b
#else
#define TB vp_thr_limdec_b
#endif
#define START(t) START_(t)
#define START_(t) t##_start
  START(TA)(0, (u32)vp_nd()); START(TB)(1, (u32)vp_nd());
  for (int r = 0; r < ROUNDS; r++) { VP_RUNT(TA, 0) VP_RUNT(TB, 1) }
  VP_QUIESCE2(TA, TB)
  VP_ASSERT(!vp_deadlock, "a thread is blocked for ever on one of the limiter's mutexes");
  __CPROVER_assume(!vp_unfinished);
  VP_ASSERT(res[0] >= 0 && res[1] >= 0 && vp_mutex_word() == 0, "call did not return / my_mutex left locked");
  VP_ASSERT(vp_tries() == 0, "my_tries not back to 0");
  VP_ASSERT(vp_future() == 0, "my_future_decrement left over although every put was accepted by the successor");
  VP_ASSERT((long)vp_count() == fwd - dec_started, "my_count != forwarded - decrements (a decrement or a forward was lost or counted twice)");
  VP_ASSERT(vp_count() <= THR, "my_count above the threshold");
  /* refusals: with PRE == THR - 1 two racing puts cannot both be refused, and at most THR - PRE + decrements can be accepted */
  int nput = (OP0 == 0) + (OP1 == 0), nacc = (OP0 == 0 && res[0]) + (OP1 == 0 && res[1]);
  VP_ASSERT(nacc <= (int)THR - PRE + (int)dec_started, "more puts accepted than room + decrements");
  if (PRE + nput <= (int)THR) VP_ASSERT(nacc == nput, "put refused although the threshold cannot be reached");
  if (PRE < (int)THR && nput > 0) VP_ASSERT(nacc >= 1, "every racing put refused although there was room for one");
  VP_REACHED();
}

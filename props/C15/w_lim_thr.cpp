// C15 wrapper (thread mode): a put racing a decrement (and two puts racing) on limiter_node<int,int>; its counters are guarded by
// a plain spin_mutex (my_mutex), the caches by their own mutexes.
#include "fg_common.h"
typedef limiter_node<int, int> node_t;
typedef forward_task_bypass<node_t> fwd_task_t;
VP_TASK_STORAGE(fwd_task_t)
extern "C" void vp_put_result(unsigned tid, unsigned ok);
extern "C" void vp_dec_begin(unsigned tid);          // observer: a decrement call starts (before it touches the node)
struct vp_recvt : receiver<int> {
  unsigned id;
  graph_task* try_put_task(const int& t) override { return vp_sink(id, t) ? SUCCESSFULLY_ENQUEUED : nullptr; }
  graph& graph_reference() const override { return vp_graph(); }
  bool register_predecessor(predecessor_type&) override { return false; }
  bool remove_predecessor(predecessor_type&) override { return false; }
};
static vp_raw<node_t> vp_node_mem;
static vp_raw<vp_recvt> vp_rt[1];
static node_t& N() { return vp_node_mem.x; }
extern "C" {
// thread bodies: one try_put (the node's own try_put_task called directly, see w_ow_thr.cpp) / one decrement by 1 (what
// threshold_regulator<..., int>::try_put_task does: my_node->decrement_counter(value))
void vp_thr_limput(unsigned tid, int v) { graph_task* res = N().node_t::try_put_task(v); vp_put_result(tid, res == nullptr ? 0u : (res == SUCCESSFULLY_ENQUEUED ? 1u : 2u)); }
void vp_thr_limdec(unsigned tid, int v) { vp_dec_begin(tid); graph_task* res = N().decrement_counter(1); vp_put_result(tid, res == nullptr ? 1u : 2u); }
void vp_init(unsigned long threshold) { vp_graph_init(); new (&vp_node_mem.x) node_t(vp_graph(), threshold);
  new (&vp_rt[0].x) vp_recvt(); vp_rt[0].x.id = 0; N().register_successor(vp_rt[0].x); }
unsigned vp_put(int v) { return N().node_t::try_put_task(v) != nullptr; }
unsigned long vp_count() { return N().my_count; }
unsigned long vp_tries() { return N().my_tries; }
unsigned long vp_future() { return N().my_future_decrement; }
unsigned vp_mutex_word() { return N().my_mutex.m_flag.load(std::memory_order_relaxed); }
}

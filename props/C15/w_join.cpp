// C15 wrapper: join_node<std::tuple<int,int>, JP> with JP = queueing (JOINKIND 0) or reserving (JOINKIND 1)
#include "fg_common.h"
#if JOINKIND == 0
typedef queueing jp_t;
typedef queueing_port<int> port_t;
#else
typedef reserving jp_t;
typedef reserving_port<int> port_t;
#endif
typedef std::tuple<int, int> tup_t;
typedef join_node<tup_t, jp_t> node_t;
typedef join_node_base<jp_t, std::tuple<port_t, port_t>, tup_t> base_t;
#if JOINKIND == 0
typedef port_t::queueing_port_operation port_op_t;
#else
typedef port_t::reserving_port_operation port_op_t;
#endif
typedef d1::aggregating_functor<port_t, port_op_t> port_handler_t;
typedef base_t::join_node_base_operation base_op_t;
typedef d1::aggregating_functor<base_t, base_op_t> base_handler_t;
VP_SEQ_AGGREGATOR(port_op_t, port_handler_t)
VP_SEQ_AGGREGATOR(base_op_t, base_handler_t)
typedef forward_task_bypass<base_t> fwd_task_t;
VP_TASK_STORAGE(fwd_task_t)
extern "C" unsigned vp_sink2(int a, int b);                 // harness successor: offered the tuple (a,b); accept?
struct vp_recv2 : receiver<tup_t> {
  graph_task* try_put_task(const tup_t& t) override { return vp_sink2(std::get<0>(t), std::get<1>(t)) ? SUCCESSFULLY_ENQUEUED : nullptr; }
  graph& graph_reference() const override { return vp_graph(); }
};
extern "C" unsigned vp_src_reserve(unsigned id, int* v);    // harness predecessors of the reserving ports
extern "C" void vp_src_release(unsigned id);
extern "C" void vp_src_consume(unsigned id);
extern "C" void vp_src_regsucc(unsigned id);                // the port gave the edge back (source had nothing): push mode again
struct vp_send : sender<int> {
  unsigned id;
  bool try_get(int&) override { return false; }
  bool try_reserve(int& v) override { return vp_src_reserve(id, &v); }
  bool try_release() override { vp_src_release(id); return true; }
  bool try_consume() override { vp_src_consume(id); return true; }
  bool register_successor(successor_type&) override { vp_src_regsucc(id); return true; }
  bool remove_successor(successor_type&) override { return true; }
};
static vp_raw<node_t> vp_node_mem;
static vp_raw<vp_recv2> vp_succ2;
static vp_raw<vp_send> vp_src0, vp_src1;
static node_t& N() { return vp_node_mem.x; }
extern "C" {
void vp_init(unsigned nsucc) {
  vp_graph_init();
  new (&vp_node_mem.x) node_t(vp_graph());
  new (&vp_src0.x) vp_send(); vp_src0.x.id = 0; new (&vp_src1.x) vp_send(); vp_src1.x.id = 1;
  if (nsucc) { new (&vp_succ2.x) vp_recv2(); N().register_successor(vp_succ2.x); }
}
unsigned vp_put0(int v) { return input_port<0>(N()).try_put(v); }
unsigned vp_put1(int v) { return input_port<1>(N()).try_put(v); }
void vp_regpred(unsigned i) { if (i == 0) register_predecessor(input_port<0>(N()), (sender<int>&)vp_src0.x); else register_predecessor(input_port<1>(N()), (sender<int>&)vp_src1.x); }
unsigned vp_get(int* a, int* b) { tup_t t; bool r = N().try_get(t); if (r) { *a = std::get<0>(t); *b = std::get<1>(t); } return r; }
unsigned vp_fwd_busy() { return N().forwarder_busy; }
}

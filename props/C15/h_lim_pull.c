/* C15 (and C14's "a refused message is offered again") / limiter_node<int,int> in pull mode, 2 threads.
 * Set-up (sequential): threshold 2, one message already forwarded (count 1), successor S registered, predecessor P (one-item
 * buffer, faithful try_reserve / try_release / try_consume) registers itself -> the limiter creates a forwarder task.
 * Thread F runs that forwarder (the real forward_task()); S refuses the first pulled offer and accepts later ones.
 * Thread W (WOP): 0 = S comes back: after the refusal (S took the edge, so it was removed from the successor cache) it calls
 *   register_successor on the limiter; 1 = a decrement arrives (decrement_counter -> forward_task inline, which cannot reserve
 *   while F holds the reservation); 2 = both in sequence.  REGP = 1 for WOP 0/2 (S takes the edge when it refuses), 0 for WOP 1.
 * Lazy-CSeq schedule (<= ROUNDS free slices per thread + 2 forced rounds).
 * Oracle: no stuck message: at the end NOT (count + tries < threshold AND P has an unreserved item AND a successor is registered
 * AND no forwarder task is pending); my_tries == 0; my_count == forwarded - decrements; forwarded - decrements started <=
 * threshold at every accepted offer; reservation protocol (no offer without reservation, consume only after an accepted
 * offer, release otherwise, nothing left reserved); nobody blocked for ever; my_mutex free. */
#include "w.h"
#include "vp.h"
#include "fg_stubs.h"
#define THR 2
static int item_avail = 1, item_reserved, item_val, offered_ok; static unsigned n_regsucc;
static long fwd, dec_started; static int phase, rejected, nreturned;
static unsigned n_ctor, n_run;   /* forwarder tasks constructed / executed */
/* cut: forward_task_bypass<limiter_node>::forward_task_bypass(graph&, small_object_allocator&, limiter_node&, priority): a task exists */
void _ZN3tbb6detail2d219forward_task_bypassINS1_12limiter_nodeIiiEEEC2ERNS1_5graphERNS0_2d122small_object_allocatorERS4_j(
  struct S_class_tbb__detail__d2__forward_task_bypass* t, struct S_class_tbb__detail__d2__graph* g, struct S_class_tbb__detail__d1__small_object_allocator* a,
  struct S_class_tbb__detail__d2__limiter_node* n, u32 prio) { n_ctor++; }
/* cut: spawn_in_graph_arena(graph&, graph_task&): the task will run later (every constructed task is run by the harness) */
void _ZN3tbb6detail2d220spawn_in_graph_arenaERNS1_5graphERNS1_10graph_taskE(struct S_class_tbb__detail__d2__graph* g, struct S_class_tbb__detail__d2__graph_task* t) { }
/* cut: spin_mutex / spin_rw_mutex lock operations (the locks themselves are C08's subject): abstract locks with the documented
   contract, state kept in the real lock word; a caller that cannot get the lock parks (VP_BLOCK) and retries the call */
void _ZN3tbb6detail2d110spin_mutex4lockEv(struct S_class_tbb__detail__d1__spin_mutex* m) { u8* w = (u8*)m; if (*w) { VP_BLOCK(); return; } *w = 1; }
void _ZN3tbb6detail2d110spin_mutex6unlockEv(struct S_class_tbb__detail__d1__spin_mutex* m) { u8* w = (u8*)m; VP_ASSERT(*w == 1, "unlock of a spin_mutex that is not held"); *w = 0; }
void _ZN3tbb6detail2d113spin_rw_mutex4lockEv(struct S_class_tbb__detail__d1__spin_rw_mutex* m) { u64* w = (u64*)m; if (*w) { VP_BLOCK(); return; } *w = 1; }
void _ZN3tbb6detail2d113spin_rw_mutex6unlockEv(struct S_class_tbb__detail__d1__spin_rw_mutex* m) { u64* w = (u64*)m; VP_ASSERT(*w == 1, "unlock of a spin_rw_mutex not held for writing"); *w = 0; }
void _ZN3tbb6detail2d113spin_rw_mutex11lock_sharedEv(struct S_class_tbb__detail__d1__spin_rw_mutex* m) { u64* w = (u64*)m; if (*w & 1) { VP_BLOCK(); return; } *w += 4; }
void _ZN3tbb6detail2d113spin_rw_mutex13unlock_sharedEv(struct S_class_tbb__detail__d1__spin_rw_mutex* m) { u64* w = (u64*)m; VP_ASSERT(*w >= 4 && !(*w & 1), "unlock_shared of a spin_rw_mutex not held for reading"); *w -= 4; }
/* cut: std::deque slow paths of the predecessor queue (chunk exhausted / last element of a chunk): unreachable with one predecessor */
void _ZNSt5dequeIPN3tbb6detail2d26senderIiEESaIS5_EE16_M_pop_front_auxEv(struct S_class_std__deque* d) { VP_ASSERT(0, "VP bound: std::deque::_M_pop_front_aux reached"); }
void _ZNSt5dequeIPN3tbb6detail2d26senderIiEESaIS5_EE16_M_push_back_auxIJS5_EEEvDpOT_(struct S_class_std__deque* d, struct S_class_tbb__detail__d2__sender** x) { VP_ASSERT(0, "VP bound: std::deque::_M_push_back_aux reached"); }
u32 vp_src_reserve(u32* v) { if (!item_avail || item_reserved) return 0; item_reserved = 1; offered_ok = 0; *v = (u32)item_val; return 1; }
void vp_src_release(void) { VP_ASSERT(item_reserved, "release without reservation"); VP_ASSERT(!offered_ok, "release although the successor accepted the message"); item_reserved = 0; }
void vp_src_consume(void) { VP_ASSERT(item_reserved && offered_ok, "consume without reservation / accepted offer"); item_reserved = 0; item_avail = 0; }
void vp_src_regsucc(void) { VP_ASSERT(!item_avail || item_reserved, "limiter handed the edge back although the predecessor has a free message"); n_regsucc++; }
u32 vp_succ_regpred(u32 id) { return REGP; }
void vp_wait_rejected(void) { if (!rejected) VP_BLOCK(); }
void vp_dec_begin(void) { dec_started++; }
void vp_fwd_returned(u32 tid, u32 has_task) { if (tid < 2) nreturned++; }
u32 vp_sink(u32 id, u32 v) {
  if (phase == 0) { fwd++; return 1; }                       /* set-up put */
  VP_ASSERT(item_reserved && (int)v == item_val, "offer of a message that is not reserved from the predecessor");
  if (!rejected) { rejected = 1; return 0; }                 /* S refuses the first pulled offer */
  fwd++; offered_ok = 1;
  VP_ASSERT(fwd - dec_started <= THR, "more un-decremented forwarded messages than the threshold");
  return 1;
}
static void invariants(void) {
  VP_ASSERT(vp_tries() == 0, "my_tries not back to 0 with no call in flight");
  VP_ASSERT(!item_reserved, "reservation left pending");
  VP_ASSERT((long)vp_count() == fwd - dec_started && vp_count() <= THR, "my_count != forwarded - decrements");
  VP_ASSERT(vp_mutex_word() == 0, "my_mutex left locked");
}
#if WOP == 0
#define TW vp_thr_wreg_b
#elif WOP == 1
#define TW vp_thr_wdec_b
#else
#define TW vp_thr_wboth_b
#endif
#define START(t) START_(t)
#define START_(t) t##_start
int main(void) {
  item_val = (int)vp_nd();
  vp_init(THR);
  VP_ASSERT(vp_put((int)vp_nd()) && fwd == 1 && vp_count() == 1, "set-up put");
  phase = 1;
  vp_add_pred();
  VP_ASSERT(n_ctor == 1, "registering a predecessor below the threshold did not create a forwarder task");
  n_run = 1;                                   /* thread F is that task */
  vp_thr_fwd_a_start(0); START(TW)(1);
  for (int r = 0; r < ROUNDS; r++) { VP_RUNT(vp_thr_fwd_a, 0) VP_RUNT(TW, 1) }
  VP_QUIESCE2(vp_thr_fwd_a, TW)
  VP_ASSERT(!vp_deadlock, "a thread is blocked for ever on one of the limiter's mutexes");
  __CPROVER_assume(!vp_unfinished);
  VP_ASSERT(nreturned == 2, "a call did not return");
  invariants();
  /* forwarder tasks that were created and not yet run (n_ctor - n_run) are not executed here: what a forwarder does from any
     state is the sequential harness' business; the hand-shake only has to guarantee that one EXISTS when it is needed */
  int stuck = n_run == n_ctor && vp_count() + vp_tries() < THR && item_avail && !item_reserved && vp_has_succ() && vp_has_pred();
  VP_ASSERT(!stuck, "stuck message: limiter below its threshold, predecessor holds the message, successor registered, no forwarder task left");
  VP_REACHED();
}

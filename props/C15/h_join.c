/* C15 / join_node<tuple<int,int>, queueing> (JOINKIND 0): the real queueing ports + join_node_base (try_to_make_tuple,
 * tuple_accepted/rejected, forwarder task), driven by a concrete op list OPS: 1 A put(v) on port 0, 2 B put(v) on port 1,
 * 6 X run the oldest spawned task, 7 G try_get on the join.  Values symbolic; the successor accepts the k-th offered tuple
 * iff bit k of the accept pattern (every pattern in ACCS is run).
 * Oracle: the i-th tuple handed out (accepted offer or try_get) is (i-th message of port 0, i-th message of port 1), only
 * complete tuples are offered, a rejected tuple is offered again later unchanged, try_get succeeds iff a complete tuple is
 * pending, puts are always accepted, at quiescence every complete tuple has been offered. */
#include "w.h"
#include "vp.h"
static const int ops[] = { OPS };
#define NOPS ((int)(sizeof ops / sizeof ops[0]))
#define MAXM (NOPS + 1)
u8* _ZN3tbb6detail2r122cache_aligned_allocateEm(u64 n) { u8* p = malloc(n); __CPROVER_assume(p != 0); return p; }
void _ZN3tbb6detail2r124cache_aligned_deallocateEPv(u8* p) { free(p); }
#include "fg_stubs.h"
static int a[MAXM], b[MAXM]; static unsigned na, nb, e, noffer, acc_bits, nrun; static int last_rejected, waive;   /* waive: a consumer that pulls with try_get gets no further pushes */
static void handed(int x, int y) {
  VP_ASSERT(e < na && e < nb, "tuple handed out although some port has no pending message (incomplete tuple)");
  VP_ASSERT(x == a[e] && y == b[e], "tuple is not (i-th message of port 0, i-th message of port 1)");
}
u32 vp_sink2(u32 x, u32 y) {
  handed((int)x, (int)y);
  int acc = (acc_bits >> noffer) & 1; noffer++;
  if (acc) { e++; last_rejected = 0; } else last_rejected = 1;
  return (u32)acc;
}
u32 vp_src_reserve(u32 id, u32* v) { VP_ASSERT(0, "queueing join pulled from a predecessor"); return 0; }
void vp_src_release(u32 id) {} void vp_src_consume(u32 id) {} void vp_src_regsucc(u32 id) {}
static void run_one(void) { if (bag_n) { void* t = bag[0]; for (unsigned i = 0; i + 1 < BAGMAX; i++) bag[i] = bag[i + 1]; bag_n--; void* bp = vp_run_task(t); VP_ASSERT(bp == 0, "unexpected bypass task"); } }
static void run(unsigned accpat) {
  na = nb = e = noffer = 0; acc_bits = accpat; last_rejected = 0; waive = 0; fg_reset();
  vp_init(1);
  for (int s = 0; s < NOPS; s++) {
    int op = ops[s];
    if (op == 1) { int v = (int)vp_nd(); VP_ASSERT(vp_put0(v), "queueing port rejected a put"); a[na++] = v; }   /* (last_rejected stays: the front tuple is unchanged or was incomplete) */
    else if (op == 2) { int v = (int)vp_nd(); VP_ASSERT(vp_put1(v), "queueing port rejected a put"); b[nb++] = v; }
    else if (op == 6) { if (!bag_n) continue; run_one(); }
    else if (op == 7) { int x = 0, y = 0; unsigned r = vp_get(&x, &y);
      VP_ASSERT(r == (unsigned)(e < na && e < nb), "try_get: succeeds iff a complete tuple is pending");
      if (r) { handed(x, y); e++; last_rejected = 0; waive = 1; } }
  }
  for (int i = 0; i < BAGRUNS; i++) run_one();
  VP_ASSERT(bag_n == 0, "VP bound: tasks still pending after BAGRUNS executions");
  VP_ASSERT(vp_fwd_busy() == 0 && vp_graph_refs() == 0 && n_alloc == n_free, "forwarder / task accounting not settled at quiescence");
  if (!waive && e < na && e < nb) VP_ASSERT(last_rejected, "a complete tuple is pending and was never offered / rejected: stuck");
  /* drain through try_get: the remaining complete tuples come out in order, then nothing */
  for (unsigned i = 0; i < MAXM; i++) { int x = 0, y = 0; unsigned r = vp_get(&x, &y);
    VP_ASSERT(r == (unsigned)(e < na && e < nb), "drain: tuple lost or invented"); if (r) { handed(x, y); e++; } }
  nrun++;
}
static const unsigned accs[] = { ACCS };
int main(void) {
  for (unsigned k = 0; k < sizeof accs / sizeof accs[0]; k++) run(accs[k]);
  VP_ASSERT(nrun >= 1, "no run of this scenario completed");
  VP_REACHED();
}

#include <oneapi/tbb/flow_graph.h>
#include <cstdio>
int main() {
  tbb::flow::graph g;
  tbb::flow::buffer_node<int> b(g);
  b.try_put(7);
  g.wait_for_all();
  int v = -1, w = -1;
  bool r = b.try_reserve(v);
  bool p = b.try_get(w);   // documented: false if there is no non-reserved item
  printf("reserve=%d v=%d   try_get while the only item is reserved=%d w=%d\n", r, v, p, w);
  b.try_consume();
  int x = -1; bool q = b.try_get(x);
  printf("after consume: try_get=%d x=%d\n", q, x);
  b.try_put(8); g.wait_for_all();
  q = b.try_get(x); printf("put 8, get=%d x=%d\n", q, x);
  return (r && p) ? 1 : 0;
}

// C15 wrapper (thread mode): concurrent try_put on overwrite_node<int> (WO 0) / write_once_node<int> (WO 1).
// These nodes guard their state with a plain spin_mutex (no aggregator), so the interleavings of several putters are real.
#include "fg_common.h"
#if WO
typedef write_once_node<int> node_t;
#else
typedef overwrite_node<int> node_t;
#endif
typedef overwrite_node<int>::register_predecessor_task fwd_task_t;
VP_TASK_STORAGE(fwd_task_t)
extern "C" void vp_put_result(unsigned tid, unsigned ok);   // observer: the put of thread tid returned ok
// successor whose virtual functions are all defined here (devirt candidates are restricted to names containing vp_recvt)
struct vp_recvt : receiver<int> {
  unsigned id;
  graph_task* try_put_task(const int& t) override { return vp_sink(id, t) ? SUCCESSFULLY_ENQUEUED : nullptr; }
  graph& graph_reference() const override { return vp_graph(); }
  bool register_predecessor(predecessor_type&) override { return false; }
  bool remove_predecessor(predecessor_type&) override { return false; }
};
static vp_raw<node_t> vp_node_mem;
static vp_raw<vp_recvt> vp_rt[2];
static node_t& N() { return vp_node_mem.x; }
extern "C" {
// thread body: one try_put.  receiver<T>::try_put is `res = try_put_task(t); if (!res) return false; if (res !=
// SUCCESSFULLY_ENQUEUED) spawn(res); return true` with a virtual try_put_task; the node's own override is called directly
// (thread bodies must not contain an open virtual dispatch on the node itself) and the returned token is checked.
void vp_thr_put(unsigned tid, int v) {
  graph_task* res = N().node_t::try_put_task(v);
  vp_put_result(tid, res == nullptr ? 0u : (res == SUCCESSFULLY_ENQUEUED ? 1u : 2u));
}
void vp_init() { vp_graph_init(); new (&vp_node_mem.x) node_t(vp_graph()); }
void vp_add_succ(unsigned i) { new (&vp_rt[i].x) vp_recvt(); vp_rt[i].x.id = i; N().register_successor(vp_rt[i].x); }
unsigned vp_put(int v) { return N().node_t::try_put_task(v) != nullptr; }   // sequential pre-phase; same direct call as the thread body
unsigned vp_get(int* v) { return N().try_get(*v); }
void vp_clear() { N().clear(); }
unsigned vp_valid() { return N().my_buffer_is_valid; }
int vp_buffer() { return N().my_buffer; }
unsigned vp_mutex_word() { return N().my_mutex.m_flag.load(std::memory_order_relaxed); }
}

PROPERTY = 'C09'
def thr(fn, n): return {fn: ['a', 'b', 'c'][:n], 'vp_thr_drain': ['']}
IMM = [r'S_class_tbb__detail__d2__concurrent_queue\*\)v_\d+\)\)\.f1$']   # concurrent_queue::my_queue_representation: set by the constructor only
UNITS = {
  # concurrent_queue<136-byte struct>: 1 item per page
  'cq1_2': dict(wrapper='w_cq.cpp', mode='lcs', unroll=1, cxxflags=['-DELEM=1'], lvalpath=True, immutable=IMM, threads=thr('vp_thr_q', 2)),
  'cq0_2': dict(wrapper='w_cq.cpp', mode='lcs', unroll=1, cxxflags=['-DELEM=0'], lvalpath=True, immutable=IMM, threads=thr('vp_thr_q', 2)),
  'cq1_2d1': dict(wrapper='w_cq.cpp', mode='lcs', unroll=1, cxxflags=['-DELEM=1', '-DNDRAIN=1'], lvalpath=True, immutable=IMM, threads=thr('vp_thr_q', 2)),
  'cq1_3': dict(wrapper='w_cq.cpp', mode='lcs', unroll=1, cxxflags=['-DELEM=1'], lvalpath=True, immutable=IMM, threads=thr('vp_thr_q', 3)),
}
PUSH, POP = 1, 2
CB = ['--unwind', '20', '--object-bits', '10', '--external-sat-solver', 'kissat']
def sc(pre_push, pre_pop, a, b, c=None):
    d = {'PRE_PUSH': pre_push, 'PRE_POP': pre_pop, 'OA0': a[0], 'OA1': a[1], 'OB0': b[0], 'OB1': b[1]}
    if c is not None: d.update({'OC0': c[0], 'OC1': c[1]})
    return d
N = 0
Q2_QUICK = [
  sc(0, 0, (PUSH, N), (POP, N)),          # ticket taken but item not yet written; empty answer vs concurrent push
  sc(0, 0, (PUSH, PUSH), (POP, POP)),     # producer || consumer, two items: per-producer order, real-time order
  sc(1, 0, (POP, N), (POP, N)),           # two consumers race for one item (CAS on head_counter): exactly one wins
  sc(1, 0, (PUSH, N), (POP, POP)),
  sc(0, 0, (PUSH, N), (PUSH, N)),         # two producers: tickets/lane turns, drain order consistent with real time
  sc(8, 0, (PUSH, N), (POP, N)),          # push ticket 8 and pop ticket 0 meet in lane 0: page append vs pop finalizer (page mutex)
  sc(8, 8, (PUSH, N), (POP, N)),          # recycled lanes (head_page/tail_page were reset by earlier finalizers)
  sc(9, 1, (PUSH, POP), (POP, PUSH)),     # mixed threads on a queue whose tickets revisit lanes
]
HARNESSES = [
  dict(name='cq_big_2t', unit='cq1_2', harness='h_cq.c', defines={'NT': 2, 'ROUNDS': 3, 'ITEMS_PER_PAGE': 1},
       scenarios=Q2_QUICK,
       cbmc=CB, timeout=900, mem_gb=8,
       desc='concurrent_queue<136-byte struct> (1 item/page: page allocated by every push, freed by every pop): 2 threads x <=2 operations (push / try_pop) after a sequential pre-state; complete linearizability check of the invocation/response history against a FIFO queue, final drain, lane invariants, page accounting, cbmc memory safety (use after free of pages), lost hand-off (blocked-state oracle)',
       bounds={'threads': 2, 'ops_per_thread': '<=2', 'free_rounds': 3, 'forced_rounds': 2, 'spin_unroll': 1, 'pre_state': 'PRE_PUSH pushes then PRE_POP pops, sequential'}),
]
OUTSIDE = []
STUBS = []
ASSUMPTIONS = []

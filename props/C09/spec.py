PROPERTY = 'C09'
def thr(fn, n): return {fn: ['a', 'b', 'c'][:n], 'vp_thr_drain': ['']}
def thrb(fn, n): return dict(thr(fn, n), vp_thr_post=[''])   # bounded units: + the sequential post-phase pusher
IMM = [r'S_class_tbb__detail__d2__concurrent_queue\*\)v_\w+\)\)\.f1$']   # concurrent_queue::my_queue_representation: set by the constructor only
UNITS = {
  # concurrent_queue<136-byte struct>: 1 item per page
  'cq1_2': dict(wrapper='w_cq.cpp', mode='lcs', unroll=1, cxxflags=['-DELEM=1'], lvalpath=True, immutable=IMM, threads=thr('vp_thr_q', 2)),
  'cq0_2': dict(wrapper='w_cq.cpp', mode='lcs', unroll=1, cxxflags=['-DELEM=0'], lvalpath=True, immutable=IMM, threads=thr('vp_thr_q', 2)),
  'cq2_2': dict(wrapper='w_cq.cpp', mode='lcs', unroll=1, cxxflags=['-DELEM=2'], lvalpath=True, immutable=IMM, threads=thr('vp_thr_q', 2)),
  'cq1_3': dict(wrapper='w_cq.cpp', mode='lcs', unroll=1, cxxflags=['-DELEM=1'], lvalpath=True, immutable=IMM, threads=thr('vp_thr_q', 3)),
}
PUSH, POP = 1, 2
NCF = ['-fno-sanitize=null']   # thread-mode code forms &p->f from a not-yet-loaded (null) static temporary without accessing it
CB = ['--unwind', '20', '--object-bits', '10', '--external-sat-solver', 'kissat']
def sc(pre_push, pre_pop, a, b, c=None):
    d = {'PRE_PUSH': pre_push, 'PRE_POP': pre_pop, 'OA0': a[0], 'OA1': a[1], 'OB0': b[0], 'OB1': b[1]}
    if c is not None: d.update({'OC0': c[0], 'OC1': c[1]})
    return d
N = 0
def R(r, l): return [dict(x, ROUNDS=r) for x in l]
ONE_OP = [
  sc(0, 0, (PUSH, N), (POP, N)),          # ticket taken but item not yet written; empty answer vs concurrent push
  sc(1, 0, (POP, N), (POP, N)),           # two consumers race for one item (CAS on head_counter): exactly one wins
  sc(0, 0, (PUSH, N), (PUSH, N)),         # two producers: tickets/lane turns, drain order consistent with real time
  sc(8, 0, (PUSH, N), (POP, N)),          # push ticket 8 and pop ticket 0 meet in lane 0: page append vs pop finalizer (page mutex)
  sc(8, 8, (PUSH, N), (POP, N)),          # recycled lanes (head_page/tail_page were reset by earlier finalizers)
  sc(9, 8, (PUSH, N), (POP, N)),          # one item left in a recycled lane
]
TWO_OP = [
  sc(0, 0, (PUSH, PUSH), (POP, POP)),     # producer || consumer, two items: per-producer order, real-time order
  sc(1, 0, (PUSH, N), (POP, POP)),
  sc(8, 0, (PUSH, PUSH), (POP, POP)),
  sc(0, 0, (PUSH, POP), (PUSH, POP)),
  sc(9, 1, (PUSH, POP), (POP, PUSH)),     # mixed threads on a queue whose tickets revisit lanes
]
THREE_T = [
  sc(0, 0, (PUSH, N), (PUSH, N), (POP, N)),
  sc(1, 0, (PUSH, N), (POP, N), (POP, N)),
  sc(8, 0, (PUSH, N), (POP, N), (POP, N)),
]
BPOP, TRYPUSH, ABORT = 3, 4, 5
def bsc(cap, *a): return dict(sc(*a), CAP=cap)
BQ_ONE = [
  bsc(1, 0, 0, (PUSH, N), (BPOP, N)),        # pop sleeps on the empty queue until the push notifies items_avail
  bsc(1, 1, 0, (PUSH, N), (BPOP, N)),        # push sleeps on the full queue until the pop notifies slots_avail
  bsc(1, 1, 0, (TRYPUSH, N), (POP, N)),      # try_push may fail only if the queue was full at some instant
  bsc(1, 0, 0, (TRYPUSH, N), (BPOP, N)),
  bsc(2, 1, 0, (TRYPUSH, N), (TRYPUSH, N)),  # two producers, one free slot: exactly one succeeds (every scenario must let all blocking calls complete)
]
BQ_TWO = [
  bsc(1, 0, 0, (PUSH, PUSH), (BPOP, BPOP)),  # capacity 1 ping-pong: every operation may sleep
  bsc(1, 1, 0, (PUSH, N), (BPOP, BPOP)),     # the sleeping push is released by the first pop, the second pop (possibly sleeping: negative size) takes its item
  bsc(2, 2, 0, (PUSH, N), (BPOP, POP)),
  bsc(2, 1, 0, (PUSH, PUSH), (BPOP, N)),
]
# try_push's CAS retry: X reads ticket/head, Y pops the only item and pushes a new one (taking X's ticket), X's CAS fails and it must re-evaluate
# the fullness test with a fresh head: the queue never held 2 items, so try_push must succeed. REQ_RETRY_A: the witness run must contain a failed CAS of X.
BQ_RETRY = [dict(bsc(2, 1, 0, (TRYPUSH, N), (POP, PUSH)), REQ_RETRY_A=1), dict(bsc(2, 1, 0, (TRYPUSH, N), (POP, TRYPUSH)), REQ_RETRY_A=1)]
# negative-size state: a blocked pop() already took its ticket (head_counter > tail_counter) when ANOTHER thread calls try_pop: it must answer
# "empty" at once (no ticket taken, no spinning), and the next push must go to the sleeper. PREBLOCK: thread a first runs until it sleeps.
BQ_NEG = [dict(bsc(1, 0, 0, (BPOP, N), (POP, PUSH)), PREBLOCK=1), bsc(1, 0, 0, (BPOP, N), (POP, PUSH))]
def _completable(scn):
    """abstract sanity check of a bounded-queue scenario (operations atomic): no reachable state in which an unfinished thread can never
    proceed. A scenario that fails it would make a legitimately sleeping caller look like a lost wake-up (two early scenarios did)."""
    cap = scn['CAP']; thr = [[scn.get('O%s%d' % (t, i), 0) for i in (0, 1)] for t in 'ABC']
    thr = [[o for o in ops if o] for ops in thr]
    seen = set(); stack = [((0, 0, 0), scn['PRE_PUSH'] - scn['PRE_POP'])]
    while stack:
        st = stack.pop()
        if st in seen: continue
        seen.add(st); pcs, size = st; moved = False
        for t in range(3):
            if pcs[t] >= len(thr[t]): continue
            o = thr[t][pcs[t]]; nsz = None
            if o == PUSH: nsz = size + 1 if size < cap else None
            elif o == BPOP: nsz = size - 1 if size > 0 else None
            elif o == TRYPUSH: nsz = size + 1 if size < cap else size
            elif o == POP: nsz = size - 1 if size > 0 else size
            if nsz is None: continue
            moved = True; npc = list(pcs); npc[t] += 1; stack.append((tuple(npc), nsz))
        if not moved and any(pcs[t] < len(thr[t]) for t in range(3)): return False
    return True
for _s in BQ_ONE + BQ_TWO + BQ_RETRY + BQ_NEG: assert _completable(_s), 'bounded-queue scenario can block legitimately: %r' % _s
DESC = ('2-3 threads x <=2 operations (push / try_pop) after a sequential pre-state; complete linearizability check of the invocation/response '
        'history against a FIFO queue, final drain, lane invariants, page accounting, cbmc memory safety (use after free of pages), lost hand-off (blocked-state oracle)')
IMMB = [r'S_class_tbb__detail__d2__concurrent_bounded_queue\*\)v_\w+\)\)\.f[34]$']   # my_queue_representation, my_monitors
UNITS['cqx1_2'] = dict(wrapper='w_cq.cpp', mode='lcs', unroll=1, cxxflags=['-DELEM=1', '-DFAULTS=1'], exceptions=True, allow_atomic=['__clang_call_terminate'], lvalpath=True, immutable=IMM, threads=thr('vp_thr_q', 2))
# REALCPP=2: everything of concurrent_monitor.h real except binary_semaphore::P/V and the bounded spin of the monitor mutex
MONCUT = ['16binary_semaphore1PEv', '16binary_semaphore1VEv', 'timed_spin_wait_until']
UNITS['bqm1_2'] = dict(wrapper='w_cq.cpp', mode='lcs', unroll=1, cxxflags=['-DELEM=1', '-DBOUNDED=1', '-DREALCPP=2', '-D__TBB_BUILD=1'], cut=MONCUT, devirt=['sleep_node', 'delegated_function'], prune=True,
                       lvalpath=True, immutable=IMMB, threads=thrb('vp_thr_q', 2))
UNITS['bqmf1_2'] = dict(wrapper='w_cq.cpp', mode='lcs', unroll=1, cxxflags=['-DELEM=1', '-DBOUNDED=1', '-DREALCPP=2', '-DFAULTS=1', '-D__TBB_BUILD=1'], cut=MONCUT, devirt=['sleep_node', 'delegated_function'], prune=True,
                        exceptions=True, allow_atomic=['__clang_call_terminate'], lvalpath=True, immutable=IMMB, threads=thrb('vp_thr_q', 2))
UNITS['bqmx1_2'] = dict(wrapper='w_cq.cpp', mode='lcs', unroll=1, cxxflags=['-DELEM=1', '-DBOUNDED=1', '-DREALCPP=2', '-DABORTS=1', '-D__TBB_BUILD=1'], cut=MONCUT, devirt=['sleep_node', 'delegated_function'], prune=True,
                        exceptions=True, allow_atomic=['__clang_call_terminate'], lvalpath=True, immutable=IMMB, threads=thrb('vp_thr_q', 2))
NEGAB = dict(bsc(2, 0, 0, (BPOP, N), (POP, ABORT)), PREBLOCK=1, POST_PUSH=2)
HARNESSES = [
  dict(name='cq_big_2t', unit='cq1_2', harness='h_cq.c', defines={'NT': 2, 'ITEMS_PER_PAGE': 1},
       scenarios_quick=R(3, ONE_OP[:3]) + R(2, ONE_OP[3:5]), scenarios_thorough=R(4, ONE_OP[:3]) + R(3, ONE_OP[3:]) + R(3, TWO_OP[:4]) + R(2, TWO_OP[4:]),
       cbmc=CB, timeout=1500, mem_gb=8, thorough_override={'timeout': 7200}, native_cflags=NCF,
       desc='concurrent_queue<136-byte struct> (1 item/page: page allocated by every push, freed by every pop): ' + DESC,
       bounds={'threads': 2, 'ops_per_thread': '<=2', 'free_rounds': 'ROUNDS of the scenario (quick: 3 for 1 op/thread from a short pre-state, 2 otherwise; thorough 4 / 3)', 'forced_rounds': 2, 'spin_unroll': 1, 'pre_state': 'PRE_PUSH pushes then PRE_POP pops, sequential'}),
  dict(name='cq_int_2t', unit='cq0_2', harness='h_cq.c', defines={'NT': 2, 'ITEMS_PER_PAGE': 32},
       scenarios_quick=R(2, [sc(8, 0, (PUSH, N), (POP, N))]), scenarios_thorough=R(3, [sc(0, 0, (PUSH, N), (POP, N)), sc(8, 0, (PUSH, N), (POP, N)), sc(1, 0, (POP, N), (POP, N))]),
       cbmc=CB, timeout=1500, mem_gb=8, thorough_override={'timeout': 3600}, native_cflags=NCF,
       desc='concurrent_queue<4-byte struct> (32 items/page: a push with a non-zero page index re-uses tail_page without the page mutex, pops do not free): ' + DESC,
       bounds={'threads': 2, 'ops_per_thread': 1, 'free_rounds': '2 quick / 3 thorough', 'forced_rounds': 2, 'spin_unroll': 1}),
  dict(name='cq_pair_2t', unit='cq2_2', harness='h_cq.c', defines={'NT': 2, 'ITEMS_PER_PAGE': 2},
       scenarios_quick=R(2, [sc(16, 8, (PUSH, N), (POP, N))]), scenarios_thorough=R(3, [sc(8, 0, (PUSH, N), (POP, N)), sc(16, 8, (PUSH, N), (POP, N)), sc(9, 8, (PUSH, N), (POP, N))]),
       cbmc=CB, timeout=1500, mem_gb=8, thorough_override={'timeout': 3600}, native_cflags=NCF,
       desc='concurrent_queue<72-byte struct> (2 items/page): push ticket 16 appends a new page to lane 0 while pop ticket 8 (last item of the first page) unlinks and frees that page: ' + DESC,
       bounds={'threads': 2, 'ops_per_thread': 1, 'free_rounds': '2 quick / 3 thorough', 'forced_rounds': 2, 'spin_unroll': 1}),
  dict(name='cq_fault_2t', unit='cqx1_2', harness='h_cq.c', defines={'NT': 2, 'ITEMS_PER_PAGE': 1, 'FAULTS': 1},
       scenarios_quick=R(2, [sc(0, 0, (PUSH, N), (POP, N))]), scenarios_thorough=R(3, [sc(0, 0, (PUSH, N), (POP, N)), sc(0, 0, (PUSH, N), (PUSH, N))]) + R(2, [sc(1, 0, (PUSH, N), (POP, POP)), sc(0, 0, (PUSH, PUSH), (POP, POP))]),
       cbmc=CB, timeout=1500, mem_gb=8, thorough_override={'timeout': 5400}, native_cflags=NCF,
       desc='fault variant (unit compiled WITH exceptions): the element copy constructor throws at a solver-chosen call (at most once) after the push took its ticket and its lane turn: '
            'the failing push reports the exception, its slot becomes an invalid entry that pops skip, no other item is lost/duplicated, history linearizable with the failed push having no effect: ' + DESC,
       bounds={'threads': 2, 'ops_per_thread': '<=2', 'faults': '<=1 constructor exception at any call index', 'free_rounds': 'ROUNDS of the scenario', 'forced_rounds': 2, 'spin_unroll': 1}),
  dict(name='bq_abort_2t', unit='bqmx1_2', harness='h_cq.c', defines={'NT': 2, 'ITEMS_PER_PAGE': 1, 'BOUNDED': 1, 'REALCPP': 2, 'ABORTS': 1},
       # NEGAB: pop() sleeps with its ticket taken (negative size); the other thread calls try_pop (must say empty at once), then abort(); afterwards
       # (sequential post-phase) push(0x3000), push(0x3001), and the drain's try_pops: the sleeper gets user_abort and gives its ticket back, the values come out in order
       scenarios_quick=R(2, [dict(bsc(1, 0, 0, (BPOP, N), (ABORT, N)), PREBLOCK=1)]) + R(1, [dict(bsc(1, 1, 0, (PUSH, N), (ABORT, POP)), PREBLOCK=1)]) + R(1, [NEGAB]),
       scenarios_thorough=R(2, [dict(bsc(1, 0, 0, (BPOP, N), (ABORT, N)), PREBLOCK=1), dict(bsc(1, 1, 0, (PUSH, N), (ABORT, POP)), PREBLOCK=1),
                                bsc(1, 0, 0, (BPOP, N), (ABORT, PUSH)), bsc(1, 1, 0, (PUSH, N), (ABORT, BPOP)), dict(NEGAB, ROUNDS=2)]),
       cbmc=CB, timeout=1500, mem_gb=8, thorough_override={'timeout': 5400}, native_cflags=NCF,
       desc='concurrent_bounded_queue::abort (unit compiled WITH exceptions): a caller sleeping in push/pop is woken with user_abort (blocked-state oracle), an aborted pop gives its ticket back, '
            'an aborted push leaves an invalid entry that later pops skip; user_abort only for calls overlapping an abort(); no item lost or duplicated, history of the successful calls linearizable. '
            'PREBLOCK: thread a first runs until it sleeps, then the threads interleave freely',
       bounds={'threads': 2, 'ops_per_thread': '<=2', 'capacity': 1, 'free_rounds': 'ROUNDS of the scenario (quick 2 / 1, thorough 2)', 'forced_rounds': 2, 'spin_unroll': 1}),
  dict(name='bq_fault_2t', unit='bqmf1_2', harness='h_cq.c', defines={'NT': 2, 'ITEMS_PER_PAGE': 1, 'BOUNDED': 1, 'REALCPP': 2, 'FAULTS': 1},
       scenarios_quick=R(1, [dict(bsc(2, 0, 0, (BPOP, N), (PUSH, PUSH)), PREBLOCK=1)]),
       scenarios_thorough=R(2, [dict(bsc(2, 0, 0, (BPOP, N), (PUSH, PUSH)), PREBLOCK=1), bsc(2, 0, 0, (BPOP, N), (PUSH, PUSH))]),
       cbmc=CB, timeout=1500, mem_gb=8, thorough_override={'timeout': 5400}, native_cflags=NCF,
       desc='concurrent_bounded_queue with a throwing element constructor (unit WITH exceptions, real concurrent_bounded_queue.cpp): a consumer sleeps in pop() with ticket t, the push that owns '
            'ticket t fails after taking it (invalid entry, no notify), the next push succeeds: its notify must release the sleeper (predicate_leq covers skipped tickets), the pop skips the invalid '
            'entry and returns the next item; nothing lost, history of the successful calls linearizable',
       bounds={'threads': 2, 'ops_per_thread': '<=2', 'capacity': 2, 'faults': '<=1 constructor exception at a solver-chosen call', 'free_rounds': 'quick 1 / thorough 2', 'forced_rounds': 2, 'spin_unroll': 1}),
  dict(name='cq_big_3t', unit='cq1_3', harness='h_cq.c', defines={'NT': 3, 'ITEMS_PER_PAGE': 1}, tiers=['thorough'],
       scenarios=R(2, THREE_T), cbmc=CB, timeout=3600, mem_gb=8, native_cflags=NCF,
       desc='concurrent_queue<136-byte struct>, 3 threads x 1 operation: ' + DESC,
       bounds={'threads': 3, 'ops_per_thread': 1, 'free_rounds': 2, 'forced_rounds': 2, 'spin_unroll': 1}),
  dict(name='bq_big_2t', unit='bqm1_2', harness='h_cq.c', defines={'NT': 2, 'ITEMS_PER_PAGE': 1, 'BOUNDED': 1, 'REALCPP': 2},
       scenarios_quick=R(1, BQ_ONE[:2]) + R(2, BQ_ONE[2:3] + BQ_ONE[4:]) + R(2, BQ_RETRY[1:]) + R(1, BQ_NEG[:1]), scenarios_thorough=R(2, BQ_ONE[:2]) + R(3, BQ_ONE[2:]) + R(2, BQ_TWO) + R(3, BQ_RETRY) + R(2, BQ_NEG),
       cbmc=CB, timeout=1500, mem_gb=8, thorough_override={'timeout': 5400}, native_cflags=NCF,
       desc='concurrent_bounded_queue<136-byte struct>, capacity 1-2 (header code real; the r1:: monitor entry points are contract stubs with sleeper bookkeeping): '
            'push/pop (blocking), try_push, try_pop; linearizability against a BOUNDED FIFO queue (a push takes effect only when size < capacity, try_push fails only when full), '
            'blocked callers are released (blocked-state oracle: a sleeper that no notify selects although its condition holds is a lost wake-up)',
       bounds={'threads': 2, 'ops_per_thread': '<=2', 'capacity': '1-2', 'free_rounds': 'ROUNDS of the scenario', 'forced_rounds': 2, 'spin_unroll': 1}),
]
# development aid (mutation testing): C09_SC="0,3" keeps only these scenario indices of every harness
import os as _os
if _os.environ.get('C09_SC'):
    _k = [int(x) for x in _os.environ['C09_SC'].split(',')]
    for _h in HARNESSES:
        for _key in ('scenarios', 'scenarios_quick', 'scenarios_thorough'):
            if _key in _h: _h[_key] = [x for i, x in enumerate(_h[_key]) if i in _k]
MANIFEST = dict(
  level_text='Bounded model checking of the real concurrent_queue / concurrent_bounded_queue code (push, try_pop, blocking pop, try_push; micro_queue lanes, '
             'page allocation/linking/freeing, pop finalizer, ticket counters): for 2-3 threads with <=2 operations each, started from pre-states built by real '
             'sequential pushes/pops (tickets revisit lanes, recycled lanes, full/empty bounded queues), every interleaving at single-IR-memory-operation '
             'granularity within R scheduling rounds per thread is decided by the SAT solver against a COMPLETE linearizability check of the recorded '
             'invocation/response history w.r.t. a sequential (bounded) FIFO queue, plus: no item lost/duplicated/invented (final drain through the real try_pop), '
             'lane/ticket invariants and page accounting at quiescence, no use-after-free of pages (cbmc pointer checks), no lost hand-off or lost wake-up '
             '(two-round blocked-state oracle), capacity never exceeded, try_push/try_pop failures justified.',
  level_note='Element types: 136-byte (1 item/page), 72-byte (2/page), 4-byte (32/page). Bounds per harness in evidence (threads, ops, rounds, pre-state). '
             'concurrent_bounded_queue: header code, src/tbb/concurrent_bounded_queue.cpp (wait/notify/abort wrappers, the notify predicate, representation allocation) AND '
             'concurrent_monitor_base / sleep_node (wait set, epoch, predicate evaluation on node contexts, abort flags) are real; contract stubs only for binary_semaphore::P/V and the '
             'bounded spin of the monitor mutex (no type of the .cpp is named, so renames there do not break the build). Three harnesses are compiled WITH exceptions (lowered by the translator): '
             'an element copy constructor that throws at a solver-chosen call after the ticket was taken (unbounded queue: invalid entry skipped, nothing else lost; bounded queue: a consumer asleep on '
             'exactly that ticket is still released by the next push), and abort() of a sleeping push/pop. '
             'Page-allocation failure (bad_last_alloc) is outside. '
             'Sequential consistency. Trusted: clang-14 IR, tools/ir2c.py (--lvalpath/--immutable emission), cbmc + kissat.',
)
OUTSIDE = [
  'more than 3 threads, more than 2 operations per thread (4 concurrent operations in the quick tier)',
  'fault sequences beyond one constructor exception per run; page allocation that throws (invalidate_page / bad_last_alloc path); bounded-queue faults other than the sleeping-consumer scenario (e.g. a sleeping producer whose key is an invalid slot)',
  'abort() racing with more than one sleeper or with a notify for the same sleeper beyond the 2-thread scenarios listed; capacity changes while threads run; negative-size states with more than one blocked pop',
  'under the bounded queue: the futex protocol of binary_semaphore and the sleeping slow path of concurrent_monitor_mutex (stubbed; covered by C02), the real cache_aligned_allocator',
  'two operations meeting in the same lane other than push(k+8)/pop(k): e.g. pop(k)/pop(k+8) needs >8 pops (mutation M2 below is invisible inside the bound)',
  'emplace / move push, iterators, copy/move/assign/clear/swap (not concurrent operations)',
  'weak memory: sequential consistency only',
]
STUBS = [
  'r1::cache_aligned_allocate/deallocate: malloc/free of the requested size (queue representation handed out as a static typed object, pages as typed heap objects)',
  'binary_semaphore::P(): returns (closing the semaphore) if a V is pending, else the caller sleeps until one is; V(): opens the semaphore (bounded-queue units)',
  'd0::timed_spin_wait_until inside concurrent_monitor_mutex::lock: spin until the monitor mutex is seen free (its futex slow path is not reached)',
  'cache_aligned_allocate for the bounded representation: one static typed object {representation, 2 monitors} as requested by the real allocate_bounded_queue_rep; the harness then moves the idle monitors into an object of their own (vp_q_relocate_monitors: cbmc object granularity, no queue logic depends on their address)',
  'r1::throw_exception: throws (sets the pending-exception flag of the lowered unwinding) in the abort harness, must not be reached elsewhere',
  'element copy constructor fault hook vp_ctor_fault (fault harness only): throws at most FAULTS times at solver-chosen calls while the threads run',
  'sched_yield / pause: scheduling hints',
]
ASSUMPTIONS = [
  'concurrent_queue::my_queue_representation / my_monitors do not change while the threads run (asserted at the end; loads of them are not scheduling points)',
  'binary_semaphore is a correct binary semaphore and the monitor mutex a correct lock (their futex protocols are checked on the real code by C02)',
]

/* C09: concurrent_queue<T> is a linearizable FIFO queue (real push / try_pop code, 2-3 model threads).
 * Scenario (-D): NT threads (2|3); OA0,OA1,OB0,OB1[,OC0,OC1] = operation kinds of the threads (0 none, 1 push, 2 try_pop);
 *                PRE_PUSH / PRE_POP = sequential real pushes / pops executed before the threads start (pre-state);
 *                ROUNDS free scheduling rounds.
 * Symbolic inside a query: schedule (context-switch points), pushed payloads.
 * Oracle: complete linearizability check of the recorded invocation/response history against a sequential FIFO queue
 * (all permutations of the <= 6 concurrent operations that respect real-time order; pre-state operations precede, the final
 * sequential drain follows), plus structural invariants at quiescence, page accounting, and the blocked-state oracle. */
#include "w.h"
#include "vp.h"
#ifndef NT
#define NT 2
#endif
#ifndef OC0
#define OC0 0
#endif
#ifndef OC1
#define OC1 0
#endif
#ifndef NDRAIN
#define NDRAIN 8
#endif
/* pops attempted by the final drain: one more than can possibly be left */
#define ISP(k) ((k) == 1 || (k) == 4)
#define NPUSHOPS (ISP(OA0) + ISP(OA1) + ISP(OB0) + ISP(OB1) + ISP(OC0) + ISP(OC1))
#ifndef POST_PUSH
#define POST_PUSH 0   /* pushes executed sequentially after the concurrent phase and before the drain (bounded units) */
#endif
#define DRAIN_N ((PRE_PUSH - PRE_POP + NPUSHOPS + POST_PUSH + 1) < NDRAIN ? (PRE_PUSH - PRE_POP + NPUSHOPS + POST_PUSH + 1) : NDRAIN)
#ifndef ITEMS_PER_PAGE
#define ITEMS_PER_PAGE 1
#endif
#define THR(s) vp_thr_q_##s

#ifndef BOUNDED
#define BOUNDED 0
#endif
#if BOUNDED
struct S_class_tbb__detail__d2__concurrent_bounded_queue Q;    /* CAP = capacity (set_capacity before the threads start) */
#define Q_REP Q.f3
#else
struct S_class_tbb__detail__d2__concurrent_queue Q;
#define Q_REP Q.f1
#define CAP 1000000
#endif

/* ---- external boundary: r1::cache_aligned_allocate / deallocate (contract: malloc/free of the requested size) */
/* The objects are handed out *typed* (the queue representation as a static object, pages as malloc(sizeof(page))): a byte-array
   heap object indexed by a symbolic lane number makes cbmc's propositional encoding explode. */
typedef struct S_struct_tbb__detail__d2__concurrent_queue_rep rep_t;
typedef struct S_struct_tbb__detail__d2__micro_queue_elem_t__tbb__detail__d1__cache_aligned_allocator_elem_t____padded_page page_t;
#ifndef REALCPP
#define REALCPP 0
#endif
#if REALCPP
struct { rep_t rep; struct S_class_tbb__detail__r1__concurrent_monitor mon[2]; } REPM;   /* what the real allocate_bounded_queue_rep asks for */
#define REP REPM.rep
#else
rep_t REP;
#endif
int rep_used;
int live_allocs;
u8* _ZN3tbb6detail2r122cache_aligned_allocateEm(u64 n) {
  live_allocs++;
#if REALCPP
  if (n == sizeof(REPM) && !rep_used) { rep_used = 1; live_allocs--; return (u8*)&REPM; }   /* the real allocate_bounded_queue_rep: representation + 2 monitors */
#endif
  if (n == sizeof(rep_t) && !rep_used) { rep_used = 1; return (u8*)&REP; }
  u8* p;
  if (n == sizeof(page_t)) p = malloc(sizeof(page_t)); else
  p = malloc(n);
  __CPROVER_assume(p != 0);
  return p;
}
void _ZN3tbb6detail2r124cache_aligned_deallocateEPv(u8* p) { live_allocs--; VP_ASSERT(p != (u8*)&REP, "queue representation freed while the queue is alive"); free(p); }
#if BOUNDED
int bq_sleeps, bq_wakes; u8 TI_ABORT;
#if REALCPP != 2
#error "bounded-queue units are built with REALCPP=2 (real concurrent_bounded_queue.cpp + real concurrent_monitor)"
#endif
#if REALCPP == 2
struct S_class_tbb__detail__r1__concurrent_monitor MON[2];   /* see vp_q_relocate_monitors in the wrapper */
/* REALCPP=2 units: src/tbb/concurrent_bounded_queue.cpp AND concurrent_monitor_base / sleep_node (wait set, epoch, predicate evaluation on
   every node's context, my_is_in_list, skipped wake-ups, abort flags) are real code of the unit. Cut (contract stubs):
   binary_semaphore::P(): returns (closing the semaphore) if a V is pending, else the caller sleeps until one is;  V(): opens it;
   d0::timed_spin_wait_until in concurrent_monitor_mutex::lock: the bounded spin is modelled as "spin until the mutex is seen free"
   (the futex slow path of that mutex is C02's subject and not reached here). */
void _ZN3tbb6detail2r116binary_semaphore1PEv(struct S_class_tbb__detail__r1__binary_semaphore* s) {
  if (vp_sem_get(s) == 0) { vp_sem_set(s, 1); return; }
  bq_sleeps++; VP_BLOCK();
}
void _ZN3tbb6detail2r116binary_semaphore1VEv(struct S_class_tbb__detail__r1__binary_semaphore* s) { vp_sem_set(s, 0); bq_wakes++; vp_changed = 1; }
u8 _ZN3tbb6detail2d021timed_spin_wait_untilIZNS0_2r124concurrent_monitor_mutex4lockEvEUlvE_EEbT_(struct S_class_tbb__detail__r1__concurrent_monitor_mutex* mx) {
  if (vp_cmm_is_free(mx)) return 1;
  VP_BLOCK(); return 0;
}
void vpx___cxa_pure_virtual(void) { VP_ASSERT(0, "pure virtual call"); }
void _ZdlPv(u8* p) { VP_ASSERT(0, "operator delete: nothing here is heap-allocated with new"); }
u64 vpx_syscall(u64 nr, ...) { VP_ASSERT(0, "futex syscall: semaphore and monitor-mutex slow paths are cut in this unit"); return 0; }
#endif
#endif
#ifndef FAULTS
#define FAULTS 0
#endif
#ifndef ABORTS
#define ABORTS 0
#endif
#if FAULTS
/* fault injection: the element copy constructor (called by micro_queue::push after the ticket was taken and the lane turn acquired)
   throws at a solver-chosen call, at most FAULTS times, only while the threads run */
int faults_on, nfaults; u8 TI_USER;
void vp_ctor_fault(void) { if (faults_on && nfaults < FAULTS && vp_nd_bool()) { nfaults++; vp_throw_user(&TI_USER); } }
#endif
/* r1::throw_exception: with exceptions compiled out the real one aborts; reaching it without an injected fault is a failure */
#if ABORTS
u8 TI_TBB[16];
void _ZN3tbb6detail2r115throw_exceptionENS0_2d012exception_idE(u32 id) {
  VP_ASSERT(id == 3 /* exception_id::user_abort */, "throw_exception: only user_abort is expected"); vp_throw_user(&TI_TBB[id & 15]);
}
#else
void _ZN3tbb6detail2r115throw_exceptionENS0_2d012exception_idE(u32 id) { VP_ASSERT(0, "throw_exception reached (bad_last_alloc / user_abort) although no fault or abort was injected"); }
#endif

/* ---- history */
#define MAXOPS 6
enum { K_NONE = 0, K_PUSH = 1, K_POP = 2, K_BPOP = 3, K_TRYPUSH = 4, K_ABORT = 5 };   /* push, try_pop, (bounded) blocking pop, try_push, abort */
#define IS_PUSH(k) ((k) == K_PUSH || (k) == K_TRYPUSH)
#define IS_POP(k) ((k) == K_POP || (k) == K_BPOP)
struct op { int used, kind, done, ok; unsigned inv, res, val; } H[MAXOPS];   /* index = tid*2 + slot */
unsigned clk;
int a_retried;
int post_threw; void vp_post_threw(void) { post_threw = 1; }
void vp_inv(u32 tid, u32 slot, u32 kind, u32 val) { struct op* o = &H[tid * 2 + slot]; o->used = 1; o->kind = kind; o->val = val; o->inv = ++clk; }
void vp_res(u32 tid, u32 slot, u32 ok, u32 val) {
  struct op* o = &H[tid * 2 + slot]; o->done = 1; o->ok = ok; o->res = ++clk;
  if (IS_POP(o->kind)) o->val = val;
}

/* kinds are scenario constants: the checker below has concrete control */
static const int KIND[MAXOPS] = { OA0, OA1, OB0, OB1, OC0, OC1 };
#define PREVAL(i) (0x1000u + (unsigned)(i))
static unsigned mkval(unsigned id) { return ((unsigned)vp_nd() << 8) | id; }   /* symbolic payload, unique low byte */

/* sequential specification state used by the checker */
#define SPECMAX (PRE_PUSH + MAXOPS + POST_PUSH + 1)
#define POSTVAL(i) (0x3000u + (unsigned)(i))
unsigned drained[SPECMAX]; int ndrained;
void vp_drained(u32 v) { drained[ndrained++] = v; }

static int try_perm(const int* perm, int n) {
  /* real-time order: an operation that responded before another was invoked must be linearized first */
  for (int x = 0; x < n; x++) for (int y = x + 1; y < n; y++) if (H[perm[y]].res < H[perm[x]].inv) return 0;
  unsigned content[SPECMAX + 1]; int head = 0, tail = 0;
  for (int i = PRE_POP; i < PRE_PUSH; i++) content[tail++] = PREVAL(i);
  int match = 1;
  for (int x = 0; x < n; x++) {
    const struct op* o = &H[perm[x]];
    int k = KIND[perm[x]];
    if (k == K_ABORT) continue;
    if ((k == K_PUSH || k == K_BPOP) && !o->ok) continue;   /* the call threw (injected constructor fault / user_abort): no effect */
    if (k == K_PUSH) {
      if (tail - head >= CAP) return 0; content[tail++] = o->val; }     /* a (blocking) push takes effect only when there is room */
    else if (k == K_TRYPUSH) { if (tail - head < CAP) { match &= o->ok; content[tail++] = o->val; } else match &= !o->ok; }
    else if (k == K_BPOP) { if (head >= tail) return 0; match &= (o->val == content[head]); head++; }   /* a blocking pop takes effect only on a non-empty queue */
    else if (head < tail) { match &= (o->ok && o->val == content[head]); head++; }
    else match &= !o->ok;
  }
  /* what is left must be exactly what the final sequential drain returned, in order */
  for (int i = 0; i < POST_PUSH; i++) { if (tail - head >= CAP) return 0; content[tail++] = POSTVAL(i); }   /* sequential post-phase pushes */
  match &= (tail - head == ndrained || (ndrained == DRAIN_N && tail - head > DRAIN_N));
  for (int i = 0; head + i < tail && i < SPECMAX; i++) match &= (i >= ndrained || drained[i] == content[head + i]);
  return match;
}

static int okpos(const int* p, const int* idx, int k) {
  for (int x = 0; x < k; x++) {
    if (p[x] == p[k]) return 0;
    if (idx[p[x]] / 2 == idx[p[k]] / 2 && idx[p[x]] > idx[p[k]]) return 0;   /* same thread: slot 0 before slot 1 */
  }
  return 1;
}
#define LEVEL(k) for (p[k] = 0; p[k] < (n > k ? n : 1); p[k]++) if (n <= k || okpos(p, idx, k))
static int linearizable(void) {
  int idx[MAXOPS], n = 0;
  for (int i = 0; i < MAXOPS; i++) if (KIND[i] != K_NONE) idx[n++] = i;
  int perm[MAXOPS], found = 0;
  int p[MAXOPS];
  LEVEL(0) LEVEL(1) LEVEL(2) LEVEL(3) LEVEL(4) LEVEL(5) {
    for (int x = 0; x < n; x++) perm[x] = idx[p[x]];
    if (try_perm(perm, n)) found = 1;
  }
  return found;
}

int main(void) {
  vp_q_ctor(&Q);
#if BOUNDED
  vp_q_set_capacity(&Q, CAP);
#endif
#if REALCPP == 2
  vp_q_relocate_monitors(&Q, MON);
#endif
  /* pre-state through the real operations (sequential) */
  for (int i = 0; i < PRE_PUSH; i++) vp_q_push(&Q, PREVAL(i));
  for (int i = 0; i < PRE_POP; i++) { u32 v = 0; int ok = vp_q_try_pop(&Q, &v); VP_ASSERT(ok && v == PREVAL(i), "sequential pre-state pop returned the wrong item"); }

#if FAULTS
  faults_on = 1;
#endif
  THR(a_start)(&Q, 0, OA0, mkval(1), OA1, mkval(2));
  THR(b_start)(&Q, 1, OB0, mkval(3), OB1, mkval(4));
#if NT == 3
  THR(c_start)(&Q, 2, OC0, mkval(5), OC1, mkval(6));
#endif
#ifdef PREBLOCK
  vp_cur = 0; VP_RUNMAX(THR(a))      /* scenario option: thread a first runs until it finishes or blocks (e.g. sleeps in a full/empty queue) */
#endif
  for (int r = 0; r < ROUNDS; r++) {
    VP_RUNT(THR(a), 0)
    /* ghost: thread a ended its slice at the back edge of a retry (data) loop, e.g. the CAS loop of try_push / try_pop failed and goes round */
    if (!THR(a_fin) && !THR(a_blocked) && THR(a_pc) != THR(a_cs)) a_retried = 1;
    VP_RUNT(THR(b), 1)
#if NT == 3
    VP_RUNT(THR(c), 2)
#endif
  }
#if NT == 3
  VP_QUIESCE3(THR(a), THR(b), THR(c))
#else
  VP_QUIESCE2(THR(a), THR(b))
#endif
  VP_ASSERT(!vp_deadlock, "lost hand-off / lost wake-up: every unfinished thread spins on a lane or ticket counter (or sleeps in the bounded-queue monitor without being notified) and nothing changes");
  __CPROVER_assume(!vp_unfinished);

  /* ---- quiescent state */
  int npush = 0, npop_ok = 0;
  for (int i = 0; i < MAXOPS; i++) if (KIND[i] != K_NONE) {
    VP_ASSERT(H[i].used && H[i].done && H[i].kind == KIND[i], "operation never invoked / never responded");
    if (IS_PUSH(KIND[i])) { if (H[i].ok) npush++; } else if (IS_POP(KIND[i]) && H[i].ok) npop_ok++;
  }
  /* every popped value was pushed (pre-state or by a push invoked before the pop responded), and at most once */
  for (int i = 0; i < MAXOPS; i++) if (IS_POP(KIND[i]) && H[i].ok) {
    int src = 0;
    for (int j = PRE_POP; j < PRE_PUSH; j++) if (H[i].val == PREVAL(j)) src = 1;
    for (int j = 0; j < MAXOPS; j++) if (IS_PUSH(KIND[j]) && H[j].val == H[i].val && H[j].inv < H[i].res) src = 1;
    VP_ASSERT(src, "try_pop returned a value nobody pushed (invented / torn / not yet pushed)");
    for (int j = i + 1; j < MAXOPS; j++) if (IS_POP(KIND[j]) && H[j].ok)
      VP_ASSERT(H[j].val != H[i].val, "the same item was popped twice");
  }
  VP_ASSERT(Q_REP == &REP, "my_queue_representation changed (the unit treats it as immutable while threads run)");
  int nfailed = 0;
#if FAULTS || ABORTS
  for (int i = 0; i < MAXOPS; i++) if (KIND[i] == K_PUSH && !H[i].ok) nfailed++;
#if FAULTS
  faults_on = 0;
  VP_ASSERT(nfailed == nfaults, "a push reported failure without an injected fault, or swallowed one");
#endif
#if ABORTS
  /* user_abort is delivered only to calls that overlap an abort() */
  for (int i = 0; i < MAXOPS; i++) if ((KIND[i] == K_PUSH || KIND[i] == K_BPOP) && !H[i].ok) {
    int just = 0;
    for (int j = 0; j < MAXOPS; j++) if (KIND[j] == K_ABORT && H[j].inv < H[i].res) just = 1;
    VP_ASSERT(just, "push/pop threw although no abort() had been invoked");
  }
#endif
  /* a failed push consumed its ticket and left an invalid slot: tail counts attempts; head + invalid entries account for the rest */
  VP_ASSERT(vp_q_invalid(&Q) <= (u64)nfailed, "more invalid entries than failed pushes");
#else
  VP_ASSERT(vp_q_invalid(&Q) == 0, "n_invalid_entries != 0 without any failed push");
  VP_ASSERT(vp_q_head(&Q) == (u64)(PRE_POP + npop_ok), "head ticket != number of successful pops");
#endif
  VP_ASSERT((long)vp_q_size(&Q) == (long)(PRE_PUSH - PRE_POP + npush - npop_ok), "size() != pushes - successful pops at quiescence");
  VP_ASSERT(vp_q_tail(&Q) == (u64)(PRE_PUSH + npush + nfailed), "tail ticket != number of push attempts");
#if BOUNDED
  VP_ASSERT(PRE_PUSH - PRE_POP + npush - npop_ok <= CAP, "more items stored than the capacity");
#if REALCPP == 2
  VP_ASSERT(Q.f4 == MON, "my_monitors changed");
  for (int i = 0; i < 2; i++) VP_ASSERT(vp_mon_waiters(&Q, i) == 0 && vp_mon_closed(&Q, i) && vp_mon_mutex_free(&Q, i), "monitor not idle at quiescence: wait set not empty / list not closed / monitor mutex held");
#endif
#endif
  for (int l = 0; l < 8; l++) VP_ASSERT(vp_q_lane_ok(&Q, l), "lane invariant broken at quiescence (counters / page list / page mutex)");
  VP_ASSERT(vp_q_empty(&Q) == (PRE_PUSH - PRE_POP + npush - npop_ok == 0), "empty() wrong at quiescence");

  /* final sequential drain with the real try_pop: nothing lost, FIFO order of the remainder */
#if POST_PUSH
  vp_cur = 0; vp_thr_post_start(&Q, POST_PUSH, POSTVAL(0), POSTVAL(1));
  VP_RUNMAX(vp_thr_post)
  VP_ASSERT(vp_thr_post_fin && !post_threw, "a push after the concurrent phase slept, spun or threw although the queue has room and nobody aborts");
  __CPROVER_assume(vp_thr_post_fin);
#endif
  vp_cur = 0; vp_thr_drain_start(&Q, DRAIN_N);
  VP_RUNMAX(vp_thr_drain)
#if FAULTS || ABORTS
  /* a try_pop that meets an invalid entry goes round its retry loop: with unroll 1 that back edge ends the slice (the loop contains the
     lane spin loops, so it is even classified as a busy-wait): give the drain one more slice per possible invalid entry */
  for (int i = 0; i < (FAULTS ? FAULTS : NPUSHOPS); i++) { VP_RUNMAX(vp_thr_drain) }
#endif
  VP_ASSERT(vp_thr_drain_fin, "final drain got stuck: an item that was pushed can never be popped (lane hand-off lost)");
  __CPROVER_assume(vp_thr_drain_fin);
  {
    int expect = PRE_PUSH - PRE_POP + npush - npop_ok + POST_PUSH;
    VP_ASSERT(ndrained == (expect < DRAIN_N ? expect : DRAIN_N), "items lost or invented: drain count != pushes - pops");
    VP_ASSERT((long)vp_q_size(&Q) == (long)(expect - ndrained), "size() wrong after the drain");
    if (expect < DRAIN_N) VP_ASSERT(vp_q_invalid(&Q) == 0 && vp_q_head(&Q) == vp_q_tail(&Q), "tickets or invalid entries left after the queue was drained empty");
  }
  VP_ASSERT(linearizable(), "history is not linearizable to a sequential (bounded) FIFO queue: no order of the concurrent calls that respects real time explains the results (e.g. try_pop said empty / try_push said full although the queue never was during the call, FIFO or real-time push order broken, push took effect on a full queue)");
#if ITEMS_PER_PAGE == 1
  if (PRE_PUSH - PRE_POP + npush - npop_ok + POST_PUSH <= DRAIN_N) VP_ASSERT(live_allocs == (BOUNDED ? 0 : 1), "page leak or double free: live allocations after drain != 1 (the queue representation)");
#endif
#ifdef REQ_RETRY_A
  /* scenario option: the reachability witness must come from a run in which thread a's retry loop went round at least once and the call
     completed (all assertions above are still checked for every run) */
  __CPROVER_assume(a_retried);
#endif
  VP_REACHED();
  return 0;
}

/* C09: concurrent_queue<T> is a linearizable FIFO queue (real push / try_pop code, 2-3 model threads).
 * Scenario (-D): NT threads (2|3); OA0,OA1,OB0,OB1[,OC0,OC1] = operation kinds of the threads (0 none, 1 push, 2 try_pop);
 *                PRE_PUSH / PRE_POP = sequential real pushes / pops executed before the threads start (pre-state);
 *                ROUNDS free scheduling rounds.
 * Symbolic inside a query: schedule (context-switch points), pushed payloads.
 * Oracle: complete linearizability check of the recorded invocation/response history against a sequential FIFO queue
 * (all permutations of the <= 6 concurrent operations that respect real-time order; pre-state operations precede, the final
 * sequential drain follows), plus structural invariants at quiescence, page accounting, and the blocked-state oracle. */
#include "w.h"
#include "vp.h"
#ifndef NT
#define NT 2
#endif
#ifndef OC0
#define OC0 0
#endif
#ifndef OC1
#define OC1 0
#endif
#ifndef NDRAIN
#define NDRAIN 8
#endif
/* pops attempted by the final drain: one more than can possibly be left */
#define NPUSHOPS ((OA0 == 1) + (OA1 == 1) + (OB0 == 1) + (OB1 == 1) + (OC0 == 1) + (OC1 == 1))
#define DRAIN_N ((PRE_PUSH - PRE_POP + NPUSHOPS + 1) < NDRAIN ? (PRE_PUSH - PRE_POP + NPUSHOPS + 1) : NDRAIN)
#ifndef ITEMS_PER_PAGE
#define ITEMS_PER_PAGE 1
#endif
#define THR(s) vp_thr_q_##s

struct S_class_tbb__detail__d2__concurrent_queue Q;

/* ---- external boundary: r1::cache_aligned_allocate / deallocate (contract: malloc/free of the requested size) */
/* The objects are handed out *typed* (the queue representation as a static object, pages as malloc(sizeof(page))): a byte-array
   heap object indexed by a symbolic lane number makes cbmc's propositional encoding explode. */
typedef struct S_struct_tbb__detail__d2__concurrent_queue_rep rep_t;
typedef struct S_struct_tbb__detail__d2__micro_queue_elem_t__tbb__detail__d1__cache_aligned_allocator_elem_t____padded_page page_t;
rep_t REP; int rep_used;
int live_allocs;
u8* _ZN3tbb6detail2r122cache_aligned_allocateEm(u64 n) {
  live_allocs++;
  if (n == sizeof(rep_t) && !rep_used) { rep_used = 1; return (u8*)&REP; }
  u8* p;
  if (n == sizeof(page_t)) p = malloc(sizeof(page_t)); else
  p = malloc(n);
  __CPROVER_assume(p != 0);
  return p;
}
void _ZN3tbb6detail2r124cache_aligned_deallocateEPv(u8* p) { live_allocs--; VP_ASSERT(p != (u8*)&REP, "queue representation freed while the queue is alive"); free(p); }
/* r1::throw_exception: with exceptions compiled out the real one aborts; reaching it without an injected fault is a failure */
void _ZN3tbb6detail2r115throw_exceptionENS0_2d012exception_idE(u32 id) { VP_ASSERT(0, "throw_exception reached (bad_last_alloc) although no allocation failed"); }

/* ---- history */
#define MAXOPS 6
enum { K_NONE = 0, K_PUSH = 1, K_POP = 2 };
struct op { int used, kind, done, ok; unsigned inv, res, val; } H[MAXOPS];   /* index = tid*2 + slot */
unsigned clk;
void vp_inv(u32 tid, u32 slot, u32 kind, u32 val) { struct op* o = &H[tid * 2 + slot]; o->used = 1; o->kind = kind; o->val = val; o->inv = ++clk; }
void vp_res(u32 tid, u32 slot, u32 ok, u32 val) {
  struct op* o = &H[tid * 2 + slot]; o->done = 1; o->ok = ok; o->res = ++clk;
  if (o->kind == K_POP) o->val = val;
}

/* kinds are scenario constants: the checker below has concrete control */
static const int KIND[MAXOPS] = { OA0, OA1, OB0, OB1, OC0, OC1 };
#define PREVAL(i) (0x1000u + (unsigned)(i))
static unsigned mkval(unsigned id) { return ((unsigned)vp_nd() << 8) | id; }   /* symbolic payload, unique low byte */

/* sequential specification state used by the checker */
#define SPECMAX (PRE_PUSH + MAXOPS + 1)
unsigned drained[SPECMAX]; int ndrained;
void vp_drained(u32 v) { drained[ndrained++] = v; }

static int try_perm(const int* perm, int n) {
  /* real-time order: an operation that responded before another was invoked must be linearized first */
  for (int x = 0; x < n; x++) for (int y = x + 1; y < n; y++) if (H[perm[y]].res < H[perm[x]].inv) return 0;
  unsigned content[SPECMAX]; int head = 0, tail = 0;
  for (int i = PRE_POP; i < PRE_PUSH; i++) content[tail++] = PREVAL(i);
  int match = 1;
  for (int x = 0; x < n; x++) {
    const struct op* o = &H[perm[x]];
    if (KIND[perm[x]] == K_PUSH) content[tail++] = o->val;
    else if (head < tail) { match &= (o->ok && o->val == content[head]); head++; }
    else match &= !o->ok;
  }
  /* what is left must be exactly what the final sequential drain returned, in order */
  match &= (tail - head == ndrained || (ndrained == DRAIN_N && tail - head > DRAIN_N));
  for (int i = 0; head + i < tail && i < SPECMAX; i++) match &= (i >= ndrained || drained[i] == content[head + i]);
  return match;
}

static int okpos(const int* p, const int* idx, int k) {
  for (int x = 0; x < k; x++) {
    if (p[x] == p[k]) return 0;
    if (idx[p[x]] / 2 == idx[p[k]] / 2 && idx[p[x]] > idx[p[k]]) return 0;   /* same thread: slot 0 before slot 1 */
  }
  return 1;
}
#define LEVEL(k) for (p[k] = 0; p[k] < (n > k ? n : 1); p[k]++) if (n <= k || okpos(p, idx, k))
static int linearizable(void) {
  int idx[MAXOPS], n = 0;
  for (int i = 0; i < MAXOPS; i++) if (KIND[i] != K_NONE) idx[n++] = i;
  int perm[MAXOPS], found = 0;
  int p[MAXOPS];
  LEVEL(0) LEVEL(1) LEVEL(2) LEVEL(3) LEVEL(4) LEVEL(5) {
    for (int x = 0; x < n; x++) perm[x] = idx[p[x]];
    if (try_perm(perm, n)) found = 1;
  }
  return found;
}

int main(void) {
  vp_q_ctor(&Q);
  /* pre-state through the real operations (sequential) */
  for (int i = 0; i < PRE_PUSH; i++) vp_q_push(&Q, PREVAL(i));
  for (int i = 0; i < PRE_POP; i++) { u32 v = 0; int ok = vp_q_try_pop(&Q, &v); VP_ASSERT(ok && v == PREVAL(i), "sequential pre-state pop returned the wrong item"); }

  THR(a_start)(&Q, 0, OA0, mkval(1), OA1, mkval(2));
  THR(b_start)(&Q, 1, OB0, mkval(3), OB1, mkval(4));
#if NT == 3
  THR(c_start)(&Q, 2, OC0, mkval(5), OC1, mkval(6));
#endif
  for (int r = 0; r < ROUNDS; r++) {
    VP_RUN(THR(a)) VP_RUN(THR(b))
#if NT == 3
    VP_RUN(THR(c))
#endif
  }
#if NT == 3
  VP_QUIESCE3(THR(a), THR(b), THR(c))
#else
  VP_QUIESCE2(THR(a), THR(b))
#endif
  VP_ASSERT(!vp_deadlock, "lost hand-off: every unfinished thread spins on a lane/ticket counter and nothing changes");
  __CPROVER_assume(!vp_unfinished);

  /* ---- quiescent state */
  int npush = 0, npop_ok = 0;
  for (int i = 0; i < MAXOPS; i++) if (KIND[i] != K_NONE) {
    VP_ASSERT(H[i].used && H[i].done && H[i].kind == KIND[i], "operation never invoked / never responded");
    if (KIND[i] == K_PUSH) npush++; else if (H[i].ok) npop_ok++;
  }
  /* every popped value was pushed (pre-state or by a push invoked before the pop responded), and at most once */
  for (int i = 0; i < MAXOPS; i++) if (KIND[i] == K_POP && H[i].ok) {
    int src = 0;
    for (int j = PRE_POP; j < PRE_PUSH; j++) if (H[i].val == PREVAL(j)) src = 1;
    for (int j = 0; j < MAXOPS; j++) if (KIND[j] == K_PUSH && H[j].val == H[i].val && H[j].inv < H[i].res) src = 1;
    VP_ASSERT(src, "try_pop returned a value nobody pushed (invented / torn / not yet pushed)");
    for (int j = i + 1; j < MAXOPS; j++) if (KIND[j] == K_POP && H[j].ok)
      VP_ASSERT(H[j].val != H[i].val, "the same item was popped twice");
  }
  VP_ASSERT(Q.f1 == &REP, "my_queue_representation changed (the unit treats it as immutable while threads run)");
  VP_ASSERT(vp_q_invalid(&Q) == 0, "n_invalid_entries != 0 without any failed push");
  VP_ASSERT((long)vp_q_size(&Q) == (long)(PRE_PUSH - PRE_POP + npush - npop_ok), "size() != pushes - successful pops at quiescence");
  VP_ASSERT(vp_q_tail(&Q) == (u64)(PRE_PUSH + npush), "tail ticket != number of pushes");
  VP_ASSERT(vp_q_head(&Q) == (u64)(PRE_POP + npop_ok), "head ticket != number of successful pops");
  for (int l = 0; l < 8; l++) VP_ASSERT(vp_q_lane_ok(&Q, l), "lane invariant broken at quiescence (counters / page list / page mutex)");
  VP_ASSERT(vp_q_empty(&Q) == (PRE_PUSH - PRE_POP + npush - npop_ok == 0), "empty() wrong at quiescence");

  /* final sequential drain with the real try_pop: nothing lost, FIFO order of the remainder */
  vp_thr_drain_start(&Q, DRAIN_N);
  VP_RUNMAX(vp_thr_drain)
  VP_ASSERT(vp_thr_drain_fin, "final drain got stuck: an item that was pushed can never be popped (lane hand-off lost)");
  __CPROVER_assume(vp_thr_drain_fin);
  {
    int expect = PRE_PUSH - PRE_POP + npush - npop_ok;
    VP_ASSERT(ndrained == (expect < DRAIN_N ? expect : DRAIN_N), "items lost or invented: drain count != pushes - pops");
    VP_ASSERT((long)vp_q_size(&Q) == (long)(expect - ndrained), "size() wrong after the drain");
  }
  VP_ASSERT(linearizable(), "history is not linearizable to a sequential FIFO queue");
#if ITEMS_PER_PAGE == 1
  if (PRE_PUSH - PRE_POP + npush - npop_ok <= DRAIN_N) VP_ASSERT(live_allocs == 1, "page leak or double free: live allocations after drain != 1 (the queue representation)");
#endif
  VP_REACHED();
  return 0;
}

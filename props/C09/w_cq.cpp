// C09 wrapper: thread bodies and sequential helpers over the real concurrent_queue<T>
// (include/oneapi/tbb/concurrent_queue.h + detail/_concurrent_queue_base.h).
// ELEM selects the element type / page-size class:
//   ELEM=1 : 136-byte struct -> items_per_page == 1 (page allocated on every push, freed on every pop)
//   ELEM=2 : 72-byte struct  -> items_per_page == 2 (second item of a page re-uses tail_page without the page mutex)
//   ELEM=0 : int             -> items_per_page == 32
#if REALCPP
// REALCPP=2: src/tbb/concurrent_bounded_queue.cpp (r1:: wait/notify/abort wrappers, the notify predicate, representation allocation) and all of
// concurrent_monitor.h are part of the unit; the external boundary is binary_semaphore::P/V and the bounded spin of the monitor mutex (spec.py MONCUT)
#include "src/tbb/concurrent_bounded_queue.cpp"
#else
#include "oneapi/tbb/concurrent_queue.h"
#endif
using namespace tbb;

#ifndef ELEM
#define ELEM 1
#endif
// the payload is `v`; the padding only sets sizeof (hence items_per_page) and is never copied: user-provided copy operations, so that an
// element copy is one 4-byte load/store pair in the IR instead of a >100-byte memcpy
#if ELEM == 1
#define PADBYTES 132        // sizeof 136 -> 1 item per page
#elif ELEM == 2
#define PADBYTES 68         // sizeof 72  -> 2 items per page
#else
#define PADBYTES 0          // sizeof 4   -> 32 items per page
#endif
#if FAULTS
extern "C" void vp_ctor_fault();
#endif
struct elem_t {
  unsigned v;
#if PADBYTES
  unsigned char pad[PADBYTES];
#endif
  elem_t() {}
#if FAULTS
  elem_t(const elem_t& o) : v(o.v) { vp_ctor_fault(); }   // the element copy constructor may throw (harness-controlled fault position)
#else
  elem_t(const elem_t& o) : v(o.v) {}
#endif
  elem_t& operator=(const elem_t& o) { v = o.v; return *this; }
};
#if BOUNDED
typedef concurrent_bounded_queue<elem_t> queue_t;   // header part is real; the three r1:: monitor entry points are the external boundary
#else
typedef concurrent_queue<elem_t> queue_t;
#endif
static_assert(queue_t::queue_representation_type::items_per_page == (ELEM == 1 ? 1 : ELEM == 2 ? 2 : 32), "page class");

// observers (defined in the harness; each call is one atomic visible step of the calling model thread)
extern "C" void vp_inv(int tid, int slot, int kind, unsigned val);      // operation invoked
extern "C" void vp_res(int tid, int slot, int ok, unsigned val);        // operation responded (ok: pop success; val: popped value)

enum { OP_NONE = 0, OP_PUSH = 1, OP_TRYPOP = 2, OP_POP = 3, OP_TRYPUSH = 4, OP_ABORT = 5 };   // 3,4,5: concurrent_bounded_queue only (push/pop block there)
#ifndef FAULTS
#define FAULTS 0
#endif
#ifndef ABORTS
#define ABORTS 0
#endif
#define EXC (FAULTS || ABORTS)   // unit compiled with exceptions: a push / pop may throw (constructor fault / user_abort); nothing may escape a thread body

static inline void do_op(queue_t* q, int tid, int slot, int op, unsigned val) {
  if (op == OP_PUSH) {
    elem_t e; e.v = val;
    vp_inv(tid, slot, OP_PUSH, val);
#if EXC
    bool ok = true;
    try { q->push(e); } catch (...) { ok = false; }
    vp_res(tid, slot, ok, val);
#else
    q->push(e);
    vp_res(tid, slot, 1, val);
#endif
  } else if (op == OP_TRYPOP) {
    elem_t e; e.v = 0;
    vp_inv(tid, slot, OP_TRYPOP, 0);
    bool ok = q->try_pop(e);
    vp_res(tid, slot, ok, ok ? e.v : 0);
  }
#if BOUNDED
  else if (op == OP_POP) {
    elem_t e; e.v = 0;
    vp_inv(tid, slot, OP_POP, 0);
#if EXC
    bool ok = true;
    try { q->pop(e); } catch (...) { ok = false; }
    vp_res(tid, slot, ok, ok ? e.v : 0);
#else
    q->pop(e);
    vp_res(tid, slot, 1, e.v);
#endif
  } else if (op == OP_TRYPUSH) {
    elem_t e; e.v = val;
    vp_inv(tid, slot, OP_TRYPUSH, val);
    bool ok = q->try_push(e);
    vp_res(tid, slot, ok, val);
  }
#if ABORTS
  else if (op == OP_ABORT) {
    vp_inv(tid, slot, OP_ABORT, 0);
    q->abort();
    vp_res(tid, slot, 1, 0);
  }
#endif
#endif
}

// thread body: up to two operations, kinds concrete per scenario (constants passed by the harness)
extern "C" void vp_thr_q(queue_t* q, int tid, int op0, unsigned v0, int op1, unsigned v1) {
  do_op(q, tid, 0, op0, v0);
  do_op(q, tid, 1, op1, v1);
}

// final drain, run as a (single) model thread after quiescence so that the real try_pop code is loop-free for the solver (spin loops
// are cut: if one of them does not exit at once the thread parks, which the harness reports as a stuck item)
extern "C" void vp_drained(unsigned v);
#ifndef NDRAIN
#define NDRAIN 8
#endif
template <int N> static inline void drain(queue_t* q, int n) {
  if (n <= NDRAIN - N) return;          // n (<= NDRAIN) = number of pops to attempt: a harness constant
  elem_t e; e.v = 0;
  if (!q->try_pop(e)) return;
  vp_drained(e.v);
  drain<N - 1>(q, n);
}
template <> inline void drain<0>(queue_t*, int) {}
extern "C" void vp_thr_drain(queue_t* q, int n) { drain<NDRAIN>(q, n); }
#if BOUNDED
// sequential phase after the concurrent one (scenario option POST_PUSH): up to two more pushes, run as a single model thread for the same
// reason as the drain (a push that would sleep or spin parks = reported by the harness)
extern "C" void vp_post_threw();
extern "C" void vp_thr_post(queue_t* q, int n, unsigned v0, unsigned v1) {
#if EXC
  try {
#endif
    if (n > 0) { elem_t e; e.v = v0; q->push(e); }
    if (n > 1) { elem_t e; e.v = v1; q->push(e); }
#if EXC
  } catch (...) { vp_post_threw(); }
#endif
}
#endif

// sequential helpers: build the pre-state with the real operations, inspect the final state
extern "C" unsigned long vp_q_sizeof() { return sizeof(queue_t); }
extern "C" void vp_q_ctor(queue_t* q) { new (q) queue_t(); }
#if BOUNDED
extern "C" void vp_q_set_capacity(queue_t* q, long c) { q->set_capacity(c); }
extern "C" long vp_q_capacity(queue_t* q) { return q->capacity(); }
// the wait predicate handed to r1::wait_bounded_queue_monitor (true = keep waiting); called by the harness stub of that function
extern "C" int vp_call_pred(tbb::detail::d1::delegate_base* p) { return (*p)(); }
#if REALCPP == 2
// the whole concurrent_monitor_base (wait set, epoch, predicate evaluation on node contexts, abort flags) and sleep_node are
// real; only binary_semaphore::P/V and the bounded spin of concurrent_monitor_mutex::lock are cut. No type of concurrent_bounded_queue.cpp is named.
// cbmc granularity: the two monitors live right behind the representation in ONE allocation; list-node pointers into that object make cbmc
// rewrite the whole representation on every list update. The harness therefore moves the (still idle) monitors into an object of their own
// right after construction; no queue logic depends on where they are (my_monitors is only ever indexed by the tag).
extern "C" void vp_q_relocate_monitors(queue_t* q, tbb::detail::r1::concurrent_monitor* m) {
  new (m) tbb::detail::r1::concurrent_monitor(); new (m + 1) tbb::detail::r1::concurrent_monitor(); q->my_monitors = m;
}
extern "C" unsigned long vp_mon_waiters(queue_t* q, int i) { return q->my_monitors[i].my_waitset.size(); }
extern "C" int vp_mon_closed(queue_t* q, int i) { auto& w = q->my_monitors[i].my_waitset; return w.head.next == &w.head && w.head.prev == &w.head; }
extern "C" int vp_mon_mutex_free(queue_t* q, int i) { return q->my_monitors[i].my_mutex.my_flag.load(std::memory_order_relaxed) == 0 && q->my_monitors[i].my_mutex.my_waiters.load(std::memory_order_relaxed) == 0; }
extern "C" int vp_cmm_is_free(tbb::detail::r1::concurrent_monitor_mutex* mx) { return mx->my_flag.load(std::memory_order_relaxed) == 0; }
// the semaphore word (0 open = a V is pending, 1 closed; set to 1 by the real constructor), used by the P/V contract stubs
extern "C" int vp_sem_get(tbb::detail::r1::binary_semaphore* s) { return s->my_sem.load(std::memory_order_relaxed); }
extern "C" void vp_sem_set(tbb::detail::r1::binary_semaphore* s, int v) { s->my_sem.store(v, std::memory_order_relaxed); }
#endif
#endif
extern "C" void vp_q_push(queue_t* q, unsigned val) { elem_t e; e.v = val; q->push(e); }
extern "C" int vp_q_try_pop(queue_t* q, unsigned* out) { elem_t e; e.v = 0; bool ok = q->try_pop(e); *out = e.v; return ok; }
extern "C" long vp_q_size(queue_t* q) { return q->my_queue_representation->size(); }
extern "C" int vp_q_empty(queue_t* q) { return q->empty(); }
extern "C" unsigned long vp_q_head(queue_t* q) { return q->my_queue_representation->head_counter.load(std::memory_order_relaxed); }
extern "C" unsigned long vp_q_tail(queue_t* q) { return q->my_queue_representation->tail_counter.load(std::memory_order_relaxed); }
extern "C" unsigned long vp_q_invalid(queue_t* q) { return q->my_queue_representation->n_invalid_entries.load(std::memory_order_relaxed); }
// lane invariants at quiescence: lane counters agree with the global tickets, page list empty iff lane empty, page mutex free
extern "C" int vp_q_lane_ok(queue_t* q, int lane) {
  auto& r = *q->my_queue_representation;
  auto& m = r.array[lane];
  unsigned long hc = m.head_counter.load(std::memory_order_relaxed), tc = m.tail_counter.load(std::memory_order_relaxed);
  auto* hp = m.head_page.load(std::memory_order_relaxed);
  auto* tp = m.tail_page.load(std::memory_order_relaxed);
  if (m.page_mutex.m_flag.load(std::memory_order_relaxed)) return 0;
  if ((hc & 7) || (tc & 7)) return 0;
  if (hc > tc) return 0;
  if (hc == tc) {
    // empty lane: with 1 item per page no page may remain linked
    if (queue_t::queue_representation_type::items_per_page == 1 && (hp != nullptr || tp != nullptr)) return 0;
  } else {
    if (hp == nullptr || tp == nullptr) return 0;
  }
  return 1;
}
extern "C" unsigned long vp_q_lane_head(queue_t* q, int lane) { return q->my_queue_representation->array[lane].head_counter.load(std::memory_order_relaxed); }
extern "C" unsigned long vp_q_lane_tail(queue_t* q, int lane) { return q->my_queue_representation->array[lane].tail_counter.load(std::memory_order_relaxed); }

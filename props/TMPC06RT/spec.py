# Snippet for props/C03/spec.py (prepared by b-C06): parallel_reduce with throwing user callbacks under the task-bag scheduler
# model (stolen right children => zombie bodies). Files: props/C03/w_reduce_throw.cpp, props/C03/h_reduce_throw.c (self-contained).
def _rt_sched(nelem, orders, throwats, kinds=0x1f, extra=None):
  out = []
  for (nestmask, nestpol, drain) in orders:
    for k in throwats:
      sc = {'NELEM': nelem, 'GRAIN': 1, 'NEST': 1, 'NESTK': 1, 'NESTMASK': nestmask, 'NESTPOL': nestpol, 'DRAIN': drain, 'STOLEN': 255, 'THROWAT': k, 'KINDS': kinds}
      if extra: sc.update(extra)
      out.append(sc)
  return out
# task orders (NESTMASK, NESTPOL, DRAIN): 0 = plain LIFO; NESTMASK bit h = a thief runs a task from the bag during the h-th body
# invocation (NESTPOL 1: the oldest = the right child of the outermost split) => that right child finds m_ref_count == 2 => zombie body
_RT_ORDERS_Q = [(0, 1, 0), (1, 1, 0), (1, 0, 0), (3, 1, 1)]
_RT_ORDERS_T = [(nm, pol, dr) for nm in range(8) for pol in ((0, 1) if nm else (1,)) for dr in (0, 1, 3)]

# --- add to UNITS ---
UNITS_SNIPPET = {
  'reduce_throw': dict(wrapper='w_reduce_throw.cpp', mode='seq', cxxflags=['-DVP_PART=simple_partitioner'], exceptions=True),
}
# --- add to HARNESSES ---
HARNESSES_SNIPPET = [
  dict(name='reduce_throw', unit='reduce_throw', harness='h_reduce_throw.c',
       cbmc=['--unwind', '25', '--max-field-sensitivity-array-size', '256'],
       native_cflags=['-fno-sanitize=null'], tiers=['quick', 'thorough'], timeout=600, mem_gb=6,
       scenarios_quick=_rt_sched(3, _RT_ORDERS_Q, range(0, 15)),
       scenarios_thorough=_rt_sched(3, _RT_ORDERS_T, range(0, 16)) + _rt_sched(4, [(0, 1, 0), (1, 1, 0), (3, 1, 0), (5, 0, 5), (1, 1, 7)], range(0, 22)),
       desc='real parallel_reduce(Range, Body, simple_partitioner) (start_reduce::execute/cancel/finalize/offer_work, reduction_tree_node incl. '
            'zombie_space/has_right_zombie/join/dtor, fold_tree) under a sequential task-bag model of the scheduler whose dispatcher catch handler '
            'behaves like the real one (capture once, cancel the group, re-dispatch the same task through cancel()); other tasks may run while a '
            'task is inside the user body, so right children are stolen while the left sibling is unfinished (zombie bodies). The k-th user callback '
            '(Body split ctor / operator() / join, Range split / copy ctor; k concrete per query) throws. Oracle: destructors only on storage where a '
            'constructor completed, every library-made Body/Range copy destroyed exactly once and none alive on return, tasks/tree nodes freed exactly '
            'once, wait released once, exactly one exception captured and it is the thrown one, caller catches it once, exception object released '
            'once, no body invocation / join after the capture, in-order result without a throw',
       bounds={'range': '3 (thorough 3,4) elements, grain 1', 'partitioner': 'simple', 'throw position': 'every k-th user callback, k = 0..14 (21)',
               'task order': 'enumerated (NESTMASK, NESTPOL, DRAIN), all taken tasks stolen', 'tasks': 'atomic except nested runs inside the user body'}),
]

PROPERTY='TMPC06RT'
UNITS=UNITS_SNIPPET
HARNESSES=HARNESSES_SNIPPET
OUTSIDE=[];STUBS=[];ASSUMPTIONS=[]

PROPERTY = 'C01'
CXX = ['-D__TBB_BUILD']
# -mrtm -mwaitpkg: flags of the real build (scheduler_common.h uses _tpause); -fignore-exceptions: task_dispatcher.h contains a literal
# try/catch in the dispatch loop (not encoded here; pruned): parse it, generate no unwind edges
CXX_MAIL = ['-D__TBB_BUILD', '-mrtm', '-mwaitpkg', '-fignore-exceptions']
OPC = {'n': 0, 'g': 1, 's': 2}
UNITS = {}
HARNESSES = []

def slot_unit(prog, nsteal, nthief, K=1, tso=False):
    """one unit per (owner program, steals per thief, number of thieves): thread bodies contain exactly that real code"""
    name = 'slot_%s_%dx%d_k%d%s' % (prog, nthief, nsteal, K, '_tso' if tso else '')
    p = (prog + 'nnn')[:3]
    if name not in UNITS:
        UNITS[name] = dict(wrapper='w_slot.cpp', mode='lcs', unroll=K, cut=['advertise_new_work'], tso=tso,
                           cxxflags=CXX + ['-DOPA=%d' % OPC[p[0]], '-DOPB=%d' % OPC[p[1]], '-DOPC=%d' % OPC[p[2]], '-DNSTEAL=%d' % nsteal],
                           threads={'vp_thr_owner': [''], 'vp_thr_thief': ['a', 'b'][:nthief]})
    return name

KISSAT = ['--unwind', '16', '--external-sat-solver', 'kissat']
# native replay: thread-mode code forms &p->f from a not-yet-loaded (null) static temporary without accessing it; UBSan's null check would
# abort the replay before the real assertion is reached
NATIVE = ['-fno-sanitize=null,pointer-overflow']
T_ONLY = ['thorough']

def deque(prog, nsteal, nthief, ninit, head, rounds, K=1, tiers=('quick', 'thorough'), extra=None, timeout=900, tso=False, mem_gb=12):
    p = (prog + 'nnn')[:3]
    sc = {'NINIT': ninit, 'HEAD': head, 'ROUNDS': rounds}
    sc.update(extra or {})
    what = []
    if head + ninit == 64: what.append('pool window ends at capacity: the spawn compacts the pool under the lock (relocation)')
    if (extra or {}).get('ISO'): what.append('symbolic isolation tags on tasks and threads (tasks are skipped, holes appear)')
    if (extra or {}).get('HOLE'): what.append('one initial entry may be an empty slot')
    if tso: what.append('x86-TSO store buffers')
    HARNESSES.append(dict(
        name='deque_%s_%dx%d_n%d_h%d_r%d%s%s%s' % (prog, nthief, nsteal, ninit, head, rounds, ''.join('_%s%s' % (k.lower(), v) for k, v in sorted((extra or {}).items())),
                                                  '_k%d' % K if K > 1 else '', '_tso' if tso else ''),
        unit=slot_unit(prog, nsteal, nthief, K, tso), harness='h_deque.c',
        defines={'NTHIEF': nthief, 'NS1': nsteal, 'OP0': OPC[p[0]], 'OP1': OPC[p[1]], 'OP2': OPC[p[2]]},
        scenarios=[sc], tiers=list(tiers), timeout=timeout, mem_gb=mem_gb, cbmc=KISSAT, native_cflags=NATIVE,
        desc='real arena_slot deque (get_task/get_task_impl/spawn/prepare_task_pool/steal_task/lock+acquire/release of the pool): owner program "%s" '
             '(g=get_task, s=spawn) vs %d thief(s) x %d steal_task, %d initial task(s) at head=%d; every task handed out at most once, '
             'handed out + still in [head,tail) == initial + spawned, pool accesses in bounds, pool lock handed back%s'
             % (prog, nthief, nsteal, ninit, head, ('; ' + '; '.join(what)) if what else ''),
        bounds={'threads': 1 + nthief, 'free_rounds': rounds, 'forced_rounds': 2, 'loop_unroll': K, 'tasks': ninit + prog.count('s'),
                'owner_ops': len(prog), 'steals_per_thief': nsteal, 'memory_model': 'x86-TSO (store buffer depth 2)' if tso else 'SC'}))

# quick tier
deque('gg', 1, 1, 2, 0, 3)                       # last-task arbitration owner vs thief
deque('s', 1, 1, 1, 63, 3)                       # relocation (compaction) while a thief works on the old window
deque('sg', 1, 1, 1, 0, 2)                       # concurrent spawn, then get
deque('gs', 1, 1, 1, 0, 2)                       # owner takes the last task (pool reset + leave), re-publishes by spawn
deque('g', 1, 2, 2, 0, 2)                        # two thieves
deque('g', 2, 1, 2, 0, 2)                        # one thief stealing twice
deque('s', 2, 1, 1, 0, 2)                        # thief reaches the slot that is being spawned into
deque('g', 1, 1, 2, 0, 2, extra={'ISO': 1})      # isolation: skipped tasks / holes
deque('gg', 1, 1, 3, 0, 2, extra={'HOLE': 1})    # pre-existing hole at a symbolic position
# thorough tier: deeper
deque('sg', 1, 1, 1, 0, 3, tiers=T_ONLY, timeout=3000)
deque('gs', 1, 1, 1, 0, 3, tiers=T_ONLY, timeout=3000)
deque('g', 1, 2, 2, 0, 3, tiers=T_ONLY, timeout=3000)
deque('gg', 1, 1, 2, 0, 4, tiers=T_ONLY, timeout=3000)
deque('gg', 1, 1, 2, 0, 2, extra={'ISO': 1}, tiers=T_ONLY, timeout=3000)
deque('ggg', 1, 1, 3, 0, 3, tiers=T_ONLY, timeout=3000)
deque('gg', 1, 2, 2, 0, 3, tiers=T_ONLY, timeout=3000)
deque('gg', 2, 1, 3, 0, 3, tiers=T_ONLY, timeout=3000)
deque('sg', 1, 1, 2, 62, 3, K=2, tiers=T_ONLY, timeout=3000)
deque('ss', 1, 1, 1, 63, 3, tiers=T_ONLY, timeout=3000)
deque('gg', 1, 1, 2, 0, 3, extra={'ISO': 1}, tiers=T_ONLY, timeout=3000)
deque('gg', 1, 1, 3, 0, 3, extra={'HOLE': 1}, tiers=T_ONLY, timeout=3000)
# (an x86-TSO variant, deque('g', 1, 1, 1, 0, 2, tso=True), builds but exceeds 16 GB in the SAT back end: not registered, see NOTES.md)

def mail_unit(sprog, nmail, K=1):
    name = 'mail_%s_m%d_k%d' % (sprog, nmail, K)
    p = (sprog + 'nn')[:2]
    if name not in UNITS:
        # cut: advertise_new_work (wake-up, C02); arena::mailbox (address arithmetic in front of the arena; contract stub "mailbox of slot i")
        UNITS[name] = dict(wrapper='w_mail.cpp', mode='lcs', unroll=K, cut=['advertise_new_work', '5arena7mailboxE'], prune=True, exceptions=True,
                           cxxflags=CXX_MAIL + ['-DSOPA=%d' % OPC[p[0]], '-DSOPB=%d' % OPC[p[1]], '-DNMAIL=%d' % nmail],
                           threads={'vp_thr_sender': [''], 'vp_thr_recipient': [''], 'vp_thr_thief': ['']})
    return name

def proxy(sprog, nmail, thief, pre, rounds, K=1, tiers=('quick', 'thorough'), extra=None, timeout=900):
    p = (sprog + 'nn')[:2]
    sc = {'PRE': pre, 'ROUNDS': rounds}
    sc.update(extra or {})
    nthr = (1 if sprog != 'n' else 0) + (1 if nmail else 0) + thief
    HARNESSES.append(dict(
        name='proxy_%s_m%d_t%d_pre%d_r%d' % (sprog, nmail, thief, pre, rounds), unit=mail_unit(sprog, nmail, K), harness='h_proxy.c',
        defines={'SOP0': OPC[p[0]], 'SOP1': OPC[p[1]], 'NMAIL': nmail, 'THIEF': thief},
        scenarios=[sc], tiers=list(tiers), timeout=timeout, cbmc=KISSAT, native_cflags=NATIVE,
        desc='affinity mail: real r1::spawn(t, ctx, slot) creates the task_proxy (pool + mailbox); sender/owner program "%s" (g=get_task, s=spawn with '
             'affinity, n=none), recipient does %d get_mailbox_task (mail_outbox::internal_pop + extract_task<mailbox_bit>), %s%d prox%s pre-spawned; '
             'task handed out exactly once, proxy freed exactly once and exactly when unreferenced (memory really freed), tag bits / mailbox links consistent'
             % (sprog, nmail, 'thief runs arena::steal_task (+ extract_task<pool_bit>), ' if thief else '', pre, 'y' if pre == 1 else 'ies'),
        bounds={'threads': nthr, 'free_rounds': rounds, 'forced_rounds': 2, 'loop_unroll': K, 'proxies': pre + sprog.count('s'), 'mailbox_idle_flags': 'symbolic'}))

# quick
proxy('g', 1, 0, 1, 3)       # owner pop vs mailbox take of the same proxy
proxy('n', 1, 1, 1, 2)       # thief (arena::steal_task) vs mailbox take
proxy('s', 1, 0, 0, 2)       # the spawn itself (push to mailbox, then pool) races with the recipient
proxy('s', 1, 0, 1, 2)       # second push races with the pop of the only element (my_last hand-shake)
# thorough
proxy('n', 1, 1, 1, 3, tiers=T_ONLY, timeout=3000)
proxy('s', 1, 0, 1, 3, tiers=T_ONLY, timeout=3000)
proxy('s', 2, 0, 1, 2, tiers=T_ONLY, timeout=3000)
proxy('s', 2, 0, 1, 3, tiers=T_ONLY, timeout=3000)
proxy('sg', 1, 0, 0, 2, tiers=T_ONLY, timeout=3000)
proxy('sg', 1, 0, 0, 3, tiers=T_ONLY, timeout=3000)
proxy('g', 1, 1, 1, 3, tiers=T_ONLY, timeout=3000)    # 3 threads: owner, thief, recipient
proxy('gg', 2, 0, 2, 3, tiers=T_ONLY, timeout=3000)   # two proxies

UNITS['isoproxy'] = dict(wrapper='w_isoproxy.cpp', mode='seq', cut=['advertise_new_work', '5arena7mailboxE'], prune=True, exceptions=True, cxxflags=CXX_MAIL)
HARNESSES.append(dict(
    name='isoproxy_seq', unit='isoproxy', harness='h_isoproxy.c', defines={}, scenarios=[{'REUSE': r, 'DRAIN': d} for r in (0, 1) for d in (0, 1)],
    scenarios_quick=[{'REUSE': 0, 'DRAIN': d} for d in (0, 1)],   # REUSE=1 (allocator hands the freed block out again): 100-115 s, thorough only
    tiers=['quick', 'thorough'], timeout=900, cbmc=['--unwind', '4', '--external-sat-solver', 'kissat'], native_cflags=NATIVE,   # spin loops never iterate sequentially; unwinding assertions prove the bound
    desc='sequential history on the real code: pool [P (affinity proxy, tag A), X (tag B)], T0 taken through the mailbox, owner get_task under isolation A '
         '(X omitted, empty proxy met and freed), owner mails a new task (allocator may reuse the freed block: REUSE), drain by owner (DRAIN=0) or thief + owner '
         '(DRAIN=1); the deque window never holds the freed proxy, every task handed out exactly once, every proxy freed exactly once, nothing freed dereferenced',
    bounds={'threads': 1, 'history': 'fixed 6-step history, sequential', 'loop_unwind': '4 (unwinding assertions on)', 'tasks': 3, 'proxies': 2, 'symbolic': 'mailbox idle flags, allocator reuse choice, recipient isolation'}))

def wait_unit(subs, K=1):
    name = 'wait_s%d_k%d' % (subs, K)
    if name not in UNITS:
        # devirt restricted to wait_context_vertex: the parent link of a reference_vertex is dispatched to wait_context_vertex::reserve/release
        # (any other dynamic type traps = assertion); the thread bodies name reference_vertex:: explicitly
        UNITS[name] = dict(wrapper='w_wait.cpp', mode='lcs', unroll=K, devirt=['19wait_context_vertex'], prune=True, cxxflags=CXX + ['-DMAIN_SUBS=%d' % subs],
                           threads={'vp_thr_main': [''], 'vp_thr_worker': ['a', 'b'], 'vp_thr_leaf': ['a', 'b', 'c']})
    return name

GRP = {1: 'main submits task0, worker runs it (2 threads)',
       2: 'main submits task0; worker a runs it and submits task1 through its own vertex; worker b runs task1 (3 threads)',
       3: 'main submits task0 and task1 through one vertex while workers a, b finish them: reserve races with the 1->0 release (3 threads)'}
TREE = {1: 'root <- N1 <- {leaf0, leaf1} (2 threads)', 2: 'root <- N1 <- {leaf0, N2 <- {leaf1, leaf2}} (3 threads)', 3: 'root <- N1 <- {N2 <- {leaf0, leaf1}, leaf2} (3 threads)'}
def waitctx(mode, shape, rounds, tiers=('quick', 'thorough'), timeout=900):
    HARNESSES.append(dict(
        name='waitctx_%s%d_r%d' % ('grp' if mode == 1 else 'tree', shape, rounds), unit=wait_unit(2 if (mode == 1 and shape == 3) else 1), harness='h_wait.c',
        defines={'MODE': mode, 'SHAPE': shape}, scenarios=[{'ROUNDS': rounds}], tiers=list(tiers), timeout=timeout, cbmc=KISSAT, native_cflags=NATIVE,
        desc=('task_group counters: real wait_context_vertex / reference_vertex / wait_context reserve+release; %s; the waiter sees count==0 only after every '
              'task of the group finished, nothing is submitted after the wait returned, all counters 0 at quiescence, the waiter is never left spinning' % GRP[shape])
             if mode == 1 else
             ('parallel_for join tree: real fold_tree<tree_node> over wait_node; %s; the wait is released exactly once and only after every leaf finished, '
              'every tree_node freed exactly once (really freed), none leaked' % TREE[shape]),
        bounds={'threads': 2 if shape == 1 else 3, 'free_rounds': rounds, 'forced_rounds': 2, 'loop_unroll': 1,
                'tasks' if mode == 1 else 'leaves': (1 if shape == 1 else 2) if mode == 1 else (2 if shape == 1 else 3)}))

for sh in (1, 2, 3):
    waitctx(1, sh, 3)
    waitctx(2, sh, 3)
for sh in (1, 2, 3):
    waitctx(1, sh, 4, tiers=T_ONLY, timeout=3000)
    waitctx(2, sh, 4, tiers=T_ONLY, timeout=3000)

DQ = 'allocatorIS4_EEE'   # std::deque<d1::task*, cache_aligned_allocator<d1::task*>>::
STREAM_CUT = [DQ + '9push_backERKS4_', DQ + '5emptyEv', DQ + '5frontEv', DQ + '9pop_frontEv', DQ + '5beginEv', DQ + '3endEv', DQ + '8pop_backEv',
              DQ + '17_M_initialize_mapEm']
SOP = {'push': 1, 'pop': 2, 'spec': 3, 'push2': 4, 'pop2': 5}
def stream_unit(a, b, K):
    name = 'stream_%s_%s_k%d' % (a, b, K)
    if name not in UNITS:
        UNITS[name] = dict(wrapper='w_stream.cpp', mode='lcs', unroll=K, prune=True, exceptions=True, cut=STREAM_CUT,
                           cxxflags=CXX_MAIL + ['-DSA=%d' % SOP[a], '-DSB=%d' % SOP[b]], threads={'vp_thr_sa': [''], 'vp_thr_sb': ['']})
    return name

def stream(a, b, pre, rounds, K=2, tiers=('quick', 'thorough'), timeout=900, extra=None):
    sc = {'PRE': pre, 'ROUNDS': rounds}
    sc.update(extra or {})
    HARNESSES.append(dict(
        name='stream_%s_%s_pre%d_r%d%s' % (a, b, pre, rounds, ''.join('_%s%s' % (k.lower(), v) for k, v in sorted((extra or {}).items()))), unit=stream_unit(a, b, K), harness='h_stream.c',
        defines={'SA': SOP[a], 'SB': SOP[b]}, scenarios=[sc], tiers=list(tiers), timeout=timeout, cbmc=KISSAT, native_cflags=NATIVE,
        desc='task_stream (2 lanes): thread a %s || thread b %s, %d task(s) pushed before; real push/try_push/pop/try_pop/pop_specific/look_specific, '
             'population bit operations and lane mutex; lane queue (std::deque) cut to a bounded harness queue; at quiescence lane non-empty <=> population '
             'bit set, no task popped twice, a final drain through the real pop obtains every remaining task' % (a, b, pre),
        bounds={'threads': 2, 'free_rounds': rounds, 'forced_rounds': 2, 'loop_unroll': K, 'lanes': 2, 'tasks': pre + {'push': 1, 'push2': 2}.get(a, 0) + {'push': 1, 'push2': 2}.get(b, 0),
                'isolation_tags': 'symbolic', 'lane_hints': 'symbolic'}))

stream('push', 'pop', 1, 2)        # pop drains the lane while a push refills it
stream('push', 'spec', 1, 2, K=1)  # same with pop_specific / look_specific (symbolic isolation)
stream('push', 'pop2', 1, 2, K=1)  # two pops empty the lane around a push (spurious / missing bit)
stream('push', 'push', 1, 2)       # two pushes contend for one lane mutex (the loser moves on to the other lane)
stream('push', 'pop', 1, 3, tiers=T_ONLY, timeout=3000)
stream('push', 'spec', 1, 3, K=1, tiers=T_ONLY, timeout=3000)
stream('push', 'pop2', 1, 3, K=1, tiers=T_ONLY, timeout=3000)
stream('push2', 'pop', 0, 2, tiers=T_ONLY, timeout=3000)
stream('push', 'spec', 2, 2, K=1, tiers=T_ONLY, timeout=3000)    # look_specific walks two entries (holes left in the lane)
stream('pop', 'spec', 2, 2, K=1, tiers=T_ONLY, timeout=3000)     # two takers
stream('push', 'pop', 1, 2, tiers=T_ONLY, timeout=3000, extra={'HM': 1})

MANIFEST = dict(
  level_text='Bounded model checking of the real scheduler data structures that decide who runs a task: for 2-3 threads every interleaving (at '
             'single-IR-memory-operation granularity, bounded number of scheduling rounds) of (a) the per-thread ready deque arena_slot '
             '(owner get_task / spawn incl. pool compaction vs thieves steal_task, isolation tags, holes), (b) affinity mail (r1::spawn with a slot id, '
             'task_proxy::extract_task from pool side and mailbox side, mail_outbox push / pop, arena::steal_task) and (c) the outstanding-work counters '
             '(wait_context, reference_vertex, fold_tree over tree_node/wait_node) and (d) task_stream lanes (push vs pop / pop_specific: population bitmap '
             'vs lane content, lane queue cut to a bounded queue) is decided by a SAT solver; one sequential history (owner get_task under isolation meeting an '
             'already emptied affinity proxy, allocator reuse, drain) is decided the same way: no task is handed out twice, none is lost '
             '(handed out + still queued == submitted), proxies / tree nodes are freed exactly once and never touched afterwards, a wait is released '
             'exactly when all the work it covers has finished, and nobody is left spinning.',
  level_note='Concrete per query: which operations each thread performs (scenario list in evidence); symbolic: schedule, isolation tags, idle flags. '
             'Bounds per harness in evidence (threads <= 3, free rounds 2-4 + 2 forced rounds, loop unroll, <= 3 tasks). Sequential consistency only. '
             ' The dispatch loop as a whole, task_arena::execute delegation, pool growth (>= 48 tasks) '
             'and get_thread_reference_vertex (std::unordered_map) are outside. Trusted: clang-14 IR, tools/ir2c.py, cbmc, kissat.',
)
OUTSIDE = [
  'the dispatch loop as a whole (task_dispatcher::local_wait_for_all / receive_or_steal_task): only the take operations it calls are encoded',
  'task_stream: the std::deque of a lane is replaced by a bounded harness queue (container contract), so the deque implementation itself, more than 2 lanes / 4 entries, random_lane_selector and the back_nonnull accessor are outside; arena::enqueue_task / get_stream_task / get_critical_task glue above the stream',
  'task_arena::execute delegation (delegated_task), arena entry/exit',
  'pool growth in prepare_task_pool (needs >= 48 live tasks in a 64-entry pool); only the in-place compaction branch is exercised',
  'r1::get_thread_reference_vertex (std::unordered_map lookup/cleanup); vertices are constructed as it constructs them',
  'two threads mailing to the same mailbox at the same time (one sender per query; push vs pop and push vs pool-side take are covered)',
  'more than 3 threads, more than 3 tasks / 2 proxies, more than 3 operations per thread, schedules needing more rounds than stated',
  'that the waiter sees the tasks\' writes (memory ordering): the model is sequentially consistent; x86-TSO store buffering and weaker hardware models are outside (a TSO variant of the smallest deque scenario exceeded 16 GB)',
  'user-level API glue (task_group::run/wait, parallel_for partitioners, flow graph) above these kernels; cancellation (skipped instead of run)',
]
STUBS = [
  'std::deque<d1::task*> members of a task_stream lane (push_back, empty, front, pop_front, pop_back, begin, end, _M_initialize_map; cut): bounded FIFO '
  'queue of 4 entries per lane with the sequence-container contract; iterators are real std::_Deque_iterator values over that window',
  'r1::notify_by_address_one (d1::mutex::unlock): no-op, lane mutexes are only try-acquired',
  'r1::cache_aligned_allocate/deallocate: static 64-entry pool storage (the pool is never reallocated in the encoded scenarios; a second allocation or a free fails the run)',
  'r1::allocate / r1::deallocate (small objects: task_proxy, tree_node): fresh heap block per object, deallocate really frees (later access = pointer-check failure) and counts',
  'arena::advertise_new_work<...> (cut): no-op; waking sleeping workers is property C02',
  'arena::mailbox(slot) (cut): returns the mail_outbox object of that slot (separate objects instead of the in-arena layout)',
  'governor::theTLS / pthread_getspecific: the thread_data of the one thread that calls r1::spawn',
  'task_group_context_impl::bind_to: no-op (context binding is property C04)',
  'r1::notify_waiters: counted observation point (wake-up itself is C02); sched_yield / pause: scheduling hints',
  'FastRandom state fixed so that the thief\'s victim is slot 0 (victim choice is a scenario parameter, not part of the property)',
]
ASSUMPTIONS = [
  'get_task is only called on a published pool and steal_task only on a non-empty victim (the guards of local_wait_for_all / arena::steal_task are replicated in the thread bodies)',
  'initial deque states (head, tail, holes) are states reachable by spawn/steal histories (argument in NOTES.md); white-box constructed',
  'task_group protocol: work is submitted to a group only by the thread that will wait (before waiting) or by a running task of the group',
]

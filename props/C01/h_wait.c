/* C01 `waitctx`: a wait is released exactly when all work it covers has finished.
 * MODE 1 (task_group protocol on the real wait_context_vertex / reference_vertex / wait_context):
 *   SHAPE 1: main submits task0, worker a runs it.                                   (2 threads)
 *   SHAPE 2: main submits task0; worker a runs task0 which submits task1 through a's own vertex; worker b runs task1.
 *   SHAPE 3: main submits task0 and task1 through the same vertex; workers a, b run them (reserve races with the 1->0 release).
 *   Oracle: when the waiter sees !continue_execution(), every task of the group (transitively submitted) has finished;
 *   nothing is submitted to the group after its wait returned; at quiescence all counters are 0, the waiter
 *   has returned (a count that never reaches 0 shows up as the waiter spinning forever = blocked-state oracle).
 * MODE 2 (parallel_for join tree, real fold_tree<tree_node> over wait_node):
 *   SHAPE 1: root <- N1 <- {leaf0, leaf1};  SHAPE 2: root <- N1 <- {leaf0, N2 <- {leaf1, leaf2}};  SHAPE 3: same, mirrored
 *   Oracle: wait_node::m_wait is released (notify_waiters) exactly once and only after every leaf finished; every tree_node
 *   is freed exactly once (memory really freed: a late access is a pointer-check failure), none leaks.
 * Symbolic: the schedule. */
#include "w.h"
#include "vp.h"
typedef struct S_class_tbb__detail__d1__wait_context_vertex wcv_t;
typedef struct S_class_tbb__detail__d1__reference_vertex rv_t;
typedef struct S_struct_tbb__detail__d1__node node_t;
typedef struct S_struct_tbb__detail__d1__wait_node wait_node_t;
typedef struct S_struct_tbb__detail__d1__tree_node tree_node_t;
#define MAXT 3
int submitted[MAXT], done[MAXT], wait_returned, n_notify;
struct S_class_tbb__detail__d1__small_object_pool SOPOOL;
struct S_struct_tbb__detail__d1__execution_data ED;

#if MODE == 1
#define NTASK (SHAPE == 1 ? 1 : 2)
wcv_t W; rv_t V0, V1, V2;
void vp_submitted(u32 t) { VP_ASSERT(!wait_returned, "work submitted to the group after its wait had already returned"); submitted[t] = 1; }
u32 vp_can_run(u32 t) { return submitted[t]; }
void vp_task_done(u32 t) { done[t] = 1; }
void vp_wait_returned(void) {
  for (int i = 0; i < NTASK; i++) VP_ASSERT(done[i], "wait returned although a task of the group has not finished");
  wait_returned = 1;
}
void vp_leaf_done(u32 l) {}
/* r1::notify_waiters: wakes threads sleeping on this wait_context (C02); here: observation point "count reached zero" */
void _ZN3tbb6detail2r114notify_waitersEm(u64 addr) {
  n_notify++;
  VP_ASSERT(addr == (u64)vp_wcv_ctx(&W), "notify_waiters for a foreign wait_context");
  /* no statement about tasks here: notify_waiters runs some time after the count touched zero, the group may legitimately have
     been re-armed by its owner in between (a waiter re-checks the count; that re-check is the oracle in vp_wait_returned) */
}
u8* _ZN3tbb6detail2r18allocateERPNS0_2d117small_object_poolEmRKNS2_14execution_dataE(struct S_class_tbb__detail__d1__small_object_pool** pool, u64 n, struct S_struct_tbb__detail__d1__execution_data* e) { VP_ASSERT(0, "harness: unexpected allocation"); return 0; }
void _ZN3tbb6detail2r110deallocateERNS0_2d117small_object_poolEPvmRKNS2_14execution_dataE(struct S_class_tbb__detail__d1__small_object_pool* pool, u8* p, u64 n, struct S_struct_tbb__detail__d1__execution_data* e) { VP_ASSERT(0, "harness: unexpected deallocation"); }

int main(void) {
  vp_wcv_init(&W); vp_rv_init(&V0, &W); vp_rv_init(&V1, &W); vp_rv_init(&V2, &W);
  VP_ASSERT(vp_main_subs() == (SHAPE == 3 ? 2 : 1), "harness: unit compiled for another program");
  vp_thr_main_start(&W, &V0);
#if SHAPE == 1
  vp_thr_worker_a_start(&V0, &V1, 0, -1); vp_thr_worker_b_fin = 1;
#elif SHAPE == 2
  vp_thr_worker_a_start(&V0, &V1, 0, 1); vp_thr_worker_b_start(&V1, &V2, 1, -1);
#else
  vp_thr_worker_a_start(&V0, &V1, 0, -1); vp_thr_worker_b_start(&V0, &V2, 1, -1);
#endif
  for (int r = 0; r < ROUNDS; r++) { VP_RUN(vp_thr_main) VP_RUN(vp_thr_worker_a) VP_RUN(vp_thr_worker_b) }
  VP_QUIESCE3(vp_thr_main, vp_thr_worker_a, vp_thr_worker_b)
  VP_ASSERT(!vp_deadlock, "wait never released: the waiter spins forever although every task finished (lost release)");
  __CPROVER_assume(!vp_unfinished);
  VP_ASSERT(wait_returned, "harness: waiter did not return");
  for (int i = 0; i < NTASK; i++) VP_ASSERT(submitted[i] && done[i], "harness: task not run");
  VP_ASSERT(vp_wcv_count(&W) == 0, "wait_context count not zero at quiescence");
  VP_ASSERT(vp_rv_count(&V0) == 0 && vp_rv_count(&V1) == 0 && vp_rv_count(&V2) == 0, "reference_vertex count not zero at quiescence");
  VP_ASSERT(n_notify >= 1, "count reached zero without notify_waiters");
  VP_REACHED();
  return 0;
}

#else /* MODE == 2 */
#define NLEAF (SHAPE == 1 ? 2 : 3)
wait_node_t ROOT;
tree_node_t* TN[2]; int ntn, tn_freed[2];
void vp_submitted(u32 t) {} u32 vp_can_run(u32 t) { return 1; } void vp_task_done(u32 t) {} void vp_wait_returned(void) {}
void vp_leaf_done(u32 l) { VP_ASSERT(n_notify == 0, "a leaf is still running although the algorithm's wait was already released"); done[l] = 1; }
void _ZN3tbb6detail2r114notify_waitersEm(u64 addr) {
  n_notify++;
  VP_ASSERT(n_notify == 1, "wait_node released twice");
  for (int i = 0; i < NLEAF; i++) VP_ASSERT(done[i], "wait released before every leaf finished");
  for (int i = 0; i < 2; i++) if (i < ntn) VP_ASSERT(tn_freed[i], "wait released while an inner tree_node is still alive");
}
u8* _ZN3tbb6detail2r18allocateERPNS0_2d117small_object_poolEmRKNS2_14execution_dataE(struct S_class_tbb__detail__d1__small_object_pool** pool, u64 n, struct S_struct_tbb__detail__d1__execution_data* e) {
  VP_ASSERT(ntn < 2 && n == sizeof(tree_node_t), "harness: unexpected allocation");
  tree_node_t* p = (tree_node_t*)malloc(sizeof(tree_node_t)); __CPROVER_assume(p != 0);
  *pool = &SOPOOL; TN[ntn++] = p; return (u8*)p;
}
void _ZN3tbb6detail2r110deallocateERNS0_2d117small_object_poolEPvmRKNS2_14execution_dataE(struct S_class_tbb__detail__d1__small_object_pool* pool, u8* p, u64 n, struct S_struct_tbb__detail__d1__execution_data* e) {
  int j = -1;
  for (int i = 0; i < 2; i++) if (i < ntn && p == (u8*)TN[i]) j = i;
  VP_ASSERT(j >= 0, "deallocate of something that is not a tree_node");
  if (j < 0) return;
  VP_ASSERT(!tn_freed[j], "tree_node freed twice");
  tn_freed[j]++;
  free(p);
}

int main(void) {
  vp_wait_node_init(&ROOT);
  tree_node_t* n1 = vp_new_tree_node((node_t*)&ROOT, &ED);
#if SHAPE == 1
  vp_thr_leaf_a_start((node_t*)n1, &ED, 0); vp_thr_leaf_b_start((node_t*)n1, &ED, 1); vp_thr_leaf_c_fin = 1;
#else
  tree_node_t* n2 = vp_new_tree_node((node_t*)n1, &ED);
#if SHAPE == 2
  vp_thr_leaf_a_start((node_t*)n1, &ED, 0); vp_thr_leaf_b_start((node_t*)n2, &ED, 1); vp_thr_leaf_c_start((node_t*)n2, &ED, 2);
#else
  vp_thr_leaf_a_start((node_t*)n2, &ED, 0); vp_thr_leaf_b_start((node_t*)n2, &ED, 1); vp_thr_leaf_c_start((node_t*)n1, &ED, 2);
#endif
#endif
  for (int r = 0; r < ROUNDS; r++) { VP_RUN(vp_thr_leaf_a) VP_RUN(vp_thr_leaf_b) VP_RUN(vp_thr_leaf_c) }
  VP_QUIESCE3(vp_thr_leaf_a, vp_thr_leaf_b, vp_thr_leaf_c)
  VP_ASSERT(!vp_deadlock, "a leaf is stuck");
  __CPROVER_assume(!vp_unfinished);
  VP_ASSERT(n_notify == 1, "every leaf finished but the algorithm's wait was not released exactly once");
  VP_ASSERT(vp_wait_count(&ROOT) == 0, "wait_node count not zero");
  VP_ASSERT(vp_node_count((node_t*)&ROOT) == 0, "root node ref count not zero");
  for (int i = 0; i < 2; i++) if (i < ntn) VP_ASSERT(tn_freed[i], "tree_node leaked");
  VP_REACHED();
  return 0;
}
#endif

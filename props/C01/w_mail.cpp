// C01 wrapper `proxy`: affinity mail. The real r1::spawn(t, ctx, slot_id) creates a task_proxy that sits in the sender's
// task pool AND in the destination mailbox; pool side (owner get_task / thief arena::steal_task) and mailbox side
// (task_dispatcher::get_mailbox_task) race for the task through task_proxy::extract_task<bit>.
#include "src/tbb/task_dispatcher.cpp"
#include "src/tbb/arena_slot.cpp"
using namespace tbb::detail;
using namespace tbb::detail::r1;

extern "C" void vp_got(int tid, d1::task* t);      // observer: thread tid obtained task t (null = nothing)

// thread programs are fixed at compile time per unit:
//   SOPA/SOPB (sender = owner of slot 0): 0 nothing, 1 get_task on its own pool, 2 r1::spawn(task, ctx, affinity slot 1)
#ifndef SOPA
#define SOPA 1
#define SOPB 0
#endif
#ifndef NMAIL
#define NMAIL 1      // number of get_mailbox_task calls of the recipient
#endif
#define SENDER_OP(op, tk) \
  if (op == 1) { d1::task* t = nullptr; if (s->is_task_pool_published()) t = s->get_task(*ed, iso); vp_got(0, t); } \
  else if (op == 2) { r1::spawn(*tk, *ctx, (d1::slot_id)1); }

extern "C" {
int vp_sender_op(int i) { return i == 0 ? SOPA : SOPB; }
int vp_nmail() { return NMAIL; }

void vp_thr_sender(arena_slot* s, execution_data_ext* ed, isolation_type iso, d1::task* t0, d1::task* t1, d1::task_group_context* ctx) {
  SENDER_OP(SOPA, t0)
  SENDER_OP(SOPB, t1)
}
// recipient (slot 1): takes mail like task_dispatcher::get_inbox_or_critical_task does
void vp_thr_recipient(task_dispatcher* d, mail_inbox* inbox, execution_data_ext* ed, isolation_type iso) {
  { d1::task* t = d->get_mailbox_task(*inbox, *ed, iso); vp_got(1, t); }
#if NMAIL > 1
  { d1::task* t = d->get_mailbox_task(*inbox, *ed, iso); vp_got(1, t); }
#endif
}
// thief (slot 2): the real arena::steal_task (victim selection, steal_task on the victim slot, proxy resolution)
void vp_thr_thief(arena* a, FastRandom* rnd, execution_data_ext* ed, isolation_type iso) {
  d1::task* t = a->steal_task(2, *rnd, *ed, iso);
  vp_got(2, t);
}

// ---- sequential state construction / inspection
unsigned long vp_sizeof_arena() { return sizeof(arena); }
unsigned long vp_sizeof_outbox() { return sizeof(mail_outbox); }
unsigned long vp_sizeof_proxy() { return sizeof(task_proxy); }
unsigned long vp_off_slots() { return (unsigned long)&((arena*)0x1000)->my_slots[0] - 0x1000; }
arena_slot* vp_arena_slot0(arena* a) { return &a->my_slots[0]; }
mail_outbox* vp_arena_mailbox(arena* a, int i) { return &a->mailbox((d1::slot_id)i); }
// white-box arena with 3 slots: mailboxes constructed by the real construct(); only the fields the encoded code reads are set
void vp_arena_init(arena* a) {
  a->my_limit.store(3, std::memory_order_relaxed); a->my_num_slots = 3; a->my_num_reserved_slots = 1; a->my_max_num_workers = 2;
  for (int i = 0; i < 3; i++) a->mailbox((d1::slot_id)i).construct();
}
void vp_mailbox_set_idle(arena* a, int i, bool v) { a->mailbox((d1::slot_id)i).my_is_idle.store(v, std::memory_order_relaxed); }
void vp_slot_init(arena_slot* s) {
  s->my_is_occupied.store(true, std::memory_order_relaxed);
  s->task_pool_ptr = nullptr; s->my_task_pool_size = 0;
  s->tail.store(0, std::memory_order_relaxed); s->head.store(0, std::memory_order_relaxed);
  s->task_pool.store(EmptyTaskPool, std::memory_order_relaxed);
}
void vp_td_init(thread_data* td, unsigned short idx, arena* a, arena_slot* s, task_dispatcher* d, execution_data_ext* ed_unused) {
  td->my_arena_index = idx; td->my_arena = a; td->my_arena_slot = s; td->my_task_dispatcher = d;
  td->my_inbox.attach(a->mailbox((d1::slot_id)idx));
  d->m_thread_data = td;
  d->m_execute_data_ext.context = nullptr; d->m_execute_data_ext.original_slot = idx; d->m_execute_data_ext.affinity_slot = d1::no_slot;
  d->m_execute_data_ext.task_disp = d; d->m_execute_data_ext.isolation = no_isolation; d->m_execute_data_ext.wait_ctx = nullptr;
}
execution_data_ext* vp_disp_ed(task_dispatcher* d) { return &d->m_execute_data_ext; }
void vp_disp_set_isolation(task_dispatcher* d, isolation_type iso) { d->m_execute_data_ext.isolation = iso; }
mail_inbox* vp_td_inbox(thread_data* td) { return &td->my_inbox; }
void vp_rnd_init(FastRandom* r) { r->x = 0; r->c = 1; }    // first get() returns 0: the thief's victim is slot 0
void vp_task_init(d1::task* t) { t->m_version_and_traits = 0; task_accessor::isolation(*t) = no_isolation; task_accessor::context(*t) = nullptr; }
// the same real spawn, executed sequentially to build the pre-state "proxy in pool and in mailbox"
void vp_seq_spawn(d1::task* t, d1::task_group_context* ctx) { r1::spawn(*t, *ctx, (d1::slot_id)1); }

unsigned long vp_slot_head(arena_slot* s) { return s->head.load(std::memory_order_relaxed); }
unsigned long vp_slot_tail(arena_slot* s) { return s->tail.load(std::memory_order_relaxed); }
d1::task* vp_slot_entry(arena_slot* s, unsigned long i) { return s->task_pool_ptr[i]; }
int vp_slot_state(arena_slot* s) { d1::task** p = s->task_pool.load(std::memory_order_relaxed); return p == EmptyTaskPool ? 0 : p == LockedTaskPool ? 2 : p == s->task_pool_ptr ? 1 : 3; }
int vp_is_proxy(d1::task* t) { return task_accessor::is_proxy_task(*t); }
long vp_proxy_tat(task_proxy* p) { return p->task_and_tag.load(std::memory_order_relaxed); }
task_proxy* vp_mailbox_first(mail_outbox* m) { return m->my_first.load(std::memory_order_relaxed); }
task_proxy* vp_proxy_next(task_proxy* p) { return p->next_in_mailbox.load(std::memory_order_relaxed); }
int vp_mailbox_last_ok(mail_outbox* m) {   // my_last points at the link field of the last element (or at my_first when empty)
  std::atomic<task_proxy*>* l = &m->my_first; task_proxy* p = m->my_first.load(std::memory_order_relaxed);
  for (int i = 0; i < 4 && p; i++) { l = &p->next_in_mailbox; p = p->next_in_mailbox.load(std::memory_order_relaxed); }
  return m->my_last.load(std::memory_order_relaxed) == l;
}
}

/* C01 `isoproxy` (sequential history on the real code, owner side of arena_slot::get_task / get_task_impl):
 *   1. owner (isolation tag A in its execution data) mails task T0 to slot 1: real r1::spawn(T0, ctx, 1) -> proxy P (tag A) in the
 *      owner's pool and in mailbox 1;   2. owner (tag B) spawns X: pool (bottom->top) = [P, X];
 *   3. the recipient takes T0 through the mailbox (real get_mailbox_task): P is now EMPTY, the pool side must free it;
 *   4. owner calls get_task(ed, isolation = A): X is omitted (foreign tag), P is met: "Proxy was empty, so it's our responsibility
 *      to free it"; the epilogue restores head/tail and re-publishes the omitted position;
 *   5. owner mails a new task T2 (real r1::spawn with affinity): the small-object allocator MAY hand out the block just freed
 *      (REUSE=1: symbolic choice) or a fresh one (REUSE=0: heap model, the freed proxy is really gone);
 *   6. drain: DRAIN=0 owner get_task x3 under no_isolation, DRAIN=1 thief arena::steal_task x3, then the mailbox.
 * Oracle: after step 4 every entry of [head, tail) is null or a live task (never the freed proxy's address); the proxy is freed
 * exactly once; over the whole history every task is handed out exactly once; at the end pool and mailbox are empty and every
 * proxy is freed exactly once; nothing freed is dereferenced (REUSE=0: cbmc pointer checks on the freed block; REUSE=1: a stale
 * reference to the reused block shows up as a task handed out twice / a double free).
 * Symbolic: mailbox idle flags, the allocator's reuse choice, the recipient's isolation in step 3 (none or A). */
#include "w.h"
#include "vp.h"
typedef struct S_class_tbb__detail__r1__arena_slot slot_t;
typedef struct S_class_tbb__detail__d1__task task_t;
typedef struct S_struct_tbb__detail__r1__task_proxy proxy_t;
typedef struct S_class_tbb__detail__r1__mail_outbox outbox_t;
typedef struct S_class_tbb__detail__r1__arena arena_t;
typedef struct S_class_tbb__detail__r1__task_dispatcher disp_t;
typedef struct S_class_tbb__detail__r1__thread_data td_t;
#define TAG_A 1
#define TAG_B 2
arena_t AR; outbox_t MB0, MB1, MB2;
#define ARENA (&AR)
outbox_t* _ZN3tbb6detail2r15arena7mailboxEt(arena_t* a, u16 slot) {
  VP_ASSERT(a == ARENA && slot < 3, "arena::mailbox of an unknown arena/slot");
  return slot == 0 ? &MB0 : slot == 1 ? &MB1 : &MB2;
}
disp_t DISP0, DISP1, DISP2; td_t TD0, TD1, TD2;
struct S_class_tbb__detail__r1__FastRandom RND;
struct S_class_tbb__detail__d1__task_group_context CTX;
struct S_class_tbb__detail__d1__small_object_pool SOPOOL;
task_t T0, X, T2;
static task_t* const TP[3] = {&T0, &X, &T2};
task_t* pool_mem[64];
int got[3], n_pool_alloc;
/* proxy blocks */
proxy_t* PX[2]; int npx, px_live[2], px_frees[2];
#if REUSE
proxy_t PXMEM[2];
#endif

struct S_class_tbb__detail__r1__basic_tls _ZN3tbb6detail2r18governor6theTLSE;
u8* vpx_pthread_getspecific(u32 key) { return (u8*)&TD0; }
void _ZN3tbb6detail2r18governor20init_external_threadEv(void) { VP_ASSERT(0, "harness: auto-initialisation reached"); }
void _ZN3tbb6detail2r123task_group_context_impl7bind_toERNS0_2d118task_group_contextEPNS1_11thread_dataE(struct S_class_tbb__detail__d1__task_group_context* c, td_t* t) {}
u8* _ZN3tbb6detail2r122cache_aligned_allocateEm(u64 n) {
  VP_ASSERT(n_pool_alloc == 0 && n == sizeof(pool_mem), "harness: unexpected pool allocation");
  n_pool_alloc++; return (u8*)pool_mem;
}
void _ZN3tbb6detail2r124cache_aligned_deallocateEPv(u8* p) { VP_ASSERT(0, "harness: pool freed"); }
/* r1::allocate contract: a block of the requested size that is not in use; a previously freed block may be handed out again */
u8* _ZN3tbb6detail2r18allocateERPNS0_2d117small_object_poolEmRKNS2_14execution_dataE(struct S_class_tbb__detail__d1__small_object_pool** pool, u64 n, struct S_struct_tbb__detail__d1__execution_data* e) {
  VP_ASSERT(npx < 2 && n == sizeof(proxy_t), "harness: unexpected small-object allocation");
  proxy_t* p;
#if REUSE
  if (npx == 1 && !px_live[0] && vp_nd_bool()) p = PX[0]; else p = &PXMEM[npx];
#else
  p = (proxy_t*)malloc(sizeof(proxy_t)); __CPROVER_assume(p != 0);
#endif
  *pool = &SOPOOL; px_live[npx] = 1; PX[npx++] = p; return (u8*)p;
}
void _ZN3tbb6detail2r110deallocateERNS0_2d117small_object_poolEPvmRKNS2_14execution_dataE(struct S_class_tbb__detail__d1__small_object_pool* pool, u8* p, u64 n, struct S_struct_tbb__detail__d1__execution_data* e) {
  /* the newest live proxy that sits at this address */
  int j = -1;
  for (int i = 0; i < 2; i++) if (i < npx && p == (u8*)PX[i] && px_live[i]) j = i;
  VP_ASSERT(j >= 0, "deallocate of a block that is not a live proxy (double free / stale pointer)");
  if (j < 0) return;
  px_live[j] = 0; px_frees[j]++;
#if !REUSE
  free(p);
#endif
}
void _ZN3tbb6detail2r15arena18advertise_new_workILNS2_13new_work_typeE0EEEvv(arena_t* a) {}   /* cut (C02) */
void _ZN3tbb6detail2r15arena18advertise_new_workILNS2_13new_work_typeE1EEEvv(arena_t* a) {}
void vpx___cxa_pure_virtual(void) { VP_ASSERT(0, "pure virtual call"); }
void _ZdlPv(u8* p) { VP_ASSERT(0, "operator delete reached"); }
void vp_got(u32 tid, task_t* t) {}

static void record(task_t* t) {
  if (!t) return;
  int k = -1;
  for (int i = 0; i < 3; i++) if (t == TP[i]) k = i;
  VP_ASSERT(k >= 0, "a pointer that is not a submitted task was handed out (proxy / freed block leaked to the caller)");
  if (k < 0) return;
  got[k]++;
  VP_ASSERT(got[k] <= 1, "task handed out twice");
}
static int is_dead_proxy_addr(task_t* e) {   /* address of a proxy block that is currently not live */
  for (int i = 0; i < 2; i++) if (i < npx && (u8*)e == (u8*)PX[i]) { int live = 0; for (int j = 0; j < 2; j++) if (j < npx && PX[j] == PX[i] && px_live[j]) live = 1; if (!live) return 1; }
  return 0;
}
static void check_window(slot_t* S) {
  u64 h = vp_slot_head(S), t = vp_slot_tail(S);
  VP_ASSERT(h <= t && t - h <= 3, "head/tail inconsistent");
  for (int k = 0; k < 3; k++) if (h + k < t) {
    task_t* e = vp_slot_entry(S, h + k);
    VP_ASSERT(!e || !is_dead_proxy_addr(e), "deque window still holds the address of the freed proxy");
    if (e && !is_dead_proxy_addr(e)) { int ok = (e == &X || e == &T2 || e == &T0); for (int i = 0; i < 2; i++) if (i < npx && (u8*)e == (u8*)PX[i]) ok = 1; VP_ASSERT(ok, "garbage pointer in the deque window"); }
  }
}

int main(void) {
  vp_arena_init(ARENA);
  slot_t* S = vp_arena_slot0(ARENA);
  vp_slot_init(S);
  vp_td_init(&TD0, 0, ARENA, S, &DISP0, 0); vp_td_init(&TD1, 1, ARENA, 0, &DISP1, 0); vp_td_init(&TD2, 2, ARENA, 0, &DISP2, 0);
  vp_rnd_init(&RND);
  for (int i = 0; i < 3; i++) vp_mailbox_set_idle(ARENA, i, vp_nd_bool());
  for (int i = 0; i < 3; i++) vp_task_init(TP[i]);
  /* 1 */ vp_disp_set_isolation(&DISP0, TAG_A); vp_seq_spawn(&T0, &CTX);
  /* 2 */ vp_disp_set_isolation(&DISP0, TAG_B); vp_seq_spawn_plain(&X, &CTX);
  VP_ASSERT(npx == 1 && vp_slot_tail(S) - vp_slot_head(S) == 2, "harness: pre-state [P, X] not built");
  /* 3 */ u64 riso = vp_nd_bool() ? TAG_A : 0;
  record(vp_seq_mail(&DISP1, vp_td_inbox(&TD1), vp_disp_ed(&DISP1), riso));
  VP_ASSERT(got[0] == 1, "harness: the mailbox side did not take T0");
  /* 4 */ task_t* r4 = vp_seq_get(S, vp_disp_ed(&DISP0), TAG_A);
  record(r4);
  VP_ASSERT(r4 == 0, "get_task under isolation A returned something although only the foreign task X is runnable");
  VP_ASSERT(px_frees[0] == 1, "the emptied proxy was not freed exactly once by the pool side");
  check_window(S);
  /* 5 */ vp_disp_set_isolation(&DISP0, 0); vp_seq_spawn(&T2, &CTX);
  check_window(S);
  /* 6 */
  for (int i = 0; i < 3; i++) {
#if DRAIN == 0
    record(vp_seq_get(S, vp_disp_ed(&DISP0), 0));
#else
    vp_rnd_init(&RND); record(vp_seq_steal(ARENA, &RND, vp_disp_ed(&DISP2), 0));
#endif
  }
  for (int i = 0; i < 2; i++) record(vp_seq_mail(&DISP1, vp_td_inbox(&TD1), vp_disp_ed(&DISP1), 0));
#if DRAIN == 1   /* a thief leaves shared proxies to an idle recipient: let the owner finish */
  for (int i = 0; i < 3; i++) record(vp_seq_get(S, vp_disp_ed(&DISP0), 0));
#endif
  VP_ASSERT(got[0] == 1 && got[1] == 1 && got[2] == 1, "a task was lost or handed out twice over the whole history");
  VP_ASSERT(vp_slot_head(S) == vp_slot_tail(S) || vp_slot_state(S) == 0, "deque not empty after the drain");
  VP_ASSERT(vp_mailbox_first(&MB1) == 0, "mailbox not empty after the drain");
  VP_ASSERT(npx == 2 && px_frees[0] == 1 && px_frees[1] == 1 && !px_live[0] && !px_live[1], "a proxy was not freed exactly once");
  VP_REACHED();
  return 0;
}

/* C01 `proxy`: a task mailed with an affinity hint (real r1::spawn(t, ctx, slot 1)) sits behind a task_proxy that is
 * reachable from the sender's task pool and from the destination mailbox. Pool side (owner get_task, thief
 * arena::steal_task + extract_task<pool_bit>) and mailbox side (task_dispatcher::get_mailbox_task = mail_outbox::internal_pop
 * + extract_task<mailbox_bit>) race for it.
 * Scenario (concrete per query): PRE = number of proxies spawned sequentially before the threads start (by the same real
 * spawn), sender program SOP0,SOP1 (0 nothing, 1 get_task, 2 spawn with affinity), NMAIL get_mailbox_task calls of the
 * recipient (0 = no recipient thread), THIEF (0/1).  Symbolic: schedule, the three mailbox idle flags (steer the thief's
 * "leave it to the recipient" heuristic).
 * Oracle: a task is never handed out twice; at quiescence, for every proxy: it is freed exactly when neither the pool
 * window nor the mailbox list refers to it any more (no leak, no dangling reference, no double free: the proxy memory is
 * really freed, so any later access is a cbmc pointer-check failure); its task was handed out exactly once or is still inside
 * the (unfreed) proxy; the mailbox list and its my_last link are consistent. */
#include "w.h"
#include "vp.h"
typedef struct S_class_tbb__detail__r1__arena_slot slot_t;
typedef struct S_class_tbb__detail__d1__task task_t;
typedef struct S_struct_tbb__detail__r1__task_proxy proxy_t;
typedef struct S_class_tbb__detail__r1__mail_outbox outbox_t;
typedef struct S_class_tbb__detail__r1__arena arena_t;
typedef struct S_class_tbb__detail__r1__task_dispatcher disp_t;
typedef struct S_class_tbb__detail__r1__thread_data td_t;
#ifndef THIEF
#define THIEF 0
#endif
#define NSPAWN (PRE + (SOP0 == 2) + (SOP1 == 2))
#define NGET ((SOP0 == 1) + (SOP1 == 1) + NMAIL + THIEF)

/* arena::mailbox(i) is cut (address arithmetic in front of the arena object): contract stub = "the mailbox of slot i";
   the mailboxes are separate objects, which keeps the solver's pointer resolution cheap */
arena_t AR; outbox_t MB0, MB1, MB2;
#define ARENA (&AR)
outbox_t* _ZN3tbb6detail2r15arena7mailboxEt(arena_t* a, u16 slot) {
  VP_ASSERT(a == ARENA && slot < 3, "arena::mailbox of an unknown arena/slot");
  return slot == 0 ? &MB0 : slot == 1 ? &MB1 : &MB2;
}
disp_t DISP0, DISP1, DISP2; td_t TD0, TD1, TD2;
struct S_class_tbb__detail__r1__FastRandom RND;
struct S_class_tbb__detail__d1__task_group_context CTX;
struct S_class_tbb__detail__d1__small_object_pool SOPOOL;
task_t T0, T1, T2;
static task_t* const TP[3] = {&T0, &T1, &T2};
task_t* pool_mem[64];
proxy_t* PX[NSPAWN + 1]; int npx, px_freed[NSPAWN + 1];
int got[NSPAWN + 1], ngot_calls, n_pool_alloc;

static int task_index(task_t* t) { for (int i = 0; i < NSPAWN; i++) if (t == TP[i]) return i; return -1; }
static int proxy_index(u8* p) { for (int i = 0; i < NSPAWN; i++) if (i < npx && p == (u8*)PX[i]) return i; return -1; }

/* ---- external boundaries */
struct S_class_tbb__detail__r1__basic_tls _ZN3tbb6detail2r18governor6theTLSE;   /* governor::theTLS (defined in governor.cpp): key value irrelevant */
u8* vpx_pthread_getspecific(u32 key) { return (u8*)&TD0; }   /* governor::theTLS of the only thread that calls r1::spawn */
void _ZN3tbb6detail2r18governor20init_external_threadEv(void) { VP_ASSERT(0, "harness: auto-initialisation reached"); }
void _ZN3tbb6detail2r123task_group_context_impl7bind_toERNS0_2d118task_group_contextEPNS1_11thread_dataE(struct S_class_tbb__detail__d1__task_group_context* c, td_t* t) {}
u8* _ZN3tbb6detail2r122cache_aligned_allocateEm(u64 n) {
  VP_ASSERT(n_pool_alloc == 0 && n == sizeof(pool_mem), "harness: unexpected pool allocation");
  n_pool_alloc++; return (u8*)pool_mem;
}
void _ZN3tbb6detail2r124cache_aligned_deallocateEPv(u8* p) { VP_ASSERT(0, "harness: pool freed"); }
/* small object allocation: fresh heap block per proxy (contract of r1::allocate: suitably aligned, pool handle set) */
u8* _ZN3tbb6detail2r18allocateERPNS0_2d117small_object_poolEmRKNS2_14execution_dataE(struct S_class_tbb__detail__d1__small_object_pool** pool, u64 n, struct S_struct_tbb__detail__d1__execution_data* e) {
  VP_ASSERT(npx < NSPAWN && n == sizeof(proxy_t), "harness: unexpected small-object allocation");
  proxy_t* p = (proxy_t*)malloc(sizeof(proxy_t)); __CPROVER_assume(p != 0);
  *pool = &SOPOOL; PX[npx++] = p; return (u8*)p;
}
void _ZN3tbb6detail2r110deallocateERNS0_2d117small_object_poolEPvmRKNS2_14execution_dataE(struct S_class_tbb__detail__d1__small_object_pool* pool, u8* p, u64 n, struct S_struct_tbb__detail__d1__execution_data* e) {
  int j = proxy_index(p);
  VP_ASSERT(j >= 0, "deallocate of something that is not a proxy");
  if (j < 0) return;
  VP_ASSERT(!px_freed[j], "proxy freed twice");
  px_freed[j]++;
  free(p);
}
void _ZN3tbb6detail2r15arena18advertise_new_workILNS2_13new_work_typeE0EEEvv(arena_t* a) {}   /* cut (C02) */
void _ZN3tbb6detail2r15arena18advertise_new_workILNS2_13new_work_typeE1EEEvv(arena_t* a) {}
void vpx___cxa_pure_virtual(void) { VP_ASSERT(0, "pure virtual call"); }
void _ZdlPv(u8* p) { VP_ASSERT(0, "operator delete reached"); }

/* ---- observer */
void vp_got(u32 tid, task_t* t) {
  ngot_calls++;
  if (!t) return;
  int k = task_index(t);
  VP_ASSERT(k >= 0, "a pointer that is not a submitted task was handed out (proxy leaked to the caller?)");
  if (k < 0) return;
  got[k]++;
  VP_ASSERT(got[k] <= 1, "mailed task handed out twice (pool side and mailbox side both claimed it)");
}

int main(void) {
  vp_arena_init(ARENA);
  slot_t* S = vp_arena_slot0(ARENA);
  vp_slot_init(S);
  vp_td_init(&TD0, 0, ARENA, S, &DISP0, 0); vp_td_init(&TD1, 1, ARENA, 0, &DISP1, 0); vp_td_init(&TD2, 2, ARENA, 0, &DISP2, 0);
  vp_rnd_init(&RND);
  for (int i = 0; i < 3; i++) vp_mailbox_set_idle(ARENA, i, vp_nd_bool());
  for (int i = 0; i < NSPAWN; i++) vp_task_init(TP[i]);
  for (int i = 0; i < PRE; i++) vp_seq_spawn(TP[i], &CTX);
  VP_ASSERT(vp_sender_op(0) == SOP0 && vp_sender_op(1) == SOP1 && (NMAIL == 0 || vp_nmail() == NMAIL), "harness: unit compiled for another program");
  int f = PRE;
  task_t* s0 = SOP0 == 2 ? TP[f++] : 0; task_t* s1 = SOP1 == 2 ? TP[f++] : 0;
  vp_thr_sender_start(S, vp_disp_ed(&DISP0), 0, s0, s1, &CTX);
#if NMAIL > 0
  vp_thr_recipient_start(&DISP1, vp_td_inbox(&TD1), vp_disp_ed(&DISP1), 0);
#else
  vp_thr_recipient_fin = 1;
#endif
#if THIEF
  vp_thr_thief_start(ARENA, &RND, vp_disp_ed(&DISP2), 0);
#else
  vp_thr_thief_fin = 1;
#endif
  for (int r = 0; r < ROUNDS; r++) { VP_RUN(vp_thr_sender) VP_RUN(vp_thr_recipient) VP_RUN(vp_thr_thief) }
  VP_QUIESCE3(vp_thr_sender, vp_thr_recipient, vp_thr_thief)
  VP_ASSERT(!vp_deadlock, "every unfinished thread is parked and nothing changes (pool lock / mailbox link never completed)");
  __CPROVER_assume(!vp_unfinished);
  VP_ASSERT(ngot_calls == NGET, "harness: not every take reported");
  VP_ASSERT(npx == NSPAWN, "harness: not every spawn allocated its proxy");
  /* where is each proxy still referenced */
  int inpool[NSPAWN + 1] = {0}, inmail[NSPAWN + 1] = {0};
  u64 h = vp_slot_head(S), t = vp_slot_tail(S);
  int st = vp_slot_state(S);
  VP_ASSERT(st == 0 || st == 1, "slot left locked at quiescence");
  VP_ASSERT(h <= t && t - h <= NSPAWN, "head/tail inconsistent at quiescence");
  VP_ASSERT(st == 1 || h == t, "unpublished pool still holds entries");
  for (int k = 0; k < NSPAWN; k++) if (h + k < t) {
    task_t* e = vp_slot_entry(S, h + k);
    if (e) { int j = proxy_index((u8*)e); VP_ASSERT(j >= 0, "pool entry is not a proxy of this run"); if (j >= 0) inpool[j]++; }
  }
  proxy_t* m = vp_mailbox_first(vp_arena_mailbox(ARENA, 1));
  for (int k = 0; k < NSPAWN; k++) if (m) {
    int j = proxy_index((u8*)m); VP_ASSERT(j >= 0, "mailbox entry is not a proxy of this run");
    if (j < 0) break;
    VP_ASSERT(!px_freed[j], "mailbox still links a freed proxy");
    if (px_freed[j]) break;
    inmail[j]++; m = vp_proxy_next(m);
  }
  VP_ASSERT(m == 0, "mailbox list longer than the number of proxies (cycle?)");
  VP_ASSERT(vp_mailbox_last_ok(vp_arena_mailbox(ARENA, 1)), "mailbox my_last does not point at the last link: the next push would be lost");
  for (int j = 0; j < NSPAWN; j++) {
    VP_ASSERT(inpool[j] <= 1 && inmail[j] <= 1, "proxy referenced twice from one location");
    VP_ASSERT(px_freed[j] == (!inpool[j] && !inmail[j]), "proxy leaked (unreferenced, not freed) or freed while still referenced");
    if (px_freed[j]) VP_ASSERT(got[j] == 1, "proxy freed although its task was never handed out: task lost");
    else {
      u64 tat = vp_proxy_tat(PX[j]);
      int inside = (tat & ~(u64)3) != 0;
      VP_ASSERT(!inside || (tat & ~(u64)3) == (u64)TP[j], "proxy holds a foreign pointer");
      VP_ASSERT(got[j] + inside == 1, "task lost or duplicated: handed out + still inside its proxy != 1");
      /* the location bits must still name every place that refers to the proxy, else nobody will free it / take the task */
      if (inside) VP_ASSERT((tat & 3) == 3 && inpool[j] && inmail[j], "unclaimed proxy is no longer reachable from both of its locations");
      else VP_ASSERT(inpool[j] + inmail[j] == 1 && (tat & 3) == (inpool[j] ? 1 : 2), "claimed proxy: cleaner bit does not name the one location that still refers to it");
    }
  }
  VP_REACHED();
  return 0;
}

/* C01 `stream`: task_stream<front_accessor> with 2 lanes - "a task sitting in a lane always has its population bit set once
 * the operations in flight have finished" (empty(), the is_bit_set pre-checks of try_pop / pop_specific and
 * get_critical_task all go by the bitmap: a non-empty lane with a clear bit is invisible, its tasks are never run).
 * Real code: push/try_push, pop/try_pop, pop_specific/look_specific (incl. the std::_Deque_iterator arithmetic), empty,
 * set_one_bit/clear_one_bit/is_bit_set, d1::mutex try_lock/unlock, the lane selectors.
 * Cut: the std::deque members of the lane queue -> bounded queue below (contract: FIFO sequence container; push_back appends,
 * front/pop_front at the head, pop_back at the tail, begin/end iterators over the live window, empty() <=> no element; null
 * elements count as elements exactly as in std::deque).
 * Scenario (concrete per query): SA, SB = operation of thread a / b (1 push, 2 pop, 3 pop_specific, 4 two pushes, 5 two pops), PRE tasks
 * pushed before through the real push. Symbolic: schedule, initial lane hints of the two threads (the pre-pushed tasks go where hint HM sends them), isolation tag of every
 * task and of the pop_specific caller (1 or 2).
 * Oracle: no task returned twice / before it was pushed; at quiescence, per lane: queue non-empty <=> population bit set, lane
 * mutex free; then a sequential drain through the real try_pop of every lane (the primitive pop() iterates; it honours the bitmap pre-check) must obtain every task that was not popped yet (exactly once),
 * leaving both lanes empty and population == 0; nobody spins forever. */
#include "w.h"
#include "vp.h"
typedef struct S_class_tbb__detail__d1__task task_t;
typedef struct S_class_tbb__detail__r1__task_stream stream_t;
typedef struct S_struct_tbb__detail__r1__queue_and_mutex lane_t;
typedef struct S_class_std__deque deque_t;
typedef struct S_struct_std___Deque_iterator iter_t;
#define NP(op) ((op) == 1 ? 1 : (op) == 4 ? 2 : 0)
#define NTASK (PRE + NP(SA) + NP(SB))
#define NG(op) ((op) == 2 || (op) == 3 ? 1 : (op) == 5 ? 2 : 0)
#define NGET (NG(SA) + NG(SB))
#define QCAP 4
#ifndef HM
#define HM 0
#endif
stream_t S;
task_t T0, T1, T2, T3;
static task_t* const TP[4] = {&T0, &T1, &T2, &T3};
lane_t lanes_mem[2] __attribute__((aligned(128)));
int n_lanes_alloc, present[NTASK + 1], got[NTASK + 1], ngot_calls;
u32 hint_a, hint_b, hint_m;
static int task_index(task_t* t) { for (int i = 0; i < NTASK; i++) if (t == TP[i]) return i; return -1; }

/* ---- the bounded lane queue standing in for std::deque<d1::task*> */
struct bq { task_t* q[QCAP]; u32 b, e; task_t** node; } Q[2];
deque_t* QP[2];
static struct bq* bq_of(deque_t* d) { VP_ASSERT(d == QP[0] || d == QP[1], "deque operation on an unknown lane queue"); return d == QP[1] ? &Q[1] : &Q[0]; }
void _ZNSt11_Deque_baseIPN3tbb6detail2d14taskENS2_23cache_aligned_allocatorIS4_EEE17_M_initialize_mapEm(struct S_class_std___Deque_base* d, u64 n) {}
void _ZNSt5dequeIPN3tbb6detail2d14taskENS2_23cache_aligned_allocatorIS4_EEE9push_backERKS4_(deque_t* d, task_t** x) {
  struct bq* q = bq_of(d); VP_ASSERT(q->e < QCAP, "harness: bounded lane queue overflow"); if (q->e < QCAP) q->q[q->e++] = *x;
}
u8 _ZNKSt5dequeIPN3tbb6detail2d14taskENS2_23cache_aligned_allocatorIS4_EEE5emptyEv(deque_t* d) { struct bq* q = bq_of(d); return q->b == q->e; }
task_t** _ZNSt5dequeIPN3tbb6detail2d14taskENS2_23cache_aligned_allocatorIS4_EEE5frontEv(deque_t* d) {
  struct bq* q = bq_of(d); VP_ASSERT(q->b < q->e, "front() on an empty lane queue (undefined behaviour of std::deque)"); return &q->q[q->b < QCAP ? q->b : 0];
}
void _ZNSt5dequeIPN3tbb6detail2d14taskENS2_23cache_aligned_allocatorIS4_EEE9pop_frontEv(deque_t* d) {
  struct bq* q = bq_of(d); VP_ASSERT(q->b < q->e, "pop_front() on an empty lane queue"); if (q->b < q->e) q->b++;
}
void _ZNSt5dequeIPN3tbb6detail2d14taskENS2_23cache_aligned_allocatorIS4_EEE8pop_backEv(deque_t* d) {
  struct bq* q = bq_of(d); VP_ASSERT(q->b < q->e, "pop_back() on an empty lane queue"); if (q->b < q->e) q->e--;
}
/* iterators: the window is one deque node; _M_last is the nominal node end (64 elements) so that the real operator- works */
static void bq_iter(iter_t* it, struct bq* q, u32 pos) { it->f0 = &q->q[0] + pos; it->f1 = &q->q[0]; it->f2 = &q->q[0] + 64; it->f3 = &q->node; }
void _ZNSt5dequeIPN3tbb6detail2d14taskENS2_23cache_aligned_allocatorIS4_EEE5beginEv(iter_t* ret, deque_t* d) { struct bq* q = bq_of(d); bq_iter(ret, q, q->b); }
void _ZNSt5dequeIPN3tbb6detail2d14taskENS2_23cache_aligned_allocatorIS4_EEE3endEv(iter_t* ret, deque_t* d) { struct bq* q = bq_of(d); bq_iter(ret, q, q->e); }

/* ---- other external boundaries */
u8* _ZN3tbb6detail2r122cache_aligned_allocateEm(u64 n) {
  VP_ASSERT(n == sizeof(lanes_mem) && n_lanes_alloc == 0, "harness: unexpected allocation"); n_lanes_alloc++; return (u8*)lanes_mem;
}
void _ZN3tbb6detail2r124cache_aligned_deallocateEPv(u8* p) { VP_ASSERT(0, "harness: unexpected deallocation"); }
void _ZN3tbb6detail2r121notify_by_address_oneEPv(u8* a) {}     /* d1::mutex::unlock wake-up: nobody sleeps on a lane mutex (try_acquire only) */
u64 _ZN3tbb6detail2r115cache_line_sizeEv(void) { return 128; }

/* ---- observers */
void vp_pushing(task_t* t) { int k = task_index(t); VP_ASSERT(k >= PRE, "harness: push of a non-fresh task"); if (k >= 0) present[k] = 1; }
static void record(task_t* t) {
  int k = task_index(t);
  VP_ASSERT(k >= 0, "pop returned something that is not a pushed task");
  if (k < 0) return;
  VP_ASSERT(present[k], "task popped before it was pushed");
  got[k]++;
  VP_ASSERT(got[k] <= 1, "task popped twice");
}
void vp_got(u32 tid, task_t* t) { ngot_calls++; if (t) record(t); }

int main(void) {
  VP_ASSERT(vp_sizeof_lane() == sizeof(lane_t) && vp_prog(0) == SA && vp_prog(1) == SB, "harness: layout / unit mismatch");
  vp_stream_init(&S);
  VP_ASSERT(vp_stream_lanes(&S) == 2, "harness: expected 2 lanes");
  QP[0] = (deque_t*)vp_lane_queue(&S, 0); QP[1] = (deque_t*)vp_lane_queue(&S, 1); Q[0].node = Q[0].q; Q[1].node = Q[1].q;
  hint_a = (u32)vp_nd_range(0, 1); hint_b = (u32)vp_nd_range(0, 1); hint_m = HM;   /* concrete: a symbolic lane here makes the sequential retry loop of push unroll to the bound */
  for (int i = 0; i < NTASK; i++) vp_task_init(TP[i], vp_nd_range(1, 2));
  for (int i = 0; i < PRE; i++) { present[i] = 1; vp_seq_push(&S, &hint_m, TP[i]); }
  u64 iso_a = vp_nd_range(1, 2), iso_b = vp_nd_range(1, 2);
  int f = PRE;
  task_t* a0 = NP(SA) > 0 ? TP[f++] : 0; task_t* a1 = NP(SA) > 1 ? TP[f++] : 0;
  task_t* b0 = NP(SB) > 0 ? TP[f++] : 0; task_t* b1 = NP(SB) > 1 ? TP[f++] : 0;
  vp_thr_sa_start(&S, &hint_a, iso_a, a0, a1);
  vp_thr_sb_start(&S, &hint_b, iso_b, b0, b1);
  for (int r = 0; r < ROUNDS; r++) { VP_RUN(vp_thr_sa) VP_RUN(vp_thr_sb) }
  VP_QUIESCE2(vp_thr_sa, vp_thr_sb)
  VP_ASSERT(!vp_deadlock, "a thread spins forever (population bit set on a lane that stays empty, or a lane mutex never released)");
  __CPROVER_assume(!vp_unfinished);
  VP_ASSERT(ngot_calls == NGET, "harness: not every pop reported");
  u64 pop = vp_stream_population(&S);
  int consistent = 1;
  for (int l = 0; l < 2; l++) {
    int nonempty = Q[l].b != Q[l].e;
    VP_ASSERT(!vp_lane_locked(&S, l), "lane mutex left locked");
    VP_ASSERT(!nonempty || ((pop >> l) & 1), "lane holds a task but its population bit is clear: the task is invisible (lost)");
    VP_ASSERT(nonempty || !((pop >> l) & 1), "population bit set on an empty lane (pop would spin on it forever)");
    if (nonempty != (int)((pop >> l) & 1) || vp_lane_locked(&S, l)) consistent = 0;
  }
  VP_ASSERT((pop >> 2) == 0, "population bits beyond the lanes");
  /* final drain through the real try_pop: everything that was pushed and not popped must come out, exactly once */
  if (consistent && (pop >> 2) == 0) {
    for (int l = 0; l < 2; l++) for (int i = 0; i < QCAP; i++) { task_t* t = vp_seq_try_pop(&S, l); if (t) record(t); }
    for (int i = 0; i < NTASK; i++) VP_ASSERT(got[i] == 1, "task lost: pushed, never popped, and the final drain does not find it");
    VP_ASSERT(vp_stream_population(&S) == 0 && Q[0].b == Q[0].e && Q[1].b == Q[1].e, "stream not empty after the drain");
  }
  VP_REACHED();
  return 0;
}

/* C01 `deque`: the real arena_slot deque under owner (get_task / spawn) and 1-2 thieves (steal_task).
 * Scenario (concrete per query): NINIT tasks initially in the pool at [HEAD, HEAD+NINIT) of a min_task_pool_size pool
 * (HEAD+NINIT == capacity gives the relocation scenario: the next spawn compacts the pool under the lock),
 * owner program OP0,OP1,OP2 (0 nothing, 1 get_task, 2 spawn of a fresh task), NTHIEF thieves with NS1 steal attempts each.
 * Symbolic inside a query: the schedule (ROUNDS slices per thread + forced rounds), with ISO=1 the isolation tag of every
 * task and of every thread (0 = no_isolation, 1, 2), with HOLE=1 one initial entry may be an empty slot (nullptr).
 * Oracle: no task pointer is handed out twice (over all threads); at quiescence every task that was initially present or
 * spawned is either obtained exactly once or still sits exactly once in [head, tail) of the slot; a task that was never
 * spawned is never obtained; pool accesses stay inside the live pool object (cbmc pointer checks; a freed pool is really
 * freed); nobody is stuck (lock hand-off). */
#include "w.h"
#include "vp.h"
typedef struct S_class_tbb__detail__r1__arena_slot slot_t;
typedef struct S_class_tbb__detail__d1__task task_t;
#ifndef ISO
#define ISO 0
#endif
#ifndef HOLE
#define HOLE 0
#endif
#define NSPAWN ((OP0 == 2) + (OP1 == 2) + (OP2 == 2))
#define NTASK (NINIT + NSPAWN)
#define NGET ((OP0 == 1) + (OP1 == 1) + (OP2 == 1) + NS1 + (NTHIEF == 2 ? NS1 : 0))

slot_t S;
/* every task is an object of its own (cheaper pointer resolution than an array of tasks) */
task_t T0, T1, T2, T3, T4, T5;
static task_t* const TP[6] = {&T0, &T1, &T2, &T3, &T4, &T5};
struct S_struct_tbb__detail__r1__execution_data_ext ED;
struct S_class_tbb__detail__r1__task_dispatcher DISP;
struct S_class_tbb__detail__r1__thread_data TD;
u8 arena_mem[1024] __attribute__((aligned(128)));
#define ARENA ((struct S_class_tbb__detail__r1__arena*)(arena_mem + 512))
int present[NTASK + 1];   /* task is in the system: initial, or its spawn has started */
int got[NTASK + 1];       /* times handed out */
u64 tag[NTASK + 1];
int ngot_calls, n_pool_alloc, n_pool_free;

static int task_index(task_t* t) { for (int i = 0; i < NTASK; i++) if (t == TP[i]) return i; return -1; }

/* ---- external boundaries */
#ifdef HEAPPOOL   /* pool memory from the heap model: a freed pool is really gone (stale accesses are flagged) */
u8* _ZN3tbb6detail2r122cache_aligned_allocateEm(u64 n) { u8* p = malloc(n); __CPROVER_assume(p != 0); n_pool_alloc++; return p; }
void _ZN3tbb6detail2r124cache_aligned_deallocateEPv(u8* p) { n_pool_free++; free(p); }
#else             /* typed static pool storage (cheap); only for scenarios in which the pool is never reallocated */
task_t* pool_mem[64];
u8* _ZN3tbb6detail2r122cache_aligned_allocateEm(u64 n) {
  VP_ASSERT(n_pool_alloc == 0 && n == sizeof(pool_mem), "harness: second pool allocation in a static-pool scenario");
  n_pool_alloc++; return (u8*)pool_mem;
}
void _ZN3tbb6detail2r124cache_aligned_deallocateEPv(u8* p) { VP_ASSERT(0, "harness: pool freed in a static-pool scenario"); }
#endif
void _ZN3tbb6detail2r110deallocateERNS0_2d117small_object_poolEPvmRKNS2_14execution_dataE(struct S_class_tbb__detail__d1__small_object_pool* a, u8* p, u64 n, struct S_struct_tbb__detail__d1__execution_data* e) {
  VP_ASSERT(0, "proxy deallocation reached although no proxy task exists in this harness");
}
/* cut: arena::advertise_new_work<wakeup> (wake-up of sleeping workers: property C02) */
void _ZN3tbb6detail2r15arena18advertise_new_workILNS2_13new_work_typeE1EEEvv(struct S_class_tbb__detail__r1__arena* a) {}
void _ZN3tbb6detail2r15arena15request_workersEiib(struct S_class_tbb__detail__r1__arena* a, u32 x, u32 y, u8 z) {}

/* ---- observers */
void vp_spawning(task_t* t) { int k = task_index(t); VP_ASSERT(k >= NINIT, "harness: spawn of a non-fresh task"); present[k] = 1; }
void vp_got(u32 tid, task_t* t) {
  ngot_calls++;
  if (!t) return;
  int k = task_index(t);
  VP_ASSERT(k >= 0, "a pointer that is not a submitted task was handed out");
  if (k < 0) return;
  VP_ASSERT(present[k], "a task was handed out before it was spawned");
  got[k]++;
  VP_ASSERT(got[k] <= 1, "task handed out twice (owner/thief arbitration)");
}

int main(void) {
  u64 cap = vp_min_pool();
  VP_ASSERT(HEAD + NINIT <= cap, "harness: initial window outside the pool");
  vp_slot_init(&S, HEAD, NINIT);
  int hole = -1;
#if HOLE
  hole = (int)vp_nd_range(0, NINIT);          /* NINIT = no hole */
#endif
  for (int i = 0; i < NTASK; i++) {
    tag[i] = ISO ? vp_nd_range(0, 2) : 0;
    vp_task_init(TP[i], tag[i]);
    if (i < NINIT) { present[i] = (i != hole); vp_slot_put(&S, HEAD + i, i != hole ? TP[i] : 0); }
  }
  u64 iso_o = ISO ? vp_nd_range(0, 2) : 0, iso_a = ISO ? vp_nd_range(0, 2) : 0, iso_b = ISO ? vp_nd_range(0, 2) : 0;
  vp_ed_init(&ED, &DISP, &TD, ARENA);
  int f = NINIT;
  task_t* f0 = OP0 == 2 ? TP[f++] : 0; task_t* f1 = OP1 == 2 ? TP[f++] : 0; task_t* f2 = OP2 == 2 ? TP[f++] : 0;
  VP_ASSERT(vp_owner_op(0) == OP0 && vp_owner_op(1) == OP1 && vp_owner_op(2) == OP2 && vp_nsteal() == NS1, "harness: unit compiled for another program");
  vp_thr_owner_start(&S, &ED, iso_o, f0, f1, f2);
  vp_thr_thief_a_start(&S, ARENA, 1, iso_a);
#if NTHIEF == 2
  vp_thr_thief_b_start(&S, ARENA, 2, iso_b);
#endif
  for (int r = 0; r < ROUNDS; r++) {
    VP_RUN(vp_thr_owner) VP_RUN(vp_thr_thief_a)
#if NTHIEF == 2
    VP_RUN(vp_thr_thief_b)
#endif
  }
#if NTHIEF == 2
  VP_QUIESCE3(vp_thr_owner, vp_thr_thief_a, vp_thr_thief_b)
#else
  VP_QUIESCE2(vp_thr_owner, vp_thr_thief_a)
#endif
  VP_ASSERT(!vp_deadlock, "pool lock never handed back: every unfinished thread is parked and nothing changes");
  __CPROVER_assume(!vp_unfinished);
  VP_ASSERT(ngot_calls == NGET, "harness: not every get/steal reported");
  /* quiescent accounting: obtained + still in [head, tail) == initial + spawned, per task */
  u64 h = vp_slot_head(&S), t = vp_slot_tail(&S);
  int st = vp_slot_state(&S);
  VP_ASSERT(st == 0 || st == 1, "slot left locked / pointing to a stale pool at quiescence");
  VP_ASSERT(h <= t && t <= vp_slot_cap(&S), "head/tail out of order or beyond capacity at quiescence");
  VP_ASSERT(t - h <= NTASK, "more entries in the deque than tasks exist");
  VP_ASSERT(st == 1 || h == t, "unpublished pool still holds entries (tasks unreachable for thieves and owner)");
  int inpool[NTASK + 1] = {0};
  for (int k = 0; k < NTASK; k++) {
    if (h + k < t) {
      task_t* e = vp_slot_entry(&S, h + k);
      if (e) { int j = task_index(e); VP_ASSERT(j >= 0, "garbage pointer inside [head, tail)"); if (j >= 0) inpool[j]++; }
    }
  }
  for (int i = 0; i < NTASK; i++) {
    if (present[i]) VP_ASSERT(got[i] + inpool[i] == 1, "task lost or duplicated: obtained + still-in-pool != 1");
    else VP_ASSERT(got[i] + inpool[i] == 0, "absent task appeared");
  }
  VP_ASSERT(n_pool_free + 1 == n_pool_alloc, "task pool leaked or freed twice");
  VP_REACHED();
  return 0;
}

// C01 wrapper `isoproxy` (sequential): owner-side scan of arena_slot::get_task under isolation that has omitted a task and then
// meets an affinity proxy whose task was already taken through the mailbox. Same TU as w_mail.cpp (real task_dispatcher.cpp +
// arena_slot.cpp) plus sequential entry points; every step of the history is the real code.
#include "w_mail.cpp"
extern "C" {
// r1::spawn without affinity (the task gets the isolation tag of the spawning dispatcher's execution data)
void vp_seq_spawn_plain(d1::task* t, d1::task_group_context* ctx) { r1::spawn(*t, *ctx); }
// owner take, guarded as in task_dispatcher::local_wait_for_all
d1::task* vp_seq_get(arena_slot* s, execution_data_ext* ed, isolation_type iso) { return s->is_task_pool_published() ? s->get_task(*ed, iso) : nullptr; }
d1::task* vp_seq_mail(task_dispatcher* d, mail_inbox* inbox, execution_data_ext* ed, isolation_type iso) { return d->get_mailbox_task(*inbox, *ed, iso); }
d1::task* vp_seq_steal(arena* a, FastRandom* rnd, execution_data_ext* ed, isolation_type iso) { return a->steal_task(2, *rnd, *ed, iso); }
}

// C01 wrapper `waitctx`: the outstanding-work counters.
//  (A) task_group style: wait_context_vertex (root) + per-thread reference_vertex (what r1::get_thread_reference_vertex hands
//      out: reference_vertex(root, 0)); submit = vertex->reserve() (function_task ctor), finish = vertex->release()
//      (function_task::finalize), wait = spin on wait_context_vertex::continue_execution (the predicate r1::wait polls).
//  (B) parallel_for style: join tree of tree_node over a wait_node; every finished leaf runs fold_tree<tree_node>(parent, ed)
//      (start_for::finalize), the last one releases wait_node::m_wait.
#include "oneapi/tbb/detail/_task.h"
#include "oneapi/tbb/detail/_small_object_pool.h"
#include "oneapi/tbb/partitioner.h"
using namespace tbb::detail;
using namespace tbb::detail::d1;

extern "C" void vp_spin_hint(void);
extern "C" void vp_submitted(int task);      // observer: reserve() for `task` has returned (the task is about to be spawned)
extern "C" void vp_task_done(int task);      // observer: body of `task` finished (its finalize/release follows)
extern "C" void vp_wait_returned(void);      // observer: the waiting thread saw the wait condition satisfied
extern "C" int  vp_can_run(int task);        // driver: has `task` been spawned yet
extern "C" void vp_leaf_done(int leaf);

// The vertices' reserve/release are virtual. The thread bodies name reference_vertex:: explicitly (the dynamic type of a vertex
// handed out by get_thread_reference_vertex); the parent link inside is dispatched over wait_context_vertex only (spec: devirt),
// any other dynamic type would trap.
#ifndef MAIN_SUBS
#define MAIN_SUBS 1
#endif

extern "C" {
int vp_main_subs() { return MAIN_SUBS; }
// ---------------- (A)
// main thread: submits MAIN_SUBS tasks (ids 0..) through its own vertex, then waits for the group
void vp_thr_main(wait_context_vertex* W, reference_vertex* V) {
  V->reference_vertex::reserve(); vp_submitted(0);
#if MAIN_SUBS > 1
  V->reference_vertex::reserve(); vp_submitted(1);
#endif
  while (W->continue_execution()) vp_spin_hint();
  vp_wait_returned();
}
// worker: executes task `id` once it is spawned; if child >= 0 the body submits task `child` through the worker's own vertex
// before it finishes; finalize releases the vertex the task was reserved on
void vp_thr_worker(reference_vertex* taskV, reference_vertex* ownV, int id, int child) {
  while (!vp_can_run(id)) vp_spin_hint();
  if (child >= 0) { ownV->reference_vertex::reserve(); vp_submitted(child); }
  vp_task_done(id);
  taskV->reference_vertex::release();
}
void vp_wcv_init(wait_context_vertex* W) { new (W) wait_context_vertex(0); }
void vp_rv_init(reference_vertex* V, wait_context_vertex* W) { new (V) reference_vertex(W, 0); }   // as in get_thread_reference_vertex
wait_context* vp_wcv_ctx(wait_context_vertex* W) { return &W->get_context(); }
unsigned long vp_wcv_count(wait_context_vertex* W) { return W->m_wait.m_ref_count.load(std::memory_order_relaxed); }
unsigned long vp_rv_count(reference_vertex* V) { return V->m_ref_count.load(std::memory_order_relaxed); }

// ---------------- (B)
void vp_thr_leaf(node* parent, execution_data* ed, int leaf) {
  vp_leaf_done(leaf);
  fold_tree<tree_node>(parent, *ed);
}
void vp_wait_node_init(wait_node* r) { new (r) wait_node(); }
// a split: the real offer_work/split path does alloc.new_object<tree_node>(ed, parent, 2, alloc)
tree_node* vp_new_tree_node(node* parent, execution_data* ed) {
  small_object_allocator alloc{};
  return alloc.new_object<tree_node>(*ed, parent, 2, alloc);
}
unsigned long vp_wait_count(wait_node* r) { return r->m_wait.m_ref_count.load(std::memory_order_relaxed); }
int vp_node_count(node* n) { return n->m_ref_count.load(std::memory_order_relaxed); }
unsigned long vp_sizeof_tree_node() { return sizeof(tree_node); }
}

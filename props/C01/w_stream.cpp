// C01 wrapper `stream`: task_stream<front_accessor> - the FIFO lanes behind enqueued / critical / resumed tasks.
// REAL: push / try_push / pop / try_pop / pop_specific / look_specific / empty, the population bit operations, the lane
// mutex (d1::mutex try_lock / unlock), the lane selectors, the std::_Deque_iterator arithmetic used by look_specific.
// CUT (spec.py): the std::deque member functions of the lane queue (push_back, empty, front, pop_front, begin, end, pop_back,
// _M_initialize_map): the harness supplies a bounded queue with the documented container contract.
#include "src/tbb/arena.h"      // pulls task_stream.h with everything it needs
using namespace tbb::detail;
using namespace tbb::detail::r1;
typedef task_stream<front_accessor> stream_t;
extern "C" void vp_got(int tid, d1::task* t);     // observer: a pop returned t (null = nothing)
extern "C" void vp_pushing(d1::task* t);          // observer: push of t starts

// thread programs fixed at compile time: SA / SB = operation of thread a / b:
//   1 push (subsequent_lane_selector, as arena::enqueue_task / r1::submit), 2 pop (preceding_lane_selector, as
//   arena::get_stream_task), 3 pop_specific(isolation) (as arena::get_critical_task), 4 two pushes, 5 two pops
#ifndef SA
#define SA 1
#define SB 2
#endif
#define STREAM_OP(op, tid) \
  if (op == 1 || op == 4) { vp_pushing(t0); s->push(t0, subsequent_lane_selector(*hint)); } \
  if (op == 4) { vp_pushing(t1); s->push(t1, subsequent_lane_selector(*hint)); } \
  if (op == 2 || op == 5) { d1::task* t = s->pop(preceding_lane_selector(*hint)); vp_got(tid, t); } \
  if (op == 5) { d1::task* t = s->pop(preceding_lane_selector(*hint)); vp_got(tid, t); } \
  if (op == 3) { d1::task* t = s->pop_specific(*hint, iso); vp_got(tid, t); }

extern "C" {
int vp_prog(int i) { return i == 0 ? SA : SB; }
void vp_thr_sa(stream_t* s, unsigned* hint, isolation_type iso, d1::task* t0, d1::task* t1) { STREAM_OP(SA, 0) }
void vp_thr_sb(stream_t* s, unsigned* hint, isolation_type iso, d1::task* t0, d1::task* t1) { STREAM_OP(SB, 1) }

// ---- sequential: construction, pre-state through the real push, final drain through the real try_pop, inspection
void vp_stream_init(stream_t* s) { new (s) stream_t(); s->initialize(2); }
void vp_seq_push(stream_t* s, unsigned* hint, d1::task* t) { s->push(t, subsequent_lane_selector(*hint)); }
d1::task* vp_seq_try_pop(stream_t* s, unsigned lane) { return s->try_pop(lane); }   // what pop() iterates over the lanes
unsigned long vp_stream_population(stream_t* s) { return s->population.load(std::memory_order_relaxed); }
unsigned vp_stream_lanes(stream_t* s) { return s->N; }
void* vp_lane_queue(stream_t* s, unsigned i) { return &s->lanes[i].my_queue; }
int vp_lane_locked(stream_t* s, unsigned i) { return s->lanes[i].my_mutex.my_flag.load(std::memory_order_relaxed); }
unsigned long vp_sizeof_lane() { return sizeof(stream_t::lane_t); }
void vp_task_init(d1::task* t, isolation_type iso) { t->m_version_and_traits = 0; task_accessor::isolation(*t) = iso; }
}

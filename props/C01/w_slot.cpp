// C01 wrapper: per-thread ready deque (arena_slot) - owner get_task / spawn versus thieves steal_task.
// The real arena_slot.cpp is included textually; thread bodies call the real member functions.
#include "src/tbb/arena_slot.cpp"
using namespace tbb::detail;
using namespace tbb::detail::r1;

extern "C" void vp_got(int tid, d1::task* t);      // observer: thread tid obtained task t (t may be null = nothing obtained)
extern "C" void vp_spawning(d1::task* t);          // observer: the owner is about to hand t to the deque

// The programs of the threads are fixed at compile time per unit (spec.py passes -DOPA/-DOPB/-DOPC/-DNSTEAL), so that a
// thread body contains exactly the real code of its operations.
// owner operation: 0 nothing, 1 get_task (guarded exactly like task_dispatcher::local_wait_for_all does), 2 spawn(fresh)
#ifndef OPA
#define OPA 1
#define OPB 1
#define OPC 0
#endif
#ifndef NSTEAL
#define NSTEAL 1
#endif
#define OWNER_OP(op, fresh) \
  if (op == 1) { d1::task* t = nullptr; if (s->is_task_pool_published()) t = s->get_task(*ed, iso); vp_got(0, t); } \
  else if (op == 2) { vp_spawning(fresh); s->spawn(*fresh); }

extern "C" {
int vp_owner_op(int i) { return i == 0 ? OPA : i == 1 ? OPB : OPC; }
int vp_nsteal() { return NSTEAL; }
// owner thread: up to three operations in program order
void vp_thr_owner(arena_slot* s, execution_data_ext* ed, isolation_type iso, d1::task* f0, d1::task* f1, d1::task* f2) {
  OWNER_OP(OPA, f0)
  OWNER_OP(OPB, f1)
  OWNER_OP(OPC, f2)
}
// thief thread: NSTEAL (1 or 2) steal attempts on the victim slot; entry guard as in arena::steal_task
void vp_thr_thief(arena_slot* s, arena* a, int tid, isolation_type iso) {
  {
    d1::task* t = nullptr;
    if (s->task_pool.load(std::memory_order_relaxed) != EmptyTaskPool) t = s->steal_task(*a, iso, 0);
    vp_got(tid, t);
  }
#if NSTEAL > 1
  {
    d1::task* t = nullptr;
    if (s->task_pool.load(std::memory_order_relaxed) != EmptyTaskPool) t = s->steal_task(*a, iso, 0);
    vp_got(tid, t);
  }
#endif
}

// ---- state construction / inspection (sequential, called from the harness driver)
unsigned long vp_sizeof_slot() { return sizeof(arena_slot); }
unsigned long vp_sizeof_task() { return sizeof(d1::task); }
unsigned long vp_sizeof_disp() { return sizeof(task_dispatcher); }
unsigned long vp_sizeof_td() { return sizeof(thread_data); }
unsigned long vp_min_pool() { return arena_slot::min_task_pool_size; }
// a slot whose pool was allocated by the real allocate_task_pool and holds n entries at [h, h+n); published iff n > 0.
// (state reached by h+n spawns and h steals/pops; entries are written by vp_slot_put)
void vp_slot_init(arena_slot* s, unsigned long h, unsigned long n) {
  s->my_is_occupied.store(true, std::memory_order_relaxed);
  s->task_pool_ptr = nullptr; s->my_task_pool_size = 0;
  s->tail.store(0, std::memory_order_relaxed); s->head.store(0, std::memory_order_relaxed);
  s->task_pool.store(EmptyTaskPool, std::memory_order_relaxed);
  (void)s->prepare_task_pool(1);            // real first-time allocation (min_task_pool_size entries)
  s->head.store(h, std::memory_order_relaxed); s->tail.store(h + n, std::memory_order_relaxed);
  if (n) s->task_pool.store(s->task_pool_ptr, std::memory_order_relaxed);
}
void vp_slot_put(arena_slot* s, unsigned long i, d1::task* t) { s->task_pool_ptr[i] = t; }
d1::task* vp_slot_entry(arena_slot* s, unsigned long i) { return s->task_pool_ptr[i]; }
unsigned long vp_slot_head(arena_slot* s) { return s->head.load(std::memory_order_relaxed); }
unsigned long vp_slot_tail(arena_slot* s) { return s->tail.load(std::memory_order_relaxed); }
unsigned long vp_slot_cap(arena_slot* s) { return s->my_task_pool_size; }
int vp_slot_state(arena_slot* s) { d1::task** p = s->task_pool.load(std::memory_order_relaxed); return p == EmptyTaskPool ? 0 : p == LockedTaskPool ? 2 : p == s->task_pool_ptr ? 1 : 3; }
void vp_task_init(d1::task* t, isolation_type iso) { t->m_version_and_traits = 0; task_accessor::isolation(*t) = iso; }
void vp_ed_init(execution_data_ext* ed, task_dispatcher* d, thread_data* td, arena* a) {
  ed->context = nullptr; ed->original_slot = 0; ed->affinity_slot = d1::no_slot; ed->task_disp = d; ed->isolation = no_isolation; ed->wait_ctx = nullptr;
  d->m_thread_data = td; td->my_arena = a;
}
}

/* C06 sort/pivot selection.
 * PART 1: median_of_three(array,l,m,r) for symbolic positions (may coincide) and symbolic keys: returns one of l,m,r and the
 *         element there is a median of the three (named contract; the sort's correctness needs only "one of l,m,r").
 * PART 2: pseudo_median_of_nine for EVERY range size 1..2^64-1: every position it reads and the position it returns lie
 *         inside the range (index arithmetic size/8*k, size-1). The iterator is a probe (wrapper ProbeIt) that reports each
 *         index to vp_key_at() below instead of owning memory, so no array of that size is needed. */
#include "w.h"
#include "vp.h"
#define KEY(e) ((int)(u32)((e) >> 32))
#if PART == 1
#define NA 4
static u64 a[NA];
int main(void) {
  for (int i = 0; i < NA; i++) a[i] = ((u64)(u32)vp_nd() << 32) | (u32)i;
  u64 l = vp_nd_range(0, NA - 1), m = vp_nd_range(0, NA - 1), r = vp_nd_range(0, NA - 1);
  u64 res = vp_median3(a, l, m, r);
  VP_ASSERT(res == l || res == m || res == r, "median_of_three returned a position that is none of its three arguments");
  if (res < NA) {
    int k = KEY(a[res]), kl = KEY(a[l]), km = KEY(a[m]), kr = KEY(a[r]);
    int less = (kl < k) + (km < k) + (kr < k), greater = (k < kl) + (k < km) + (k < kr);
    VP_ASSERT(less <= 1 && greater <= 1, "median_of_three did not return a median (two of the three are on the same side)");
  }
  for (int i = 0; i < NA; i++) VP_ASSERT((u32)a[i] == (u32)i, "median_of_three modified the array");
  VP_REACHED();
}
#else
static u64 size_n;
static unsigned nqueries;
/* ProbeIt::operator[]: the element at position idx is read. The key returned is arbitrary per read (not even consistent per
   position): an over-approximation of every comparator, which is sound here because the positions depend on the size only. */
u32 vp_key_at(u64 idx) {
  VP_ASSERT(idx < size_n, "pseudo_median_of_nine reads a position outside the range");
  nqueries++;
  return (u32)vp_nd();
}
int main(void) {
  size_n = vp_nd(); __CPROVER_assume(size_n >= 1);
  u64 res = vp_median9_probe(size_n);
  VP_ASSERT(res < size_n, "pivot position outside the range");
  VP_ASSERT(nqueries >= 8, "fewer reads than four median_of_three calls need");
  VP_REACHED();
}
#endif

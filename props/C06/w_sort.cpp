// C06 wrapper: the kernels of parallel_sort (include/oneapi/tbb/parallel_sort.h), called directly (white box) because the
// 500-element cut-offs (quick_sort_range::grainsize, min_parallel_size) keep them out of reach of small arrays.
#include "oneapi/tbb/parallel_sort.h"
using namespace tbb::detail::d1;

extern "C" void vp_emit(unsigned long v);

// element = (key, id): the comparator looks at the key only (any strict weak order on n elements is the order of some
// key assignment); the id lets the harness check that elements are moved as wholes and form a permutation.
// An element is one 64-bit word (key in the high half, tag in the low half) so that moves are single word accesses.
typedef unsigned long Elem;
static inline int key_of(Elem e) { return (int)(unsigned)(e >> 32); }
struct KeyLess { bool operator()(const Elem& a, const Elem& b) const { return key_of(a) < key_of(b); } };
typedef quick_sort_range<Elem*, KeyLess> QR;
typedef quick_sort_pretest_body<Elem*, KeyLess> PB;

// An iterator that does not own memory: every index it is asked for is reported to the harness, which returns the key stored
// there (used for the full-width index lemma of pseudo_median_of_nine: sizes up to 2^64-1 without an array).
extern "C" int vp_key_at(unsigned long idx);
struct ProbeIt {
  struct Ref { int key; };
  Ref operator[](unsigned long i) const { return Ref{vp_key_at(i)}; }
};
struct ProbeLess { bool operator()(const ProbeIt::Ref& a, const ProbeIt::Ref& b) const { return a.key < b.key; } };
typedef quick_sort_range<ProbeIt, ProbeLess> QP;

static KeyLess g_cmp;
static ProbeLess g_pcmp;

extern "C" {
// --- quick_sort_range splitting constructor == split_range (pivot selection + partition loop) ---
// out[0] = left.size, out[1] = left.begin - a, out[2] = right.size, out[3] = right.begin - a
void vp_split(Elem* a, unsigned long n, unsigned long* out) {
  QR left(a, n, g_cmp);
  QR right(left, tbb::detail::split());
  out[0] = left.size; out[1] = (unsigned long)(left.begin - a);
  out[2] = right.size; out[3] = (unsigned long)(right.begin - a);
}
unsigned long vp_median3(Elem* a, unsigned long l, unsigned long m, unsigned long r) {
  QR q(a, 0, g_cmp);
  return q.median_of_three(a, l, m, r);
}
unsigned long vp_median9(Elem* a, unsigned long n) {
  QR q(a, n, g_cmp);
  return q.pseudo_median_of_nine(a, q);
}
unsigned long vp_median9_probe(unsigned long n) {
  ProbeIt it;
  QP q(it, n, g_pcmp);
  return q.pseudo_median_of_nine(it, q);
}
unsigned long vp_grainsize() { return QR::grainsize; }
int vp_divisible(unsigned long n) { QR q(nullptr, n, g_cmp); return q.is_divisible(); }

#ifdef VP_DRIVER
// --- pre-sortedness probe ---
// contract of r1::initialize(task_group_context&) (src/tbb/task_group_context.cpp) as far as the header code reads it
void vp_ctx_initialize(task_group_context* c) {
  c->my_cancellation_requested = 0; c->my_may_have_children.store(0, std::memory_order_relaxed);
  c->my_state.store(task_group_context::state::created, std::memory_order_relaxed);
  c->my_parent = nullptr; c->my_context_list = nullptr; c->my_exception.store(nullptr, std::memory_order_relaxed);
}
static tbb::task_group_context* g_ctx;
alignas(tbb::task_group_context) static unsigned char g_ctx_mem[sizeof(tbb::task_group_context)];
alignas(PB) static unsigned char g_body_mem[sizeof(PB)];
PB* vp_make_pretest_body() {
  g_ctx = new (g_ctx_mem) tbb::task_group_context(tbb::task_group_context::isolated);   // r1::initialize is a harness stub
  return new (g_body_mem) PB(g_cmp, *g_ctx);
}
// one chunk of the parallel probe: the real body on blocked_range [a+b, a+e)
void vp_pretest_chunk(PB* body, Elem* b, Elem* e) {
  tbb::blocked_range<Elem*> r(b, e);
  (*body)(r);
}
// the whole driver: serial 9-element probe, then parallel_for(pretest) / do_parallel_quick_sort; both parallel_for
// instantiations are cut (harness stubs): the harness chunking stub calls vp_pretest_chunk
void vp_quick_sort_driver(Elem* a, unsigned long n) { parallel_quick_sort(a, a + n, g_cmp); }
Elem* vp_br_begin(const tbb::blocked_range<Elem*>* r) { return r->begin(); }
Elem* vp_br_end(const tbb::blocked_range<Elem*>* r) { return r->end(); }
unsigned long vp_br_grain(const tbb::blocked_range<Elem*>* r) { return r->grainsize(); }
Elem* vp_qr_begin(const QR* r) { return r->begin; }
unsigned long vp_qr_size(const QR* r) { return r->size; }

#endif
// --- translator validation vectors ---
void vp_selftest() {
  static const int vecs[][8] = {
    {5, 1, 4, 2, 3, 0, 7, 6}, {0, 1, 2, 3, 4, 5, 6, 7}, {7, 6, 5, 4, 3, 2, 1, 0}, {1, 1, 1, 1, 1, 1, 1, 1},
    {2, 1, 2, 1, 2, 1, 2, 1}, {0, 0, 1, 0, 0, 1, 1, 0}, {3, 9, 3, 9, 1, 1, 9, 3}, {-1, 5, -7, 5, 0, 0, 2, -1}};
  for (auto& v : vecs) for (unsigned long n = 1; n <= 8; n++) {
    Elem a[8]; unsigned long out[4];
    for (int i = 0; i < 8; i++) a[i] = ((unsigned long)(unsigned)v[i] << 32) | (unsigned)i;
    vp_emit(vp_median9(a, n));
    vp_split(a, n, out);
    for (int i = 0; i < 4; i++) vp_emit(out[i]);
    for (int i = 0; i < 8; i++) vp_emit(a[i]);
    vp_emit(vp_median3(a, 0, n / 2, n - 1));
  }
}
}

/* C06 reduce/scan: the real start_reduce / start_deterministic_reduce / start_scan.. task code run by a sequential "task bag" that stands in
 * for the scheduler (r1:: entry points below are the only stubs). Tasks are atomic except that, while a task is inside the
 * user body, the harness may run other tasks of the bag to completion (NEST levels deep): that is what a second / third
 * thread stealing and running the right sibling during the left leaf looks like.
 * Concrete per query (enumerated by the runner, see spec.py): range [0,NELEM), GRAIN, partitioner (unit), and the task order:
 *   DRAIN bit s   = the s-th task taken by the waiting thread's drain loop is the oldest (1, thief-like) / newest (0, owner-like)
 *   NESTMASK bit h = during the h-th body invocation (global count) other tasks run (NESTK of them, NESTPOL oldest/newest)
 * (a symbolic task choice makes every task pointer, hence every loop bound in the task code, symbolic: no verdict, see NOTES).
 *   CANCEL k     = the group is cancelled just before the k-th observation point (context poll or task dispatch); 0 = never
 *   STOLEN bit i  = the i-th task taken from the bag runs on another slot than it was spawned from (is_stolen_task);
 *                   undefined = symbolic per task (used only with simple_partitioner, which ignores it)
 *   MAXCONC       = r1::max_concurrency (initial divisor of auto/static/affinity partitioners)
 * With -DDETERMINISTIC the algorithm is parallel_deterministic_reduce (two runs compared), with -DSCAN parallel_scan (w_scan.cpp).
 *
 * Oracle (free-monoid body, see w_reduce.cpp): result sequence == 0,1,..,NELEM-1 exactly (every operand once, in order);
 * a split-off body is joined only into the body it was split from, at most once, while neither is running, never after it
 * was destroyed, and is destroyed exactly once; nothing runs on a joined/destroyed body; every task and tree node is freed
 * exactly once; the wait is released exactly once, after the bag is empty. */
#include "w.h"
#include "vp.h"
#ifndef NELEM
#define NELEM 3
#endif
#ifndef GRAIN
#define GRAIN 1
#endif
#ifndef NEST
#define NEST 1
#endif
#ifndef NESTK
#define NESTK 1     /* tasks other threads run while one body invocation is in progress */
#endif
#ifndef NESTMASK
#define NESTMASK 0
#endif
#ifndef NESTPOL
#define NESTPOL 1
#endif
#ifndef DRAIN
#define DRAIN 0
#endif
#ifndef CANCEL
#define CANCEL 0
#endif
#ifndef MAXCONC
#define MAXCONC 2
#endif
#define MAXT 12
#ifndef MAXCHAIN
#define MAXCHAIN 12
#endif
#define MAXB 12
typedef struct S_class_tbb__detail__d1__task task_t;
typedef struct S_class_tbb__detail__d1__task_group_context ctx_t;
typedef struct S_struct_tbb__detail__d1__execution_data ed_t;
typedef struct S_class_tbb__detail__d1__small_object_pool pool_t;
typedef struct S_class_tbb__detail__d1__wait_context wait_t;

#ifndef VP_NATIVE
/* cbmc's built-in memset model rewrites the whole enclosing object byte-wise, after which no field of a task (body pointer,
   range) is a constant for symex any more; clang merges adjacent zero-initialisations of task fields into small memsets.
   Word-wise stores touch only the fields they cover. (native replay uses libc's memset) */
#define W1(i) if ((i) < n / 8) ((u64*)p)[i] = w;
#define W4(i) W1(i) W1(i + 1) W1(i + 2) W1(i + 3)
#define B1(i) if ((i) < n) ((u8*)p)[i] = (u8)c;
#define B4(i) B1(i) B1(i + 1) B1(i + 2) B1(i + 3)
#define B16(i) B4(i) B4(i + 4) B4(i + 8) B4(i + 12)
void* memset(void* p, int c, size_t n) {
  u64 w = (u8)c * 0x0101010101010101ull;
  if ((__CPROVER_POINTER_OFFSET(p) & 7) == 0 && (n & 7) == 0) { W4(0) W4(4) W4(8) W4(12) VP_ASSERT(n <= 128, "VP: memset longer than modelled"); }
  else { B16(0) B16(16) B16(32) B16(48) VP_ASSERT(n <= 64, "VP: memset longer than modelled"); }
  return p;
}
#endif
static task_t* bag[MAXT]; static unsigned nbag;
static ctx_t* run_ctx; static wait_t* run_wait;
static unsigned depth, cur_slot, n_hooks, n_drain;
static unsigned nestmask = NESTMASK, drainmask = DRAIN, nestpol = NESTPOL, force_local;   /* task order of the current run */
static unsigned n_alloc, n_free, n_notify, n_tasks_run, n_waits;
static unsigned n_spawn_plain, n_spawn_slot, n_aff_alloc, n_leaves;   /* partitioner signature of a run (OVERLOADS) */
static int want_user_ctx = -1;                                        /* OVERLOADS: 1 tasks must run in the user's context, 0 must not, -1 unchecked */
static int cancelled;
static u64 dummy_pool;
/* ghost state about bodies */
static int split_from[MAXB], joined[MAXB], destroyed[MAXB], active[MAXB]; static unsigned n_bodies = 1;

/* ---- body observers (called from the wrapper's Body) ---- */
void vp_body_split(u32 from, u32 nid) {
  VP_ASSERT(nid < MAXB && from < nid, "VP bound: body ids");
  VP_ASSERT(nid == n_bodies, "body ids not consecutive");
  VP_ASSERT(!joined[from] && !destroyed[from], "body split off a body that was already joined away / destroyed");
  if (nid < MAXB) { split_from[nid] = (int)from; n_bodies = nid + 1; }
}
void vp_body_dtor(u32 id) {
  VP_ASSERT(id != 0, "the user's own body was destroyed by the algorithm");
  VP_ASSERT(id < n_bodies, "destructor on something that is not a live body");
  if (id < MAXB) {
    VP_ASSERT(!destroyed[id], "split-off body destroyed twice");
    VP_ASSERT(!active[id], "body destroyed while running");
    destroyed[id] = 1;
  }
}
static void run_some(void);
void vp_body_run(u32 id, u32 b, u32 e) {
  VP_ASSERT(id < n_bodies && !joined[id] && !destroyed[id], "body applied after it was joined away / destroyed");
  VP_ASSERT((int)b < (int)e && (int)b >= 0 && (int)e <= NELEM, "body applied to an empty or foreign range");
  n_leaves++;
  if (id < MAXB) active[id]++;
  { unsigned h = n_hooks++;
    if (depth < NEST && (nestmask >> h & 1)) { depth++; run_some(); depth--; } }   /* other threads make progress while this body runs */
  if (id < MAXB) active[id]--;
}
void vp_body_join(u32 into, u32 from) {
  VP_ASSERT(into < n_bodies && from < n_bodies && from != 0, "join on something that is not a live split-off body");
  if (into < MAXB && from < MAXB) {
    VP_ASSERT(split_from[from] == (int)into, "a split-off body was joined into a body it was not split from");
    VP_ASSERT(!joined[from], "split-off body joined twice");
    VP_ASSERT(!destroyed[from] && !destroyed[into] && !joined[into], "join with a destroyed / already joined body");
    VP_ASSERT(!active[from] && !active[into], "join while one of the two bodies is still being run");
    VP_ASSERT(!cancelled, "join performed although the group was already cancelled");
    joined[from] = 1;
  }
}

#ifdef SCAN
/* ---- parallel_scan observers ---- */
static u64 seq_of(int lo, int hi) { u64 q = 0; for (int i = 0; i < NELEM; i++) if (i >= lo && i < hi) q = (q << 4) | (u64)((i + 1) & 15); return q; }
static int final_count[NELEM];
/* a pass over [b,e) starts; the body's running sum at that moment is (prefix_seq, prefix_len) */
void vp_scan_pass(u32 id, u32 b, u32 e, u32 is_final, u64 prefix_seq, u32 prefix_len) {
  VP_ASSERT((int)b < (int)e && (int)b >= 0 && (int)e <= NELEM, "scan pass on an empty or foreign range");
  VP_ASSERT(prefix_len <= b, "running sum holds more operands than lie left of the subrange");
  if (prefix_len <= b) VP_ASSERT(prefix_seq == seq_of((int)(b - prefix_len), (int)b), "running sum is not the fold of the operands immediately left of the subrange, in order");
  if (is_final) {
    VP_ASSERT(prefix_len == b, "final pass starts with an incomplete prefix: wrong scan output");
    for (int i = 0; i < NELEM; i++) if (i >= (int)b && i < (int)e) { VP_ASSERT(final_count[i] == 0, "final pass run twice on an element"); final_count[i]++; }
  }
}
void vp_body_rjoin(u32 into, u32 left) {
  VP_ASSERT(into < n_bodies && left < n_bodies && !destroyed[into] && !destroyed[left], "reverse_join on a destroyed body");
  VP_ASSERT(!active[into] && !active[left], "reverse_join while one of the two bodies is still being run");
}
void vp_body_assign(u32 into, u32 from) {
  VP_ASSERT(into < n_bodies && from < n_bodies && !destroyed[into] && !destroyed[from], "assign on a destroyed body");
  VP_ASSERT(!active[into] && !active[from], "assign while one of the two bodies is still being run");
}
#endif
/* ---- r1:: entry points = the scheduler model ---- */
/* cancellation arrives (from some other thread) just before the CANCEL-th observation point (1-based): an observation point is
   every poll of the context by the task code and every task dispatch. CANCEL=0: never. */
static unsigned n_cancel_points;
static void cancel_point(void) { n_cancel_points++; if (CANCEL && !force_local && n_cancel_points == CANCEL) cancelled = 1; }
void _ZN3tbb6detail2r110initializeERNS0_2d118task_group_contextE(ctx_t* c) { vp_ctx_initialize(c); }   /* state=created, not cancelled, no parent */
void _ZN3tbb6detail2r17destroyERNS0_2d118task_group_contextE(ctx_t* c) {}
/* typed allocation (cbmc derives the object type from malloc(sizeof(T)); an untyped byte object would make every field read
   a byte_extract that symex cannot constant-fold, and then no loop bound in the task code is concrete) */
#if defined(SCAN) || defined(OVERLOADS)
#define VP_UNTYPED_TASKS 1     /* several task types per unit: untyped objects, kept foldable by --max-field-sensitivity-array-size 256 */
#elif defined(DETERMINISTIC)
#define TASK_T struct S_struct_tbb__detail__d1__start_deterministic_reduce
#define NODE_T struct S_struct_tbb__detail__d1__deterministic_reduction_tree_node
#else
#define TASK_T struct S_struct_tbb__detail__d1__start_reduce
#define NODE_T struct S_struct_tbb__detail__d1__reduction_tree_node
#endif
static u8* alloc_obj(pool_t** pool, u64 n) {
  u8* p;
  *pool = (pool_t*)&dummy_pool; n_alloc++;
#ifndef VP_UNTYPED_TASKS
  VP_ASSERT(n == sizeof(TASK_T) || n == sizeof(NODE_T), "VP: allocation of an unexpected size");
  if (n == sizeof(TASK_T)) p = malloc(sizeof(TASK_T)); else p = malloc(sizeof(NODE_T));
#else
  VP_ASSERT(n <= 256, "VP: task larger than the field-sensitive array limit");
  p = malloc(n);     /* four task types, two of each size: untyped objects; --max-field-sensitivity-array-size 256 keeps them foldable */
#endif
  __CPROVER_assume(p != 0); return p;
}
u8* _ZN3tbb6detail2r18allocateERPNS0_2d117small_object_poolEm(pool_t** pool, u64 n) { return alloc_obj(pool, n); }
u8* _ZN3tbb6detail2r18allocateERPNS0_2d117small_object_poolEmRKNS2_14execution_dataE(pool_t** pool, u64 n, ed_t* ed) { return alloc_obj(pool, n); }
void _ZN3tbb6detail2r110deallocateERNS0_2d117small_object_poolEPvmRKNS2_14execution_dataE(pool_t* pool, u8* p, u64 n, ed_t* ed) {
  VP_ASSERT(pool == (pool_t*)&dummy_pool, "deallocate with a pool that allocate never handed out");
  n_free++; free(p); }
void _ZN3tbb6detail2r110deallocateERNS0_2d117small_object_poolEPvm(pool_t* pool, u8* p, u64 n) {
  VP_ASSERT(pool == (pool_t*)&dummy_pool, "deallocate with a pool that allocate never handed out");
  n_free++; free(p); }
void _ZN3tbb6detail2r15spawnERNS0_2d14taskERNS2_18task_group_contextE(task_t* t, ctx_t* c) {
  VP_ASSERT(c == run_ctx, "task spawned into a foreign context");
  VP_ASSERT(nbag < MAXT, "VP bound: bag capacity");
  n_spawn_plain++;
  if (nbag < MAXT) bag[nbag++] = t; }
void _ZN3tbb6detail2r15spawnERNS0_2d14taskERNS2_18task_group_contextEt(task_t* t, ctx_t* c, u16 slot) {
  _ZN3tbb6detail2r15spawnERNS0_2d14taskERNS2_18task_group_contextE(t, c); n_spawn_plain--; n_spawn_slot++; }
u16 _ZN3tbb6detail2r114execution_slotEPKNS0_2d114execution_dataE(ed_t* ed) { return (u16)cur_slot; }
u32 _ZN3tbb6detail2r115max_concurrencyEPKNS0_2d115task_arena_baseE(struct S_class_tbb__detail__d1__task_arena_base* a) { return MAXCONC; }
u8 _ZN3tbb6detail2r128is_group_execution_cancelledERNS0_2d118task_group_contextE(ctx_t* c) {
  VP_ASSERT(c == run_ctx, "cancellation asked about a foreign context");
  cancel_point();
  return (u8)cancelled; }
/* affinity_partitioner's slot array: factor(16) * max_concurrency entries of slot_id */
static u16 aff_array[16 * MAXCONC]; static int aff_live;
u8* _ZN3tbb6detail2r122cache_aligned_allocateEm(u64 n) {
  VP_ASSERT(n == sizeof(aff_array) && !aff_live, "VP: unexpected cache_aligned_allocate"); aff_live = 1; n_aff_alloc++; return (u8*)aff_array; }
void _ZN3tbb6detail2r124cache_aligned_deallocateEPv(u8* p) { VP_ASSERT(p == (u8*)aff_array && aff_live, "cache_aligned_deallocate of a foreign block"); aff_live = 0; }
void _ZN3tbb6detail2r114notify_waitersEm(u64 addr) { VP_ASSERT(addr == (u64)run_wait, "notify for a foreign wait object"); n_notify++; }

static unsigned n_dispatch;
static void run_chain(task_t* t, ed_t* ed) {   /* a task may return a successor that the same thread runs next (scheduler bypass) */
  for (unsigned i = 0; i < MAXCHAIN; i++) if (t) {
    cancel_point();
    n_tasks_run++;
    t = cancelled ? vp_task_cancel(t, ed) : vp_task_execute(t, ed);   /* what the dispatcher does with a task of a cancelled group */
  }
  VP_ASSERT(t == 0, "VP bound: bypass chain longer than MAXCHAIN");
}
static void run_one(task_t* t) {
  ed_t ed;
  unsigned save = cur_slot;
  vp_ed_init(&ed, run_ctx);
  if (force_local) cur_slot = 0; else
#ifdef STOLEN   /* concrete per query: bit i = the i-th task taken from the bag runs on another slot than it was spawned from */
  cur_slot = (STOLEN >> n_dispatch) & 1;
#else
  cur_slot = (unsigned)vp_nd_range(0, 1);            /* 0: same slot it was spawned from; 1: stolen */
#endif
  n_dispatch++;
  run_chain(t, &ed);
  cur_slot = save;
}
static task_t* take(int oldest) {
  unsigned k = oldest ? 0 : nbag - 1;
  task_t* t = bag[k];
  for (unsigned i = 0; i + 1 < MAXT; i++) if (i >= k && i + 1 < nbag) bag[i] = bag[i + 1];
  nbag--;
  return t;
}
static void run_some(void) {
  for (unsigned i = 0; i < NESTK; i++) if (nbag > 0) run_one(take(nestpol));
}
void _ZN3tbb6detail2r116execute_and_waitERNS0_2d14taskERNS2_18task_group_contextERNS2_12wait_contextES6_(task_t* t, ctx_t* tc, wait_t* w, ctx_t* wc) {
  run_ctx = tc; run_wait = w; cur_slot = 0;
#ifdef OVERLOADS
  VP_ASSERT(tc == wc, "tasks and wait use different contexts");
  if (want_user_ctx == 1) VP_ASSERT(tc == vp_user_ctx(), "overload with a task_group_context argument: the tasks do not run in the context the user passed");
  if (want_user_ctx == 0) VP_ASSERT(tc != vp_user_ctx(), "overload without a context argument runs in the user's context object");
#endif
  { ed_t ed; vp_ed_init(&ed, run_ctx); run_chain(t, &ed); }   /* the root task is run by the calling thread, never stolen */
  n_waits++;
  for (unsigned s = 0; s < MAXT; s++) if (nbag > 0) { unsigned d = n_drain++; run_one(take(drainmask >> d & 1)); }
  VP_ASSERT(nbag == 0, "VP bound: more tasks than the drain loop runs");
  VP_ASSERT(vp_wait_refs(w) == 0, "all tasks ran but the wait object was not released: wait_for_all would hang");
}

static void check_run(void) {
  VP_ASSERT(n_notify == n_waits && n_waits >= 1, "wait released not exactly once per wait");
  VP_ASSERT(n_alloc == n_free, "a task or tree node was never freed");
  for (unsigned i = 1; i < MAXB; i++) if (i < n_bodies) {
    VP_ASSERT(destroyed[i], "split-off body never destroyed");
#ifndef SCAN
    if (!cancelled) VP_ASSERT(joined[i], "split-off body never joined back: its partial result is lost");
#endif
  }
#ifdef SCAN
  if (!cancelled) for (int i = 0; i < NELEM; i++) VP_ASSERT(final_count[i] == 1, "an element never got its final pass");
#endif
  if (!cancelled) {
    u64 expect = 0;
    for (unsigned i = 0; i < NELEM; i++) expect = (expect << 4) | ((i + 1) & 15);
    VP_ASSERT(vp_result_len() == NELEM, "number of operands in the result differs from the range size");
    VP_ASSERT(vp_result_seq() == expect, "result is not the left-to-right fold: operand lost, duplicated or reordered");
  }
}
static void reset_run(void) {
  for (unsigned i = 0; i < MAXB; i++) { split_from[i] = 0; joined[i] = 0; destroyed[i] = 0; active[i] = 0; }
  n_bodies = 1; n_alloc = n_free = n_notify = n_tasks_run = n_hooks = n_drain = n_cancel_points = n_waits = n_dispatch = 0; nbag = 0; depth = 0;
  n_spawn_plain = n_spawn_slot = n_aff_alloc = n_leaves = 0; aff_live = 0;
}
#ifdef OVERLOADS
/* One public overload per unit (w_overloads.cpp -DVP_OVL=k) against the engine it is documented to be, called directly.
 * order 1 = plain LIFO, nothing stolen, no overlap; order 2 = the order of the scenario (default: during the first body invocation
 * a thief runs the oldest task = the right child of the outermost split, every taken task counts as stolen).
 *   run A reference engine, order 1;  run B overload, order 1;  run C overload, order 2;  run D reference engine, order 2
 * deterministic overloads: fingerprint(B) == fingerprint(C) == fingerprint(A) (tree depends on range and grain only, and is the
 * tree of the documented engine/partitioner); every overload: B matches A and C matches D in fingerprint, result, number of
 * bodies/tasks/leaves and partitioner signature (plain spawns, slot-directed spawns, affinity-array allocations); the tasks
 * run in the user's context iff the overload takes one; plus all reduce_bag oracles in every run. */
struct sig { u32 shape; unsigned bodies, tasks, leaves, sp, ss, aff; };
static struct sig take_sig(void) { struct sig g = { vp_result_shape(), n_bodies, n_tasks_run, n_leaves, n_spawn_plain, n_spawn_slot, n_aff_alloc }; return g; }
static int same_part(struct sig a, struct sig b) { return a.leaves == b.leaves && a.sp == b.sp && a.ss == b.ss && a.aff == b.aff && a.tasks == b.tasks; }
static void order(int which) {
  if (which == 1) { nestmask = 0; drainmask = 0; force_local = 1; } else { nestmask = NESTMASK; drainmask = DRAIN; force_local = 0; }
}
int main(void) {
  int det = vp_ovl_deterministic();
  vp_make_user_ctx();
  order(1); want_user_ctx = 0; vp_call_reference(0, NELEM, GRAIN); check_run(); struct sig A = take_sig(); reset_run();
  order(1); want_user_ctx = vp_ovl_has_ctx(); vp_call_overload(0, NELEM, GRAIN); check_run(); struct sig B = take_sig(); reset_run();
  order(2); want_user_ctx = vp_ovl_has_ctx(); vp_call_overload(0, NELEM, GRAIN); check_run(); struct sig C = take_sig(); reset_run();
  order(2); want_user_ctx = 0; vp_call_reference(0, NELEM, GRAIN); check_run(); struct sig D = take_sig();
  VP_ASSERT(B.shape == A.shape, "overload: join tree / leaf ranges differ from the documented engine and partitioner (plain LIFO order)");
  VP_ASSERT(C.shape == D.shape, "overload: join tree / leaf ranges differ from the documented engine and partitioner (stolen right children)");
  VP_ASSERT(same_part(A, B) && same_part(C, D), "overload: partitioner behaves differently from the requested kind (leaves / spawn kinds / affinity array / tasks)");
  VP_ASSERT(B.bodies == A.bodies && C.bodies == D.bodies || !vp_ovl_body_form(), "overload: number of split bodies differs from the documented engine");
  if (det) {
    VP_ASSERT(C.shape == B.shape, "deterministic overload: join tree / leaf ranges depend on the task order");
    VP_ASSERT(C.shape == A.shape && D.shape == A.shape, "deterministic overload: fingerprint differs from the reference fingerprint of (range, grain)");
    VP_ASSERT(C.tasks == B.tasks && C.leaves == B.leaves, "deterministic overload: number of tasks / leaves depends on the task order");
  }
  VP_REACHED();
}
#else
int main(void) {
#ifdef DETERMINISTIC
  /* run 1: reference order (owner-like LIFO, nothing stolen, no overlap); run 2: the order of this query. The body's second
     accumulator is a non-associative, non-commutative fingerprint of the join tree and of the leaf ranges: it must not depend
     on the order (parallel_deterministic_reduce: split/join tree is a function of range and grain size only). */
  nestmask = 0; drainmask = 0; force_local = 1;
  vp_reduce(0, NELEM, GRAIN);
  VP_ASSERT(!cancelled, "VP: reference run cancelled");
  check_run();
  u32 ref_shape = vp_result_shape(); unsigned ref_bodies = n_bodies, ref_tasks = n_tasks_run;
  reset_run();
  nestmask = NESTMASK; drainmask = DRAIN; force_local = 0;
  vp_reduce(0, NELEM, GRAIN);
  check_run();
  if (!cancelled) {
    VP_ASSERT(vp_result_shape() == ref_shape, "deterministic reduce: join tree / leaf ranges depend on the task order");
    VP_ASSERT(n_bodies == ref_bodies && n_tasks_run == ref_tasks, "deterministic reduce: number of bodies / tasks depends on the task order");
  }
#else
  vp_reduce(0, NELEM, GRAIN);
  check_run();
#endif
  VP_REACHED();
}
#endif

PROPERTY = 'C06'
UNITS = {
  'sort': dict(wrapper='w_sort.cpp', mode='seq', cxxflags=[], selftest=True),
  'sortdrv': dict(wrapper='w_sort.cpp', mode='seq', cxxflags=['-DVP_DRIVER'], cut=['parallel_for']),
  'red_simple': dict(wrapper='w_reduce.cpp', mode='seq', cxxflags=['-DVP_PART=simple_partitioner']),
  'red_auto': dict(wrapper='w_reduce.cpp', mode='seq', cxxflags=['-DVP_PART=auto_partitioner']),
  'red_static': dict(wrapper='w_reduce.cpp', mode='seq', cxxflags=['-DVP_PART=static_partitioner']),
  'red_affinity': dict(wrapper='w_reduce.cpp', mode='seq', cxxflags=['-DVP_PART=affinity_partitioner', '-DVP_NONCONST_PART']),
  'det_simple': dict(wrapper='w_reduce.cpp', mode='seq', cxxflags=['-DVP_PART=simple_partitioner', '-DVP_DETERMINISTIC']),
  'det_static': dict(wrapper='w_reduce.cpp', mode='seq', cxxflags=['-DVP_PART=static_partitioner', '-DVP_DETERMINISTIC']),
}
# reduce/scan bag harnesses: arrays up to 256 elements stay field-sensitive (range_vector's 128-byte pool must constant-fold)
RCBMC = ['--unwind', '13', '--max-field-sensitivity-array-size', '256']
def sched(nelem, grain, nest, nestk, cancel=(0,), nestmasks=None, drains=None, pols=(0, 1), extra=None, stolen=(0, 255)):
  """task orders for the reduce/scan task-bag harnesses: see h_reduce.c"""
  leaves = -(-nelem // grain)
  out = []
  for nm in (nestmasks if nestmasks is not None else range(1 << leaves)):
    for dr in (drains if drains is not None else range(1 << max(leaves - 1, 0))):
      for pol in (pols if nm else pols[:1]):
        for c in cancel:
          for st in stolen:
            sc = {'NELEM': nelem, 'GRAIN': grain, 'NEST': nest, 'NESTK': nestk, 'NESTMASK': nm, 'DRAIN': dr, 'NESTPOL': pol, 'CANCEL': c}
            if st is not None: sc['STOLEN'] = st     # None: symbolic per task (only where the partitioner ignores it)
            if extra: sc.update(extra)
            out.append(sc)
  return out
def split_h(n, tiers, full=False):
  sc = {'N': n}
  if full: sc['FULLKEYS'] = None
  return dict(name='sort_split_n%d%s' % (n, '_fullkeys' if full else ''), unit='sort', harness='h_split.c', cbmc=['--unwind', str(n + 2)],
       scenarios=[sc], tiers=tiers, fail_over_unwind=True, timeout=1800 if n > 8 else 600,
       desc='quick_sort_range splitting constructor (pseudo_median_of_nine + partition loop of split_range) on N elements with symbolic keys',
       bounds={'N': n, 'keys': 'any signed 32-bit' if full else 'ranks 0..N-1 (= every strict weak order on N elements)'})
HARNESSES = [split_h(n, ['quick', 'thorough']) for n in (1, 2, 3, 4, 5, 6, 7, 8)] + [split_h(4, ['quick', 'thorough'], True)] + [
  dict(name='sort_median3', unit='sort', harness='h_median.c', scenarios=[{'PART': 1}],
       desc='median_of_three: returns one of its three positions, holding a median', bounds={'positions': 'any 3 of 4 (may coincide)', 'keys': 'any signed 32-bit'}),
  dict(name='sort_median9_index', unit='sort', harness='h_median.c', scenarios=[{'PART': 2}],
       desc='pseudo_median_of_nine index arithmetic for every range size', bounds={'size': '1..2^64-1', 'keys': 'any'}),
  dict(name='sort_pretest_chunks', unit='sortdrv', harness='h_pretest.c', cbmc=['--unwind', '10'], scenarios=[{'PART': 1, 'N': 7}],
       desc='quick_sort_pretest_body on two adjacent chunks', bounds={'N': 7}),
  dict(name='sort_pretest_driver', unit='sortdrv', harness='h_pretest.c', cbmc=['--unwind', '16'], scenarios=[{'PART': 2, 'N': 12}],
       desc='parallel_quick_sort driver', bounds={'N': 12}),
  dict(name='sort_pretest_long', unit='sortdrv', harness='h_pretest.c', cbmc=['--unwind', '72'], scenarios=[{'PART': 3, 'N': 70}],
       desc='long chunk', bounds={'N': 70}),
  dict(name='reduce_bag_simple', unit='red_simple', harness='h_reduce.c', cbmc=RCBMC,
       scenarios=sched(3, 1, 1, 1) + sched(3, 1, 1, 1, cancel=(1, 2, 3, 4, 5, 6), nestmasks=(0, 1, 3), drains=(0, 1)),
       desc='bag', bounds={}),
  dict(name='reduce_bag_auto', unit='red_auto', harness='h_reduce.c', cbmc=RCBMC,
       scenarios=sched(4, 1, 1, 1, nestmasks=(0, 1, 5), drains=(0, 3), extra={'MAXCONC': 2}) +
                 sched(12, 1, 1, 1, nestmasks=(0, 1, 2, 3), drains=(0, 5), extra={'MAXCONC': 1}) +     # range pool + demand-driven offer_work
                 sched(8, 1, 1, 1, nestmasks=(1, 3), drains=(0, 3), extra={'MAXCONC': 1}),
       desc='bag', bounds={}),
  dict(name='reduce_bag_static', unit='red_static', harness='h_reduce.c', cbmc=RCBMC,
       scenarios=sched(4, 1, 1, 1, nestmasks=(0, 1, 5), drains=(0, 3), extra={'MAXCONC': 2}),
       desc='bag', bounds={}),
  dict(name='reduce_bag_affinity', unit='red_affinity', harness='h_reduce.c', cbmc=RCBMC,
       scenarios=sched(4, 1, 1, 1, nestmasks=(0, 1, 5), drains=(0, 3), extra={'MAXCONC': 2}, stolen=(0, 5, 15)),
       desc='bag', bounds={}),
  dict(name='detreduce_bag_simple', unit='det_simple', harness='h_reduce.c', cbmc=RCBMC, defines={'DETERMINISTIC': None},
       scenarios=sched(4, 1, 1, 1, nestmasks=(0, 1, 3, 5, 10), drains=(0, 3, 5)) + sched(3, 1, 1, 1, cancel=(2, 4), nestmasks=(0, 1), drains=(0, 1)),
       desc='bag', bounds={}),
  dict(name='detreduce_bag_static', unit='det_static', harness='h_reduce.c', cbmc=RCBMC, defines={'DETERMINISTIC': None},
       scenarios=sched(4, 1, 1, 1, nestmasks=(0, 1, 3), drains=(0, 1), extra={'MAXCONC': 3}),
       desc='bag', bounds={}),
]
OUTSIDE = []
STUBS = []
ASSUMPTIONS = []

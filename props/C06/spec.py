PROPERTY = 'C06'
# ---------------------------------------------------------------- units (one template instantiation per unit)
def _red(part, *flags):
  return dict(wrapper='w_reduce.cpp', mode='seq', cxxflags=['-DVP_PART=' + part] + list(flags))
UNITS = {
  'sort': dict(wrapper='w_sort.cpp', mode='seq', cxxflags=[], selftest=True),
  'sortdrv': dict(wrapper='w_sort.cpp', mode='seq', cxxflags=['-DVP_DRIVER'], cut=['parallel_for']),
  'red_simple': _red('simple_partitioner'),
  'red_auto': _red('auto_partitioner'),
  'red_static': _red('static_partitioner'),
  'red_affinity': _red('affinity_partitioner', '-DVP_NONCONST_PART'),
  'det_simple': _red('simple_partitioner', '-DVP_DETERMINISTIC'),
  'det_static': _red('static_partitioner', '-DVP_DETERMINISTIC'),
  'scan_simple': dict(wrapper='w_scan.cpp', mode='seq', cxxflags=['-DVP_PART=simple_partitioner']),
  'scan_auto': dict(wrapper='w_scan.cpp', mode='seq', cxxflags=['-DVP_PART=auto_partitioner']),
}
# one public overload of parallel_deterministic_reduce (1..12) / parallel_reduce (13..32) per unit, see w_overloads.cpp
def ovl_name(k):
  if k <= 12:
    form, var = (k - 1) // 6, (k - 1) % 6
    return 'overloads_det%02d_%s_%s%s' % (k, ('body', 'lambda')[form], ('default', 'simple', 'static')[var % 3], '_ctx' if var >= 3 else '')
  form, var = (k - 13) // 10, (k - 13) % 10
  return 'overloads_red%02d_%s_%s%s' % (k, ('body', 'lambda')[form], ('default', 'simple', 'auto', 'static', 'affinity')[var % 5], '_ctx' if var >= 5 else '')
for _k in range(1, 33):
  UNITS['ovl%02d' % _k] = dict(wrapper='w_overloads.cpp', mode='seq', cxxflags=['-DVP_OVL=%d' % _k])

# ---------------------------------------------------------------- task orders for the task-bag harnesses (h_reduce.c)
# bag harnesses: arrays up to 256 elements stay field-sensitive (range_vector's 128-byte pool and the untyped 128/192-byte scan
# tasks must constant-fold, otherwise no loop bound in the task code is concrete for symex)
RCBMC = ['--unwind', '13', '--max-field-sensitivity-array-size', '256']
def sched(nelem, grain, nest, nestk, cancel=(0,), nestmasks=None, drains=None, pols=(0, 1), extra=None, stolen=(0, 255)):
  """one scenario = one concrete task order (see the header of h_reduce.c for the meaning of the keys)"""
  leaves = -(-nelem // grain)
  out = []
  for nm in (nestmasks if nestmasks is not None else range(1 << leaves)):
    for dr in (drains if drains is not None else range(1 << max(leaves - 1, 0))):
      for pol in (pols if nm else pols[:1]):
        for c in cancel:
          for st in stolen:
            sc = {'NELEM': nelem, 'GRAIN': grain, 'NEST': nest, 'NESTK': nestk, 'NESTMASK': nm, 'DRAIN': dr, 'NESTPOL': pol, 'CANCEL': c}
            if st is not None: sc['STOLEN'] = st     # None: symbolic per task (only where the partitioner ignores it)
            if extra: sc.update(extra)
            out.append(sc)
  return out
BAG_BOUNDS = {'tasks': 'atomic, except that other tasks may run (to completion) while a task is inside the user body, NEST levels deep',
              'task order': 'concrete per query: DRAIN/NESTMASK/NESTPOL/NESTK/STOLEN/CANCEL (enumerated subsets, see scenarios)',
              'range': 'blocked_range<int>(0,NELEM,GRAIN), NELEM <= 12'}
def bag(name, unit, what, quick, thorough, defines=None, **kw):
  d = dict(name=name, unit=unit, harness='h_reduce.c', cbmc=RCBMC, defines=defines or {}, scenarios_quick=quick, scenarios_thorough=thorough,
           desc=what, bounds=BAG_BOUNDS, timeout=900, mem_gb=6)
  d.update(kw); return d

# ---------------------------------------------------------------- sort kernels
def split_h(n, tiers, full=False, solver=None):
  sc = {'N': n}
  if full: sc['FULLKEYS'] = None
  return dict(name='sort_split_n%d%s' % (n, '_fullkeys' if full else ''), unit='sort', harness='h_split.c',
       cbmc=['--unwind', str(n + 2)] + (['--sat-solver', solver] if solver else []),   # 32-bit keys: minisat needs 200 s (N=4) / ~50 min (N=5), cadical 12 s / ~1-2 min CPU
       scenarios=[sc], tiers=tiers, fail_over_unwind=True, timeout=3000 if (n > 8 or (full and n > 4)) else 900, mem_gb=8,
       desc='quick_sort_range splitting constructor = split_range (pseudo_median_of_nine pivot + partition loop) on an N-element array: '
            'pivot position inside the range, left = [0,j), right = [j+1,N) (pivot excluded from both, nothing outside touched), whole '
            'elements permuted, nothing left of the pivot greater, nothing right of it less',
       bounds={'N': n, 'keys': 'any signed 32-bit' if full else 'ranks 0..N-1 = every strict weak order on N elements (ties included)'})

HARNESSES = (
  [split_h(n, ['quick', 'thorough']) for n in (1, 2, 3, 4, 5, 6, 7, 8)] + [split_h(4, ['quick', 'thorough'], True, solver='cadical')] +
  [split_h(n, ['thorough']) for n in (9, 10)] + [split_h(5, ['thorough'], True, solver='cadical')] + [
  dict(name='sort_median3', unit='sort', harness='h_median.c', scenarios=[{'PART': 1}],
       desc='median_of_three: returns one of its three positions, and the element there is a median of the three',
       bounds={'positions': 'any 3 of 4, may coincide', 'keys': 'any signed 32-bit'}),
  dict(name='sort_median9_index', unit='sort', harness='h_median.c', scenarios=[{'PART': 2}],
       desc='pseudo_median_of_nine index arithmetic: every position read and the position returned lie inside the range',
       bounds={'size': 'every 64-bit size >= 1 (probe iterator, no array)', 'comparator': 'arbitrary outcome per comparison (over-approximation)'}),
  dict(name='sort_pretest_chunks', unit='sortdrv', harness='h_pretest.c', cbmc=['--unwind', '14'], scenarios_quick=[{'PART': 1, 'N': 7}],
       scenarios_thorough=[{'PART': 1, 'N': 7}, {'PART': 1, 'N': 12}],
       desc='quick_sort_pretest_body on two adjacent chunks [b,m) [m,e) (boundaries, order, keys symbolic): an inverted adjacent pair anywhere '
            'in [b,e), the pair straddling m included, cancels the context; no access outside [b-1,e)',
       bounds={'N': '7 | 12', 'keys': 'ranks 0..N-1'}),
  dict(name='sort_pretest_driver', unit='sortdrv', harness='h_pretest.c', cbmc=['--unwind', '18'], scenarios_quick=[{'PART': 2, 'N': 12}],
       scenarios_thorough=[{'PART': 2, 'N': 11}, {'PART': 2, 'N': 12}, {'PART': 2, 'N': 15}],
       desc='parallel_quick_sort (serial 9-pair probe, then parallel probe, then sort) with both parallel_for instantiations cut: an inverted '
            'adjacent pair at ANY position makes it start the sort on the whole range',
       bounds={'N': '12 | 11,12,15', 'keys': 'ranks', 'probe chunking': 'two chunks, symbolic boundary and order'}),
  dict(name='sort_pretest_long', unit='sortdrv', harness='h_pretest.c', cbmc=['--unwind', '72'], scenarios=[{'PART': 3, 'N': 70}],
       desc='one probe chunk longer than the 64-iteration cancellation poll: single inversion at a symbolic position is found unless the '
            'context is (externally) cancelled; the loop is left early only with a cancelled context',
       bounds={'N': 70, 'inversion position': 'symbolic 1..69 or none', 'external cancel': 'at poll 0,1,2 or never'}),

  # ------------------------------------------------------------ reduce: real start_reduce/fold_tree/join under the task bag
  bag('reduce_bag_simple', 'red_simple',
      'parallel_reduce(blocked_range, Body, simple_partitioner): start_reduce::execute/finalize/offer_work, reduction_tree_node::join/dtor, '
      'fold_tree. Free-monoid body: result == 0..n-1 in order; lazy split only while the left sibling is unfinished; join only into the body '
      'it was split from, once, skipped when cancelled; zombie destroyed exactly once; all tasks/nodes freed; wait released once',
      quick=sched(3, 1, 1, 1, stolen=(None,)) + sched(3, 1, 1, 1, cancel=(2, 3, 4, 5), nestmasks=(0, 1, 3), drains=(0, 1), stolen=(None,)) +
            sched(4, 1, 2, 2, nestmasks=(1, 3, 7), drains=(0, 5), stolen=(None,)),
      thorough=sched(3, 1, 1, 1, cancel=(0, 1, 2, 3, 4, 5, 6), stolen=(None,)) + sched(4, 1, 2, 2, stolen=(None,)) +
               sched(5, 1, 2, 2, nestmasks=(0, 1, 3, 5, 7, 15, 21, 31), drains=(0, 5, 10, 15), stolen=(None,)) + sched(6, 2, 2, 2, stolen=(None,)) +
               sched(4, 1, 1, 1, cancel=(2, 3, 4, 5, 6, 7, 8), nestmasks=(0, 1, 3, 5), drains=(0, 3), stolen=(None,))),
  bag('reduce_bag_auto', 'red_auto',
      'parallel_reduce with auto_partitioner: as reduce_bag_simple plus adaptive splitting, check_being_stolen / m_child_stolen feedback and the '
      'range_vector pool path of dynamic_grainsize_mode::work_balance (demand-driven offer_work of the front range = the rightmost piece)',
      quick=sched(4, 1, 1, 1, nestmasks=(0, 1, 5), drains=(0, 3), extra={'MAXCONC': 2}) +
            sched(12, 1, 1, 1, nestmasks=(0, 1, 2, 3), drains=(0, 5), extra={'MAXCONC': 1}),
      thorough=sched(4, 1, 2, 2, drains=(0, 5, 7), extra={'MAXCONC': 2}) + sched(6, 1, 2, 1, nestmasks=(0, 1, 3, 5, 9, 21), drains=(0, 7, 21), extra={'MAXCONC': 2}) +
               sched(12, 1, 2, 2, nestmasks=(0, 1, 2, 3, 5, 7, 15), drains=(0, 5, 3), extra={'MAXCONC': 1}, stolen=(0, 255, 0x55, 0xaa)) +
               sched(8, 1, 1, 1, nestmasks=(1, 3), drains=(0, 3), extra={'MAXCONC': 1}) +
               sched(12, 1, 1, 1, cancel=(3, 6, 9), nestmasks=(1, 3), drains=(0,), extra={'MAXCONC': 1}, stolen=(255,))),
  bag('reduce_bag_static', 'red_static', 'parallel_reduce with static_partitioner (proportional splits): oracles of reduce_bag_simple',
      quick=sched(4, 1, 1, 1, nestmasks=(0, 1, 5), drains=(0, 3), extra={'MAXCONC': 2}, stolen=(255,)),
      thorough=sched(6, 1, 2, 2, nestmasks=(0, 1, 3, 5, 7), drains=(0, 3, 5), extra={'MAXCONC': 3}) + sched(4, 1, 1, 1, drains=(0, 3, 5), extra={'MAXCONC': 2}, stolen=(255,)) +
               sched(7, 1, 1, 1, nestmasks=(0, 1, 3), drains=(0, 7), extra={'MAXCONC': 4}, stolen=(255,))),
  bag('reduce_bag_affinity', 'red_affinity', 'parallel_reduce with affinity_partitioner (affinity array, range pool): oracles of reduce_bag_simple',
      quick=sched(4, 1, 1, 1, nestmasks=(0, 1, 5), drains=(0, 3), extra={'MAXCONC': 2}, stolen=(0, 15)),
      thorough=sched(4, 1, 2, 2, drains=(0, 5), extra={'MAXCONC': 2}, stolen=(0, 15)) + sched(8, 1, 1, 1, nestmasks=(0, 1, 3, 5), drains=(0, 3), extra={'MAXCONC': 1}, stolen=(0, 255))),
  bag('detreduce_bag_simple', 'det_simple',
      'parallel_deterministic_reduce(simple_partitioner): two runs in one query (reference order, then the order of the scenario): the '
      'non-associative fingerprint of join tree + leaf ranges, the number of bodies and of tasks are equal; plus all reduce_bag oracles',
      defines={'DETERMINISTIC': None},
      quick=sched(4, 1, 1, 1, nestmasks=(0, 1, 3, 5, 10), drains=(0, 5)) + sched(3, 1, 1, 1, cancel=(2, 4), nestmasks=(0, 1), drains=(0, 1), stolen=(255,)),
      thorough=sched(4, 1, 2, 2, drains=(0, 3, 5)) + sched(5, 1, 2, 1, nestmasks=(0, 1, 5, 21, 31), drains=(0, 5, 10, 15)) + sched(6, 2, 2, 2) +
               sched(3, 1, 1, 1, cancel=(1, 2, 3, 4, 5, 6), nestmasks=(0, 1, 3, 7), drains=(0, 1, 3), stolen=(255,))),
  bag('detreduce_bag_static', 'det_static', 'parallel_deterministic_reduce(static_partitioner): as detreduce_bag_simple',
      defines={'DETERMINISTIC': None},
      quick=sched(4, 1, 1, 1, nestmasks=(0, 1, 3), drains=(0, 1), extra={'MAXCONC': 3}, stolen=(255,)),
      thorough=sched(6, 1, 2, 2, nestmasks=(0, 1, 3, 5, 7), drains=(0, 3, 5), extra={'MAXCONC': 3}) + sched(5, 1, 1, 1, nestmasks=(0, 1, 3), drains=(0, 3), extra={'MAXCONC': 2})),

  # ------------------------------------------------------------ scan: real start_scan/finish_scan/sum_node/final_sum under the task bag
  bag('scan_bag_simple', 'scan_simple',
      'parallel_scan(blocked_range, Body, simple_partitioner), both passes: every pass (pre or final) starts from a running sum that is the '
      'in-order fold of the operands immediately left of its subrange; the final pass starts from the complete prefix 0..b-1 and runs exactly '
      'once per element; the user body ends with the full reduction; bodies destroyed once, everything freed, each wait released once',
      defines={'SCAN': None}, native_cflags=['-fno-sanitize=null'],
      quick=sched(3, 1, 1, 1, nestmasks=(0, 1), drains=(0, 1)) + sched(4, 1, 1, 1, nestmasks=(0, 3), drains=(0, 5), stolen=(0x55,)),
      thorough=sched(3, 1, 2, 2, drains=(0, 3), stolen=(0, 255, 0x55)) + sched(4, 1, 2, 2, nestmasks=(0, 1, 3, 5, 7, 15), drains=(0, 5), stolen=(0, 255, 0x55)) +
               sched(5, 1, 1, 1, nestmasks=(0, 1, 3, 5, 21), drains=(0, 5, 10), stolen=(0, 0x33)) + sched(6, 2, 2, 2, drains=(0, 3), stolen=(0, 255))),
  bag('scan_bag_auto', 'scan_auto', 'parallel_scan with auto_partitioner (partition_type::should_execute_range): as scan_bag_simple',
      defines={'SCAN': None}, native_cflags=['-fno-sanitize=null'],
      quick=sched(4, 1, 1, 1, nestmasks=(0, 1), drains=(0, 1), extra={'MAXCONC': 1}),
      thorough=sched(4, 1, 2, 2, nestmasks=(0, 1, 3, 5, 15), drains=(0, 5), extra={'MAXCONC': 1}, stolen=(0, 255, 0x55)) + sched(6, 1, 1, 1, nestmasks=(0, 1, 3, 5), drains=(0, 5), extra={'MAXCONC': 1}, stolen=(0, 255, 0x55)) +
               sched(4, 1, 1, 1, nestmasks=(0, 1, 3), drains=(0, 3), extra={'MAXCONC': 2}, stolen=(0, 255))),
  # ------------------------------------------------------------ every public overload against the engine it is documented to be
] + [
  dict(name=ovl_name(k), unit='ovl%02d' % k, harness='h_reduce.c', cbmc=RCBMC, defines={'OVERLOADS': None}, timeout=900, mem_gb=6,
       scenarios=[{'NELEM': 6, 'GRAIN': 1, 'NEST': 1, 'NESTK': 1, 'NESTMASK': 1, 'NESTPOL': 1, 'DRAIN': 0, 'STOLEN': 255, 'MAXCONC': 2, 'CANCEL': 0}],
       scenarios_thorough=[{'NELEM': n, 'GRAIN': g, 'NEST': 1, 'NESTK': 1, 'NESTMASK': nm, 'NESTPOL': pol, 'DRAIN': dr, 'STOLEN': 255, 'MAXCONC': mc, 'CANCEL': 0}
                           for (n, g, nm, pol, dr, mc) in ((6, 1, 1, 1, 0, 2), (6, 1, 3, 0, 5, 2), (8, 2, 1, 1, 0, 3), (5, 1, 5, 1, 3, 1))],
       desc=('public overload #%d of %s called as a user would (w_overloads.cpp) vs. the engine it is documented to be, called directly with the expected '
             'partitioner kind, each under plain LIFO order and under an order with stolen right children (4 runs per query): same tree '
             'fingerprint, result, leaves, spawn kinds, affinity-array use, tasks and bodies; tasks run in the user context iff the overload takes one; '
             'deterministic overloads: fingerprint independent of the order and equal to the reference fingerprint of (range, grain)')
            % (k, 'parallel_deterministic_reduce' if k <= 12 else 'parallel_reduce'),
       bounds=dict(BAG_BOUNDS, overload=ovl_name(k)))
  for k in range(1, 33)
] + [
  # NOT part of the check (tier 'finding'): parallel_scan under cancellation does not free its sum_node / final_sum objects (real, see
  # NOTES.md and repro_scan_cancel_leak.cpp); clean-up under cancellation is outside C06's statement
  bag('scan_bag_cancel', 'scan_simple', 'parallel_scan cancelled at the k-th observation point: clean-up (known to fail, see NOTES.md)',
      defines={'SCAN': None}, native_cflags=['-fno-sanitize=null'], tiers=['finding'],
      quick=[], thorough=[], scenarios=sched(3, 1, 1, 1, nestmasks=(0, 1), drains=(0,), cancel=(2, 4, 6, 8), stolen=(255,))),
])

MANIFEST = dict(
  level_text='Bounded symbolic execution (clang-14 IR -> tools/ir2c.py -> cbmc) of the real templates. Sort: the kernels of parallel_sort.h called '
             'white-box on arrays of <= 8 (thorough 10) elements for every strict weak order (pivot selection, partition/split geometry and '
             'permutation, pre-sortedness probe incl. chunk boundaries and the serial/parallel hand-over pair; pseudo_median_of_nine indices for every '
             '64-bit size). Reduce / deterministic reduce / scan: the real task classes (start_reduce, reduction_tree_node, fold_tree, all four '
             'partitioners; start_deterministic_reduce; start_scan, finish_scan, sum_node, final_sum) run by a sequential task-bag model of the '
             'scheduler with a free-monoid body, so the result records the exact operand order; one query per concrete task order (owner-like / '
             'thief-like takes, tasks running while another task is inside the user body, stolen flags, cancellation point) on ranges of <= 12 elements. '
             'Every public overload of parallel_deterministic_reduce (12) and parallel_reduce (20) is additionally run against the engine and partitioner it is documented to forward to (tree fingerprint, partitioner signature, context identity).',
  level_note='Task-order enumeration is explicit (listed per harness in evidence), not exhaustive; tasks are atomic apart from nested runs inside the '
             'user body; data races between truly overlapping tasks, sizes around the 500-element cut-offs, std::sort leaves and floating-point '
             'bit-identity on real data are outside. A real defect outside the statement was found on the way (parallel_scan leaks on cancellation, '
             'props/C06/repro_scan_cancel_leak.cpp, registered under C03). Trusted: clang-14 IR, tools/ir2c.py (sort unit validated per run by the '
             'selftest differential), cbmc.',
)
OUTSIDE = [
  'whole parallel_sort on arrays >= 500 elements (cut-offs grainsize/min_parallel_size): only the kernels are run, composition (recursion on the two subranges, std::sort on leaves) is a paper argument',
  'std::sort on leaf ranges (libstdc++)',
  'true overlap of two task bodies / of fold_tree with a running sibling (memory ordering of m_ref_count, has_right_zombie): tasks are atomic except for nested runs inside the user body',
  'task orders not in the enumerated scenario lists; ranges > 12 elements; blocked_range2d/3d; overloads of parallel_scan and parallel_sort other than the one each harness calls',
  'floating-point bit-identity of parallel_deterministic_reduce on real data (only: join tree and leaf ranges do not depend on the task order)',
  'exceptions thrown by bodies; clean-up of parallel_scan under cancellation (known leak, not part of the statement)',
  'affinity_partitioner replay across several calls (affinity array reuse)',
]
STUBS = [
  'r1::allocate/deallocate: malloc/free (typed objects), double free / use after free checked by cbmc; r1::spawn: append to the bag; r1::execute_and_wait: run the root task, then drain the bag in the order of the scenario; bypass tasks (returned by execute) are run next by the same thread',
  'r1::execution_slot(ed): 0 or 1 per taken task (STOLEN mask or symbolic); original_slot 0; affinity_slot no_slot',
  'r1::is_group_execution_cancelled / dispatch: false until the CANCEL-th observation point, true afterwards; a task of a cancelled group gets cancel() instead of execute()',
  'r1::max_concurrency: MAXCONC; r1::notify_waiters: counted; r1::initialize(context): the fields the headers read (state=created, not cancelled); r1::cache_aligned_allocate: the affinity array',
  'sort: parallel_for<blocked_range,pretest_body> cut: runs the real body on two chunks with symbolic boundary/order; parallel_for<quick_sort_range,quick_sort_body> cut: records its argument',
  'memset: word-wise model in the bag harness (cbmc builtin rewrites the whole object and defeats constant propagation)',
]
ASSUMPTIONS = [
  'sort comparator is a strict weak order given by integer keys (ranks 0..N-1 cover every strict weak order on N elements; FULLKEYS scenarios use arbitrary 32-bit keys)',
  'Body::operator(), join, reverse_join, assign do not throw; Range is blocked_range<int>',
  'stolen-ness of a task is independent of where it was spawned (over-approximation: any combination from the STOLEN masks)',
]

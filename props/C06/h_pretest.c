/* C06 sort/pre-sortedness probe.
 * PART 1 (chunks): the real quick_sort_pretest_body::operator() is run on two adjacent chunks [b,m) [m,e) of an N-element
 *   array (chunk boundaries, execution order and keys symbolic): if any adjacent pair (k-1,k), b<=k<e, is inverted, the probe
 *   must have cancelled the context - in particular the pair (m-1,m) straddling the chunk boundary is examined by someone.
 * PART 2 (driver): the real parallel_quick_sort on N>=11 elements with both parallel_for instantiations cut: the stub of the
 *   probing parallel_for chops the range it is given into two chunks as above and runs the real body on them; the stub of the
 *   sorting parallel_for records its argument. An inversion at ANY position 0..N-2 must lead to the sort being started on the
 *   whole range (serial 9-pair probe, the hand-over pair between serial and parallel probe, chunk boundaries).
 * PART 3 (long chunk): one chunk of N>64 elements, sorted except one inversion at a symbolic position, with the context
 *   possibly cancelled from outside at a symbolic moment: the only way to leave the loop early is a cancelled context. */
#include "w.h"
#include "vp.h"
#ifndef N
#define N 6
#endif
#define KEY(e) ((int)(u32)((e) >> 32))
static u64 a[N];
static int cancelled, n_cancel_calls, n_poll;
static int ext_cancel_at = -1;
typedef struct S_class_tbb__detail__d1__task_group_context ctx_t;
u8 _ZN3tbb6detail2r122cancel_group_executionERNS0_2d118task_group_contextE(ctx_t* c) { int was = cancelled; cancelled = 1; n_cancel_calls++; return !was; }
u8 _ZN3tbb6detail2r128is_group_execution_cancelledERNS0_2d118task_group_contextE(ctx_t* c) {
  if (n_poll == ext_cancel_at) cancelled = 1;
  n_poll++; return (u8)cancelled; }

void _ZN3tbb6detail2r110initializeERNS0_2d118task_group_contextE(ctx_t* c) { vp_ctx_initialize(c); }
void _ZN3tbb6detail2r17destroyERNS0_2d118task_group_contextE(ctx_t* c) {}

static int has_inversion(unsigned lo, unsigned hi) {   /* some k in [lo,hi) with a[k] < a[k-1] */
  int inv = 0;
  for (unsigned k = 1; k < N; k++) if (k >= lo && k < hi && KEY(a[k]) < KEY(a[k - 1])) inv = 1;
  return inv;
}
static void fill_ranks(void) {
  for (int i = 0; i < N; i++) { u32 k = (u32)vp_nd(); __CPROVER_assume(k < N); a[i] = ((u64)k << 32) | (u32)i; }
}

#if PART == 1
int main(void) {
  fill_ranks();
  unsigned b = (unsigned)vp_nd_range(1, N), m = (unsigned)vp_nd_range(1, N), e = (unsigned)vp_nd_range(1, N);
  __CPROVER_assume(b <= m && m <= e);
  void* body = vp_make_pretest_body();
  if (vp_nd_bool()) { vp_pretest_chunk(body, a + b, a + m); vp_pretest_chunk(body, a + m, a + e); }
  else              { vp_pretest_chunk(body, a + m, a + e); vp_pretest_chunk(body, a + b, a + m); }
  if (has_inversion(b, e)) VP_ASSERT(cancelled, "inverted adjacent pair inside the probed range not detected (context not cancelled)");
  for (int i = 0; i < N; i++) VP_ASSERT((u32)a[i] == (u32)i, "probe modified the array");
  VP_REACHED();
}
#elif PART == 2
static int sort_calls, sort_full;
static int probe_calls;
/* parallel_for(blocked_range<Elem*>, quick_sort_pretest_body, auto_partitioner, task_group_context&)  [cut] */
void _ZN3tbb6detail2d112parallel_forINS1_13blocked_rangeIPmEENS1_23quick_sort_pretest_bodyIS4_7KeyLessEEEEvRKT_RKT0_RKNS1_16auto_partitionerERNS1_18task_group_contextE(
    struct S_class_tbb__detail__d1__blocked_range* range, struct S_class_tbb__detail__d1__quick_sort_pretest_body* body,
    struct S_class_tbb__detail__d1__auto_partitioner* part, ctx_t* ctx) {
  u64* b = vp_br_begin(range); u64* e = vp_br_end(range);
  probe_calls++;
  VP_ASSERT(b >= a && e == a + N && b <= e, "probing parallel_for started on a range that is not a suffix of the input");
  if (!(b >= a && e == a + N && b <= e)) return;
  unsigned ib = (unsigned)(b - a), ie = N;
  unsigned m = (unsigned)vp_nd_range(ib, ie);
  if (vp_nd_bool()) { vp_pretest_chunk(body, a + ib, a + m); vp_pretest_chunk(body, a + m, a + ie); }
  else              { vp_pretest_chunk(body, a + m, a + ie); vp_pretest_chunk(body, a + ib, a + m); }
}
/* parallel_for(quick_sort_range, quick_sort_body, auto_partitioner)  [cut] */
void _ZN3tbb6detail2d112parallel_forINS1_16quick_sort_rangeIPm7KeyLessEENS1_15quick_sort_bodyIS4_S5_EEEEvRKT_RKT0_RKNS1_16auto_partitionerE(
    struct S_class_tbb__detail__d1__quick_sort_range* range, struct S_struct_tbb__detail__d1__quick_sort_body* body,
    struct S_class_tbb__detail__d1__auto_partitioner* part) {
  sort_calls++;
  if (vp_qr_begin(range) == a && vp_qr_size(range) == N) sort_full++;
}
int main(void) {
  fill_ranks();
  vp_quick_sort_driver(a, N);
  if (has_inversion(1, N)) VP_ASSERT(sort_full >= 1, "input with an inverted adjacent pair was taken for sorted: sort not started");
  VP_ASSERT(sort_calls == sort_full, "sort started on something else than the whole input range");
  for (int i = 0; i < N; i++) VP_ASSERT((u32)a[i] == (u32)i, "probe modified the array");
  VP_REACHED();
}
#else
int main(void) {
  unsigned p = (unsigned)vp_nd_range(1, N - 1);          /* the inverted pair is (p-1,p) */
  for (unsigned i = 0; i < N; i++) a[i] = ((u64)(2 * i) << 32) | i;
  if (vp_nd_bool()) a[p] = ((u64)(2 * p - 3) << 32) | p;   /* below its left neighbour; or no inversion at all */
  ext_cancel_at = (int)vp_nd_range(0, 3) - 1;           /* -1: never; k: the k-th poll of the context finds it cancelled from outside */
  void* body = vp_make_pretest_body();
  vp_pretest_chunk(body, a + 1, a + N);
  if (has_inversion(1, N)) VP_ASSERT(cancelled, "inverted adjacent pair not detected and context not cancelled");
  VP_ASSERT(n_poll >= 1 + (N - 2) / 64 || cancelled, "probe left its loop early without a cancelled context");
  VP_REACHED();
}
#endif

/* C06 sort/split: the splitting constructor of quick_sort_range (pivot selection by pseudo-median of nine + partition loop)
 * on an array of N elements with symbolic keys. Element = u64 word: key (signed 32 bit) in the high half, a distinct tag in
 * the low half; the comparator (wrapper, KeyLess) orders by key only, so "permutation of whole elements" is checkable exactly. */
#include "w.h"
#include "vp.h"
#ifndef N
#define N 5
#endif
#define KEY(e) ((int)(u32)((e) >> 32))
#define TAG(e) ((u32)(e))
static u64 a[N];       /* accesses outside [0,N) are caught by cbmc's pointer checks (ASan in the native replay) */

int main(void) {
  u32 key0[N];
  for (int i = 0; i < N; i++) {
    key0[i] = (u32)vp_nd();
#ifndef FULLKEYS
    /* keys are ranks 0..N-1: the code under test sees keys only through the comparator, and every strict weak order on N
       elements (ties included) is the key order of some rank assignment, so this loses nothing and keeps SAT easy;
       FULLKEYS scenarios use arbitrary signed 32-bit keys instead */
    __CPROVER_assume(key0[i] < N);
#endif
    a[i] = ((u64)key0[i] << 32) | (u32)i;
  }
  u64 out[4];
  vp_split(a, N, out);
  u64 lsz = out[0], lbeg = out[1], rsz = out[2], rbeg = out[3];
  /* geometry: left = [0,j), pivot at j, right = [j+1,N) */
  VP_ASSERT(lbeg == 0, "left subrange does not start at the range begin");
  VP_ASSERT(lsz < N, "pivot position outside the range");
  VP_ASSERT(rbeg == lsz + 1, "right subrange does not start just after the pivot (pivot duplicated into / lost from a subrange)");
  VP_ASSERT(rbeg + rsz == N, "right subrange does not end at the range end (elements lost or foreign elements included)");
  /* permutation of whole elements */
  unsigned seen = 0;
  for (int i = 0; i < N; i++) {
    u32 id = TAG(a[i]);
    VP_ASSERT(id < N, "foreign element in the range");
    if (id < N) {
      VP_ASSERT(!(seen >> id & 1), "element duplicated");
      seen |= 1u << id;
      VP_ASSERT((u32)(a[i] >> 32) == key0[id], "element torn (key of one element, tag of another)");
    }
  }
  VP_ASSERT(seen == (1u << N) - 1, "element lost");
  /* partition: nothing left of the pivot is greater, nothing right of it is less */
  if (lsz < N) {
    int pk = KEY(a[lsz]);
    for (int i = 0; i < N; i++) {
      if ((u64)i < lsz) VP_ASSERT(!(pk < KEY(a[i])), "element greater than the pivot in the left subrange");
      if ((u64)i > lsz) VP_ASSERT(!(KEY(a[i]) < pk), "element less than the pivot in the right subrange");
    }
  }
  VP_REACHED();
}

// C06 wrapper: the real parallel_reduce / parallel_deterministic_reduce task code (include/oneapi/tbb/parallel_reduce.h,
// partitioner.h: start_reduce::execute/finalize/offer_work, reduction_tree_node::join, fold_tree, partition types) driven
// by a harness-side task bag that stands in for the scheduler's r1:: entry points (spawn, execute_and_wait, allocate, ...).
// One algorithm x partitioner instantiation per unit (-DVP_ALGO=..., -DVP_PART=...).
#include "oneapi/tbb/parallel_reduce.h"
#include "oneapi/tbb/blocked_range.h"
using namespace tbb::detail::d1;

#ifndef VP_PART
#define VP_PART simple_partitioner
#endif
#ifdef VP_NONCONST_PART      /* affinity_partitioner is taken by non-const reference */
#define VP_PARTQ VP_PART
#else
#define VP_PARTQ const VP_PART
#endif

extern "C" {
void vp_emit(unsigned long v);
// observers implemented by the harness
void vp_body_split(unsigned from_id, unsigned new_id);     // Body(Body&, split) ran: new_id split off from_id
void vp_body_dtor(unsigned id);                            // ~Body ran on a split-off body
void vp_body_run(unsigned id, int b, int e);               // Body::operator() on [b,e): may run other tasks meanwhile (harness)
void vp_body_join(unsigned into_id, unsigned from_id);     // Body::join
}

// Free-monoid body: the "sum" is the sequence of operands itself (4 bits per operand, most recent in the low bits), so the
// result records exactly which operands were combined in which order; join is concatenation = associative, not commutative.
// The second accumulator is deliberately NOT associative (records the shape of the join tree): used for deterministic reduce.
static unsigned g_next_id = 1;    // id 0 = the user's own body
struct Body {
  unsigned long seq; unsigned len; unsigned shape; unsigned id;
  constexpr Body() : seq(0), len(0), shape(0), id(0) {}
  Body(Body& o, tbb::split) : seq(0), len(0), shape(0), id(g_next_id++) { vp_body_split(o.id, id); }
  ~Body() { vp_body_dtor(id); }
  void operator()(const tbb::blocked_range<int>& r) {
    vp_body_run(id, r.begin(), r.end());
    for (int i = r.begin(); i != r.end(); ++i) { seq = (seq << 4) | (unsigned long)((i + 1) & 15); ++len; }
    shape = shape * 1000003u + (unsigned)(r.begin() * 64 + r.end()) + 7u;
  }
  void join(Body& rhs) {
    vp_body_join(id, rhs.id);
    seq = (seq << (4 * rhs.len)) | rhs.seq; len += rhs.len;
    shape = (shape ^ 0x9e3779b9u) * 31u + rhs.shape * 17u + 1u;
  }
};

typedef tbb::blocked_range<int> R;
#ifdef VP_DETERMINISTIC
typedef start_deterministic_reduce<R, Body, VP_PARTQ> SR;
#else
typedef start_reduce<R, Body, VP_PARTQ> SR;
#endif

static Body g_root;               // constant-initialised (typed object: cbmc keeps its fields apart)
static Body* const g_body = &g_root;

extern "C" {
// the whole algorithm, exactly as the public entry point does it (context constructed by the algorithm itself)
void vp_reduce(int b, int e, int grain) {
  g_next_id = 1; g_root.seq = 0; g_root.len = 0; g_root.shape = 0;
  R range(b, e, (unsigned long)grain);
#ifdef VP_DETERMINISTIC
  tbb::parallel_deterministic_reduce(range, *g_body, VP_PART());
#else
  alignas(VP_PART) static unsigned char part_mem[sizeof(VP_PART)];
  VP_PART& part = *new (part_mem) VP_PART();     // never destroyed (an affinity_partitioner lives across calls in user code too)
  tbb::parallel_reduce(range, *g_body, part);
#endif
}
unsigned long vp_result_seq() { return g_body->seq; }
unsigned vp_result_len() { return g_body->len; }
unsigned vp_result_shape() { return g_body->shape; }

// scheduler side: run / cancel one task of this algorithm (all tasks in the bag are SR objects: direct, non-virtual call)
task* vp_task_execute(task* t, execution_data* ed) { return static_cast<SR*>(t)->SR::execute(*ed); }
task* vp_task_cancel(task* t, execution_data* ed) { return static_cast<SR*>(t)->SR::cancel(*ed); }
// contract of r1::initialize(task_group_context&) (src/tbb/task_group_context.cpp) as far as the header code reads it
void vp_ctx_initialize(task_group_context* c) {
  c->my_cancellation_requested = 0; c->my_may_have_children.store(0, std::memory_order_relaxed);
  c->my_state.store(task_group_context::state::created, std::memory_order_relaxed);
  c->my_parent = nullptr; c->my_context_list = nullptr; c->my_exception.store(nullptr, std::memory_order_relaxed);
}
void vp_ed_init(execution_data* ed, task_group_context* ctx) { ed->context = ctx; ed->original_slot = 0; ed->affinity_slot = no_slot; }
unsigned long vp_wait_refs(wait_context* w) { return w->m_ref_count.load(std::memory_order_relaxed); }
int vp_task_is_right(task* t) {
#ifdef VP_DETERMINISTIC
  return 0;
#else
  return static_cast<SR*>(t)->is_right_child;
#endif
}
int vp_task_parent_refs(task* t) { return static_cast<SR*>(t)->my_parent->m_ref_count.load(std::memory_order_relaxed); }
// (also keeps the node's struct type in the IR so that the harness can allocate typed objects)
int vp_node_refs(SR::tree_node_type* n) { return n->m_ref_count.load(std::memory_order_relaxed) + (int)n->m_child_stolen.load(std::memory_order_relaxed) + (n->left_body.id != 0); }
unsigned vp_sizeof_task() { return sizeof(SR); }
unsigned vp_sizeof_node() { return sizeof(SR::tree_node_type); }
}

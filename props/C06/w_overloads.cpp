// C06 wrapper: every PUBLIC overload of parallel_deterministic_reduce (1..12) and parallel_reduce (13..32), one per unit
// (-DVP_OVL=k), next to the engine it is documented to be (vp_call_reference: start_[deterministic_]reduce<..>::run called
// directly with the expected partitioner kind). Both run under the task bag of h_reduce.c (-DOVERLOADS). Body form uses the
// free-monoid Body of w_reduce.cpp (sequence + non-associative tree fingerprint); the lambda form uses a value type with the
// same two accumulators, so that both forms must produce the fingerprint of the Body-form reference.
//   deterministic: 1 (r,b) 2 (r,b,simple) 3 (r,b,static) 4 (r,b,ctx) 5 (r,b,simple,ctx) 6 (r,b,static,ctx); 7..12 = lambda form of 1..6
//   reduce: 13 (r,b) 14 simple 15 auto 16 static 17 affinity 18..22 = 13..17 + ctx; 23..32 = lambda form of 13..22
#include "oneapi/tbb/parallel_reduce.h"
#include "oneapi/tbb/blocked_range.h"
using namespace tbb::detail::d1;
#ifndef VP_OVL
#define VP_OVL 1
#endif
extern "C" {
void vp_body_split(unsigned from_id, unsigned new_id);
void vp_body_dtor(unsigned id);
void vp_body_run(unsigned id, int b, int e);
void vp_body_join(unsigned into_id, unsigned from_id);
}
typedef tbb::blocked_range<int> R;
static unsigned g_next_id = 1;
static inline unsigned leaf_shape(unsigned shape, int b, int e) { return shape * 1000003u + (unsigned)(b * 64 + e) + 7u; }
static inline unsigned join_shape(unsigned l, unsigned r) { return (l ^ 0x9e3779b9u) * 31u + r * 17u + 1u; }
struct Body {
  unsigned long seq; unsigned len; unsigned shape; unsigned id;
  constexpr Body() : seq(0), len(0), shape(0), id(0) {}
  Body(Body& o, tbb::split) : seq(0), len(0), shape(0), id(g_next_id++) { vp_body_split(o.id, id); }
  ~Body() { vp_body_dtor(id); }
  void operator()(const R& r) {
    vp_body_run(id, r.begin(), r.end());
    for (int i = r.begin(); i != r.end(); ++i) { seq = (seq << 4) | (unsigned long)((i + 1) & 15); ++len; }
    shape = leaf_shape(shape, r.begin(), r.end());
  }
  void join(Body& rhs) {
    vp_body_join(id, rhs.id);
    seq = (seq << (4 * rhs.len)) | rhs.seq; len += rhs.len;
    shape = join_shape(shape, rhs.shape);
  }
};
// lambda form: value with the same accumulators
struct FP { unsigned long seq; unsigned len; unsigned shape; };
struct LeafFn { FP operator()(const R& r, FP v) const {
  vp_body_run(0, r.begin(), r.end());
  for (int i = r.begin(); i != r.end(); ++i) { v.seq = (v.seq << 4) | (unsigned long)((i + 1) & 15); ++v.len; }
  v.shape = leaf_shape(v.shape, r.begin(), r.end()); return v; } };
struct JoinFn { FP operator()(FP a, FP b) const { a.seq = (a.seq << (4 * b.len)) | b.seq; a.len += b.len; a.shape = join_shape(a.shape, b.shape); return a; } };

static Body g_root;
alignas(task_group_context) static unsigned char g_ctx_mem[sizeof(task_group_context)];
static task_group_context* g_uctx;
alignas(affinity_partitioner) static unsigned char g_aff_mem[2][sizeof(affinity_partitioner)];

#if VP_OVL <= 12
#define ALGO tbb::parallel_deterministic_reduce
#define FORM ((VP_OVL - 1) / 6)            /* 0 Body, 1 lambda */
#define VAR ((VP_OVL - 1) % 6)             /* 0 (), 1 simple, 2 static, 3 ctx, 4 simple+ctx, 5 static+ctx */
#define KIND (VAR % 3 == 2 ? 3 : 1)        /* expected partitioner: 1 simple, 2 auto, 3 static, 4 affinity */
#define HASCTX (VAR >= 3)
#define ARGSEL (VAR % 3)                   /* 0 none, 1 simple, 2 static */
#else
#define ALGO tbb::parallel_reduce
#define FORM ((VP_OVL - 13) / 10)
#define VAR ((VP_OVL - 13) % 10)           /* 0 (), 1 simple, 2 auto, 3 static, 4 affinity, 5..9 = +ctx */
#define KIND (VAR % 5 == 0 ? 2 : VAR % 5 == 1 ? 1 : VAR % 5 == 2 ? 2 : VAR % 5 == 3 ? 3 : 4)   /* __TBB_DEFAULT_PARTITIONER is auto_partitioner */
#define HASCTX (VAR >= 5)
#define ARGSEL (VAR % 5 == 0 ? 0 : KIND)   /* 0 none, else the kind passed */
#endif

extern "C" {
void vp_ctx_initialize(task_group_context* c) {
  c->my_cancellation_requested = 0; c->my_may_have_children.store(0, std::memory_order_relaxed);
  c->my_state.store(task_group_context::state::created, std::memory_order_relaxed);
  c->my_parent = nullptr; c->my_context_list = nullptr; c->my_exception.store(nullptr, std::memory_order_relaxed);
}
static void reset() { g_next_id = 1; g_root.seq = 0; g_root.len = 0; g_root.shape = 0; }
void vp_make_user_ctx() { g_uctx = new (g_ctx_mem) task_group_context(task_group_context::isolated); }   // r1::initialize is a harness stub
task_group_context* vp_user_ctx() { return g_uctx; }
int vp_ovl_has_ctx() { return HASCTX; }
int vp_ovl_kind() { return KIND; }
int vp_ovl_deterministic() { return VP_OVL <= 12; }
int vp_ovl_body_form() { return FORM == 0; }

// the public overload under test, called exactly as a user would
void vp_call_overload(int b, int e, int grain) {
  reset();
  R range(b, e, (unsigned long)grain);
  affinity_partitioner& aff = *new (g_aff_mem[0]) affinity_partitioner();
#if ARGSEL == 0
#define PARTARG
#elif ARGSEL == 1
#define PARTARG , simple_partitioner()
#elif ARGSEL == 2 && VP_OVL <= 12
#define PARTARG , static_partitioner()
#elif ARGSEL == 2
#define PARTARG , auto_partitioner()
#elif ARGSEL == 3
#define PARTARG , static_partitioner()
#else
#define PARTARG , aff
#endif
#if HASCTX
#define CTXARG , *g_uctx
#else
#define CTXARG
#endif
#if FORM == 0
  ALGO(range, g_root PARTARG CTXARG);
#else
  FP v = ALGO(range, FP{0, 0, 0}, LeafFn(), JoinFn() PARTARG CTXARG);
  g_root.seq = v.seq; g_root.len = v.len; g_root.shape = v.shape;
#endif
  (void)aff;
}
// the engine the overload is documented to be: Body form, library-made context, expected partitioner kind
void vp_call_reference(int b, int e, int grain) {
  reset();
  R range(b, e, (unsigned long)grain);
#if VP_OVL <= 12 && KIND == 1
  start_deterministic_reduce<R, Body, const simple_partitioner>::run(range, g_root, simple_partitioner());
#elif VP_OVL <= 12
  start_deterministic_reduce<R, Body, const static_partitioner>::run(range, g_root, static_partitioner());
#elif KIND == 1
  start_reduce<R, Body, const simple_partitioner>::run(range, g_root, simple_partitioner());
#elif KIND == 2
  start_reduce<R, Body, const auto_partitioner>::run(range, g_root, auto_partitioner());
#elif KIND == 3
  start_reduce<R, Body, const static_partitioner>::run(range, g_root, static_partitioner());
#else
  affinity_partitioner& aff = *new (g_aff_mem[1]) affinity_partitioner();
  start_reduce<R, Body, affinity_partitioner>::run(range, g_root, aff);
#endif
}
unsigned long vp_result_seq() { return g_root.seq; }
unsigned vp_result_len() { return g_root.len; }
unsigned vp_result_shape() { return g_root.shape; }
void vp_ed_init(execution_data* ed, task_group_context* ctx) { ed->context = ctx; ed->original_slot = 0; ed->affinity_slot = no_slot; }
unsigned long vp_wait_refs(wait_context* w) { return w->m_ref_count.load(std::memory_order_relaxed); }
// several task types per unit (overload's engine and the reference engine): virtual dispatch
task* vp_task_execute(task* t, execution_data* ed) { return t->execute(*ed); }
task* vp_task_cancel(task* t, execution_data* ed) { return t->cancel(*ed); }
}

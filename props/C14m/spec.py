PROPERTY = 'C14m'
FG = dict(mode='seq', looporder=True, cut=['prioritize_task'], devirt=True, prune=True, inline_threshold=300, m1ptr=True)
UNITS = {
  'fq': dict(FG, wrapper='w_fnode.cpp', cxxflags=['-DPOL=0']),
  'fr': dict(FG, wrapper='w_fnode.cpp', cxxflags=['-DPOL=1']),
  'fql': dict(FG, wrapper='w_fnode.cpp', cxxflags=['-DPOL=2']),
  'frl': dict(FG, wrapper='w_fnode.cpp', cxxflags=['-DPOL=3']),
  'fql_t': dict(FG, wrapper='w_fnode.cpp', cxxflags=['-DPOL=2', '-DNOTHROW=0']),
}
FS = ['--max-field-sensitivity-array-size', '600', '--object-bits', '12', '--no-sat-preprocessor']
def S(conc, ops, **kw):
    d = {'CONC': conc, 'OPS': ops, 'ACCS': 0, 'SYMACC': 1}
    d.update(kw); return d
def C(conc, ops, accs, **kw):
    d = {'CONC': conc, 'OPS': ops, 'ACCS': accs}
    d.update(kw); return d
FQ_QUICK = [
  S(1, '1,1,8,1,8', FIFO=1), S(1, '1,1,1,8,8', FIFO=1, NESTB=1), S(2, '1,1,1,8,8,1'), S(0, '1,1,1,8,8,1'),
  S(1, '1,1,1,2,5,8', FIFO=1), S(2, '6,1,1,8,7,1'), C(1, '1,2,1,9,1,2', '0,1,2', NSUCC=2, FLIPS='1,2', FIFO=1), S(1, '1,1,8,1,8', EXTIN=1, FIFO=1),
]
FR_QUICK = [
  S(1, '1,1,8,1,1,8'), S(2, '1,1,1,8,1,8'), S(1, '4,8,8,8', AVAIL=2), S(1, '1,4,1,2,2,2', AVAIL=2), S(1, '1,4,1,3,2,2', AVAIL=2), S(2, '4,8,8,8,8', AVAIL=3), S(1, '1,4,5,8,8', AVAIL=2),
  S(1, '1,1,8', NESTB=1, NESTS=1),
]
FL_QUICK = [
  S(1, '1,1,8,1', NESTB=1), S(2, '1,1,8,1', NESTB=3), S(0, '1,1', NESTB=1),
]
def FN(name, unit, rej, lw, scs, desc):
    return dict(name=name, unit=unit, harness='h_fnode.c', cbmc=['--unwind', '40'] + FS, defines={'memset': 'vp_memset', 'REJ': rej, 'LW': lw},
                native_cflags=['-fno-sanitize=null'], scenarios_quick=scs, scenarios_thorough=scs, desc=desc, bounds={}, timeout=900)
HARNESSES = [
  FN('fnode_queueing', 'fq', 0, 0, FQ_QUICK, 'function_node queueing'),
  FN('fnode_rejecting', 'fr', 1, 0, FR_QUICK, 'function_node rejecting'),
  FN('fnode_queueing_lw', 'fql', 0, 1, FL_QUICK + [S(1, '1,1,1,8,8', FIFO=1)], 'function_node queueing_lightweight'),
  FN('fnode_rejecting_lw', 'frl', 1, 1, FL_QUICK + [S(1, '4,8,8,8', AVAIL=2)], 'function_node rejecting_lightweight'),
  FN('fnode_lw_throwing_body', 'fql_t', 0, 0, [S(1, '1,1,8,1,8', FIFO=1)], 'lightweight policy, body not noexcept'),
]
OUTSIDE = []
STUBS = []
ASSUMPTIONS = []

/* link-time stubs for the translator selftest (vp_selftest in the wrappers): deterministic versions of the harness stubs.
 * The same file is linked with the real C++ object (-DVP_SELFTEST_REAL) and with the generated C; both must emit the same values. */
#include <stdint.h>
#include <stdlib.h>
#include <string.h>
void vp_emit(uint64_t v);
static void* bag[64]; static unsigned bag_n, st_arena, st_avail, st_nsink, st_accmask, st_flipmask, st_nprod;
unsigned vp_st_bag(void) { return bag_n; }
void vp_st_push(void* t) { bag[bag_n++] = t; }
void* vp_st_take(unsigned newest) { void* t; if (newest) t = bag[bag_n - 1]; else { t = bag[0]; memmove(bag, bag + 1, sizeof(void*) * (bag_n - 1)); } bag_n--; return t; }
void vp_st_reset(unsigned avail, unsigned accmask, unsigned flipmask) { bag_n = 0; st_arena = 0; st_avail = avail; st_nsink = 0; st_accmask = accmask; st_flipmask = flipmask; st_nprod = 0; }
void vp_st_arena(unsigned a) { st_arena = a; }
extern void* vp_refv(unsigned k);
void* _ZN3tbb6detail2r18allocateERPNS0_2d117small_object_poolEm(void** pool, uint64_t n) { vp_emit(6000000 + n); return aligned_alloc(64, (n + 63) & ~63ull); }
void _ZN3tbb6detail2r110deallocateERNS0_2d117small_object_poolEPvmRKNS2_14execution_dataE(void* pool, void* p, uint64_t n, void* ed) { vp_emit(4000000 + n); }
uint16_t _ZN3tbb6detail2r114execution_slotERKNS0_2d115task_arena_baseE(void* a) { return st_arena ? 0 : 0xffff; }
void _ZN3tbb6detail2r114notify_waitersEm(uint64_t a) { vp_emit(5000000); }
void* _ZN3tbb6detail2r127get_thread_reference_vertexEPNS0_2d126wait_tree_vertex_interfaceE(void* top) { return vp_refv(0); }
void _ZN3tbb6detail2r16submitERNS0_2d14taskERNS2_18task_group_contextEPNS1_5arenaEm(void* t, void* c, void* a, uint64_t crit) { vp_emit(7000000 + crit); vp_st_push(t); }
void* _ZN3tbb6detail2r122cache_aligned_allocateEm(uint64_t n) { return aligned_alloc(128, (n + 127) & ~127ull); }
void _ZN3tbb6detail2r124cache_aligned_deallocateEPv(void* p) { }
uint32_t vp_body(uint32_t v) { vp_emit(1000000 + v); return v ^ 0x40000000u; }
uint32_t vp_sink(uint32_t id, uint32_t v) { unsigned a = (st_accmask >> (st_nsink++ & 31)) & 1; vp_emit(2000000 + id * 100000 + (v & 0xffff) * 2 + a); return a; }
uint32_t vp_sink_regpred(uint32_t id) { unsigned f = (st_flipmask >> id) & 1; vp_emit(2900000 + id * 2 + f); return f; }
uint32_t vp_src_get(uint32_t* v) { if (!st_avail) { vp_emit(3000001); return 0; } st_avail--; *v = 500 + st_avail; vp_emit(3000100 + st_avail); return 1; }
void vp_src_regsucc(void) { vp_emit(3000000); }
uint32_t vp_ibody(uint32_t* v) { if (st_nprod >= 3) { vp_emit(3500000); return 0; } *v = 700 + st_nprod++; vp_emit(3500000 + *v); return 1; }
#ifndef VP_SELFTEST_REAL
/* externals that only the generated C references (the real build uses libstdc++ / the inline oneTBB function) */
void* _Znwm(uint64_t n) { return calloc(1, n); }
void _ZdlPv(void* p) { }
void _ZdlPvm(void* p, uint64_t n) { }
struct lnb { struct lnb* next; struct lnb* prev; };
void _ZNSt8__detail15_List_node_base7_M_hookEPS0_(struct lnb* self, struct lnb* pos) { self->next = pos; self->prev = pos->prev; pos->prev->next = self; pos->prev = self; }
void _ZNSt8__detail15_List_node_base9_M_unhookEv(struct lnb* self) { struct lnb* nx = self->next; struct lnb* pv = self->prev; pv->next = nx; nx->prev = pv; }
void* _ZN3tbb6detail2d215prioritize_taskERNS1_5graphERNS1_10graph_taskE(void* g, void* t) { return t; }   /* cut; identity without priority */
#endif
#ifndef VP_SELFTEST_REAL
void __CPROVER_fence(const char* a, ...) { }   /* generated C emits it for seq_cst fences; cbmc builtin, no-op natively */
#endif

// C14 wrapper: input_node<int> with a harness body and harness successors (push / pull protocol as in w_edge.cpp)
#include "fg14_common.h"
extern "C" unsigned vp_ibody(int* v);            // harness: produce the next item (false = stop)
struct vp_ibody_t { int operator()(tbb::flow_control& fc) const { int v = 0; if (!vp_ibody(&v)) fc.stop(); return v; } };
typedef input_node<int> node_t;
typedef input_node_task_bypass<node_t> put_task_t;
VP_TASK_STORAGE(vp_ft, put_task_t)
VP_RUN_TASK()
static vp_raw<node_t> vp_node_mem;
static node_t& N() { return vp_node_mem.x; }
extern "C" {
void vp_init(unsigned nsucc) {
  vp_graph_init();
  new (&vp_node_mem.x) node_t(vp_graph(), vp_ibody_t());
  for (unsigned i = 0; i < nsucc; i++) { new (&vp_succ(i)) vp_recv(); vp_succ(i).id = i; N().register_successor(vp_succ(i)); }
}
// construct the harness successors that are not registered at init (the driver may register them later)
void vp_init_extra_succ(unsigned from) { for (unsigned i = from; i < 3; i++) { new (&vp_succ(i)) vp_recv(); vp_succ(i).id = i; } }
void vp_activate() { N().activate(); }
unsigned vp_get(int* v) { return N().try_get(*v); }
unsigned vp_reserve(int* v) { return N().try_reserve(*v); }
unsigned vp_release() { return N().try_release(); }
unsigned vp_consume() { return N().try_consume(); }
void vp_add_succ(unsigned i) { N().register_successor(vp_succ(i)); }
void vp_remove_succ(unsigned i) { N().remove_successor(vp_succ(i)); }
unsigned vp_has_cached() { return N().my_has_cached_item; }
int vp_cached() { return N().my_cached_item; }
unsigned vp_reserved() { return N().my_reserved; }
unsigned vp_active() { return N().my_active; }
unsigned long vp_nsucc() { return N().my_successors.my_successors.size(); }
}

extern "C" { void vp_emit(unsigned long v); unsigned vp_st_bag(); void vp_st_push(void*); void* vp_st_take(unsigned newest); void vp_st_reset(unsigned avail, unsigned accmask, unsigned flipmask); void vp_st_arena(unsigned); }
static void st_run(unsigned newest) {
  if (!vp_st_bag()) return;
  d1::task* t = static_cast<d1::task*>(vp_st_take(newest));
  void* b = vp_run_task(t, 0);
  if (b) vp_st_push(b);
}
static void st_state() { vp_emit(vp_has_cached()); vp_emit(vp_reserved()); vp_emit(vp_active()); vp_emit(vp_graph_refs()); vp_emit(vp_nsucc()); vp_emit(vp_st_bag()); }
extern "C" void vp_selftest() {
  for (unsigned flip = 0; flip < 4; flip++) {
    vp_st_reset(0, 0x12, flip); vp_init(2); vp_refv_init(0);
    st_state(); vp_activate(); st_state();
    for (int i = 0; i < 3; i++) { st_run(0); st_state(); }
    int v = 0; vp_emit(vp_get(&v)); vp_emit(v); st_state(); st_run(0); st_state();
    vp_emit(vp_reserve(&v)); vp_emit(v); st_state(); if (vp_reserved()) { vp_release(); st_state(); }
    vp_add_succ(0); st_state(); st_run(1); st_state();
    vp_emit(vp_reserve(&v)); if (vp_reserved()) { vp_consume(); st_state(); }
    for (int i = 0; i < 6; i++) st_run(0);
    st_state(); vp_emit(vp_get(&v)); vp_emit(v); for (int i = 0; i < 4; i++) st_run(0); st_state();
  }
}

// C14 wrapper: input_node<int> with a harness body and harness successors (push / pull protocol as in w_edge.cpp)
#include "fg14_common.h"
extern "C" unsigned vp_ibody(int* v);            // harness: produce the next item (false = stop)
struct vp_ibody_t { int operator()(tbb::flow_control& fc) const { int v = 0; if (!vp_ibody(&v)) fc.stop(); return v; } };
typedef input_node<int> node_t;
typedef input_node_task_bypass<node_t> put_task_t;
VP_TASK_STORAGE(vp_ft, put_task_t)
VP_RUN_TASK()
static vp_raw<node_t> vp_node_mem;
static node_t& N() { return vp_node_mem.x; }
extern "C" {
void vp_init(unsigned nsucc) {
  vp_graph_init();
  new (&vp_node_mem.x) node_t(vp_graph(), vp_ibody_t());
  for (unsigned i = 0; i < nsucc; i++) { new (&vp_succ(i)) vp_recv(); vp_succ(i).id = i; N().register_successor(vp_succ(i)); }
}
void vp_activate() { N().activate(); }
unsigned vp_get(int* v) { return N().try_get(*v); }
unsigned vp_reserve(int* v) { return N().try_reserve(*v); }
unsigned vp_release() { return N().try_release(); }
unsigned vp_consume() { return N().try_consume(); }
void vp_add_succ(unsigned i) { N().register_successor(vp_succ(i)); }
void vp_remove_succ(unsigned i) { N().remove_successor(vp_succ(i)); }
unsigned vp_has_cached() { return N().my_has_cached_item; }
int vp_cached() { return N().my_cached_item; }
unsigned vp_reserved() { return N().my_reserved; }
unsigned vp_active() { return N().my_active; }
unsigned long vp_nsucc() { return N().my_successors.my_successors.size(); }
}

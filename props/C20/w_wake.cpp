// C20 `wakeup` unit: the idle wait of the thread that suspended versus the publication of its resume task.
// Arena of size 1 (one slot, no workers): the only thread that can ever take the resume task is the suspended task's own
// thread T, which idles in the dispatch loop of its coroutine.  A missed wake-up here = the task is never continued.
//   T: the body of the idle loop of receive_or_steal_task<coroutine_waiter> (task_dispatcher.h): poll self-recall
//      (coroutine_waiter::continue_execution), scan the resume stream (stream.empty() / arena::get_stream_task), else the
//      real coroutine_waiter::pause(slot): back-off [cut to "expired"], arena::out_of_work(), sleep_waiter::sleep ->
//      concurrent_monitor::wait(pred = !is_empty() || owner recalled): prepare_wait, predicate, commit_wait (futex) / cancel_wait
//   R: the real r1::resume(sp): try_notify_resume, arena reference, task_stream::push, advertise_new_work<wakeup>
//      (fence, pool-state test_and_set, request_workers -> adjust_demand + monitor notify(arena)), on_thread_leaving [stub]
// Real: task.cpp, arena.cpp (out_of_work, has_tasks, request_workers, get_waiting_threads_monitor), arena.h atomic_flag,
// waiters.h, concurrent_monitor.h (+ mutex), semaphore.h (futex protocol), task_stream push/pop/empty (lane deque cut).
#include "src/tbb/task.cpp"
#include "src/tbb/arena.cpp"
using namespace tbb::detail;
using namespace tbb::detail::r1;

extern "C" {
void vp_got(d1::task* t);                        // T left the idle loop with task t
void vp_resuming(suspend_point_type* sp);
void vp_resumed(suspend_point_type* sp);
}

namespace {
template <typename T> union raw { T v; raw() {} ~raw() {} };
struct arena_box { mail_outbox mailboxes[1]; arena a; };
raw<arena_box> g_arena;
raw<thread_data> g_td0;
raw<task_dispatcher> g_disp0, g_disp1;          // D0: T's default dispatcher (stack 0, suspended), D1: the coroutine T idles in
raw<d1::task_group_context> g_ctx;
raw<thread_control_monitor> g_mon;
raw<suspend_point_type> g_sp0;
inline arena* the_arena() { return &g_arena.v.a; }
}

extern "C" {
// ------------------------------------------------------------------ thread bodies
void vp_thr_idle(arena* a, arena_slot* slot) {
  coroutine_waiter waiter(*a);
  waiter.reset_wait();
  d1::task* t = nullptr;
  for (;;) {
    if (!waiter.continue_execution(*slot, t)) break;          // real: t = get_self_recall_task(slot); always continues
    if (t == nullptr && !a->my_resume_task_stream.empty())    // get_stream_or_critical_task (no critical task in this world)
      t = a->get_stream_task(a->my_resume_task_stream, slot->hint_for_resume_stream);
    if (t != nullptr) break;
    waiter.pause(*slot);                                      // nothing to do: real coroutine_waiter::pause
  }
  vp_got(t);
}
void vp_thr_res(suspend_point_type* sp) {
  vp_resuming(sp);
  r1::resume(sp);
  vp_resumed(sp);
}

// ------------------------------------------------------------------ pre-state: T suspended a task on stack 0 (late-resume branch of the
// hand-shake: the switch is complete, sp0 is `suspended`, D0 detached) and runs the dispatch loop of coroutine D1.
// Reached by the `handshake` harness (its "late" witness: coroutine parked in the loop stub, resume not yet called).
void vp_wake_world(int pool_set, unsigned nworkers) {
  arena* a = the_arena();
  new (&g_mon.v) thread_control_monitor;
  a->my_references.store(arena::ref_external + arena::ref_external, std::memory_order_relaxed);   // the external thread + its live coroutine
  a->my_limit.store(1, std::memory_order_relaxed);
  // nworkers == 0: every slot is reserved (task_arena(1), task_arena(n,n)): nobody can ever join, only T can take the resume task.
  // nworkers > 0: worker slots exist but no worker is present (slots beyond 0 lie past my_limit == 1 and are never touched).
  a->my_num_slots = 1 + nworkers; a->my_num_reserved_slots = 1; a->my_max_num_workers = nworkers;
  a->my_priority_level = 1;
  a->my_default_ctx = &g_ctx.v;
  a->my_threading_control = reinterpret_cast<threading_control*>(&g_ctx.v);                         // opaque: only passed to stubs
  // task streams: two lanes each, empty (the lanes' deques are behind the try_push/try_pop stubs)
  a->my_resume_task_stream.N = 2; a->my_fifo_task_stream.N = 2;
#if __TBB_PREVIEW_CRITICAL_TASKS
  a->my_critical_task_stream.N = 2;
#endif
  task_dispatcher* d0 = new (&g_disp0.v) task_dispatcher(a);
  task_dispatcher* d1 = new (&g_disp1.v) task_dispatcher(a);
  a->my_slots[0].my_default_task_dispatcher = d0;
  a->my_slots[0].my_is_occupied.store(true, std::memory_order_relaxed);
  thread_data* td = &g_td0.v;
  td->my_arena = a; td->my_arena_index = 0; td->my_arena_slot = &a->my_slots[0];
  td->my_inbox.my_putter = &g_arena.v.mailboxes[0];
  td->my_post_resume_action = task_dispatcher::post_resume_action::none; td->my_post_resume_arg = nullptr;
  d0->m_properties.outermost = false;
  d0->m_suspend_point = new (&g_sp0.v) suspend_point_type(a, 0, *d0);
  d0->m_suspend_point->m_stack_state.store(suspend_point_type::stack_state::suspended, std::memory_order_relaxed);
  td->attach_task_dispatcher(*d1);                            // T runs the coroutine's dispatcher
  if (pool_set) a->my_pool_state.test_and_set();              // the arena still advertises work from before the suspension
}
arena* vp_arena(void) { return the_arena(); }
arena_slot* vp_slot0(void) { return &the_arena()->my_slots[0]; }
suspend_point_type* vp_sp0(void) { return &g_sp0.v; }
thread_control_monitor* vp_monitor(void) { return &g_mon.v; }
d1::task* vp_resume_task_of(suspend_point_type* sp) { return &sp->m_resume_task; }
int vp_stack_state(suspend_point_type* sp) { return (int)sp->m_stack_state.load(std::memory_order_relaxed); }
unsigned vp_arena_refs(void) { return the_arena()->my_references.load(std::memory_order_relaxed); }
void vp_arena_unref(unsigned n) { the_arena()->my_references.fetch_sub(n, std::memory_order_release); }
unsigned long vp_pool_word(void) { return the_arena()->my_pool_state.my_state.load(std::memory_order_relaxed); }
unsigned long vp_resume_population(void) { return the_arena()->my_resume_task_stream.population.load(std::memory_order_relaxed); }
int vp_is_resume_stream(void* s) { return s == &the_arena()->my_resume_task_stream; }
// the population bit operations of task_stream::try_push / try_pop (their lane mutex + std::deque are the cut part)
void vp_stream_set_bit(task_stream<front_accessor>* s, unsigned lane) { set_one_bit(s->population, lane); }
void vp_stream_clear_bit(task_stream<front_accessor>* s, unsigned lane) { clear_one_bit(s->population, lane); }
int vp_stream_bit(task_stream<front_accessor>* s, unsigned lane) { return is_bit_set(s->population.load(std::memory_order_relaxed), lane); }
unsigned long vp_waitset_size(void) { return g_mon.v.my_waitset.size(); }
int vp_cmm_is_free(concurrent_monitor_mutex* mx) { return mx->my_flag.load(std::memory_order_relaxed) == 0; }
unsigned vp_ref_worker(void) { return arena::ref_worker; }
// context of a wait node (monitor-stub unit): which arena / tag the sleeper registered with
arena* vp_node_arena(wait_node<market_context>* n) { return n->my_context.my_arena_addr; }
unsigned long vp_node_tag(wait_node<market_context>* n) { return n->my_context.my_uniq_addr; }
}

/* Kernel side of futex(2), the only external boundary of the sleeping protocols (src/tbb/semaphore.h futex_wait/futex_wakeup_one).
 * Contract (man 2 futex):
 *   FUTEX_WAIT(addr,val): atomically { if (*addr != val) return -1 (EAGAIN); go to sleep on addr }. Returns 0 when woken by a
 *     FUTEX_WAKE on addr. It may also return spuriously (-1/EINTR): modelled when FX_SPURIOUS is defined (solver chooses).
 *   FUTEX_WAKE(addr,n): wakes at most n (=1 here) threads sleeping on addr, chosen arbitrarily (solver chooses); returns the number.
 * A sleeping model thread is parked with VP_BLOCK(): the translator re-executes the call when the thread is scheduled next.
 * The calling model thread is vp_cur (set by VP_RUNT / VP_QUIESCEn). */
#ifndef VP_FUTEX_STUB_H
#define VP_FUTEX_STUB_H
#include <stdarg.h>
#ifndef FX_NT
#define FX_NT 3
#endif
static int fx_sleeping[FX_NT], fx_woken[FX_NT];
static void* fx_addr[FX_NT];
int fx_n_wait, fx_n_slept, fx_n_wake, fx_n_woken, fx_n_spurious;
u64 vpx_syscall(u64 nr, ...) {
  va_list ap; va_start(ap, nr);
  int* addr = va_arg(ap, int*); int op = va_arg(ap, int); int val = va_arg(ap, int);
  va_end(ap);
  VP_ASSERT(nr == 202, "unexpected syscall (only SYS_futex is modelled)");
  unsigned t = vp_cur;
  __CPROVER_assume(t < FX_NT);
  if (op == 128 /* FUTEX_WAIT_PRIVATE */) {
    if (fx_woken[t]) { fx_woken[t] = 0; return 0; }                 /* resumed after a wake */
    if (fx_sleeping[t]) {
#ifdef FX_SPURIOUS
      if (fx_n_spurious < FX_SPURIOUS && vp_nd_bool()) { fx_n_spurious++; fx_sleeping[t] = 0; vp_changed = 1; return (u64)-1; }
#endif
      VP_BLOCK(); return 0;                                         /* still asleep */
    }
    fx_n_wait++;
    if (*addr != val) return (u64)-1;                               /* EAGAIN */
    fx_sleeping[t] = 1; fx_addr[t] = addr; fx_n_slept++;
    VP_BLOCK(); return 0;
  }
  if (op == 129 /* FUTEX_WAKE_PRIVATE */) {
    VP_ASSERT(val == 1, "futex_wakeup_one wakes one thread");
    fx_n_wake++;
    unsigned first = FX_NT > 2 ? (unsigned)vp_nd_range(0, FX_NT - 1) : 0;
    for (unsigned i = 0; i < FX_NT; i++) {
      unsigned k = (first + i) % FX_NT;
      if (fx_sleeping[k] && fx_addr[k] == (void*)addr) { fx_sleeping[k] = 0; fx_woken[k] = 1; fx_n_woken++; vp_changed = 1; return 1; }
    }
    return 0;
  }
  VP_ASSERT(0, "unexpected futex operation");
  return 0;
}
static int fx_anyone_sleeping(void) { int s = 0; for (unsigned i = 0; i < FX_NT; i++) s |= fx_sleeping[i]; return s; }
#endif

/* C20 `wakeup`: the idle wait of the suspended task's own thread versus the publication of its resume task, arena of size 1
 * (one slot, no workers: nobody but T can ever take the resume task, so a missed wake-up = the task is never continued).
 *   T (model thread 0) = idle-loop body of receive_or_steal_task<coroutine_waiter>: self-recall poll, scan of the resume stream,
 *       real coroutine_waiter::pause(): [back-off: cut, "expired"], arena::out_of_work(), concurrent_monitor::wait(pred) with
 *       pred = !arena.is_empty() || owner recalled: prepare_wait / predicate / commit_wait -> sleep_node -> binary_semaphore::P -> futex
 *   R (model thread 1) = real r1::resume(sp): try_notify_resume, arena reference, task_stream::push, advertise_new_work<wakeup>
 *       (fence, pool-state atomic_flag::test_and_set, request_workers: adjust_demand [stub] + monitor notify(arena) -> V -> futex wake)
 * Pre-state (vp_wake_world): T has suspended a task on stack 0 and the switch is complete (sp0 `suspended`), T runs coroutine D1;
 * PRESET 1: the arena's pool-state flag is still SET from earlier work, 0: UNSET.
 * Stubs: futex(2) (futex_stub.h, kernel contract), task_stream::try_push/try_pop (lane mutex + std::deque) as one-step operations
 * around the REAL population-bit updates, stealing_loop_backoff::pause = expired, timed_spin_wait_until = one poll,
 * threading_control::adjust_demand (accumulates), on_thread_leaving (reference arithmetic only).
 * Oracle: blocked-state oracle (T asleep in the futex / parked although the resume task is published and R is done = lost wake-up);
 * T leaves the idle loop with exactly the resume task, once; stream empty, wait set empty, semaphore not leaked, references balanced. */
#include "w.h"
#include "vp.h"
#define FX_NT 2
#include "futex_stub.h"
#ifndef NW
#define NW 0      /* worker slots of the arena (my_max_num_workers) */
#endif
#ifndef MONSTUB
#define MONSTUB 0
#endif
#ifndef SETTLE
#define SETTLE 6
#endif
typedef struct S_struct_tbb__detail__r1__suspend_point_type SP;
typedef struct S_class_tbb__detail__d1__task TASK;
typedef struct S_class_tbb__detail__r1__arena ARENA;
static SP* sp0; static TASK* lane_q[2];
static int pushed, taken, got, resume_called, resume_returned, n_adjust; static long demand;
static unsigned base_refs;

void vp_resuming(SP* p) { resume_called = 1; }
void vp_resumed(SP* p) { resume_returned = 1; }
void vp_got(TASK* t) {
  VP_ASSERT(t != 0 && t == vp_resume_task_of(sp0), "C20: the idle loop ends with the resume task of the suspended point");
  VP_ASSERT(resume_called && pushed == 1 && taken == 1 && got == 0, "obtained after resume() published it, exactly once");
  got++; vp_changed = 1;
}
/* ---- task_stream lane: one-step push/pop around the real population-bit operations (the stream itself: C01) */
u8 _ZN3tbb6detail2r111task_streamILNS1_25task_stream_accessor_typeE0EE8try_pushEPNS0_2d14taskEj(struct S_class_tbb__detail__r1__task_stream* s, TASK* t, u32 lane) {
  VP_ASSERT(vp_is_resume_stream(s) && lane < 2, "push into a lane of the resume stream");
  VP_ASSERT(t == vp_resume_task_of(sp0) && pushed == 0 && resume_called, "the resume task is published once, after resume()");
  lane_q[lane] = t; vp_stream_set_bit(s, lane); pushed++; vp_changed = 1;
  return 1;
}
TASK* _ZN3tbb6detail2r111task_streamILNS1_25task_stream_accessor_typeE0EE7try_popEj(struct S_class_tbb__detail__r1__task_stream* s, u32 lane) {
  VP_ASSERT(vp_is_resume_stream(s) && lane < 2, "pop from a lane of the resume stream");
  if (!vp_stream_bit(s, lane)) return 0;
  TASK* t = lane_q[lane]; lane_q[lane] = 0; vp_stream_clear_bit(s, lane); taken++; vp_changed = 1;
  return t;
}
u8 _ZN3tbb6detail2r111task_streamILNS1_25task_stream_accessor_typeE1EE8try_pushEPNS0_2d14taskEj(struct S_class_tbb__detail__r1__task_stream_6* s, TASK* t, u32 lane) { VP_ASSERT(0, "critical stream not used in this world"); return 1; }
TASK* _ZN3tbb6detail2r111task_streamILNS1_25task_stream_accessor_typeE1EE7try_popEj(struct S_class_tbb__detail__r1__task_stream_6* s, u32 lane) { VP_ASSERT(0, "critical stream not used in this world"); return 0; }
/* ---- cut spinning.  stealing_loop_backoff::pause(): ~2(P+1) pauses then 100 yields before it returns true ("time to consider sleeping");
 * every false return only makes the caller rescan (which it does again after every wake-up anyway): stub = expired at once.
 * timed_spin_wait_until in concurrent_monitor_mutex::lock: polls without side effects: one poll (as in C02). */
u8 _ZN3tbb6detail2r121stealing_loop_backoff5pauseEv(struct S_class_tbb__detail__r1__stealing_loop_backoff* b) { return 1; }
u8 _ZN3tbb6detail2d021timed_spin_wait_untilIZNS0_2r124concurrent_monitor_mutex4lockEvEUlvE_EEbT_(struct S_class_tbb__detail__r1__concurrent_monitor_mutex* mx) { return (u8)vp_cmm_is_free(mx); }
#if MONSTUB
/* ---- quick variant: the waiting-threads monitor as a contract stub (the real one: `wakeup` harness and C02).  Real above it:
 * concurrent_monitor::wait()'s loop (prepare; while (!pred) { if (commit) return; prepare; } cancel) with the real predicate, and
 * arena::request_workers calling notify(pred).  Contract: a notify whose predicate matches a node registered by prepare_wait removes
 * it; commit_wait of a removed node returns false at once (epoch changed), otherwise the caller sleeps until a notify removes it. */
typedef struct S_class_tbb__detail__r1__concurrent_monitor_base MONB; typedef struct S_class_tbb__detail__r1__wait_node NODE;
static NODE* m_node; static int m_in_list, m_sleeping, m_woken, m_slept, m_wakes, m_wakes_after_push, m_prepares;
void _ZN3tbb6detail2r123concurrent_monitor_baseINS1_14market_contextEE12prepare_waitERNS1_9wait_nodeIS3_EE(MONB* m, NODE* n) {
  VP_ASSERT(!m_in_list && !m_sleeping, "one sleeper"); m_node = n; m_in_list = 1; m_prepares++; vp_changed = 1;
}
u8 _ZN3tbb6detail2r123concurrent_monitor_baseINS1_14market_contextEE11commit_waitERNS1_9wait_nodeIS3_EE(MONB* m, NODE* n) {
  if (m_sleeping) { if (!m_woken) { VP_BLOCK(); return 0; } m_sleeping = 0; m_woken = 0; vp_changed = 1; return 1; }
  if (!m_in_list) return 0;                       /* notified between prepare_wait and commit_wait: the wait is cancelled */
  m_sleeping = 1; m_slept++; vp_changed = 1; VP_BLOCK(); return 0;
}
void _ZN3tbb6detail2r123concurrent_monitor_baseINS1_14market_contextEE11cancel_waitERNS1_9wait_nodeIS3_EE(MONB* m, NODE* n) { m_in_list = 0; vp_changed = 1; }
void _ZN3tbb6detail2r123concurrent_monitor_baseINS1_14market_contextEE6notifyIZNS1_5arena15request_workersEiibE3__2EEvRKT_(MONB* m, struct S_class_anon_76* pred) {
  ARENA* a = *(ARENA**)pred;                      /* the lambda of request_workers captures `this`; it matches context.my_arena_addr */
  m_wakes++; if (pushed) m_wakes_after_push++;
  if (m_in_list && vp_node_arena(m_node) == a) { m_in_list = 0; if (m_sleeping) m_woken = 1; vp_changed = 1; }
}
#endif
/* ---- threading_control boundary */
void _ZN3tbb6detail2r117threading_control13adjust_demandENS1_24threading_control_clientEii(struct S_class_tbb__detail__r1__threading_control* tc,
    struct S_class_tbb__detail__r1__pm_client* c1, struct S_class_tbb__detail__r1__thread_dispatcher_client* c2, u32 mandatory_delta, u32 workers_delta) {
  demand += (int)workers_delta; n_adjust++;
  VP_ASSERT(((int)workers_delta == NW || (int)workers_delta == -NW) && (int)mandatory_delta == 0, "worker demand changes by +-my_max_num_workers (0 in an arena without worker slots)");
}
struct S_class_tbb__detail__r1__thread_control_monitor* _ZN3tbb6detail2r117threading_control27get_waiting_threads_monitorEv(struct S_class_tbb__detail__r1__threading_control* tc) { return vp_monitor(); }
void _ZN3tbb6detail2r15arena17on_thread_leavingEj(ARENA* a, u32 ref) {
  VP_ASSERT(vp_arena_refs() >= ref, "arena reference counter underflow"); vp_arena_unref(ref);
  VP_ASSERT(vp_arena_refs() != 0, "last arena reference dropped while a task is suspended");
}
void _ZN3tbb6detail2r115throw_exceptionENS0_2d012exception_idE(u32 id) { VP_ASSERT(0, "throw_exception: no abort in this scenario"); }
void vpx___cxa_pure_virtual(void) { VP_ASSERT(0, "pure virtual call"); }
void _ZdlPv(u8* p) { VP_ASSERT(0, "operator delete: the wait node lives on the stack"); }
void _ZN3tbb6detail2r123task_group_context_impl7bind_toERNS0_2d118task_group_contextEPNS1_11thread_dataE(struct S_class_tbb__detail__d1__task_group_context* c, struct S_class_tbb__detail__r1__thread_data* td) { }
void _ZN3tbb6detail2r117current_coroutineERNS1_14coroutine_typeE(struct S_struct_tbb__detail__r1__coroutine_type* c) { }
void vp_rec_limit(void) { VP_ASSERT(0, "recall_point recursion"); }

#define RUN2  VP_RUNT(vp_thr_idle, 0) VP_RUNT(vp_thr_res, 1)
#define MAX2  vp_cur = 0; VP_RUNMAX(vp_thr_idle) vp_cur = 1; VP_RUNMAX(vp_thr_res)
int main(void) {
  vp_wake_world(PRESET, NW);
  sp0 = vp_sp0(); base_refs = vp_arena_refs(); demand = PRESET ? NW : 0;    /* a SET flag means the demand was issued */
  VP_ASSERT(vp_pool_word() == (PRESET ? 1 : 0) && vp_resume_population() == 0 && vp_stack_state(sp0) == 1, "pre-state");
  vp_thr_idle_start(vp_arena(), vp_slot0());
  vp_thr_res_start(sp0);
  for (int r = 0; r < ROUNDS; r++) { RUN2 }
  for (int r = 0; r < SETTLE; r++) { MAX2 }
  int stuck_before = VP_STUCK(vp_thr_idle) && VP_STUCK(vp_thr_res); vp_changed = 0;
  MAX2
  int stuck_after = VP_STUCK(vp_thr_idle) && VP_STUCK(vp_thr_res);
  int done = vp_thr_idle_fin && vp_thr_res_fin;
#if MONSTUB
  VP_ASSERT(!(resume_returned && m_sleeping && !m_woken && vp_resume_population() != 0 && m_wakes_after_push == 0 && stuck_before && stuck_after && !vp_changed),
            "C20: lost resume: resume() returned, the arena's only thread is parked in the waiting-threads monitor, the resume stream is non-empty and no wake-up was issued after the push");
#endif
  VP_ASSERT(!(!done && stuck_before && stuck_after && !vp_changed),
            "C20/C02: lost wake-up: the thread that suspended sleeps (or is parked) although its resume task is published and nobody else can take it");
  __CPROVER_assume(done);
  VP_ASSERT(got == 1 && pushed == 1 && taken == 1, "the resume task was published once and obtained once");
  VP_ASSERT(vp_resume_population() == 0, "resume stream empty again");
#if !MONSTUB
  VP_ASSERT(vp_waitset_size() == 0, "nobody left in the wait set of the waiting-threads monitor");
#endif
#if MONSTUB
  VP_ASSERT(!m_in_list && !m_sleeping, "nobody left in the waiting-threads monitor");
#else
  VP_ASSERT(!fx_anyone_sleeping(), "nobody asleep in the kernel");
#endif
  VP_ASSERT(vp_arena_refs() == base_refs, "arena reference balance of r1::resume");
  VP_ASSERT(vp_stack_state(sp0) == 2, "suspend point marked notified by resume()");
  VP_ASSERT(demand == (vp_pool_word() == 1 ? NW : 0) && (vp_pool_word() == 0 || vp_pool_word() == 1), "at quiescence the demand handed to threading_control matches the pool-state flag (SET: max workers, UNSET: 0)");
  /* both ways out must be reachable: T really slept in the futex and was woken / T never slept */
#if MONSTUB
  if (m_slept > 0) { VP_ASSERT(m_wakes_after_push > 0, "a parked thread was woken by a wake-up issued after the push"); VP_REACHED(); }
#else
  if (fx_n_slept > 0) { VP_ASSERT(fx_n_woken == fx_n_slept, "every sleep ended by a wake-up"); VP_REACHED(); }
#endif
  else { VP_REACHED(); }
  return 0;
}

// C20 wrapper: the suspend / resume hand-shake of resumable tasks.
// The real task.cpp and task_dispatcher.cpp are included textually.  Model threads are *stacks* (coroutines):
// every stack is one sequential flow of control that gives up the processor exactly at swapcontext() (the only
// stub on that path, defined in the harness as vpx_swapcontext) and continues when some other stack switches to it.
// OS-thread identity is carried, as in the real code, by thread_data attached to the running task_dispatcher.
#include "src/tbb/task.cpp"
#include "src/tbb/task_dispatcher.cpp"
using namespace tbb::detail;
using namespace tbb::detail::r1;

extern "C" {
// observers / stubs defined in the harness
void vp_handed(suspend_point_type* sp);          // the suspend callback received sp (sp is now known to the resumer)
void vp_resuming(suspend_point_type* sp);        // a thread is about to call r1::resume(sp)
void vp_resumed(suspend_point_type* sp);         // r1::resume(sp) returned
void vp_continued(int stack);                    // the code after task::suspend() runs (continuation of the suspended task)
void vp_co_entry(int stack);                     // start of a coroutine stack: parks until the first switch to it
suspend_point_type* vp_wait_handed(void);        // resumer: parks until the suspend point was handed out
d1::task* vp_w_take(void);                       // worker W's outermost dispatch loop [stub]: the resume task from the arena's stream, or null
void vp_w_done(void);
void vp_home(int stack);                         // recall_point() returned: the thread is back on its own stack
}

// ------------------------------------------------------------------ the world: 1 arena, 2 slots, 2 OS threads, 3..4 dispatchers
namespace {
constexpr unsigned NSLOT = 2;
// Typed storage without construction (the objects are filled in by vp_world_init): typed globals keep the generated C
// field-sensitive (a byte buffer would make every read symbolic for the solver).
template <typename T> union raw { T v; raw() {} ~raw() {} };
struct arena_box { mail_outbox mailboxes[NSLOT]; arena a; };          // layout of arena::allocate_arena (mailboxes precede the arena)
raw<mail_outbox> g_mbox0, g_mbox1;
// NOTE every object that is reached through a pointer loaded from shared memory is a separate global: cbmc keeps one offset
// per pointed-to object, two pointers into the same array/struct would turn every store through them into a whole-object update.
// For the same reason the second arena slot is a separate object instead of arena::my_slots[1]; the encoded functions reach a
// slot only through thread_data::my_arena_slot, never by indexing my_slots.  Likewise each thread's inbox is attached to its own
// mail_outbox object (the encoded functions only read its is_idle flag through thread_data::my_inbox).
raw<arena_box> g_arena;
raw<arena_slot> g_slot1;
raw<thread_data> g_td0, g_td1;
raw<task_dispatcher> g_disp0, g_disp1;  // default dispatchers of slot 0 (thread T) and slot 1 (thread W)
raw<d1::task_group_context> g_ctx;
int g_user;
inline arena* the_arena() { return &g_arena.v.a; }
inline thread_data* the_td(int i) { return i == 0 ? &g_td0.v : &g_td1.v; }
inline task_dispatcher* the_disp(int i) { return i == 0 ? &g_disp0.v : &g_disp1.v; }
inline arena_slot* the_slot(int i) { return i == 0 ? &g_arena.v.a.my_slots[0] : &g_slot1.v; }

// the user's suspend callbacks: hand the point to a foreign thread / resume from inside the callback itself
void cb_hand(void*, suspend_point_type* sp) { vp_handed(sp); }
void cb_resume(void*, suspend_point_type* sp) { vp_handed(sp); vp_resuming(sp); r1::resume(sp); vp_resumed(sp); }
}

extern "C" {
// ------------------------------------------------------------------ thread (= stack) bodies
// stack 0: the original stack of OS thread T, executing a task under dispatcher D0 that calls tbb::task::suspend.
// vp_thr_s0: the callback hands the point to a foreign resumer; vp_thr_s0cb: the callback itself resumes.
void vp_thr_s0(task_dispatcher* d0) {
  d0->suspend(cb_hand, &g_user);
  vp_continued(0);
}
void vp_thr_s0cb(task_dispatcher* d0) {
  d0->suspend(cb_resume, &g_user);
  vp_continued(0);
}
// the task suspends a second time after it was continued (second hand-shake on the same suspend point; the coroutine
// is taken from the cache again and this time *continues* inside its co_local_wait_for_all loop instead of starting)
void vp_thr_s0x2(task_dispatcher* d0) {
  d0->suspend(cb_hand, &g_user);
  vp_continued(0);
  d0->suspend(cb_hand, &g_user);
  vp_continued(0);
}
void vp_thr_res2(void) {
  suspend_point_type* sp = vp_wait_handed();
  vp_resuming(sp); r1::resume(sp); vp_resumed(sp);
  sp = vp_wait_handed();
  vp_resuming(sp); r1::resume(sp); vp_resumed(sp);
}
#ifdef VP_RECALL
// as vp_thr_s0, followed by what the end of the outermost dispatch loop does (task_dispatcher.h: local_wait_for_all ->
// recall_point()): if the task was continued on a borrowed thread, give the stack back to its owner (owner recall).
void vp_thr_s0r(task_dispatcher* d0) {
  d0->suspend(cb_hand, &g_user);
  vp_continued(0);
  d0->recall_point();
  vp_home(0);
}
#endif
// a second OS thread W (worker on slot 1, own stack, default dispatcher dw) at the outermost level of its dispatch loop:
// if it obtains the resume task it does what local_wait_for_all does with any task: t->execute(ed) with the dispatcher's
// execution data (wait_ctx is null for an outermost worker) - i.e. the real resume_task::execute
void vp_thr_w(task_dispatcher* dw) {
  d1::task* t = vp_w_take();
  if (t) {
    execution_data_ext& ed = dw->m_execute_data_ext;
    ed.task_disp = dw; ed.wait_ctx = nullptr;
    static_cast<suspend_point_type::resume_task*>(t)->suspend_point_type::resume_task::execute(ed);
  }
  vp_w_done();
}
// a coroutine stack: entered by the first switch to it, then runs the real coroutine entry function
// (finilize_resume of the stack that was left, post-resume action, dispatch loop [stub], switch back)
void vp_thr_co(task_dispatcher* d, int stack) {
  vp_co_entry(stack);
  std::uintptr_t addr = std::uintptr_t(d);
  r1::co_local_wait_for_all(unsigned(std::uint64_t(addr) >> 32), unsigned(addr));
}
// foreign resumer: some other thread that was given the suspend point
void vp_thr_res(void) {
  suspend_point_type* sp = vp_wait_handed();
  vp_resuming(sp);
  r1::resume(sp);
  vp_resumed(sp);
}

// ------------------------------------------------------------------ construction (sequential, before the threads start)
void vp_world_init(void) {
  arena* a = the_arena();
  a->my_references.store(arena::ref_external, std::memory_order_relaxed);   // the external thread's own reference
  a->my_num_slots = NSLOT; a->my_num_reserved_slots = 1; a->my_max_num_workers = 1;
  a->my_default_ctx = &g_ctx.v;
  a->my_co_cache.init(2);                                                   // real ring buffer of cached coroutines
  for (unsigned i = 0; i < NSLOT; ++i) {
    task_dispatcher* d = new (the_disp(i)) task_dispatcher(a);
    the_slot(i)->my_default_task_dispatcher = d;
    the_slot(i)->my_is_occupied.store(true, std::memory_order_relaxed);
    thread_data* td = the_td(i);
    td->attach_arena(*a, i);            // real: my_arena, my_arena_index, my_arena_slot, inbox <- mailbox(i)
    td->my_arena_slot = the_slot(i);    // (slot 1 lives in its own object, see above)
    td->my_inbox.my_putter = i == 0 ? &g_mbox0.v : &g_mbox1.v;
    td->my_inbox.my_putter->my_is_idle.store(false, std::memory_order_relaxed);
    td->my_post_resume_action = task_dispatcher::post_resume_action::none; td->my_post_resume_arg = nullptr;
    td->attach_task_dispatcher(*d);
    d->m_properties.outermost = false;      // the suspending task runs inside a dispatch loop (local_wait_for_all clears outermost)
    d->m_properties.fifo_tasks_allowed = false;
  }
}
// what task_dispatcher::init_suspend_point does (that function is cut in the thread unit: its allocation + 1 KB constructor inside a
// thread body is what makes the solver query explode; every suspend point is created here, before the threads start)
suspend_point_type* vp_init_sp(task_dispatcher* d, unsigned long stack_size) {
  d->m_suspend_point = new (cache_aligned_allocate(sizeof(suspend_point_type))) suspend_point_type(the_arena(), stack_size, *d);
  return d->m_suspend_point;
}
// a coroutine dispatcher built exactly as r1::create_coroutine(thread_data&) builds one, then parked in the arena's cache
task_dispatcher* vp_make_cached_coroutine(void) {
  arena* a = the_arena();
  void* ptr = cache_aligned_allocate(sizeof(task_dispatcher));
  task_dispatcher* d = new (ptr) task_dispatcher(a);
  vp_init_sp(d, 4096);
  a->my_co_cache.push(d);
  return d;
}
task_dispatcher* vp_disp(int i) { return the_disp(i); }
thread_data* vp_td(int i) { return the_td(i); }
arena* vp_arena(void) { return the_arena(); }
suspend_point_type* vp_sp_of(task_dispatcher* d) { return d->m_suspend_point; }

void* vp_ucontext_of(suspend_point_type* sp) { return &sp->m_co_context.my_coroutine.my_context; }
void* vp_coroutine_of(suspend_point_type* sp) { return &sp->m_co_context.my_coroutine; }
d1::task* vp_resume_task_of(suspend_point_type* sp) { return &sp->m_resume_task; }
task_dispatcher* vp_target_of(d1::task* t) { return &static_cast<suspend_point_type::resume_task*>(t)->m_target; }
int vp_stack_state(suspend_point_type* sp) { return (int)sp->m_stack_state.load(std::memory_order_relaxed); }
int vp_co_state(suspend_point_type* sp) { return (int)sp->m_co_context.my_state; }
int vp_owner_recalled(suspend_point_type* sp) { return sp->m_is_owner_recalled.load(std::memory_order_relaxed); }
suspend_point_type* vp_prev_sp(suspend_point_type* sp) { return sp->m_prev_suspend_point; }
unsigned vp_arena_refs(void) { return the_arena()->my_references.load(std::memory_order_relaxed); }
void vp_arena_unref(unsigned n) { the_arena()->my_references.fetch_sub(n, std::memory_order_release); }
task_dispatcher* vp_td_disp(int i) { return the_td(i)->my_task_dispatcher; }
thread_data* vp_disp_td(task_dispatcher* d) { return d->m_thread_data; }
int vp_td_action(int i) { return (int)the_td(i)->my_post_resume_action; }
void* vp_td_action_arg(int i) { return the_td(i)->my_post_resume_arg; }
void vp_set_outermost(task_dispatcher* d, int v) { d->m_properties.outermost = v; }
void vp_set_critical_allowed(task_dispatcher* d, int v) { d->m_properties.critical_task_allowed = v; }
// what the dispatch loop polls at the top of every iteration (waiters.h: coroutine_waiter::continue_execution)
d1::task* vp_self_recall_task(int slot) { return get_self_recall_task(*the_slot(slot)); }
// is the dispatcher in the arena's coroutine cache (white-box read of the ring)
int vp_in_co_cache(task_dispatcher* d) {
  arena_co_cache& c = the_arena()->my_co_cache; int n = 0;
  for (unsigned i = 0; i <= c.my_max_index; ++i) if (c.my_co_scheduler_cache[i] == d) ++n;
  return n;
}
unsigned vp_ref_external(void) { return arena::ref_external; }
unsigned vp_ref_worker(void) { return arena::ref_worker; }
}

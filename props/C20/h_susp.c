/* C20: a suspended task resumes exactly once, however tbb::task::resume races with the suspension.
 *
 * Model threads are STACKS (coroutines).  The only stub on the suspend path is swapcontext(): the calling stack is
 * saved and parks, the target stack becomes runnable; whoever switches to a saved stack later makes it continue right
 * after its swapcontext() call.  Everything else on the path (task_dispatcher::suspend/internal_suspend/resume,
 * suspend_point_type::resume/finilize_resume/try_notify_resume/recall_owner, r1::resume, create_coroutine(thread_data&),
 * arena_co_cache, co_local_wait_for_all, do_post_resume_action, resume_task::execute, recall_point) is the real code.
 *
 * Scenario macros:  MODE 0: a foreign thread resumes   1: the suspend callback itself resumes
 *                   WORKER 0: the thread that suspended picks the resume task up itself (its coroutine's dispatch loop)
 *                          1: a second OS thread W (own stack, slot 1) competes for the resume task; if it wins it runs
 *                             resume_task::execute and continues the suspended task on W; afterwards (RECALL=1) the
 *                             borrowed stack is given back through recall_point / recall_owner and T returns to its own stack
 *                   CRIT 1: the suspending dispatcher is inside a critical task (resume task goes to the critical stream)
 *                   ROUNDS free scheduling rounds, SETTLE forced rounds before the probe round (or PLAN: explicit sequence)
 *                   NCYC 2: the task suspends twice
 */
#include "w.h"
#include "vp.h"
#ifndef WORKER
#define WORKER 0
#endif
#ifndef RECALL
#define RECALL 0
#endif
#ifndef CRIT
#define CRIT 0
#endif
#ifndef NCYC
#define NCYC 1     /* number of suspend/resume cycles of the task */
#endif
#ifndef SETTLE
#define SETTLE 3
#endif
typedef struct S_struct_tbb__detail__r1__suspend_point_type SP;
typedef struct S_class_tbb__detail__r1__task_dispatcher DISP;
typedef struct S_class_tbb__detail__d1__task TASK;
typedef struct S_struct_ucontext_t UC;
typedef struct S_class_tbb__detail__r1__arena ARENA;

/* ---- stacks: 0 = original stack of thread T (dispatcher D0), 1 = coroutine taken from the arena's cache (D1),
 *              2 = original stack of thread W (its default dispatcher Dw) */
enum { NSTK = 3, FRESH = 0, RUNNING = 1, SAVED = 2 };
static DISP* disp[NSTK]; static SP* sp[NSTK]; static UC* uctx[NSTK];
static int st[NSTK], token[NSTK], inswap[NSTK];
static int stack_of(UC* u) { return u == uctx[0] ? 0 : u == uctx[1] ? 1 : 2; }

/* ---- ghost state of the oracle */
static SP* handed_sp; static int handed, resumes_started, resume_called, resume_returned;
static int pushed, pushed_by = -1, taken, advertised, continued, continued_on;   /* counters over the cycles; pushed_by: last cycle */
static unsigned base_refs;
static u8* co_entry_arg; static void* co_entry_c;
static SP* notified_tag; static int notifies;
static int w_done, homed;

/* ================= the coroutine switch (the stub boundary) ================= */
u32 vpx_swapcontext(UC* from, UC* to) {
  int f = stack_of(from), t = stack_of(to);
  VP_ASSERT(from == uctx[f] && to == uctx[t], "swapcontext on a known context");
  if (!inswap[f]) {
    VP_ASSERT(st[f] == RUNNING, "swapcontext called from the running stack");
    VP_ASSERT(st[t] != RUNNING, "C20: switch to a stack that is still executing (a task is continued before its suspension took effect / on two threads at once)");
    st[f] = SAVED; st[t] = RUNNING; token[t] = 1; inswap[f] = 1; vp_changed = 1;
    VP_BLOCK(); return 0;
  }
  if (!token[f]) { VP_BLOCK(); return 0; }      /* still suspended */
  token[f] = 0; inswap[f] = 0; return 0;          /* somebody switched to us: continue after the call */
}
/* first activation of a coroutine created by makecontext: runs its entry function when first switched to */
void vp_co_entry(u32 stack) {
  if (!token[stack]) { VP_BLOCK(); return; }
  token[stack] = 0;
}
/* mmap + getcontext + makecontext(co_local_wait_for_all, arg): records the entry argument */
void _ZN3tbb6detail2r116create_coroutineERNS1_14coroutine_typeEmPv(struct S_struct_tbb__detail__r1__coroutine_type* c, u64 stack_size, u8* arg) {
  VP_ASSERT(stack_size != 0 && arg != 0, "create_coroutine arguments");
  co_entry_c = c; co_entry_arg = arg;
}
void _ZN3tbb6detail2r117current_coroutineERNS1_14coroutine_typeE(struct S_struct_tbb__detail__r1__coroutine_type* c) { }

/* ================= observers called from the wrapper's thread bodies ================= */
void vp_handed(SP* p) { VP_ASSERT(p == sp[0], "suspend callback receives the suspend point of the suspending dispatcher"); handed_sp = p; handed++; vp_changed = 1; }
SP* vp_wait_handed(void) { if (handed <= resumes_started) { VP_BLOCK(); return 0; } resumes_started++; return handed_sp; }
void vp_resuming(SP* p) { resume_called++; }          /* the user calls tbb::task::resume exactly once per handed-out point */
void vp_resumed(SP* p) { resume_returned++; }
void vp_continued(u32 stack) {
  VP_ASSERT(resume_called > continued, "C20: the suspended task continues although tbb::task::resume was not called");
  VP_ASSERT(continued < NCYC, "C20: the suspended task continues twice");
  VP_ASSERT(pushed == continued + 1 && taken == continued + 1, "the continuation was triggered by exactly one published and taken resume task");
  VP_ASSERT(st[0] == RUNNING && !inswap[0], "continuation runs on its own (restored) stack");
  continued++;
  continued_on = vp_disp_td(disp[0]) == vp_td(0) ? 0 : vp_disp_td(disp[0]) == vp_td(1) ? 1 : -1;
  VP_ASSERT(continued_on >= 0, "the continued dispatcher is attached to the thread that runs it");
  vp_changed = 1;
}
void vp_w_done(void) { w_done = 1; }
void vp_home(u32 stack) {      /* recall_point() returned on stack 0 */
  VP_ASSERT(vp_disp_td(disp[0]) == vp_td(0) && vp_td_disp(0) == disp[0], "C20: after recall_point the original thread runs its own dispatcher again");
  VP_ASSERT(st[0] == RUNNING && !inswap[0], "on its own stack");
  homed++; vp_changed = 1;
}

/* ================= stubs of what lies outside the unit (contracts) ================= */
/* arena::my_resume_task_stream.push / my_critical_task_stream.push: counting stub (the stream itself: C01) */
static void stream_push(TASK* t, int critical) {
  VP_ASSERT(t == vp_resume_task_of(sp[0]), "only the resume task of the suspended point is published");
  VP_ASSERT(pushed == continued, "C20: resume task published twice (double continuation)");
  VP_ASSERT(resume_called > pushed, "C20: resume task published although tbb::task::resume was not called");
  VP_ASSERT(critical == CRIT, "resume task goes to the critical stream iff the target is inside a critical task");
  VP_ASSERT(vp_arena_refs() >= base_refs + vp_ref_worker(), "the publisher holds an arena reference while it publishes");
  pushed++; pushed_by = (int)vp_cur; vp_changed = 1;      /* vp_cur: model thread that runs (0 stack 0, 1 coroutine, 2 resumer, 3 W) */
}
void _ZN3tbb6detail2r111task_streamILNS1_25task_stream_accessor_typeE0EE4pushINS1_20random_lane_selectorEEEvPNS0_2d14taskERKT_(struct S_class_tbb__detail__r1__task_stream* s, TASK* t, struct S_struct_tbb__detail__r1__random_lane_selector* l) { stream_push(t, 0); }
void _ZN3tbb6detail2r111task_streamILNS1_25task_stream_accessor_typeE1EE4pushINS1_20random_lane_selectorEEEvPNS0_2d14taskERKT_(struct S_class_tbb__detail__r1__task_stream_6* s, TASK* t, struct S_struct_tbb__detail__r1__random_lane_selector* l) { stream_push(t, 1); }
void _ZN3tbb6detail2r15arena18advertise_new_workILNS2_13new_work_typeE1EEEvv(ARENA* a) {
  VP_ASSERT(pushed > advertised, "advertise_new_work<wakeup> follows the push");
  advertised++;
}
/* arena::on_thread_leaving(ref): releases `ref` (destroys the arena when it was the last reference) */
void _ZN3tbb6detail2r15arena17on_thread_leavingEj(ARENA* a, u32 ref) {
  VP_ASSERT(vp_arena_refs() >= ref, "arena reference counter underflow");
  vp_arena_unref(ref);
  VP_ASSERT(vp_arena_refs() != 0, "C20: last arena reference dropped while a coroutine / suspended task is alive");
  vp_changed = 1;
}
/* the dispatch loop of a coroutine (local_wait_for_all<coroutine_waiter>): contract = it returns only with a resume task
 * (coroutine_waiter::postpone_execution): the self-recall task of the slot (waiters.h: polled at every iteration through the
 * real get_self_recall_task) or a task taken from the arena's resume stream, each published task being obtained once */
static int thread_of(DISP* d) { return vp_disp_td(d) == vp_td(0) ? 0 : 1; }
static TASK* take_from_stream(void) {
  if (pushed > taken) { taken++; vp_changed = 1; return vp_resume_task_of(sp[0]); }
  return 0;
}
TASK* _ZN3tbb6detail2r115task_dispatcher18local_wait_for_allINS1_16coroutine_waiterEEEPNS0_2d14taskES7_RT_(DISP* self, TASK* t0, struct S_class_tbb__detail__r1__coroutine_waiter* w) {
  VP_ASSERT(t0 == 0, "coroutine dispatch loop starts without a task");
  TASK* t = vp_self_recall_task(thread_of(self));
  if (!t) t = take_from_stream();
  if (!t) { VP_BLOCK(); return 0; }
  return t;
}
/* dispatch loop of worker W (outermost level): takes the resume task from the stream if it is there */
TASK* vp_w_take(void) {
  TASK* t = take_from_stream();
  if (!t) { if (continued == NCYC) return 0; VP_BLOCK(); return 0; }   /* gives up once the other thread has continued the task */
  return t;
}
#if !(WORKER && RECALL)
void _ZN3tbb6detail2r115task_dispatcher12recall_pointEv(DISP* d) { VP_ASSERT(0, "recall_point is not part of this unit (suspension from a non-outermost level)"); }
#endif
void _ZN3tbb6detail2r114arena_co_cache32internal_task_dispatcher_cleanupEPNS1_15task_dispatcherE(struct S_class_tbb__detail__r1__arena_co_cache* c, DISP* d) { VP_ASSERT(0, "a cached coroutine is evicted and destroyed (cache capacity 2, one coroutine)"); }
void _ZN3tbb6detail2r115task_dispatcher18init_suspend_pointEPNS1_5arenaEm(DISP* d, ARENA* a, u64 n) { VP_ASSERT(0, "lazy creation of a suspend point inside a thread (all are pre-created)"); }
void _ZN3tbb6detail2r111resume_node6notifyEv(struct S_class_tbb__detail__r1__resume_node* n) { VP_ASSERT(0, "post-resume action register_waiter is not part of this unit"); }
void vp_rec_limit(void) { VP_ASSERT(0, "nested recall_point (recursion depth bound)"); }
/* waiting-threads monitor: notify(pred) records the tag (the sleeping side is inside the dispatch-loop stub; the monitor: C02) */
static struct S_class_tbb__detail__r1__thread_control_monitor* the_monitor;
struct S_class_tbb__detail__r1__thread_control_monitor* _ZN3tbb6detail2r15arena27get_waiting_threads_monitorEv(ARENA* a) { return the_monitor; }
void _ZN3tbb6detail2r123concurrent_monitor_baseINS1_14market_contextEE6notifyIZNS1_15task_dispatcher21do_post_resume_actionEvE3__0EEvRKT_(struct S_class_tbb__detail__r1__concurrent_monitor_base* m, struct S_class_anon_74* pred) {
  notified_tag = *(SP**)pred; notifies++; vp_changed = 1;
}
/* cache_aligned_allocate: typed static storage (an untyped malloc'ed byte array would make every field write a whole-object
 * update for the solver).  Only the objects this unit allocates: suspend points, coroutine dispatchers, the cache's pointer ring. */
static SP sp_obj0, sp_obj1, sp_obj2, sp_obj3; static DISP disp_obj0, disp_obj1; static DISP* ring_store[2]; static unsigned n_sp, n_disp, n_ring;
static int setup_done;
u8* _ZN3tbb6detail2r122cache_aligned_allocateEm(u64 n) {
  if (setup_done) { VP_ASSERT(0, "VP bound: allocation inside a thread body (a coroutine is created although the cache holds one)"); return 0; }
  if (n == sizeof(SP)) { VP_ASSERT(n_sp < 4, "VP bound: suspend points"); n_sp++; return (u8*)(n_sp == 1 ? &sp_obj0 : n_sp == 2 ? &sp_obj1 : n_sp == 3 ? &sp_obj2 : &sp_obj3); }
  if (n == sizeof(DISP)) { VP_ASSERT(n_disp < 2, "VP bound: coroutine dispatchers"); n_disp++; return (u8*)(n_disp == 1 ? &disp_obj0 : &disp_obj1); }
  VP_ASSERT(n == sizeof(ring_store) && n_ring == 0, "unexpected allocation size"); n_ring++; return (u8*)ring_store;
}
void _ZN3tbb6detail2r124cache_aligned_deallocateEPv(u8* p) { }
void _ZN3tbb6detail2r123task_group_context_impl7bind_toERNS0_2d118task_group_contextEPNS1_11thread_dataE(struct S_class_tbb__detail__d1__task_group_context* c, struct S_class_tbb__detail__r1__thread_data* td) { }
u64 _ZN3tbb6detail2r15arena28calculate_stealing_thresholdEv(ARENA* a) { return 1; }
u64 _ZN3tbb6detail2r117threading_control17worker_stack_sizeEv(struct S_class_tbb__detail__r1__threading_control* tc) { return 4096; }

/* ================= driver ================= */
#if WORKER && RECALL
#define S0 vp_thr_s0r
#define THREADS(X) X(vp_thr_s0r, 0) X(vp_thr_co_a, 1) X(vp_thr_res, 2) X(vp_thr_w, 3)
#elif WORKER
#define S0 vp_thr_s0
#define THREADS(X) X(vp_thr_s0, 0) X(vp_thr_co_a, 1) X(vp_thr_res, 2) X(vp_thr_w, 3)
#elif NCYC == 2
#define S0 vp_thr_s0x2
#define RES_FIN vp_thr_res2_fin
#define THREADS(X) X(vp_thr_s0x2, 0) X(vp_thr_co_a, 1) X(vp_thr_res2, 2)
#elif MODE == 0
#define S0 vp_thr_s0
#define THREADS(X) X(vp_thr_s0, 0) X(vp_thr_co_a, 1) X(vp_thr_res, 2)
#else
#define S0 vp_thr_s0cb
#define THREADS(X) X(vp_thr_s0cb, 0) X(vp_thr_co_a, 1)
#endif
#ifndef RES_FIN
#define RES_FIN vp_thr_res_fin
#endif
#define CAT_(a, b) a##b
#define CAT(a, b) CAT_(a, b)
#define S0_START CAT(S0, _start)
#define S0_FIN CAT(S0, _fin)
#define X_RUN(fn, id) VP_RUNT(fn, id)
#define X_MAX(fn, id) vp_cur = (id); VP_RUNMAX(fn)
#define X_STUCK(fn, id) && VP_STUCK(fn)

int main(void) {
  vp_world_init();
  disp[0] = vp_disp(0); disp[2] = vp_disp(1);
  sp[0] = vp_init_sp(disp[0], 0); sp[2] = vp_init_sp(disp[2], 0);   /* stack_size 0: attached to the current stack, as get_suspend_point() does */
  disp[1] = vp_make_cached_coroutine(); sp[1] = vp_sp_of(disp[1]);
  VP_ASSERT(co_entry_arg == (u8*)disp[1] && co_entry_c == vp_coroutine_of(sp[1]), "coroutine entry argument is its task_dispatcher");
  for (int i = 0; i < NSTK; i++) uctx[i] = (UC*)vp_ucontext_of(sp[i]);
  st[0] = RUNNING; st[1] = FRESH; st[2] = RUNNING;
  if (CRIT) vp_set_critical_allowed(disp[0], 0);
  base_refs = vp_arena_refs(); setup_done = 1;

  S0_START(disp[0]);
  vp_thr_co_a_start(disp[1], 1);
#if NCYC == 2
  vp_thr_res2_start();
#elif MODE == 0 || WORKER
  vp_thr_res_start();
#endif
#if WORKER
  vp_thr_w_start(disp[2]);
#endif
#ifdef PLAN
  /* explicit round plan, decimal digits read from the right: 1 = free round (solver-chosen context switches), 2 = forced round */
  for (unsigned plan = PLAN; plan; plan /= 10) { if (plan % 10 == 1) { THREADS(X_RUN) } else { THREADS(X_MAX) } }
#else
  for (int r = 0; r < ROUNDS; r++) { THREADS(X_RUN) }
  for (int r = 0; r < SETTLE; r++) { THREADS(X_MAX) }
#endif
  int all_stuck_before = 1 THREADS(X_STUCK); vp_changed = 0;
  THREADS(X_MAX)
  int all_stuck_after = 1 THREADS(X_STUCK);
  /* terminal states.  home: the task continued on its own thread T (T took the resume task itself, or it was continued on W and
   * W gave the stack back through recall_point): everything finished, the coroutine is parked in the cache.
   * borrowed (WORKER && !RECALL): W continued the task on T's stack and keeps it; W's own stack is suspended with its owner
   * recalled, T idles in its coroutine's dispatch loop. */
  int co_parked = vp_thr_co_a_blocked && inswap[1];
  int home = S0_FIN && co_parked
#if MODE == 0 || WORKER
             && RES_FIN
#endif
#if WORKER
             && vp_thr_w_fin
#endif
             ;
  int done = home;
#if WORKER && !RECALL
  int borrowed = S0_FIN && RES_FIN && continued_on == 1 && vp_thr_w_blocked && inswap[2] && vp_thr_co_a_blocked && !inswap[1];
  done = home || borrowed;
#endif
  VP_ASSERT(!(!done && all_stuck_before && all_stuck_after && !vp_changed),
            "C20: the suspended task is never continued (resume forgotten / hand-shake lost): every stack is parked and nothing changes");
  __CPROVER_assume(done);

  VP_ASSERT(continued == NCYC, "the suspended task continued exactly once per suspension");
  VP_ASSERT(pushed == NCYC && taken == NCYC, "the resume task was published exactly once per suspension and taken once");
  VP_ASSERT(advertised == NCYC, "new work was advertised for every published resume task");
  VP_ASSERT(vp_stack_state(sp[0]) == 0, "stack state of the resumed point is back to active");
  VP_ASSERT(vp_prev_sp(sp[0]) == 0 && vp_prev_sp(sp[1]) == 0 && vp_prev_sp(sp[2]) == 0, "no dangling m_prev_suspend_point");
  VP_ASSERT(vp_co_state(sp[0]) == 2 && st[0] == RUNNING && !inswap[0], "the continued stack is the running one");
#if !WORKER
  VP_ASSERT(continued_on == 0, "without other workers the suspending thread itself continues the task");
#endif
  if (home) {
    /* T is back on its own stack: the coroutine is idle in the cache, its arena reference was released */
    VP_ASSERT(vp_td_disp(0) == disp[0] && vp_disp_td(disp[0]) == vp_td(0) && vp_disp_td(disp[1]) == 0, "thread T is attached to its default dispatcher again");
    VP_ASSERT(vp_td_disp(1) == disp[2] && vp_disp_td(disp[2]) == vp_td(1), "thread W is attached to its default dispatcher");
    VP_ASSERT(vp_stack_state(sp[1]) == 1 && vp_co_state(sp[1]) == 1 && st[1] == SAVED, "the coroutine is suspended");
    VP_ASSERT(vp_stack_state(sp[2]) == 0 && vp_co_state(sp[2]) == 2 && st[2] == RUNNING && !inswap[2], "W's own stack is active");
    VP_ASSERT(vp_in_co_cache(disp[1]) == 1, "the coroutine is back in the arena's cache exactly once");
    VP_ASSERT(vp_arena_refs() == base_refs, "arena reference balance");
    VP_ASSERT(vp_td_action(0) == 4 && vp_td_action_arg(0) == 0 && vp_td_action(1) == 4 && vp_td_action_arg(1) == 0, "post-resume actions consumed");
    VP_ASSERT(vp_owner_recalled(sp[0]) == 0 && vp_owner_recalled(sp[2]) == 0, "owner-recall flags clear");
#if WORKER && RECALL
    VP_ASSERT(homed == 1, "recall_point returned once");
    if (continued_on == 1) VP_ASSERT(notifies == 2 && notified_tag == sp[0], "both owners were notified through the waiting-threads monitor (W's, then T's)");
#endif
  }
#if WORKER && !RECALL
  if (!home) {
    VP_ASSERT(vp_td_disp(1) == disp[0] && vp_disp_td(disp[0]) == vp_td(1), "W runs the continued task under T's dispatcher");
    VP_ASSERT(vp_td_disp(0) == disp[1] && vp_disp_td(disp[1]) == vp_td(0) && vp_disp_td(disp[2]) == 0, "T idles in its coroutine; W's dispatcher is detached");
    VP_ASSERT(vp_stack_state(sp[2]) == 2 && vp_owner_recalled(sp[2]) == 1 && st[2] == SAVED, "W's own stack: suspended, marked notified, owner recalled");
    VP_ASSERT(notifies == 1 && notified_tag == sp[2], "the waiting-threads monitor was notified for W's suspend point");
    VP_ASSERT(vp_stack_state(sp[1]) == 0 && st[1] == RUNNING, "the coroutine is active");
    VP_ASSERT(vp_arena_refs() == base_refs + vp_ref_external(), "the live coroutine holds one arena reference");
    VP_ASSERT(vp_td_action(0) == 4 && vp_td_action(1) == 4, "post-resume actions consumed");
  }
#endif
#if WORKER
  if (continued_on == 1) { VP_REACHED(); }     /* both outcomes of the race for the resume task must be reachable */
  else { VP_REACHED(); }
#elif MODE == 0
  /* both resolutions of the hand-shake must be reachable: resume() came late (the resumer publishes the resume task itself)
     and resume() came early (it only left `notified`; the leaving thread publishes from finilize_resume on the new stack) */
  if (pushed_by == 2) { VP_REACHED(); }
  else { VP_ASSERT(pushed_by == 1, "early resume: published by the thread that left the stack, from the coroutine's stack"); VP_REACHED(); }
#else
  VP_ASSERT(pushed_by == 1, "resume from the callback: published by the suspending thread after the switch, from the coroutine's stack");
  VP_REACHED();
#endif
  return 0;
}

PROPERTY = 'C20'
# -mrtm -mwaitpkg: flags of the real build (scheduler_common.h uses _tpause); -fignore-exceptions: task_dispatcher.h contains a
# literal try/catch (dispatch loop, cut here) - parse it, generate no unwind edges
CXX = ['-D__TBB_BUILD', '-mrtm', '-mwaitpkg', '-fignore-exceptions']
CUT = ['18local_wait_for_allI',           # the dispatch loops (all instantiations): contract stub in the harness
       '16execute_and_wait', '27get_thread_reference_vertex',
       '11task_stream',                    # arena::my_resume_task_stream.push -> counting stub (C01 covers the stream)
       '18advertise_new_work',             # counting stub
       '16create_coroutineERNS1_14coroutine_type',   # mmap + makecontext: stub records the entry argument
       '17current_coroutine',              # getcontext (returns_twice: never inlined) -> no-op stub
       '18init_suspend_point',             # lazy creation of a suspend point: every suspend point is pre-created by the harness (same constructor call), stub asserts
       '32internal_task_dispatcher_cleanup',   # destruction of a cached coroutine evicted from the arena's cache (never happens here: asserting stub)
       '11resume_node6notifyEv',           # post-resume action register_waiter (resume_task::execute under an external waiter): not in this unit, asserting stub
       '23concurrent_monitor_base',        # waiting-threads monitor: notify(pred) -> recording stub (C02 covers the monitor)
      ]
# kept out of line (executed as one step if ever reached from a thread): construction of a suspend point / destruction of an
# evicted cached coroutine. Both work on objects no other thread can see; the harness pre-creates every suspend point and the
# cache never overflows, so neither is reached from a thread body in the encoded scenarios.
NOINL = ['18init_suspend_point']
ATOMIC = ['_ZN3tbb6detail2r115task_dispatcher18init_suspend_pointEPNS1_5arenaEm']
def unit(threads, recall=False):
    u = dict(wrapper='w_susp.cpp', mode='lcs', unroll=1, cxxflags=CXX + (['-DVP_RECALL'] if recall else []), exceptions=True,
             cut=CUT + ([] if recall else ['12recall_pointEv']), devirt=['11resume_node6notifyEv'], threads=threads)
    if recall: u['unrec'] = {'12recall_pointEv': 1}      # recall_point -> internal_suspend -> recall_point: followed one level deep
    return u
UNITS = {
  'hs': unit({'vp_thr_s0': [''], 'vp_thr_s0cb': [''], 'vp_thr_co': ['a'], 'vp_thr_res': ['']}),
  'h2': unit({'vp_thr_s0x2': [''], 'vp_thr_co': ['a'], 'vp_thr_res2': ['']}),
  'hw': unit({'vp_thr_s0': [''], 'vp_thr_co': ['a'], 'vp_thr_res': [''], 'vp_thr_w': ['']}),
  'hr': unit({'vp_thr_s0r': [''], 'vp_thr_co': ['a'], 'vp_thr_res': [''], 'vp_thr_w': ['']}, recall=True),
}
COMMON = dict(harness='h_susp.c', timeout=900, native_cflags=['-fno-sanitize=null,pointer-overflow'])
HARNESSES = [
  dict(name='handshake', unit='hs', defines={'ROUNDS': 1, 'SETTLE': 1},
       scenarios=[{'MODE': 0}, {'MODE': 1}, {'MODE': 0, 'CRIT': 1}], desc='', bounds={},
       thorough_override=dict(defines={'ROUNDS': 2, 'SETTLE': 2}, timeout=3600), **COMMON),
  dict(name='handshake_r3', unit='hs', defines={'ROUNDS': 3, 'SETTLE': 1}, tiers=['thorough'],
       scenarios=[{'MODE': 0}], desc='', bounds={}, **dict(COMMON, timeout=3600)),
  dict(name='twice', unit='h2', defines={'ROUNDS': 1, 'SETTLE': 4, 'NCYC': 2, 'MODE': 0}, tiers=['thorough'],
       scenarios=[{}], desc='', bounds={}, **dict(COMMON, timeout=5400)),
  dict(name='worker', unit='hw', defines={'ROUNDS': 1, 'SETTLE': 1, 'WORKER': 1, 'MODE': 0},
       scenarios=[{}], desc='', bounds={},
       thorough_override=dict(defines={'ROUNDS': 2, 'SETTLE': 2, 'WORKER': 1, 'MODE': 0}, timeout=3600), **COMMON),
  dict(name='recall', unit='hr', defines={'ROUNDS': 2, 'SETTLE': 2, 'WORKER': 1, 'RECALL': 1, 'MODE': 0}, tiers=['thorough'],
       scenarios=[{}], desc='', bounds={}, **dict(COMMON, timeout=5400)),
]
OUTSIDE = []
STUBS = []
ASSUMPTIONS = []

PROPERTY = 'C20'
# -mrtm -mwaitpkg: flags of the real build (scheduler_common.h uses _tpause); -fignore-exceptions: task_dispatcher.h contains a
# literal try/catch (dispatch loop, cut here) - parse it, generate no unwind edges
CXX = ['-D__TBB_BUILD', '-mrtm', '-mwaitpkg', '-fignore-exceptions']
CUT = ['18local_wait_for_allI',           # the dispatch loops (all instantiations): contract stub in the harness
       '16execute_and_wait', '27get_thread_reference_vertex',
       '11task_stream',                    # arena::my_resume_task_stream.push -> counting stub (C01 covers the stream)
       '18advertise_new_work',             # counting stub
       '16create_coroutineERNS1_14coroutine_type',   # mmap + makecontext: stub records the entry argument
       '17current_coroutine',              # getcontext (returns_twice: never inlined) -> no-op stub
       '18init_suspend_point',             # lazy creation of a suspend point: every suspend point is pre-created by the harness (same constructor call), stub asserts
       '32internal_task_dispatcher_cleanup',   # destruction of a cached coroutine evicted from the arena's cache (never happens here: asserting stub)
       '11resume_node6notifyEv',           # post-resume action register_waiter (resume_task::execute under an external waiter): not in this unit, asserting stub
       '23concurrent_monitor_base',        # waiting-threads monitor: notify(pred) -> recording stub (C02 covers the monitor)
      ]
# kept out of line (executed as one step if ever reached from a thread): construction of a suspend point / destruction of an
# evicted cached coroutine. Both work on objects no other thread can see; the harness pre-creates every suspend point and the
# cache never overflows, so neither is reached from a thread body in the encoded scenarios.
NOINL = ['18init_suspend_point']
ATOMIC = ['_ZN3tbb6detail2r115task_dispatcher18init_suspend_pointEPNS1_5arenaEm']
def unit(threads, recall=False):
    u = dict(wrapper='w_susp.cpp', mode='lcs', unroll=1, cxxflags=CXX + (['-DVP_RECALL'] if recall else []), exceptions=True,
             cut=CUT + ([] if recall else ['12recall_pointEv']), devirt=['11resume_node6notifyEv'], threads=threads)
    if recall: u['unrec'] = {'12recall_pointEv': 1}      # recall_point -> internal_suspend -> recall_point: followed one level deep
    return u
UNITS = {
  'hs': unit({'vp_thr_s0': [''], 'vp_thr_s0cb': [''], 'vp_thr_co': ['a'], 'vp_thr_res': ['']}),
  'h2': unit({'vp_thr_s0x2': [''], 'vp_thr_co': ['a'], 'vp_thr_res2': ['']}),
  'hw': unit({'vp_thr_s0': [''], 'vp_thr_co': ['a'], 'vp_thr_res': [''], 'vp_thr_w': ['']}),
  'hr': unit({'vp_thr_s0r': [''], 'vp_thr_co': ['a'], 'vp_thr_res': [''], 'vp_thr_w': ['']}, recall=True),
}
# wake-up unit (w_wake.cpp = task.cpp + arena.cpp): idle wait of the suspended task's own thread vs publication of the resume task
CUT_WAKE = ['18local_wait_for_allI', '16execute_and_wait', '27get_thread_reference_vertex',
            '8try_pushEPN', '7try_popEj', '12pop_specific', '13look_specific',   # task_stream lane (mutex + std::deque) -> one-step stubs that keep the real population-bit operations
            '21stealing_loop_backoff5pauseEv',       # ~100 pauses/yields before the thread considers sleeping: stub = "expired" (one poll)
            'timed_spin_wait_until',                 # bounded spin in concurrent_monitor_mutex::lock = one poll (as C02)
            '17on_thread_leaving',                   # counting stub (arena life-cycle: C16)
            '16create_coroutineERNS1_14coroutine_type', '17current_coroutine', '18init_suspend_point', '32internal_task_dispatcher_cleanup',
            '11resume_node6notifyEv', '12recall_pointEv']
UNITS['wk'] = dict(wrapper='w_wake.cpp', mode='lcs', unroll=1, cxxflags=CXX, exceptions=True, prune=True, cut=CUT_WAKE,
                   devirt=['sleep_node', '11resume_node6notifyEv'], pure=['27get_waiting_threads_monitor'],
                   threads={'vp_thr_idle': [''], 'vp_thr_res': ['']})
# quick variant: the monitor is a contract stub at prepare_wait / commit_wait / cancel_wait / notify(pred) (C02 checks the real one), everything above it is real:
# concurrent_monitor::wait loop + the real wake-up predicate on T's side, resume -> advertise_new_work<wakeup> -> request_workers on R's side
UNITS['wq'] = dict(UNITS['wk'], cut=CUT_WAKE + ['12prepare_waitERNS1_9wait_node', '11commit_waitERNS1_9wait_node', '11cancel_waitERNS1_9wait_node', 'market_contextEE6notifyIZ'])
COMMON = dict(harness='h_susp.c', timeout=900, native_cflags=['-fno-sanitize=null,pointer-overflow'])
WORLD = ('World: 1 arena, OS threads T (slot 0, default dispatcher D0 = stack 0) and W (slot 1, Dw = stack 2), one coroutine dispatcher D1 (stack 1) '
         'built as create_coroutine does and parked in the arena\'s real co-cache. Model threads are stacks; the only stub on the switch path is '
         'swapcontext (caller parks, target becomes runnable). ')
ORACLE = ('Oracle: no switch to a stack that is still executing; resume task published only after resume() was called, never twice, with an arena '
          'reference held; the code after suspend() continues at most once and only after resume(); blocked-state oracle (all stacks parked, nothing '
          'changes, task not continued = resume forgotten); final state: published/taken/advertised once, m_stack_state active, no dangling '
          'm_prev_suspend_point, post-resume action consumed, dispatcher/thread attachment restored, coroutine back in the cache once, '
          'arena::my_references balanced, owner-recall flags clear. Witnesses: both resolutions of the hand-shake (late / early resume) reachable. ')
SCHED = 'Schedules: round-robin rounds over the stacks, a solver-chosen context switch before any IR load/store/atomic/call in free rounds; '
def bnd(**kw):
    b = {'os_threads': 2, 'suspend_points': 3, 'suspensions_of_the_task': 1, 'free_rounds': 1, 'forced_rounds': '1 settle + 1 probe', 'spin_unroll': 1, 'memory_model': 'SC'}
    b.update(kw); return b
HARNESSES = [
  dict(name='wake_leg', unit='wq', harness='h_wake.c', defines={'ROUNDS': 2, 'SETTLE': 2, 'MONSTUB': 1},
       scenarios=[{'NW': 0, 'PRESET': 0}, {'NW': 0, 'PRESET': 1}, {'NW': 1, 'PRESET': 0}, {'NW': 1, 'PRESET': 1}], timeout=900,
       cbmc=['--unwind', '16', '--object-bits', '12'], native_cflags=['-fno-sanitize=null,pointer-overflow'],
       desc='Wake-up leg of resume() for an arena whose only thread has suspended and idles: NW 0 = no worker slots (all reserved: task_arena(1), task_arena(n,n), my_max_num_workers == 0), '
            'NW 1 = one (empty) worker slot; PRESET = pool-state flag initially SET / UNSET. T = idle-loop body of receive_or_steal_task<coroutine_waiter> (self-recall poll, resume-stream scan, '
            'real coroutine_waiter::pause: arena::out_of_work, sleep_waiter::sleep -> the real concurrent_monitor::wait loop with the real wake-up predicate), racing into park or already parked '
            '|| R = foreign thread, real chain r1::resume -> task_stream::push -> advertise_new_work<wakeup> (fence, atomic_flag::test_and_set) -> arena::request_workers(mandatory_delta, workers_delta, '
            'wakeup_threads=true) -> adjust_demand + get_waiting_threads_monitor().notify(pred). Stub boundary below request_workers: monitor prepare_wait/commit_wait/cancel_wait/notify(pred) as a contract '
            'stub (records wakes, evaluates the captured arena against the sleeper\'s context), adjust_demand records deltas. Oracle: after resume() returned, T parked in the monitor with the resume stream '
            'non-empty and no wake issued after the push = lost resume; generic blocked-state oracle; T obtains the resume task exactly once; demand at quiescence matches the flag (SET: max workers). '
            'Witnesses: T really parked and was woken by a wake issued after the push / T never parked. Every schedule with 2 free slices per thread (T first) + 2 forced rounds + probe.',
       bounds={'model_threads': 2, 'free_rounds': 2, 'forced_rounds': '2 settle + 1 probe', 'unroll': 1, 'worker_slots': '0 and 1', 'memory_model': 'SC',
               'cut': 'monitor below wait()/request_workers (contract stub), back-off = expired, task_stream lane = one-step push/pop around the real population-bit update'}),
  dict(name='wakeup', unit='wk', harness='h_wake.c', defines={'ROUNDS': 1, 'SETTLE': 1}, scenarios=[{'PRESET': 0}, {'PRESET': 1}], timeout=3600, tiers=['thorough'],
       cbmc=['--unwind', '16', '--object-bits', '12'], native_cflags=['-fno-sanitize=null,pointer-overflow'],
       desc='Idle wait of the suspended task\'s own thread vs publication of its resume task in an arena of size 1 (one slot, no workers: only T can take the task). '
            'T = idle-loop body of receive_or_steal_task<coroutine_waiter> (self-recall poll, scan of the resume stream via stream.empty()/arena::get_stream_task/task_stream::pop, '
            'else the real coroutine_waiter::pause: arena::out_of_work [atomic_flag::try_clear_if(!has_tasks())], sleep_waiter::sleep -> concurrent_monitor::wait(pred = !is_empty() || owner recalled): '
            'prepare_wait, predicate, commit_wait -> sleep_node -> binary_semaphore::P -> futex) || R = the real r1::resume(sp): try_notify_resume, arena reference, task_stream::push, '
            'advertise_new_work<wakeup> (fence, atomic_flag::test_and_set, request_workers -> monitor notify(arena) -> semaphore V -> futex wake). Pre-state: the switch is complete '
            '(sp0 suspended, T on its coroutine); PRESET: pool-state flag initially SET / UNSET. Oracle: blocked-state oracle (T asleep or parked with the task published and R done = lost wake-up); '
            'T leaves the loop with exactly the resume task, once; stream, wait set and kernel sleep set empty, references balanced; witnesses: T really slept and was woken / never slept.',
       bounds={'model_threads': 2, 'free_rounds': 1, 'forced_rounds': '1 settle + 1 probe', 'unroll': 1, 'lanes': 2, 'memory_model': 'SC',
               'cut': 'back-off (stealing_loop_backoff::pause = expired at once), timed_spin_wait_until = one poll, task_stream lane (mutex+deque) = one-step push/pop around the real population-bit update'}),
  dict(name='handshake', unit='hs', defines={'ROUNDS': 1, 'SETTLE': 1},
       scenarios=[{'MODE': 0}, {'MODE': 1}, {'MODE': 0, 'CRIT': 1}],
       desc='Real task_dispatcher::suspend (callback, internal_suspend, create_coroutine(thread_data&), resume, suspend_point_type::resume, co_context::resume) on stack 0 '
            '|| real coroutine entry co_local_wait_for_all on stack 1 (finilize_resume, do_post_resume_action, [dispatch loop stub], cleanup, switch back) '
            '|| MODE 0: a foreign thread calling the real r1::resume(sp) as soon as the callback handed sp out, MODE 1: the callback itself calls r1::resume; '
            'CRIT 1: target dispatcher inside a critical task (critical stream). ' + WORLD + ORACLE + SCHED + 'quick: 1 free + 1 settle + probe round, thorough: 2 free + 2 settle + probe.',
       bounds=bnd(model_threads='3 (MODE 1: 2)'),
       thorough_override=dict(defines={'ROUNDS': 2, 'SETTLE': 2}, timeout=3600, bounds=bnd(model_threads='3 (MODE 1: 2)', free_rounds=2, forced_rounds='2 settle + 1 probe')), **COMMON),
  dict(name='handshake_r3', unit='hs', defines={'ROUNDS': 3, 'SETTLE': 1}, tiers=['thorough'], scenarios=[{'MODE': 0}],
       desc='handshake MODE 0 with 3 free rounds (up to 3 slices per stack before the forced rounds). ' + WORLD + ORACLE,
       bounds=bnd(model_threads=3, free_rounds=3), **dict(COMMON, timeout=3600)),
  dict(name='twice', unit='h2', defines={'PLAN': 221221, 'NCYC': 2, 'MODE': 0}, tiers=['thorough'], scenarios=[{}],   # rounds F S S F S S + probe
       desc='The task suspends a second time after it was continued: second hand-shake on the same suspend point; the coroutine is popped from the cache again and '
            'continues inside its co_local_wait_for_all loop (task_dispatcher::resume returns true, post-resume action, next dispatch-loop round). The foreign thread resumes twice. '
            'Rounds: free, forced, forced, free, forced, forced, probe (the second free round falls into the second suspension). ' + WORLD + ORACLE,
       bounds=bnd(model_threads=3, suspensions_of_the_task=2, free_rounds=2, forced_rounds='4 + 1 probe'), **dict(COMMON, timeout=5400)),
  dict(name='worker', unit='hw', defines={'ROUNDS': 1, 'SETTLE': 1, 'WORKER': 1, 'MODE': 0}, scenarios=[{}],
       desc='handshake MODE 0 plus a second OS thread W at the outermost level of its dispatch loop that competes with T\'s coroutine for the published resume task; if it wins it '
            'runs the real resume_task::execute (post-resume action notify, task_dispatcher::resume -> switch to stack 0) and the suspended task continues on W: '
            'finilize_resume marks W\'s stack suspended, do_post_resume_action/recall_owner marks it notified + owner-recalled and notifies the monitor. '
            'Extra oracle: both winners reachable; if W won: W attached to D0, T idle in its coroutine, W\'s stack suspended/notified/recalled, one arena reference per live coroutine. ' + WORLD + ORACLE + SCHED,
       bounds=bnd(model_threads=4),
       thorough_override=dict(defines={'ROUNDS': 2, 'SETTLE': 2, 'WORKER': 1, 'MODE': 0}, timeout=3600, bounds=bnd(model_threads=4, free_rounds=2, forced_rounds='2 settle + 1 probe')), **COMMON),
  dict(name='recall', unit='hr', defines={'ROUNDS': 2, 'SETTLE': 2, 'WORKER': 1, 'RECALL': 1, 'MODE': 0}, tiers=['thorough'], scenarios=[{}],
       desc='worker, followed by what the end of the outermost dispatch loop does: the real recall_point() on stack 0. If the task was continued on W: W switches back to its own '
            '(recalled) stack, recall_owner(sp0) runs there after the switch, T finds the self-recall task (real get_self_recall_task polled by the dispatch-loop stub), switches home, '
            'releases the coroutine. Oracle adds: after recall_point the original thread runs its own dispatcher on its own stack; both threads at home, both owner-recall flags clear, '
            'both monitor notifications issued; never a switch to a running stack (recall_owner strictly after the switch). ' + WORLD + ORACLE,
       bounds=bnd(model_threads=4, free_rounds=2, forced_rounds='2 settle + 1 probe', recall_point_recursion='1 level (nested level asserted unreachable)'), **dict(COMMON, timeout=5400)),
]
MANIFEST = dict(
  level_text='Bounded model checking of the real suspend/resume code (task.cpp, task_dispatcher.cpp/.h, scheduler_common.h, co_context.h, arena co-cache) with stacks as model threads and '
             'swapcontext as the only stub on the switch path: for a foreign, callback-internal or worker-mediated tbb::task::resume racing with the stack switch, every interleaving '
             '(single-IR-memory-operation granularity) within the stated rounds is decided by the SAT solver for: the suspended code continues exactly once, only after resume, never on a '
             'stack that is still executing, never forgotten (blocked-state oracle), resume task published exactly once, stack state back to active, thread/dispatcher attachment and arena '
             'reference balance restored; owner recall (recall_point/recall_owner) and a second suspension of the same task in the thorough tier.',
  level_note='Bounds per harness in evidence (2 OS threads + 1 foreign resumer, 3 stacks, 1-2 suspensions, 1-3 free rounds + forced rounds). Sequential consistency. The dispatch loop is a contract '
             'stub (returns only with a resume task: stream or self-recall), streams/monitor/arena life-cycle are counting stubs (C01/C02/C16). Not covered: the enclosing wait, nested suspension '
             'from inside a coroutine, the external-waiter (register_waiter) path, the context switch itself. Trusted: clang-14 IR, tools/ir2c.py, cbmc.',
)
OUTSIDE = [
  'the coroutine switch itself (swapcontext/makecontext, stack memory, guard pages) and the thread-based coroutine emulation (__TBB_RESUMABLE_TASKS_USE_THREADS, Windows fibers)',
  'the dispatch loop (local_wait_for_all / receive_or_steal_task) as a whole: a contract stub in the switch harnesses; only its idle-wait hand-shake (scan of the resume stream / coroutine_waiter::pause / monitor sleep vs push + advertise_new_work<wakeup>) is encoded separately (`wakeup`, thorough, arena of size 1, owner-recall wake-up tag and self-recall not exercised there); "the suspending thread keeps executing other work" and "the enclosing wait does not complete while a covered task is suspended" are not checked',
  'resume_task::execute under an external waiter (wait_ctx != null): resume_node double-notify hand-shake through the waiting-threads monitor (post_resume_action::register_waiter)',
  'nested suspension (a task running on a coroutine suspends while another suspension of the same thread is outstanding), more than one coroutine, cache overflow / coroutine destruction, coroutine creation inside the run (cache empty)',
  'more than 2 OS threads + 1 resumer, more than 2 suspensions, schedules needing more free rounds than stated; deeper than one level of recall_point recursion',
  'arena destruction while tasks are suspended (on_thread_leaving is a counting stub; only the reference arithmetic is checked)',
  'weak memory (non-SC) behaviour, incl. x86-TSO store buffering',
  'user errors: resume called twice for one suspend point, or never',
]
STUBS = [
  'wake_leg unit: concurrent_monitor_base<market_context>::prepare_wait/commit_wait/cancel_wait/notify(pred) = contract stub (a matching notify removes a registered node; commit_wait of a removed node returns false, otherwise sleeps until removed); the real monitor is in `wakeup` (thorough) and C02',
  'wakeup unit: futex(2) kernel contract (futex_stub.h, copied from C02); task_stream::try_push/try_pop = one-step lane operations around the real population-bit updates; stealing_loop_backoff::pause = true (back-off expired); timed_spin_wait_until = one poll; threading_control::adjust_demand accumulates; get_waiting_threads_monitor returns the real monitor object',
  'swapcontext(from,to): saves the calling stack and parks it, marks the target runnable; asserts the target is not executing (the only stub on the switch path)',
  'r1::create_coroutine(coroutine_type&, size, arg) [mmap+makecontext]: records the entry argument; coroutine starts in co_local_wait_for_all(arg) when first switched to; current_coroutine [getcontext]: no-op',
  'task_dispatcher::local_wait_for_all<coroutine_waiter>: returns only with a resume task: the self-recall task (real get_self_recall_task) or one taken from the resume stream (each published task once); parks otherwise',
  'worker W\'s dispatch loop: obtains the published resume task or gives up once the task was continued',
  'task_stream::push (resume / critical stream), arena::advertise_new_work<wakeup>: counting stubs with order assertions',
  'arena::on_thread_leaving(ref): subtracts ref from my_references (no arena destruction), asserts no underflow / not the last reference',
  'concurrent_monitor::notify(pred) for the owner-recall tag: records the tag; arena::get_waiting_threads_monitor: dummy object',
  'cache_aligned_allocate: typed static storage before the threads start, assertion inside threads; task_group_context_impl::bind_to: no-op; calculate_stealing_threshold / worker_stack_size: constants',
  'task_dispatcher::init_suspend_point, arena_co_cache::internal_task_dispatcher_cleanup, resume_node::notify, (units without recall) recall_point: asserting stubs (must be unreachable)',
]
ASSUMPTIONS = [
  'the user calls tbb::task::resume exactly once per suspend point handed to the callback',
  'the suspending task runs inside a dispatch loop (m_properties.outermost == false), as every task does',
  'every suspend point / coroutine exists before the race starts (created by the same constructors the lazy paths call); the arena co-cache holds the one coroutine',
  'slot 1 and the mailboxes are separate objects instead of arena::my_slots[1] / arena::mailbox(i) (the encoded functions reach them only through thread_data::my_arena_slot / my_inbox)',
]

// C04 reproducer: a context bound beneath a cancelled context misses the cancellation.
//
// cancellation_disseminator::propagate_task_group_state walks all per-thread context lists under
// cancellation_disseminator::my_threads_list_mutex, but the "slow path" of task_group_context_impl::bind_to_impl
// (taken when the propagation epochs differ) re-copies the parent's flag under the_context_state_propagation_mutex --
// a different mutex that nobody else takes. The binder therefore does not wait for the propagation in flight:
// it copies the parent's flag while the parent is still unpainted and registers the child in a list the propagator
// has already visited.
//
//   G (root) <- P (bound on the main thread T0, sits at the END of T0's long context list)
//   worker T1, inside a task of P:  waits until the propagator has started to paint T0's list (it has then passed
//                                   T1's own list), then binds C under P
//   T2: G.cancel_group_execution()
// Expected (property C04): after cancel() returned and the binding finished, C is cancelled, because it is bound
// beneath G. Observed: G and P cancelled, C not cancelled.
//
// build: g++ -std=c++17 -O2 -I/repo/include repro_lost_cancel.cpp -L/repo/_build/<cfg> -ltbb -lpthread -o repro
// run:   LD_LIBRARY_PATH=/repo/_build/<cfg> ./repro        exit code 1 = lost cancellation observed
#include <oneapi/tbb/parallel_for.h>
#include <oneapi/tbb/task_group.h>
#include <oneapi/tbb/global_control.h>
#include <oneapi/tbb/blocked_range.h>
#include <atomic>
#include <thread>
#include <memory>
#include <vector>
#include <chrono>
#include <cstdio>
#include <cstdlib>

using ctx_t = tbb::task_group_context;
static void bind_here(ctx_t& c) {   // first use of a context binds it to the context of the running task
  tbb::parallel_for(tbb::blocked_range<int>(0, 1), [](const tbb::blocked_range<int>&) {}, tbb::simple_partitioner{}, c);
}

int main(int argc, char** argv) {
  int trials = argc > 1 ? atoi(argv[1]) : 20;
  int fillers = argc > 2 ? atoi(argv[2]) : 200000;
  tbb::global_control gc(tbb::global_control::max_allowed_parallelism, 4);
  int lost = 0, effective = 0;
  for (int trial = 0; trial < trials; trial++) {
    ctx_t G;
    std::atomic<int> binder_ready{0}, cancel_done{0}, binder_done{0}, give_up{0};
    int c_cancelled = -1, p_cancelled = -1, g_cancelled = -1;
    std::thread canceller([&] {
      while (!binder_ready.load() && !give_up.load()) std::this_thread::yield();
      if (!give_up.load()) G.cancel_group_execution();
      cancel_done = 1;
    });
    const std::thread::id t0 = std::this_thread::get_id();
    tbb::parallel_for(tbb::blocked_range<int>(0, 1), [&](const tbb::blocked_range<int>&) {
      // running on T0 inside a task of G
      ctx_t P;
      bind_here(P);                                     // P bound under G, first (= last) entry of T0's list
      std::vector<std::unique_ptr<ctx_t>> F;            // fillers: children of G bound later => in front of P
      for (int i = 0; i < fillers; i++) { F.emplace_back(new ctx_t); bind_here(*F.back()); }
      ctx_t& front = *F.back();                         // painted first when the propagator reaches T0's list
      tbb::parallel_for(tbb::blocked_range<int>(0, 2, 1), [&](const tbb::blocked_range<int>& r) {
        if (r.begin() == 0) {                           // T0: keep P's task alive until the binder is finished
          auto until = std::chrono::steady_clock::now() + std::chrono::seconds(2);
          while (!binder_done.load() && (binder_ready.load() || std::chrono::steady_clock::now() < until)) std::this_thread::yield();
          return;
        }
        if (std::this_thread::get_id() == t0) return;   // not stolen: trial void
        // worker T1 inside a task of P
        binder_ready = 1;
        while (!front.is_group_execution_cancelled()) { /* propagator not yet in T0's list */ }
        ctx_t C;
        bind_here(C);                                   // C bound under P while P is still unpainted
        while (!cancel_done.load()) std::this_thread::yield();
        c_cancelled = C.is_group_execution_cancelled(); // all cancel calls and bindings have completed
        p_cancelled = P.is_group_execution_cancelled();
        g_cancelled = G.is_group_execution_cancelled();
        binder_done = 1;
      }, tbb::simple_partitioner{}, P);
    }, tbb::simple_partitioner{}, G);
    give_up = 1;
    canceller.join();
    if (c_cancelled < 0) { std::printf("trial %d: void (second half was not stolen)\n", trial); continue; }
    effective++;
    std::printf("trial %d: G=%d P=%d C=%d %s\n", trial, g_cancelled, p_cancelled, c_cancelled,
                (g_cancelled && !c_cancelled) ? "<-- LOST CANCELLATION (C is bound beneath P beneath G)" : "");
    if (g_cancelled && !c_cancelled) lost++;
  }
  std::printf("%d of %d effective trials lost the cancellation of a descendant context\n", lost, effective);
  return lost ? 1 : 0;
}

// C04 wrapper: the real task_group_context binding / cancellation code (src/tbb/task_group_context.cpp,
// cancellation_disseminator.h, thread_data.h, threading_control.cpp forwarding chain, d1::mutex, intrusive_list).
// Nothing of oneTBB's logic is re-implemented here: this file only (a) defines the three storage globals that live in
// main.cpp / governor.cpp, (b) builds the pre-state through the real constructors and the real bind_to(), and
// (c) offers thread bodies calling the real entry points.
#include "src/tbb/task_group_context.cpp"
#include "src/tbb/threading_control.cpp"
#include <new>

namespace tbb { namespace detail { namespace r1 {
// storage definitions copied from src/tbb/main.cpp:51-52 and src/tbb/governor.cpp (same types, same initial values)
context_state_propagation_mutex_type the_context_state_propagation_mutex;
std::atomic<std::uintptr_t> the_context_state_propagation_epoch{};
basic_tls<thread_data*> governor::theTLS;
}}}

using namespace tbb::detail;
using namespace tbb::detail::r1;
typedef d1::task_group_context ctx_t;

extern "C" void vp_cancel_result(int tid, int won);
extern "C" void vp_bound(int tid);

#define NCTX 7
#define NTD 2
// typed, zero-initialised raw storage (no constructor runs until vp_world()); one global per object so that the
// solver's points-to sets are sets of distinct objects, not symbolic array indices
template <class T> union raw { T v; raw() {} ~raw() {} };
static raw<ctx_t> CTX0, CTX1, CTX2, CTX3, CTX4, CTX5, CTX6;   // 0 = arena default context, others by topology
static raw<thread_data> TD0, TD1;
static raw<task_dispatcher> DISP0, DISP1;
static raw<arena> AR;                  // only my_default_ctx / my_threading_control are ever read
static raw<threading_control> TC;      // only my_pimpl
static raw<threading_control_impl> TCI; // only my_cancellation_disseminator
static raw<cancellation_disseminator> CD;
static raw<context_list> CL0, CL1;      // handed out by the cache_aligned_allocate stub (typed storage instead of a byte blob)
static raw<small_object_pool_impl> SOP0, SOP1;
static raw<tbb_exception_ptr> EXC0, EXC1;   // exception holders installed by vp_set_exception (empty std::exception_ptr inside)
static ctx_t* const CTXP[NCTX] = { &CTX0.v, &CTX1.v, &CTX2.v, &CTX3.v, &CTX4.v, &CTX5.v, &CTX6.v };
static thread_data* const TDP[NTD] = { &TD0.v, &TD1.v };
static task_dispatcher* const DISPP[NTD] = { &DISP0.v, &DISP1.v };
#define CTXV(i) (*CTXP[i])
#define TDV(t) (*TDP[t])

static void set_current(int t, ctx_t* c) { TDV(t).my_task_dispatcher->m_execute_data_ext.context = c; }

extern "C" {
void* vp_static_alloc(unsigned long n) {
  static int ncl, nsop;
  if (n == sizeof(context_list) && ncl < NTD) return ncl++ ? (void*)&CL1.v : (void*)&CL0.v;
  if (n == sizeof(small_object_pool_impl) && nsop < NTD) return nsop++ ? (void*)&SOP1.v : (void*)&SOP0.v;
  return nullptr;
}
ctx_t* vp_ctx(int i) { return &CTXV(i); }
thread_data* vp_td(int t) { return &TDV(t); }
unsigned vp_cancelled(int i) { return CTXV(i).my_cancellation_requested.load(std::memory_order_relaxed); }
ctx_t* vp_parent(int i) { return CTXV(i).my_parent; }
unsigned vp_state(int i) { return (unsigned)CTXV(i).my_state.load(std::memory_order_relaxed); }
unsigned vp_may_have_children(int i) { return CTXV(i).my_may_have_children.load(std::memory_order_relaxed); }
void* vp_list_of(int i) { return CTXV(i).my_context_list; }
void* vp_td_list(int t) { return TDV(t).my_context_list; }
unsigned long vp_list_size(int t) { return TDV(t).my_context_list->size(); }
unsigned long vp_list_epoch(int t) { return TDV(t).my_context_list->epoch.load(std::memory_order_relaxed); }
unsigned long vp_global_epoch() { return the_context_state_propagation_epoch.load(std::memory_order_relaxed); }
unsigned vp_flag_of(d1::waitable_atomic<bool>* w) { return w->load(std::memory_order_relaxed); }
unsigned vp_prop_mutex_held() { return the_context_state_propagation_mutex.m_flag.load(std::memory_order_relaxed); }
unsigned vp_list_mutex_held(int t) { return TDV(t).my_context_list->m_mutex.my_flag.load(std::memory_order_relaxed); }
unsigned vp_locks_free() {
  bool held = CD.v.my_threads_list_mutex.my_flag.load(std::memory_order_relaxed) || the_context_state_propagation_mutex.m_flag.load(std::memory_order_relaxed);
  for (int t = 0; t < NTD; t++) if (TDV(t).my_context_list) held = held || TDV(t).my_context_list->m_mutex.my_flag.load(std::memory_order_relaxed);
  return !held;
}
// is node of context i linked into the list of thread t (walk of the real list, for the oracle only)
unsigned vp_in_list(int i, int t) {
  context_list* l = TDV(t).my_context_list; unsigned n = 0;
  for (context_list::iterator it = l->begin(); it != l->end() && n < NCTX; ++it, ++n)
    if (&(*it) == &CTXV(i).my_node) return 1;
  return 0;
}

// environment: arena -> threading_control -> impl -> disseminator, nthr thread_data registered in the order given
// (register_thread pushes to the front: the propagator visits the thread registered last first)
void vp_world(int nthr, int reg_first) {
  new (&CD.v) cancellation_disseminator();
  new (&TCI.v.my_cancellation_disseminator) cache_aligned_unique_ptr<cancellation_disseminator>(&CD.v);
  TC.v.my_pimpl = nullptr;
  new (&TC.v.my_pimpl) cache_aligned_unique_ptr<threading_control_impl>(&TCI.v);
  new (&CTX0.v) ctx_t(ctx_t::isolated, ctx_t::default_traits | ctx_t::fp_settings);
  AR.v.my_default_ctx = &CTX0.v;
  AR.v.my_threading_control = &TC.v;
  for (int t = 0; t < nthr; t++) {
    new (&TDV(t)) thread_data((unsigned short)t, t != 0);
    TDV(t).my_arena = &AR.v;
    new (&(*DISPP[t])) task_dispatcher(&AR.v);
    TDV(t).attach_task_dispatcher((*DISPP[t]));
  }
  for (int k = 0; k < nthr; k++) {
    int t = (reg_first + k) % nthr;
    TC.v.register_thread(TDV(t));
  }
}
// construct context i (kind: 0 isolated, 1 bound) without binding it
void vp_ctx_new(int i, int bound) { new (&CTXV(i)) ctx_t(bound ? ctx_t::bound : ctx_t::isolated); }
// same, with an explicit traits word (fp_settings captured at construction: bind_to_impl then skips copy_fp_settings)
void vp_ctx_new_fp(int i) { new (&CTXV(i)) ctx_t(ctx_t::bound, ctx_t::default_traits | ctx_t::fp_settings); }
// thread t is running a task of context `cur` (0 = outermost level: arena default context)
void vp_set_current(int t, int cur) { set_current(t, &CTXV(cur)); }
// sequential history step: bind context i on thread t through the real bind_to
void vp_bind_seq(int i, int t) { task_group_context_impl::bind_to(CTXV(i), &TDV(t)); }

// sequential history steps through the public API (reset_reuse harness)
unsigned vp_cancel_seq(int i) { return CTXV(i).cancel_group_execution(); }
void vp_reset_seq(int i) { CTXV(i).reset(); }
// what the dispatcher does after winning the cancel in its catch block: my_exception = <holder>; slot 0 or 1
void* vp_set_exception(int i, int slot) {
  tbb_exception_ptr* e = new (slot ? (void*)&EXC1.v : (void*)&EXC0.v) tbb_exception_ptr(std::exception_ptr());
  CTXV(i).my_exception.store(e, std::memory_order_release);
  return e;
}
void* vp_exception(int i) { return CTXV(i).my_exception.load(std::memory_order_relaxed); }

// ---- thread bodies
void vp_thr_bind(ctx_t* c, thread_data* td, int tid) {
  task_group_context_impl::bind_to(*c, td);
  vp_bound(tid);
}
// the binding hand-shake alone (what bind_to runs between its created->locked CAS and the release store of the state)
void vp_thr_bindimpl(ctx_t* c, thread_data* td, int tid) {
  task_group_context_impl::bind_to_impl(*c, td);
  vp_bound(tid);
}
void vp_thr_cancel(ctx_t* c, int tid) {
  bool won = c->cancel_group_execution();
  vp_cancel_result(tid, won);
}
// a context is reused: reset, then cancelled again
void vp_thr_recancel(ctx_t* c, int tid) {
  c->reset();
  bool won = c->cancel_group_execution();
  vp_cancel_result(tid, won);
}
void vp_thr_destroy(ctx_t* c, int tid) {
  c->~ctx_t();
  vp_bound(tid);
}
}

// C04 reproducer (x86 store-buffer race in the binding fast path): a context bound beneath a context that is being
// cancelled at the same moment misses the cancellation although no propagation is in flight afterwards.
//
// task_group_context_impl::bind_to_impl (parent P has itself a parent, so the "epoch" branch is taken):
//     P.my_may_have_children.store(1, relaxed);          // (1) "full fence is below"
//     snapshot = P.my_context_list->epoch.load(acquire);
//     C.my_cancellation_requested = P.my_cancellation_requested.load(relaxed);   // (2) speculative copy, BEFORE the fence
//     register_with(C, td);                              // full fence
//     if (snapshot != the_context_state_propagation_epoch) { lock; re-copy }     // (3)
// cancel_group_execution(P):
//     P.my_cancellation_requested.exchange(1);           // (a)
//     if (P.my_may_have_children != 1) return true;      // (b) no children: nothing to propagate, epoch not advanced
// Store (1) may still sit in the binder's store buffer when load (2) executes (x86-TSO allows a load to pass an older
// store). If (a) and (b) fall between (2) and the moment (1) becomes visible, the canceller sees "no children", does
// not propagate and does not advance the epoch, so check (3) finds nothing to repair: P is cancelled, C is not.
// (In the branch for parents without a grand-parent the copy is made after the fence, which is safe.)
//
// build: g++ -std=c++17 -O2 -I/repo/include repro_hint_storebuffer.cpp -L/repo/_build/<cfg> -ltbb -lpthread -o repro_sb
// run:   LD_LIBRARY_PATH=/repo/_build/<cfg> ./repro_sb [trials]      exit code 1 = lost cancellation observed
#include <oneapi/tbb/parallel_for.h>
#include <oneapi/tbb/task_group.h>
#include <oneapi/tbb/global_control.h>
#include <oneapi/tbb/blocked_range.h>
#include <atomic>
#include <thread>
#include <cstdio>
#include <cstdlib>

using ctx_t = tbb::task_group_context;
template <class F> static void run_in(ctx_t& c, F f) {
  tbb::parallel_for(tbb::blocked_range<int>(0, 1), [&](const tbb::blocked_range<int>&) { f(); }, tbb::simple_partitioner{}, c);
}

static std::atomic<ctx_t*> target{nullptr};
static std::atomic<long> done_seq{0};
static std::atomic<bool> quit{false};
static std::atomic<unsigned> delay{0};

int main(int argc, char** argv) {
  long trials = argc > 1 ? atol(argv[1]) : 3000000;
  tbb::global_control gc(tbb::global_control::max_allowed_parallelism, 2);
  std::thread canceller([&] {
    ctx_t warm; warm.cancel_group_execution();            // creates this thread's thread_data up front
    long seq = 0;
    while (!quit.load(std::memory_order_relaxed)) {
      ctx_t* p = target.load(std::memory_order_acquire);
      if (!p) continue;
      for (unsigned i = delay.load(std::memory_order_relaxed); i; --i) __builtin_ia32_pause();
      p->cancel_group_execution();
      target.store(nullptr, std::memory_order_relaxed);
      done_seq.store(++seq, std::memory_order_release);
    }
  });
  long lost = 0, seq = 0;
  ctx_t G;
  run_in(G, [&] {                                           // inside a task of G on the main thread
    for (long t = 0; t < trials && !lost; t++) {
      ctx_t P;
      run_in(P, [&] {                                       // P is bound under G here; we are inside a task of P
        ctx_t C;
        delay.store((unsigned)(t % 64), std::memory_order_relaxed);
        target.store(&P, std::memory_order_release);        // canceller: cancel P now
        run_in(C, [] {});                                   // binds C under P (first use)
        ++seq;
        while (done_seq.load(std::memory_order_acquire) != seq) {}
        bool pc = P.is_group_execution_cancelled(), cc = C.is_group_execution_cancelled();
        if (pc && !cc) {
          lost++;
          std::printf("trial %ld: P cancelled, C (bound beneath P, binding and cancel both completed) NOT cancelled\n", t);
        }
      });
    }
  });
  quit = true; canceller.join();
  std::printf("%ld lost cancellation(s)\n", lost);
  return lost ? 1 : 0;
}

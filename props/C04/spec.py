PROPERTY = 'C04'
CXX = ['-D__TBB_BUILD', '-fignore-exceptions']
# cut: FPU control-word capture (inline asm), and the sleeping slow path of d1::mutex (spin + wait_on_address)
CUT = ['cpu_ctl_env7get_env', '15waitable_atomicIbE4waitEbmSt12memory_order']
def unit(threads, unroll=2):
    return dict(wrapper='w_ctx.cpp', mode='lcs', unroll=unroll, cxxflags=CXX, exceptions=True, cut=CUT, prune=True, threads=threads)
def tso(u): u = dict(u); u['tso'] = True; return u
UNITS = {
  'bc': unit({'vp_thr_bind': ['a'], 'vp_thr_cancel': ['b']}),
  # Dekker check of the children-hint hand-shake (binder: store hint, load parent's flag || canceller: xchg flag, load hint):
  # the per-thread list walk is cut (stub only records that it ran); the query looks at executions in which it did not run
  'bc_nowalk': dict(unit({'vp_thr_bind': ['a'], 'vp_thr_cancel': ['b']}), cut=CUT + ['11thread_data26propagate_task_group_state']),
  'hs': dict(unit({'vp_thr_bindimpl': ['a'], 'vp_thr_cancel': ['b']}, unroll=1), cut=CUT + ['11thread_data26propagate_task_group_state']),
  'hs_tso': tso(dict(unit({'vp_thr_bindimpl': ['a'], 'vp_thr_cancel': ['b']}, unroll=1), cut=CUT + ['11thread_data26propagate_task_group_state'])),
  'seq': dict(wrapper='w_ctx.cpp', mode='seq', cxxflags=CXX, exceptions=True, cut=CUT, prune=True),
  'rb': unit({'vp_thr_recancel': ['a'], 'vp_thr_bind': ['b']}),
  'bb': unit({'vp_thr_bind': ['a', 'b']}),
  'dc': unit({'vp_thr_destroy': ['a'], 'vp_thr_cancel': ['b']}),
  'cc': unit({'vp_thr_cancel': ['a', 'b']}),
  'bcc': unit({'vp_thr_bind': ['a'], 'vp_thr_cancel': ['b', 'c']}),
}
CBMC = ['--unwind', '16', '--slice-formula']
COMMON = dict(harness='h_ctx.c', cbmc=CBMC, native_cflags=['-fno-sanitize=null'], timeout=900, mem_gb=8)
def sc(**kw): return kw
# MODE 1 worlds: TARGET 1=G (grand-parent of C), 2=P (parent), 3=S (sibling of P); REG_FIRST: thread registered first = visited last;
# BIND_T: thread whose list receives C (0 = the list that holds P); S_T: list holding S; ORDER: who moves first in a round
WORLDS = [sc(REG_FIRST=rf, BIND_T=bt) for rf in (0, 1) for bt in (0, 1)]
def worlds(ws=WORLDS, **kw): return [dict(w, **kw) for w in ws]
B1 = {'threads': 2, 'free_rounds': 1, 'completion_slices': 3, 'unroll': 2, 'thread_lists': 2, 'contexts': 'default, G<-P<-C, S under G, isolated I', 'memory_model': 'SC'}
def bnd(**kw): return dict(B1, **kw)
SCHED = ' Schedules: every interleaving (context switch before any IR load/store/atomic/call) of the form x* y* X Y X (x,y = the two threads in the order given by ORDER, capitals = run until finished or blocked), i.e. up to 3-4 context switches; with ROUNDS=2 two free slices per thread first.'
ORACLE = ' Oracle at quiescence: a context is cancelled iff it or an ancestor (final my_parent chain) was a cancel target; S, I, the default context and ancestors of the target untouched; cancel() of a fresh context returns true; C ends bound under P in the binder\'s list with the parent\'s children hint set; all mutexes free; no out-of-bounds/invalid pointer access.'
HARNESSES = [
  dict(name='bvc_G_o0', unit='bc', defines={'ROUNDS': 1, 'MODE': 1, 'TARGET': 1, 'ORDER': 0}, scenarios=worlds(),
       desc='real bind_to(C under P) on one thread || real cancel_group_execution(G) (grand-parent) on another; binder moves first. 4 worlds: propagator visits the binder\'s list first/last x C goes into P\'s list or the other one.' + SCHED + ORACLE,
       bounds=bnd(), **COMMON),
  dict(name='bvc_G_o1', unit='bc', defines={'ROUNDS': 1, 'MODE': 1, 'TARGET': 1, 'ORDER': 1}, scenarios_quick=[sc(REG_FIRST=1, BIND_T=0)], scenarios=worlds(),
       desc='as bvc_G_o0 but the canceller moves first (covers: propagation starts, binder runs partly, propagation completes, binder finishes).' + SCHED + ORACLE,
       bounds=bnd(), **dict(COMMON, timeout=1200)),
  dict(name='bvc_P', unit='bc', defines={'ROUNDS': 1, 'MODE': 1, 'TARGET': 2}, scenarios_quick=[sc(REG_FIRST=0, BIND_T=1, ORDER=0), sc(REG_FIRST=1, BIND_T=0, ORDER=1)],
       scenarios=worlds(ORDER=0) + worlds(ORDER=1),
       desc='bind_to(C under P) || cancel_group_execution(P) (the direct parent; P gets its first child in this very race: children-hint hand-shake). Sibling S and ancestor G must stay untouched.' + SCHED + ORACLE,
       bounds=bnd(), **COMMON),
  dict(name='bvc_S', unit='bc', tiers=['thorough'], defines={'ROUNDS': 1, 'MODE': 1, 'TARGET': 3}, scenarios=worlds(ORDER=1, S_T=1) + worlds(ORDER=0, S_T=0),
       desc='bind_to(C under P) || cancel_group_execution(S) (childless sibling of P): nothing but S may change.' + SCHED + ORACLE, bounds=bnd(), **COMMON),
  dict(name='hint_dekker_sc', unit='bc_nowalk', defines={'ROUNDS': 2, 'MODE': 1, 'TARGET': 2, 'ORDER': 0, 'CUT_WALK': 1}, scenarios=[sc(REG_FIRST=0, BIND_T=1)],
       desc='children-hint hand-shake in isolation: binder (store hint; ...; load parent flag) || canceller (xchg flag; load hint). The per-thread list walk is cut; the query is restricted to executions in which the canceller saw "no children" and skipped the propagation: C must then have copied the cancelled flag.' + ORACLE,
       bounds=bnd(free_rounds=2, cut='thread_data::propagate_task_group_state (stub records the call; executions with a call are excluded)'), **COMMON),
  dict(name='handshake_sc', unit='hs', defines={'ROUNDS': 1, 'MODE': 6, 'TARGET': 2, 'ORDER': 0, 'CUT_WALK': 1, 'NO_S': 1, 'NO_I': 1, 'SHORT_COMPLETION': 1}, scenarios=[sc(REG_FIRST=0, BIND_T=1)],
       desc='minimal children-hint hand-shake: real bind_to_impl(C under P) (hint store [+fence], epoch snapshot, speculative copy, register_with, epoch check) || real cancel_group_execution(P) (exchange, hint test); list walk cut and excluded; world without S and I. SC twin of handshake_tso.' + ORACLE,
       bounds=bnd(unroll=1, completion_slices=2, contexts='default, G<-P<-C', cut='thread_data::propagate_task_group_state'), **COMMON),
  dict(name='handshake_tso', unit='hs_tso', tiers=['thorough'], defines={'ROUNDS': 1, 'MODE': 6, 'TARGET': 2, 'ORDER': 0, 'CUT_WALK': 1, 'NO_S': 1, 'NO_I': 1, 'SHORT_COMPLETION': 1}, scenarios=[sc(REG_FIRST=0, BIND_T=1)],
       desc='handshake_sc under x86-TSO (per-thread FIFO store buffer of depth 2, nondeterministic flushes at slice starts, drained by RMW/fence): the speculative load of the parent flag must not pass the buffered store of the children hint (defect 2, repaired in /repo feaf986; the pre-fix source fails this query).',
       bounds=bnd(unroll=1, completion_slices=2, contexts='default, G<-P<-C', memory_model='x86-TSO, store buffer depth 2', cut='thread_data::propagate_task_group_state'), **dict(COMMON, timeout=7200, mem_gb=16)),
  dict(name='bind_slowpath', unit='bc', defines={'ROUNDS': 1, 'MODE': 1, 'WITNESS_SLOW': 1, 'TARGET': 1, 'ORDER': 0}, scenarios=[sc(REG_FIRST=0, BIND_T=1)],
       desc='reachability + correctness of the repaired path: restricted to executions in which the binder was seen parked on the_context_state_propagation_mutex (epoch mismatch branch of bind_to_impl while a propagation holds the mutex); the witness proves such executions exist in the encoding.' + ORACLE,
       bounds=bnd(), **dict(COMMON, timeout=1200)),
  dict(name='reset_reuse', unit='seq', harness='h_reset.c', cbmc=['--unwind', '16'], native_cflags=['-fno-sanitize=null'], timeout=600, mem_gb=8,
       scenarios=[sc(SEQ=1, REG_FIRST=0, BIND_T=1), sc(SEQ=1, REG_FIRST=1, BIND_T=0, S_T=1), sc(SEQ=2, REG_FIRST=0, BIND_T=1), sc(SEQ=2, REG_FIRST=1, BIND_T=0)],
       desc='sequential reuse of a context that still has a bound child, through the public API: SEQ 1 = cancel P (C cancelled, second cancel false), exception holder stored, reset P (exactly P\'s flag and exception cleared; hint, links, list membership kept), optionally reset C (solver\'s choice), cancel P again (true; C cancelled again with no new child bound in between), reset both, cancel G (whole subtree, not I). SEQ 2 = cancel G, reset P (only P changes), a context bound under the still-cancelled G afterwards is cancelled, cancel G false / cancel P true.',
       bounds={'threads': 1, 'steps': 'fixed sequences of 6-8 API calls', 'symbolic': 'whether the child is reset too', 'contexts': 'default, G<-P<-C, S under G, I or late child D', 'thread_lists': 2}),
  dict(name='reset_reuse_2t', unit='rb', defines={'ROUNDS': 1, 'MODE': 7}, scenarios_quick=[sc(REG_FIRST=0, BIND_T=1, ORDER=0)],
       scenarios=[sc(REG_FIRST=0, BIND_T=1, ORDER=1), sc(REG_FIRST=1, BIND_T=1, ORDER=1), sc(REG_FIRST=0, BIND_T=1, ORDER=0), sc(REG_FIRST=1, BIND_T=1, ORDER=0)],
       desc='P was cancelled with child C bound beneath it; thread a: P.reset(); P.cancel_group_execution() || thread b: bind_to(new child D under P). At quiescence the second cancel returned true and P, C, D are cancelled, G, S, I untouched, D bound and registered.' + SCHED,
       bounds=bnd(contexts='default, G<-P<-{C,D}, S under G, isolated I'), **COMMON),
  dict(name='bind_vs_bind', unit='bb', defines={'ROUNDS': 2, 'MODE': 4}, scenarios=[sc(REG_FIRST=0)],
       desc='two threads call bind_to on the same fresh context C (created->locked CAS, spin_wait_while_eq on the loser): both return only when C is bound; C is registered in exactly one list, my_context_list names it, list sizes add up.',
       bounds=bnd(free_rounds=2), **COMMON),
  dict(name='destroy_vs_cancel', unit='dc', defines={'ROUNDS': 1, 'MODE': 5, 'TARGET': 1}, scenarios_quick=[sc(REG_FIRST=0, BIND_T=1, ORDER=0)], scenarios=[sc(REG_FIRST=0, BIND_T=1, ORDER=0), sc(REG_FIRST=1, BIND_T=0, ORDER=1)],
       desc='~task_group_context(C) (C bound under P) || cancel_group_execution(G): C leaves its list, the propagation never writes to C after the destructor returned, remaining descendants P,S cancelled, I untouched.',
       bounds=bnd(), **COMMON),
  dict(name='cancel_vs_cancel', unit='cc', defines={'ROUNDS': 1, 'MODE': 2},
       scenarios_quick=[sc(TARGET=1, REG_FIRST=0, SHORT_COMPLETION=1)],
       scenarios_thorough=[sc(TARGET=1, REG_FIRST=0), sc(TARGET=2, REG_FIRST=1, BIND_T=0), sc(TARGET=1, TARGET2=2, REG_FIRST=0), sc(TARGET=1, TARGET2=2, REG_FIRST=1, BIND_T=0, ORDER=1)],
       scenarios=[sc(TARGET=1, REG_FIRST=0)],
       desc='two concurrent cancel_group_execution calls (same context: exactly one returns true; thorough also G and P at once = the two-level scenario of the source comment); C already bound under P; afterwards every descendant is cancelled and nothing else. Quick: completion a,b only (the loser of a same-context race never takes a lock).',
       bounds=bnd(), **dict(COMMON, timeout=1200)),
  dict(name='bvc_G_r2', unit='bc', tiers=['thorough'], defines={'ROUNDS': 2, 'MODE': 1, 'TARGET': 1}, scenarios=worlds(ORDER=0) + worlds(ORDER=1),
       desc='bvc_G with two free rounds (up to 6-7 context switches).' + ORACLE, bounds=bnd(free_rounds=2), **dict(COMMON, timeout=3600)),
  dict(name='bvc_P_r2', unit='bc', tiers=['thorough'], defines={'ROUNDS': 2, 'MODE': 1, 'TARGET': 2}, scenarios=worlds(ORDER=0),
       desc='bvc_P with two free rounds.' + ORACLE, bounds=bnd(free_rounds=2), **dict(COMMON, timeout=3600)),
  dict(name='bind_cancel_cancel', unit='bcc', tiers=['thorough'], defines={'ROUNDS': 1, 'MODE': 3, 'TARGET': 1, 'TARGET2': 2}, scenarios=[sc(REG_FIRST=0, BIND_T=1, ORDER=0), sc(REG_FIRST=1, BIND_T=0, ORDER=1)],
       desc='three threads: bind_to(C under P) || cancel(G) || cancel(P) (concurrent cancellations at two tree levels while a descendant is being bound).' + ORACLE,
       bounds=bnd(threads=3, completion_slices=6), **dict(COMMON, timeout=3600)),
]
MANIFEST = dict(
  level_text='Bounded model checking of the real context-binding and cancellation code (task_group_context_impl::bind_to/bind_to_impl/register_with/cancel_group_execution/propagate_task_group_state/destroy, cancellation_disseminator and thread_data propagation, context_list, intrusive_list, d1::mutex/spin_mutex, the global epoch and propagation mutex): for 2-3 threads on a context tree built by the real constructors and bind_to, the SAT solver decides over all bounded schedules that at quiescence exactly the descendants of the cancelled context(s) are cancelled - including a child being bound or destroyed during the propagation -, that concurrent cancel calls on one context have exactly one winner, that concurrent bind_to calls register the context once, and (sequential API histories plus one 2-thread race) that a reset context can be reused: reset clears exactly that context\'s flag and exception and a later cancel still reaches the children that stayed bound.',
  level_note='Bounds per harness in evidence: 2 thread lists, tree depth 3 (G<-P<-C plus sibling S, isolated I), 1-2 free scheduling rounds + completion slices, loop unroll 2 (exact for this world), SC (one x86-TSO query on the children-hint hand-shake in the thorough tier). d1::mutex sleeping path, TLS lookup, allocation and FPU-state capture are contract stubs. Trusted: clang-14 IR, tools/ir2c.py, cbmc.',
)
OUTSIDE = [
  'context trees deeper than 3 levels, more than 2 per-thread context lists, more than one context being bound at a time, more than 3 threads',
  'schedules needing more context switches than the stated rounds allow (quick: x* y* X Y X per pair of threads)',
  'weak memory beyond the one x86-TSO query (hint_dekker_tso, thorough tier); ARM/POWER reorderings',
  'task_group::wait/run_and_wait themselves (they call the same task_group_context::reset that reset_reuse exercises); reset() racing with a cancel of the SAME context from another thread (documented as not concurrency-safe); reset of a context while its ancestor\'s propagation is in flight',
  'how governor/arena/threading_control objects are created and looked up (the real forwarding chain threading_control -> impl -> disseminator is used, the objects are placed by the wrapper)',
  'thread_data registration/unregistration and orphaned context lists during a propagation; exception-triggered cancellation',
]
STUBS = [
  'cache_aligned_allocate/deallocate: fresh storage of the requested size (typed static storage or malloc)',
  'pthread_getspecific (governor::theTLS): the thread_data of the calling model thread; governor::init_external_thread: must not be reached',
  'd1::waitable_atomic<bool>::wait (cut; d1::mutex slow path = timed spin + wait_on_address): caller sleeps while the flag still has the old value, re-evaluated whenever the thread is scheduled (wake-up delivery is C02\'s subject); notify_by_address_one: no-op',
  'd1::cpu_ctl_env::get_env (cut; inline asm reading MXCSR/x87 CW): no-op',
  'r1::deallocate_memory (tbb_exception_ptr::destroy in reset): records the pointer (ghost), frees nothing',
  'hint_dekker_* only: thread_data::propagate_task_group_state cut, the stub records the call and such executions are excluded from the query',
]
ASSUMPTIONS = [
  'the pre-state of every query is produced by the real constructors and real sequential bind_to calls (G bound at the outermost level => isolated root; P, S bound under G; I isolated kind), checked by setup assertions',
  'the_context_state_propagation_epoch/mutex and governor::theTLS are defined in the wrapper exactly as in main.cpp/governor.cpp (those files are not part of the unit)',
  'in the 3-thread harness the two cancellers share one thread_data for the TLS lookup (cancel only reads td->my_arena)',
  'completion order x,y,(z),x,(y,z) lets every thread finish in this world; executions that would need more slices are dropped by assume (never reported), the reachability witness guards against vacuity',
]

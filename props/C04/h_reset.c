/* C04 reset_reuse (sequential): a context that still has a bound child is reset and reused.
 * World as in h_ctx.c, built by the real constructors and real bind_to(): default ctx 0, root G=1, P=2 under G (td0),
 * S=3 under G (td S_T), 4 = isolated I (SEQ 1) or a child D bound later under G (SEQ 2), C=5 bound under P on td BIND_T.
 * All steps go through the public API (cancel_group_execution / reset of d1::task_group_context).
 * SEQ 1: cancel P -> C cancelled; (dispatcher stores an exception holder); reset P -> exactly P's flag and exception
 *        are cleared; [reset C or not: solver's choice]; cancel P again -> true, and C is cancelled again although no
 *        new child was bound in between (children hint, list membership, epochs must have survived the reset);
 *        then reset P,C and cancel G: the whole subtree again.
 * SEQ 2: cancel G; reset P -> only P changes (G, S, C stay cancelled); a context bound under G afterwards is
 *        cancelled; cancel P (not cancelled any more) -> true. */
#include "w.h"
#include "vp.h"
#include "c04_stubs.h"
#define DEF 0
#define G_ 1
#define P_ 2
#define S_ 3
#define I_ 4
#define C_ 5
#ifndef BIND_T
#define BIND_T 1
#endif
#ifndef S_T
#define S_T 0
#endif
#ifndef REG_FIRST
#define REG_FIRST 0
#endif
void vp_cancel_result(u32 tid, u32 w) { (void)tid; (void)w; }
void vp_bound(u32 tid) { (void)tid; }
#define FLAGS(g, p, s, i, c, msg) { VP_ASSERT(vp_cancelled(DEF) == 0, msg ": default context touched"); \
  VP_ASSERT(vp_cancelled(G_) == (g), msg ": G"); VP_ASSERT(vp_cancelled(P_) == (p), msg ": P"); VP_ASSERT(vp_cancelled(S_) == (s), msg ": S"); \
  VP_ASSERT(vp_cancelled(I_) == (i), msg ": I/D"); VP_ASSERT(vp_cancelled(C_) == (c), msg ": C"); }
#define STRUCTURE(msg) { VP_ASSERT(vp_state(C_) == 3 && vp_parent(C_) == vp_ctx(P_) && vp_in_list(C_, BIND_T) && vp_list_of(C_) == vp_td_list(BIND_T), msg ": C no longer bound under P / registered"); \
  VP_ASSERT(vp_state(P_) == 3 && vp_parent(P_) == vp_ctx(G_) && vp_in_list(P_, 0), msg ": P no longer bound under G / registered"); \
  VP_ASSERT(vp_locks_free(), msg ": mutex left locked"); }
int main(void) {
  vp_cur = 1 - BIND_T;                      /* cancel calls are made from the other thread (TLS stub) */
  vp_world(2, REG_FIRST);
  vp_ctx_new(G_, 1); vp_set_current(0, DEF); vp_bind_seq(G_, 0);
  vp_ctx_new(P_, 1); vp_set_current(0, G_); vp_bind_seq(P_, 0);
  vp_ctx_new(S_, 1); vp_set_current(S_T, G_); vp_bind_seq(S_, S_T);
#if SEQ == 1
  vp_ctx_new(I_, 0); vp_set_current(1, P_); vp_bind_seq(I_, 1);
#endif
  vp_ctx_new(C_, 1); vp_set_current(BIND_T, P_); vp_bind_seq(C_, BIND_T);
  STRUCTURE("setup");
#if SEQ == 1
  VP_ASSERT(vp_cancel_seq(P_) == 1, "first cancel of P must return true");
  FLAGS(0, 1, 0, 0, 1, "after cancel(P)");
  VP_ASSERT(vp_cancel_seq(P_) == 0, "cancel of an already cancelled context must return false");
  FLAGS(0, 1, 0, 0, 1, "after repeated cancel(P)");
  u8* ep = (u8*)vp_set_exception(P_, 0);   /* the winner's dispatcher records the exception */
  u8* ec = (u8*)vp_set_exception(C_, 1);
  vp_reset_seq(P_);
  FLAGS(0, 0, 0, 0, 1, "after reset(P): exactly P's flag is cleared");
  VP_ASSERT(vp_exception(P_) == 0 && freed_n == 1 && freed_last == ep, "reset(P) must destroy exactly P's exception holder");
  VP_ASSERT(vp_exception(C_) == ec, "reset(P) touched the child's exception");
  STRUCTURE("after reset(P)");
  int reset_c = vp_nd_bool();
  if (reset_c) { vp_reset_seq(C_); FLAGS(0, 0, 0, 0, 0, "after reset(C)"); VP_ASSERT(vp_exception(C_) == 0 && freed_n == 2 && freed_last == ec, "reset(C): exception"); }
  STRUCTURE("before reuse");
  VP_ASSERT(vp_cancel_seq(P_) == 1, "cancel of a reset (not cancelled) context must return true");
  FLAGS(0, 1, 0, 0, 1, "reuse: second cancel(P) must reach the child that is still bound beneath P");
  STRUCTURE("after second cancel(P)");
  vp_reset_seq(P_); vp_reset_seq(C_);
  FLAGS(0, 0, 0, 0, 0, "after reset(P), reset(C)");
  VP_ASSERT(vp_cancel_seq(G_) == 1, "cancel(G) must return true");
  FLAGS(1, 1, 1, 0, 1, "cancel(G) after the subtree was reset: every descendant, not the isolated context");
  STRUCTURE("end");
#else
  VP_ASSERT(vp_cancel_seq(G_) == 1, "cancel(G) must return true");
  FLAGS(1, 1, 1, 0, 1, "after cancel(G)");
  vp_reset_seq(P_);
  FLAGS(1, 0, 1, 0, 1, "reset(P) must change P only (ancestor, sibling and child stay cancelled)");
  STRUCTURE("after reset(P)");
  vp_ctx_new(I_, 1); vp_set_current(1, G_); vp_bind_seq(I_, 1);       /* D: bound under the still-cancelled G afterwards */
  VP_ASSERT(vp_state(I_) == 3 && vp_parent(I_) == vp_ctx(G_), "D bound under G");
  FLAGS(1, 0, 1, 1, 1, "a context bound beneath the still-cancelled G after reset(P) must be cancelled");
  VP_ASSERT(vp_cancel_seq(G_) == 0, "G is still cancelled: cancel must return false");
  VP_ASSERT(vp_cancel_seq(P_) == 1, "P was reset: cancel must return true");
  FLAGS(1, 1, 1, 1, 1, "after cancel(P)");
  STRUCTURE("end");
#endif
  VP_REACHED();
  return 0;
}

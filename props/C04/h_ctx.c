/* C04: cancellation reaches every descendant context and nothing else; one winner.
 * World (built by the real constructors and the real bind_to(), sequentially, before the threads start):
 *   2 thread_data (td0, td1) registered with the real cancellation_disseminator (REG_FIRST registered first, i.e. visited last),
 *   context 0 = arena default context; 1 = G (root: bound at the outermost level => isolated state); 2 = P bound under G on td0;
 *   3 = S bound under G on td S_T; 4 = I (isolated kind) created inside a task of P on td1; 5 = C: created, to be bound under P.
 * MODE 1: thread a = bind C (on td BIND_T, inside a task of P)   ||  thread b = cancel TARGET
 * MODE 2: thread a = cancel TARGET                               ||  thread b = cancel TARGET2      (C pre-bound)
 * MODE 3: thread a = bind C || thread b = cancel TARGET || thread c = cancel TARGET2
 * MODE 4: thread a = bind C on td0                               ||  thread b = bind the same C on td1
 * MODE 5: thread a = destroy C (pre-bound)                       ||  thread b = cancel TARGET
 * MODE 7: thread a = reset P, cancel P again (P was cancelled before, C bound beneath it) || thread b = bind a NEW child D under P
 * MODE 6: thread a = bind_to_impl(C) only (the hand-shake)       ||  thread b = cancel TARGET  (with CUT_WALK; SC and TSO units)
 * Oracle at quiescence: X cancelled  <=>  X or one of its ancestors (final my_parent chain) was the target of a cancel call;
 * for each target exactly one caller got `true`; C ends bound under P in the binder's list; all locks free. */
#include "w.h"
#include "vp.h"
#if MODE == 7
#define NC 7
#else
#define NC 6
#endif
#define D_ 6
#define DEF 0
#define G_ 1
#define P_ 2
#define S_ 3
#define I_ 4
#define C_ 5
#ifndef BIND_T
#define BIND_T 1
#endif
#ifndef S_T
#define S_T 0
#endif
#ifndef REG_FIRST
#define REG_FIRST 0
#endif
#ifndef ORDER
#define ORDER 0
#endif
#ifndef TARGET2
#define TARGET2 TARGET
#endif
typedef struct S_class_tbb__detail__d1__task_group_context ctx_t;

#include "c04_stubs.h"

#ifdef CUT_WALK
/* thread_data::propagate_task_group_state (per-thread list walk) is cut in this unit: the stub only records that the
   canceller got past the children-hint test; the query then assumes it did not (see hint_dekker_sc / handshake_* in spec.py) */
int walk_happened;
void _ZN3tbb6detail2r111thread_data26propagate_task_group_stateEMNS0_2d118task_group_contextESt6atomicIjERS4_j(
    struct S_class_tbb__detail__r1__thread_data* td, u64 mptr, ctx_t* src, u32 st) { (void)td; (void)mptr; (void)src; (void)st; walk_happened = 1; }
#endif
/* ---- observers ---- */
int won[3], returned[3], bound_done, slow_wait_seen;
void vp_cancel_result(u32 tid, u32 w) { returned[tid] = 1; won[tid] = (int)w; }
int flag_at_destroy = -1;
void vp_bound(u32 tid) { (void)tid; bound_done++;
#if MODE == 5
  flag_at_destroy = (int)vp_cancelled(C_);     /* the destructor has returned: the object must not be touched any more */
#endif
}

#define FIN(t) FIN_(t)
#define FIN_(t) t##_fin
static int idx_of(ctx_t* p) { for (int i = 0; i < NC; i++) if (p == vp_ctx(i)) return i; return -1; }

int main(void) {
  vp_world(2, REG_FIRST);
  vp_ctx_new(G_, 1); vp_set_current(0, DEF); vp_bind_seq(G_, 0);
  vp_ctx_new(P_, 1); vp_set_current(0, G_); vp_bind_seq(P_, 0);
#ifndef NO_S
  vp_ctx_new(S_, 1); vp_set_current(S_T, G_); vp_bind_seq(S_, S_T);
#else
  vp_ctx_new(S_, 0);
#endif
#ifndef NO_I
  vp_ctx_new(I_, 0); vp_set_current(1, P_); vp_bind_seq(I_, 1);
#else
  vp_ctx_new(I_, 0);
#endif
  vp_ctx_new(C_, 1);
  vp_set_current(0, P_); vp_set_current(1, P_);
  /* the sequential history produced the expected tree (guards the harness against drifting from the real code) */
  VP_ASSERT(vp_state(G_) == 2 && vp_parent(G_) == 0 && vp_list_of(G_) == 0, "setup: G must be an isolated root");
  VP_ASSERT(vp_state(P_) == 3 && vp_parent(P_) == vp_ctx(G_) && vp_in_list(P_, 0), "setup: P bound under G in td0's list");
#ifndef NO_S
  VP_ASSERT(vp_state(S_) == 3 && vp_parent(S_) == vp_ctx(G_) && vp_in_list(S_, S_T), "setup: S bound under G");
  VP_ASSERT(vp_state(I_) == 2 && vp_parent(I_) == 0 && vp_list_of(I_) == 0, "setup: I isolated");
#endif
  VP_ASSERT(vp_may_have_children(G_) == 1, "setup: G has the children hint");
  int requested[NC] = {0};
  int unfinished = 0;
  /* thread a runs on thread_data TA, b on TB, c on TC_ (vp_cur selects the TLS slot in the stub) */
#if MODE == 1
#define TA BIND_T
#define TB (1 - BIND_T)
#define THA vp_thr_bind_a
#define THB vp_thr_cancel_b
  vp_thr_bind_a_start(vp_ctx(C_), vp_td(BIND_T), 0);
  vp_thr_cancel_b_start(vp_ctx(TARGET), 1);
  requested[TARGET] = 1;
#elif MODE == 2
#define TA 0
#define TB 1
#define THA vp_thr_cancel_a
#define THB vp_thr_cancel_b
  vp_set_current(BIND_T, P_); vp_bind_seq(C_, BIND_T);      /* C already bound under P */
  vp_thr_cancel_a_start(vp_ctx(TARGET), 0);
  vp_thr_cancel_b_start(vp_ctx(TARGET2), 1);
  requested[TARGET] = 1; requested[TARGET2] = 1;
#elif MODE == 6   /* minimal hand-shake: bind_to_impl(C under P) || cancel(TARGET) */
#define TA BIND_T
#define TB (1 - BIND_T)
#define THA vp_thr_bindimpl_a
#define THB vp_thr_cancel_b
  vp_ctx_new_fp(C_);
  vp_thr_bindimpl_a_start(vp_ctx(C_), vp_td(BIND_T), 0);
  vp_thr_cancel_b_start(vp_ctx(TARGET), 1);
  requested[TARGET] = 1;
#elif MODE == 7   /* reuse: P (cancelled, child C bound) is reset and cancelled again || a new child D is bound under P */
#define TA (1 - BIND_T)
#define TB BIND_T
#define THA vp_thr_recancel_a
#define THB vp_thr_bind_b
  vp_set_current(BIND_T, P_); vp_bind_seq(C_, BIND_T);
  VP_ASSERT(vp_cancel_seq(P_) == 1 && vp_cancelled(P_) == 1 && vp_cancelled(C_) == 1, "setup: first cancel of P reached C");
  vp_ctx_new(D_, 1);
  vp_thr_recancel_a_start(vp_ctx(P_), 0);
  vp_thr_bind_b_start(vp_ctx(D_), vp_td(BIND_T), 1);
  requested[P_] = 1;                                        /* the cancel after the reset is the one in force at the end */
#elif MODE == 4   /* two threads bind the same context C (each inside a task of P on its own thread_data) */
#define TA 0
#define TB 1
#define THA vp_thr_bind_a
#define THB vp_thr_bind_b
  vp_thr_bind_a_start(vp_ctx(C_), vp_td(0), 0);
  vp_thr_bind_b_start(vp_ctx(C_), vp_td(1), 1);
#elif MODE == 5   /* C (bound under P in BIND_T's list) is destroyed while TARGET is being cancelled */
#define TA BIND_T
#define TB (1 - BIND_T)
#define THA vp_thr_destroy_a
#define THB vp_thr_cancel_b
  vp_set_current(BIND_T, P_); vp_bind_seq(C_, BIND_T);
  VP_ASSERT(vp_in_list(C_, BIND_T), "setup: C bound");
  u64 size_before = vp_list_size(BIND_T);
  vp_thr_destroy_a_start(vp_ctx(C_), 0);
  vp_thr_cancel_b_start(vp_ctx(TARGET), 1);
  requested[TARGET] = 1;
#elif MODE == 3
#define TA BIND_T
#define TB (1 - BIND_T)
#define TC_ (1 - BIND_T)
#define THA vp_thr_bind_a
#define THB vp_thr_cancel_b
#define THC vp_thr_cancel_c
  vp_thr_bind_a_start(vp_ctx(C_), vp_td(BIND_T), 0);
  vp_thr_cancel_b_start(vp_ctx(TARGET), 1);
  vp_thr_cancel_c_start(vp_ctx(TARGET2), 2);
  requested[TARGET] = 1; requested[TARGET2] = 1;
#endif
#if MODE >= 1 && MODE <= 7
  /* free rounds: context switch points chosen by the solver; ORDER selects which thread moves first in a round.
     OBS_A: ghost for the reachability witness WITNESS_SLOW (binder parked on the propagation mutex = it took the
     epoch-mismatch path of bind_to_impl while a propagation was in flight) */
#if MODE == 1 || MODE == 3
#define OBS_A() { if (vp_thr_bind_a_blocked && vp_prop_mutex_held() && !vp_list_mutex_held(BIND_T)) slow_wait_seen = 1; }
#else
#define OBS_A()
#endif
#define SLICE_A() { VP_RUNT(THA, TA) OBS_A() }
#define SLICE_B() { VP_RUNT(THB, TB) }
#define MAX_A() { vp_cur = TA; VP_RUNMAX(THA) OBS_A() }
#define MAX_B() { vp_cur = TB; VP_RUNMAX(THB) }
#ifdef THC
#define SLICE_C() { VP_RUNT(THC, TC_) }
#define MAX_C() { vp_cur = TC_; VP_RUNMAX(THC) }
#else
#define SLICE_C()
#define MAX_C()
#endif
  for (int r = 0; r < ROUNDS; r++) {
#if ORDER == 0
    SLICE_A() SLICE_B() SLICE_C()
#else
    SLICE_B() SLICE_A() SLICE_C()
#endif
  }
  /* completion: every thread runs as far as it can. In this world no loop exceeds the unroll bound, so a thread can
     only be stopped by a mutex another thread holds, and nobody waits while holding a mutex the lock holder needs:
     x,y,(z),x,(y,z) lets everybody finish */
#if defined(SHORT_COMPLETION)   /* a,b only: enough when at most one of the two threads ever takes a mutex (hand-shake with the
                                   walk excluded; two cancellers of one context, where the loser returns at once) */
  MAX_A() MAX_B()
#elif ORDER == 0
  MAX_A() MAX_B() MAX_C() MAX_A()
#ifdef THC
  MAX_B() MAX_C()
#endif
#else
  MAX_B() MAX_A() MAX_C() MAX_B()
#ifdef THC
  MAX_A() MAX_C()
#endif
#endif
#ifdef THC
  unfinished = !FIN(THA) || !FIN(THB) || !FIN(THC);
#else
  unfinished = !FIN(THA) || !FIN(THB);
#endif
#endif
  __CPROVER_assume(!unfinished);
#ifdef CUT_WALK
  __CPROVER_assume(!walk_happened);   /* only executions in which the canceller saw "no children" and skipped the propagation */
#endif
#ifdef WITNESS_SLOW   /* this query is only about executions in which the binder waited on the propagation mutex */
  __CPROVER_assume(slow_wait_seen);
#endif
#if MODE == 7
  VP_ASSERT(bound_done == 1 && vp_state(D_) == 3 && vp_parent(D_) == vp_ctx(P_), "bind_to did not leave D bound under P");
  VP_ASSERT(vp_in_list(D_, BIND_T) && vp_in_list(C_, BIND_T), "children not registered in the binder's context list");
  VP_ASSERT(returned[0] && won[0], "cancel of a reset (not cancelled) context must return true");
#endif
#if MODE == 6
  VP_ASSERT(bound_done == 1 && vp_parent(C_) == vp_ctx(P_), "bind_to_impl did not link C under P");
  VP_ASSERT(vp_in_list(C_, BIND_T) && vp_list_of(C_) == vp_td_list(BIND_T), "C not registered in the binder's context list");
  VP_ASSERT(returned[1] && won[1], "the only cancel call on a not-yet-cancelled context must return true");
#endif
#if MODE == 1 || MODE == 3
  VP_ASSERT(bound_done && vp_state(C_) == 3, "bind_to returned without leaving the context bound");
  VP_ASSERT(vp_parent(C_) == vp_ctx(P_), "C bound to the wrong parent");
  VP_ASSERT(vp_in_list(C_, BIND_T) && vp_list_of(C_) == vp_td_list(BIND_T), "C not registered in the binder's context list");
  VP_ASSERT(vp_may_have_children(P_) == 1, "parent's children hint not set");
#endif
#if MODE == 4
  VP_ASSERT(bound_done == 2 && vp_state(C_) == 3, "bind_to returned while the context was not (yet) bound");
  VP_ASSERT(vp_parent(C_) == vp_ctx(P_), "C bound to the wrong parent");
  VP_ASSERT(vp_in_list(C_, 0) + vp_in_list(C_, 1) == 1, "C must be registered in exactly one context list");
  VP_ASSERT(vp_list_of(C_) == vp_td_list(vp_in_list(C_, 0) ? 0 : 1), "my_context_list does not name the list holding C");
  VP_ASSERT(vp_list_size(0) + vp_list_size(1) == 3, "context registered twice / list size corrupted");   /* P, S, C */
#elif MODE == 5
  VP_ASSERT(bound_done == 1 && vp_state(C_) == 4, "destroy did not complete");
  VP_ASSERT(!vp_in_list(C_, BIND_T) && vp_list_size(BIND_T) == size_before - 1, "destroyed context still registered");
  VP_ASSERT((int)vp_cancelled(C_) == flag_at_destroy, "propagation wrote to a context after its destructor had returned");
  VP_ASSERT(returned[1] && won[1], "the only cancel call on a not-yet-cancelled context must return true");
#endif
#if MODE == 1
  VP_ASSERT(returned[1] && won[1], "the only cancel call on a not-yet-cancelled context must return true");
#elif MODE == 2
  VP_ASSERT(returned[0] && returned[1], "cancel call did not return");
  if (TARGET == TARGET2) VP_ASSERT(won[0] + won[1] == 1, "concurrent cancel calls on one context: not exactly one winner");
  else { /* G (TARGET) and a descendant: the ancestor's caller always wins; the descendant's caller wins unless painted first */
    VP_ASSERT(won[0], "cancel of a not-yet-cancelled root context must return true"); }
#elif MODE == 3
  VP_ASSERT(returned[1] && returned[2], "cancel call did not return");
  if (TARGET == TARGET2) VP_ASSERT(won[1] + won[2] == 1, "concurrent cancel calls on one context: not exactly one winner");
  else VP_ASSERT(won[1], "cancel of a not-yet-cancelled root context must return true");
#endif
  VP_ASSERT(vp_locks_free(), "a propagation/list mutex is still held at quiescence");
  /* X cancelled <=> X or an ancestor was a cancel target (parents precede children in index order) */
  int expect[NC];
  for (int i = 0; i < NC; i++) {
#if MODE == 5
    if (i == C_) { expect[i] = 0; continue; }   /* destroyed: its flag is no longer meaningful */
#endif
    ctx_t* p = vp_parent(i); int pi = p ? idx_of(p) : -1;
    VP_ASSERT(!p || (pi >= 0 && pi < i), "parent link points outside the constructed tree");
    expect[i] = requested[i] || (pi >= 0 && expect[pi]);
    if (expect[i]) VP_ASSERT(vp_cancelled(i) == 1, "cancellation lost: a context bound beneath a cancelled context is not cancelled");
    else VP_ASSERT(vp_cancelled(i) == 0, "cancellation leaked to a context that is not a descendant of a cancelled one");
  }
  VP_REACHED();
  return 0;
}

/* C04: stubs of the external boundaries, shared by h_ctx.c and h_reset.c (contracts: spec.py STUBS) */
#define WAIT_FN _ZN3tbb6detail2d115waitable_atomicIbE4waitEbmSt12memory_order
/* ---- external boundaries ---- */
u8* _ZN3tbb6detail2r122cache_aligned_allocateEm(u64 n) { u8* p = vp_static_alloc(n); return p ? p : vpx_malloc(n); }
void _ZN3tbb6detail2r124cache_aligned_deallocateEPv(u8* p) { vpx_free(p); }
/* FPU control word capture (inline asm in the real code): contents irrelevant to the property */
void _ZN3tbb6detail2d111cpu_ctl_env7get_envEv(struct S_struct_tbb__detail__d1__cpu_ctl_env* e) { (void)e; }
/* TLS: the calling model thread's thread_data (governor::get_thread_data) */
u8* vpx_pthread_getspecific(u32 key) { (void)key; return (u8*)vp_td(vp_cur); }
void _ZN3tbb6detail2r18governor20init_external_threadEv(void) { VP_ASSERT(0, "auto-initialisation reached: thread_data lookup failed"); }
/* d1::mutex slow path, waitable_atomic<bool>::wait(old, ctx, order) (cut): returns once the flag differs from `old`;
   until then the caller sleeps (spin + wait_on_address; wake-up delivery itself is property C02's subject) */
void WAIT_FN(struct S_class_tbb__detail__d1__waitable_atomic* w, u8 old, u64 c, u32 order) {
  (void)c; (void)order; if ((vp_flag_of(w) & 1) == (old & 1)) VP_BLOCK();
}
void _ZN3tbb6detail2r121notify_by_address_oneEPv(u8* addr) { (void)addr; }

/* r1::deallocate_memory (tbb_exception_ptr::destroy): ghost record of what was freed */
int freed_n; u8* freed_last;
void _ZN3tbb6detail2r117deallocate_memoryEPv(u8* p) { freed_n++; freed_last = p; }

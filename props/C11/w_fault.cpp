// C11 fault wrapper (compiled WITH exceptions): the real concurrent_vector<Elem, vp_allocator<Elem>> where the allocator
// stub may fail (throw) and Elem's copy constructor may throw, both at positions chosen by the harness. Every operation
// is a small extern "C" function that catches everything and reports whether an exception reached the caller.
#include <cstddef>
#include <type_traits>
struct Elem;
extern "C" void* vp_alloc_elem(unsigned long bytes);                    // may throw (harness: k-th allocation fails)
extern "C" void vp_dealloc_elem(void* p, unsigned long bytes) noexcept;
extern "C" void* vp_alloc_tab(unsigned long bytes);                     // may throw
extern "C" void vp_dealloc_tab(void* p, unsigned long bytes) noexcept;
extern "C" void vp_construct(void* addr, int val);                      // may throw (harness: k-th construction throws); logs otherwise
extern "C" void vp_destroyed(void* addr, int state) noexcept;
template <typename T> struct vp_allocator {
  using value_type = T;
  vp_allocator() = default;
  template <typename U> vp_allocator(const vp_allocator<U>&) {}
  T* allocate(std::size_t n) { return static_cast<T*>(std::is_same<T, Elem>::value ? vp_alloc_elem(n * sizeof(T)) : vp_alloc_tab(n * sizeof(T))); }
  void deallocate(T* p, std::size_t n) { if (std::is_same<T, Elem>::value) vp_dealloc_elem(p, n * sizeof(T)); else vp_dealloc_tab(p, n * sizeof(T)); }
  template <typename U> bool operator==(const vp_allocator<U>&) const { return true; }
  template <typename U> bool operator!=(const vp_allocator<U>&) const { return false; }
};
#include "oneapi/tbb/concurrent_vector.h"
// 16 bytes, so that the real zero_unconstructed_elements stays a memset call in the IR (smaller ones become plain stores).
// state: 1 = constructed, 2 = destroyed, 0 = zero-filled by the vector, anything else = raw memory (the allocator stub poisons blocks)
struct Elem {
  int v; int state; long pad;
  struct quiet {};
  Elem(int x, quiet) noexcept : v(x), state(-1), pad(0) {}            // prototype value (not an element of the vector)
  Elem(const Elem& o) { vp_construct(this, o.v); v = o.v; state = 1; pad = 0; }
  ~Elem() { if (state != -1) { vp_destroyed(this, state); state = 2; } }
};
using V = tbb::concurrent_vector<Elem, vp_allocator<Elem>>;
using B = V::base_type;
extern "C" {
void vp_vec_init(V* v) { new (v) V(); }
// operations: return 0 = returned normally, 1 = an exception reached the caller
int vp_op_pb(V* v, int val) { Elem p(val, Elem::quiet{}); try { v->push_back(p); } catch (...) { return 1; } return 0; }
int vp_op_gb(V* v, unsigned long d, int val) { Elem p(val, Elem::quiet{}); try { v->grow_by(d, p); } catch (...) { return 1; } return 0; }
int vp_op_gtal(V* v, unsigned long n, int val) { Elem p(val, Elem::quiet{}); try { v->grow_to_at_least(n, p); } catch (...) { return 1; } return 0; }
// checked access: address of at(i), or null if at() threw
void* vp_try_at(V* v, unsigned long i) { try { return &v->at(i); } catch (...) { return nullptr; } }
void* vp_at(V* v, unsigned long i) { return &(*v)[i]; }
int vp_val_at(Elem* e) { return e->v; }
int vp_state_at(Elem* e) { return e->state; }
unsigned long vp_size(V* v) { return v->size(); }
unsigned long vp_claimed(V* v) { return v->my_size.load(std::memory_order_relaxed); }
unsigned vp_seg_allocated(V* v, unsigned long i) {
  auto table = v->my_segment_table.load(std::memory_order_relaxed);
  unsigned long k = B::segment_index_of(i);
  if (k >= v->number_of_segments(table)) return 0;
  return table[k].load(std::memory_order_relaxed) > v->segment_allocation_failure_tag;
}
void vp_destroy(V* v) { v->~V(); }
}

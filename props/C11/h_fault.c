/* C11 fault harness (sequential, unit compiled with exceptions): one thread runs
 *   PRE healthy push_backs; OP1 with a fault (the k-th allocation fails or the k-th element construction throws, k symbolic
 *   in 0..KMAX, 0 = no fault); reads; OP2 and NFOLLOW push_backs with a healthy allocator; reads; destruction.
 * OP1/OP2: 0 grow_by(A,value), 1 push_back, 2 grow_to_at_least(A,value); FK: 0 allocation fault, 1 constructor fault.
 * Oracle: see the assertion texts. Texts starting with "fault:" are the stable names of findings. */
#include "w.h"
#include "vp.h"
#define VEC struct S_class_tbb__detail__d1__concurrent_vector
#define ELEM struct S_struct_Elem
#define TENT struct S_struct_std__atomic_0
VEC vec;
#ifndef TABW
#define TABW 64
#endif
#ifndef PAD
#define PAD 8
#endif
#define POISON 0x5A5A5A5Au
#define NBLK 8
static u8 tok_alloc, tok_ctor, tok_tbb;     /* exception type tokens: allocator's bad_alloc, user constructor, r1::throw_exception */
/* exceptions are thrown from static objects (header {type, refcount} + payload, like rt/vp.h's heap objects): the pending
   pointer vp_exc is then an address cbmc's symex folds against null, so only the real path after a throw is executed
   (with a malloc'ed object both outcomes of every `if (vp_exc)` were explored: path explosion) */
static u64 exc_obj[2][4]; static unsigned n_thrown;      /* at most one exception is in flight or being handled at any time */
static void throw_static(u8* ti) {
  VP_ASSERT(vp_exc == 0, "exception thrown while another one is pending");
  u8* p = (u8*)&exc_obj[n_thrown++ & 1][2];
  VP_EXC_TYPE(p) = ti; VP_EXC_REFS(p) = 1; vp_exc = p; vp_exc_thrown++;
}
static int armed, fault_kind; static unsigned fault_at, n_allocs, n_ctors, n_faults, n_tbb_throws;
/* ---- allocator stub: bump allocation from one static typed pool; fresh blocks are poisoned; ghost bookkeeping of requested sizes */
static ELEM epool[PAD + CAP]; static unsigned e_used, n_eb; static unsigned eb_off[NBLK]; static u64 eb_req[NBLK]; static u8 eb_freed[NBLK];
static int alloc_fails(void) {
  if (armed && fault_kind == 0) { n_allocs++; if (n_allocs == fault_at) { n_faults++; throw_static(&tok_alloc); return 1; } }
  return 0;
}
u8* vp_alloc_elem(u64 n) {
  if (alloc_fails()) return 0;
  VP_ASSERT(n >= 16 && n % 16 == 0 && n <= 16 * 16, "segment allocation of a size no bounded scenario should request");
  VP_ASSERT(n_eb < NBLK && e_used + n / 16 <= CAP, "HARNESS: element pool too small for this scenario");
  __CPROVER_assume(n_eb < NBLK && e_used + n / 16 <= CAP);
  unsigned b = n_eb++, off = e_used;
  eb_off[b] = off; eb_req[b] = n; e_used += n / 16;
  for (unsigned i = 0; i < 16; i++) if (i < n / 16) { epool[PAD + off + i].f0 = POISON; epool[PAD + off + i].f1 = POISON; }
  return (u8*)&epool[PAD + off];
}
void vp_dealloc_elem(u8* p, u64 n) {
  int found = 0;
  for (unsigned b = 0; b < NBLK; b++) if (b < n_eb && p == (u8*)&epool[PAD + eb_off[b]]) {
    VP_ASSERT(!eb_freed[b], "segment deallocated twice"); VP_ASSERT(eb_req[b] == n, "segment deallocated with a size different from its allocation");
    eb_freed[b] = 1; found = 1;
  }
  VP_ASSERT(found, "deallocation of a pointer that is not the start of an allocated segment");
}
static int in_live(u8* a) {       /* the 16 bytes at a lie inside the requested part of a live segment */
  int r = 0;
  for (unsigned b = 0; b < NBLK; b++)
    if (b < n_eb && !eb_freed[b] && (u64)a >= (u64)&epool[PAD + eb_off[b]] && (u64)a + 16 <= (u64)&epool[PAD + eb_off[b]] + eb_req[b]) r = 1;
  return r;
}
static TENT tpool[TABW]; static u8 tb_used, tb_freed;
u8* vp_alloc_tab(u64 n) {
  if (alloc_fails()) return 0;
  VP_ASSERT(!tb_used, "HARNESS: second long table"); VP_ASSERT(n == 64 * 8, "segment table allocation is not 64 pointers");
  __CPROVER_assume(!tb_used);
  tb_used = 1; return (u8*)&tpool[0];
}
void vp_dealloc_tab(u8* p, u64 n) { VP_ASSERT(tb_used && !tb_freed && p == (u8*)&tpool[0] && n == 64 * 8, "table deallocated twice / not an allocated table"); tb_freed = 1; }
/* ---- element observers */
#define MAXLOG 40
static u8* log_addr[MAXLOG]; static u32 log_val[MAXLOG]; static unsigned n_log, d_count[MAXLOG]; static int destroying;
void vp_construct(u8* a, u32 val) {
  VP_ASSERT(in_live(a), "element constructed outside the storage handed out by the allocator");
  if (armed && fault_kind == 1) { n_ctors++; if (n_ctors == fault_at) { n_faults++; throw_static(&tok_ctor); return; } }
  VP_ASSERT(n_log < MAXLOG, "HARNESS: construction log too small"); __CPROVER_assume(n_log < MAXLOG);
  log_addr[n_log] = a; log_val[n_log] = val; n_log++;
}
void vp_destroyed(u8* a, u32 state) {
  VP_ASSERT(destroying, "element destroyed although the vector is alive (growth calls never destroy)");
  VP_ASSERT(in_live(a), "destructor run on memory outside the storage handed out by the allocator");
  if (state == 0) return;                     /* slot zero-filled by the vector after a failure: destroying it is the documented contract */
  VP_ASSERT(state != 2, "element destroyed twice");
  VP_ASSERT(state == 1 || state == 2, "fault: destructor run on an element slot that was never constructed nor zero-filled");
  if (state != 1) return;
  int found = 0;
  for (unsigned j = 0; j < MAXLOG; j++) if (j < n_log && log_addr[j] == a) { d_count[j]++; found = 1; }
  VP_ASSERT(found, "destructor run on an element the harness never saw constructed");
}
/* ---- real-code externals */
void _ZN3tbb6detail2r115throw_exceptionENS0_2d012exception_idE(u32 id) { n_tbb_throws++; throw_static(&tok_tbb); }   /* contract: throws */
/* cut tbb::detail::d0::atomic_backoff::pause(): with a single thread any busy-wait iteration means waiting for somebody who does not exist */
void _ZN3tbb6detail2d014atomic_backoff5pauseEv(struct S_class_tbb__detail__d0__atomic_backoff* self) {
  VP_ASSERT(0, "fault: growth call waits forever for a segment that an earlier failed call left unallocated");
  __CPROVER_assume(0);
}
/* memset of the generated code (-Dmemset=vp_memset): n == 16 is zero_unconstructed_elements(slot, 1) of the failure clean-up */
#undef memset
void* vp_memset(void* d, int c, size_t n) {
  if (c == 0 && n == 16) {
    int ok = in_live((u8*)d);
    VP_ASSERT(ok, "fault: access to a segment that was never allocated while cleaning up after a throwing element constructor");
    __CPROVER_assume(ok);
    ELEM* e = (ELEM*)d; e->f0 = 0; e->f1 = 0; e->f2 = 0;
  } else if (c == 0 && n == 61 * 8) { TENT* p = (TENT*)d; for (unsigned i = 0; i < 61 && i < TABW - 3; i++) p[i].f0.f0 = 0; }
  else { VP_ASSERT(n <= 64, "HARNESS: unexpected memset"); u8* p = (u8*)d; for (unsigned i = 0; i < n; i++) p[i] = (u8)c; }
  return d;
}
/* ---- driver */
static u8* idx_addr[MAXIDX];
static void check_state(const char* unused) {
  /* every constructed element keeps its value, stays constructed and stays in live storage */
  for (unsigned j = 0; j < MAXLOG; j++) if (j < n_log) {
    VP_ASSERT(in_live(log_addr[j]), "storage of a constructed element was released or lies outside the allocator's blocks");
    VP_ASSERT(vp_val_at((ELEM*)log_addr[j]) == log_val[j] && vp_state_at((ELEM*)log_addr[j]) == 1, "constructed element lost its value");
  }
  /* checked access to every claimed index (and one beyond): works (address in live storage, stable) or throws */
  u64 claimed = vp_claimed(&vec);
  for (u64 i = 0; i < MAXIDX; i++) if (i <= claimed + 2) {
    u8* p = vp_try_at(&vec, i);
    VP_ASSERT(vp_exc == 0, "exception pending after a catching caller");
    if (i >= claimed) { VP_ASSERT(p == 0, "at(i) with i >= size did not throw"); continue; }
    if (!p) continue;
    VP_ASSERT(in_live(p), "at(i) returned an address outside the storage handed out by the allocator");
    if (idx_addr[i]) VP_ASSERT(idx_addr[i] == p, "address of element i changed");
    for (u64 j = 0; j < MAXIDX; j++) if (j < i && idx_addr[j]) VP_ASSERT(idx_addr[j] != p, "at(i) and at(j) return the same slot for i != j");
    idx_addr[i] = p;
  }
  /* size() never counts an index whose segment is missing: operator[] below size() stays inside allocator storage */
  u64 sz = vp_size(&vec);
  VP_ASSERT(sz <= claimed, "size() beyond the claimed size");
  for (u64 i = 0; i < MAXIDX; i++) if (i < sz) {
    u8* q = vp_at(&vec, i);
    VP_ASSERT(in_live(q), "operator[](i) with i < size() addresses memory outside the storage handed out by the allocator");
    if (idx_addr[i]) VP_ASSERT(idx_addr[i] == q, "operator[] and at() disagree on the address of element i");
  }
}
static u32 do_op(int op, u64 arg, u32 val) {
  u32 r = op == 0 ? vp_op_gb(&vec, arg, val) : op == 1 ? vp_op_pb(&vec, val) : vp_op_gtal(&vec, arg, val);
  VP_ASSERT(vp_exc == 0, "exception pending after a catching caller");
  return r;
}
int main(void) {
  vp_vec_init(&vec);
  u32 v0 = (u32)vp_nd(), v1 = (u32)vp_nd(), v2 = (u32)vp_nd();   /* element values: symbolic data, never control */
#ifndef PMODE
#define PMODE 0                     /* pre-growth: 0 = PRE push_backs (first block = 1 segment), 1 = one grow_by(PRE) (first block sized for PRE) */
#endif
  if (PMODE == 1 && PRE > 0) VP_ASSERT(do_op(0, PRE, v0) == 0, "healthy grow_by threw");
  if (PMODE == 0) for (unsigned i = 0; i < PRE; i++) VP_ASSERT(do_op(1, 0, v0) == 0, "healthy push_back threw");
  check_state(0);
  unsigned log0 = n_log;
  /* OP1 with the fault */
  fault_kind = FK; fault_at = FAULTK;   /* concrete per query: symbolic k makes symex explode (diverging paths x loop unwinding) */ armed = 1;
  u32 r1 = do_op(OP1, ARG1, v1);
  armed = 0;
  VP_ASSERT(r1 == (n_faults != 0), "the injected exception must reach the caller of the failing call, and nothing else may throw");
  if (!n_faults && OP1 == 0) VP_ASSERT(n_log == log0 + ARG1, "grow_by without a fault did not construct delta elements");
  check_state(0);
  /* follow-up calls with a healthy allocator and non-throwing constructors: each one works or throws */
  unsigned logf = n_log;
  u32 r2 = do_op(OP2, ARG2, v2);
  if (!r2 && OP2 == 1) VP_ASSERT(n_log == logf + 1, "push_back returned normally without constructing its element");
  check_state(0);
  for (unsigned f = 0; f < NFOLLOW; f++) {
    unsigned l = n_log;
    u32 r = do_op(1, 0, v2 + 1 + f);
    VP_ASSERT(r || n_log == l + 1, "push_back returned normally without constructing its element");
    VP_ASSERT(!r || n_log == l, "push_back threw although it constructed its element");
  }
  check_state(0);
  /* destruction: every constructed element destroyed exactly once, every segment / table released exactly once */
  destroying = 1; vp_destroy(&vec);
  VP_ASSERT(vp_exc == 0, "destructor threw");
  for (unsigned j = 0; j < MAXLOG; j++) if (j < n_log) VP_ASSERT(d_count[j] == 1, "constructed element not destroyed exactly once by the destructor");
  for (unsigned b = 0; b < NBLK; b++) if (b < n_eb) VP_ASSERT(eb_freed[b], "segment leaked by the destructor");
  if (tb_used) VP_ASSERT(tb_freed, "long table leaked by the destructor");
  VP_REACHED();
  return 0;
}

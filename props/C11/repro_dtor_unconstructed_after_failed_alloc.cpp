// failed segment allocation inside grow_by: claimed-but-never-constructed slots are not zero-filled, the destructor destroys them
#include <oneapi/tbb/concurrent_vector.h>
#include <cstdio>
#include <cstring>
#include <string>
#include <new>
static int fail_at = -1, nalloc = 0;
template <typename T> struct A {
  using value_type = T; A() = default; template <typename U> A(const A<U>&) {}
  T* allocate(std::size_t n) { if (++nalloc == fail_at) throw std::bad_alloc(); void* p = ::operator new(n * sizeof(T)); std::memset(p, 0xAB, n * sizeof(T)); return static_cast<T*>(p); }
  void deallocate(T* p, std::size_t) { ::operator delete(p); }
  template <typename U> bool operator==(const A<U>&) const { return true; }
  template <typename U> bool operator!=(const A<U>&) const { return false; }
};
int main() {
  setvbuf(stdout, nullptr, _IONBF, 0);
  {
    tbb::concurrent_vector<std::string, A<std::string>> v;
    v.push_back("first");
    nalloc = 0; fail_at = 1;
    try { v.grow_by(4, std::string("x")); printf("grow_by returned\n"); } catch (std::bad_alloc&) { printf("grow_by threw bad_alloc, size()=%zu\n", v.size()); }
    fail_at = -1;
    printf("destroying the vector...\n");
  }
  printf("destroyed fine\n"); return 0;
}

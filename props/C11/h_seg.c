/* C11 full-width arithmetic: the real segment_index_of / segment_base / segment_size / is_first_element_in_segment /
 * number_of_elements_in_segment / iterator++ / grow_to_at_least range claim, every 64-bit input decided by the solver.
 * PART 1 point lemma, 2 tiling + round trip + monotone, 3 first block / embedded table / iterator step,
 * 4 number_of_elements_in_segment, 5 grow_to_at_least claims exactly [old,n) (internal_grow cut to a recorder) */
#include "w.h"
#include "vp.h"
u8* vp_alloc(u64 n) { return vpx_malloc(n); }
void vp_dealloc(u8* p, u64 n) { vpx_free(p); }
#define ITER struct S_class_tbb__detail__d1__vector_iterator
#define VEC struct S_class_tbb__detail__d1__concurrent_vector
static unsigned grow_calls; static u64 grow_s, grow_e;
/* contract stub of the cut internal_grow(start,end): records the claimed range; the iterator it returns is (vector, start, null) */
void _ZN3tbb6detail2d117concurrent_vectorI4Elem12vp_allocatorIS3_EE13internal_growIJEEENS1_15vector_iteratorIS6_S3_EEmmDpRKT_(ITER* ret, VEC* v, u64 s, u64 e) {
  grow_calls++; grow_s = s; grow_e = e;
  memset(ret, 0, sizeof(*ret)); ((u64*)ret)[1] = s;
}
VEC vec;
int main(void) {
#if PART == 1
  u64 i = vp_nd();
  u64 k = vp_index_of(i);
  VP_ASSERT(k < 64, "segment index outside the 64-entry long table");
  VP_ASSERT(vp_base(k) <= i, "index below the base of its segment");
  VP_ASSERT(i - vp_base(k) < vp_size(k), "index beyond the end of its segment");
  VP_ASSERT(vp_long_segments() == 64 && vp_embedded_segments() < 64, "table sizes");
#elif PART == 2
  u64 k = vp_nd_range(0, 63);
  u64 b = vp_base(k), sz = vp_size(k);
  VP_ASSERT(vp_base(0) == 0, "segment 0 does not start at index 0");
  VP_ASSERT(sz >= 1, "empty segment");
  if (k < 63) { VP_ASSERT(b + sz > b, "segment end overflows"); VP_ASSERT(b + sz == vp_base(k + 1), "gap or overlap between consecutive segments"); }
  else VP_ASSERT(b + sz == 0, "last segment does not end exactly at 2^64");
  u64 off = vp_nd(); __CPROVER_assume(off < sz);
  VP_ASSERT(vp_index_of(b + off) == k, "round trip (segment, offset) -> index -> segment fails");
  u64 i = vp_nd(), j = vp_nd(); __CPROVER_assume(i <= j);
  VP_ASSERT(vp_index_of(i) <= vp_index_of(j), "segment_index_of not monotone");
#elif PART == 3
  u64 i = vp_nd();
  u64 fb = vp_nd_range(1, 63);
  /* the first block (segments 0..fb-1 fused into one allocation of segment_size(fb) elements) holds exactly the indices of those segments */
  VP_ASSERT((i < vp_size(fb)) == (vp_index_of(i) < fb), "first block of segment_size(fb) elements does not cover exactly segments 0..fb-1");
  VP_ASSERT(vp_size(fb) == vp_base(fb), "first block size differs from the base of the first separate segment");
  VP_ASSERT((i < vp_embedded_size()) == (vp_index_of(i) < vp_embedded_segments()), "embedded_table_size is not the index range of the embedded segments");
  VP_ASSERT((vp_is_first(i) != 0) == (vp_base(vp_index_of(i)) == i), "is_first_element_in_segment(i) differs from i == segment_base(segment_index_of(i))");
#elif PART == 6
  /* iterators carry a cached element pointer (push_back/grow_by return such iterators). Stepping may keep the cache
     (item+1 / item-1) only if the neighbour index lives in the same segment: segments are separate allocations */
  u64 i = vp_nd();
  if (i != ~(u64)0 && vp_iter_step_keeps_item(i))
    VP_ASSERT(vp_index_of(i) == vp_index_of(i + 1), "iterator++ keeps its cached element pointer across a segment boundary");
  if (i != ~(u64)0 && vp_index_of(i) == vp_index_of(i + 1))
    VP_ASSERT(vp_iter_step_keeps_item(i), "iterator++ drops its cached element pointer inside a segment");
  if (i != 0 && vp_iter_dec_keeps_item(i))
    VP_ASSERT(vp_index_of(i) == vp_index_of(i - 1), "iterator-- keeps its cached element pointer across a segment boundary (dangling element address)");
#elif PART == 4
  u64 s = vp_nd(), k = vp_nd_range(0, 62);
  vp_vec_init(&vec); vp_set_size(&vec, s);
  u64 lo = vp_base(k), hi = lo + vp_size(k);
  u64 expect = s <= lo ? 0 : (s < hi ? s : hi) - lo;
  VP_ASSERT(vp_nelem(&vec, k) == expect, "number_of_elements_in_segment differs from |segment range intersected with [0,size)|");
#elif PART == 5
  u64 s = vp_nd(), n = vp_nd();
  __CPROVER_assume(s <= ((u64)1 << 63) && n <= ((u64)1 << 63));
  vp_vec_init(&vec); vp_fake_long_table(&vec); vp_set_size(&vec, s);
  u64 r = vp_gtal(&vec, n);
  if (n == 0) { VP_ASSERT(grow_calls == 0 && vp_get_size(&vec) == s && r == 0, "grow_to_at_least(0) is not a no-op"); }
  else if (s < n) {
    VP_ASSERT(grow_calls == 1, "grow_to_at_least(n) with size < n did not construct the missing elements (internal_grow not called)");
    VP_ASSERT(grow_s == s && grow_e == n, "grow_to_at_least claimed a range other than [old size, n)");
    VP_ASSERT(vp_get_size(&vec) == n, "size after grow_to_at_least(n) is not n");
    VP_ASSERT(r == s, "returned iterator does not point at the old size");
  } else {
    VP_ASSERT(grow_calls == 0, "grow_to_at_least(n) with size >= n claimed a range");
    VP_ASSERT(vp_get_size(&vec) == s, "grow_to_at_least(n) with size >= n changed the size");
  }
#endif
  VP_REACHED();
}

// at(i) after the allocation of the long segment table failed: number_of_segments(table) < seg_index lets seg_index == 3 through on the
// 3-entry embedded table; table[3] aliases my_first_block (2 here), looks like a valid segment, at(8) returns ((T*)2) + 8
#include <oneapi/tbb/concurrent_vector.h>
#include <cstdio>
#include <new>
static bool fail_tables = false;
template <typename T> struct A {
  using value_type = T; A() = default; template <typename U> A(const A<U>&) {}
  T* allocate(std::size_t n) { if (fail_tables && sizeof(T) == sizeof(void*) && n == 64) throw std::bad_alloc(); return static_cast<T*>(::operator new(n * sizeof(T))); }
  void deallocate(T* p, std::size_t) { ::operator delete(p); }
  template <typename U> bool operator==(const A<U>&) const { return true; }
  template <typename U> bool operator!=(const A<U>&) const { return false; }
};
struct E { long v[2]; };                          // not pointer-sized, so that only the table allocation matches above
int main() {
  setvbuf(stdout, nullptr, _IONBF, 0);
  tbb::concurrent_vector<E, A<E>> v;
  v.grow_by(4);                                   // first block = 2 segments, embedded table
  fail_tables = true;
  try { v.grow_by(8); } catch (std::bad_alloc&) { printf("grow_by(8) threw bad_alloc\n"); }
  try { E& e = v.at(8); printf("at(8) returned %p (no segment holds index 8) -> reading it\n", (void*)&e); printf("%ld\n", e.v[0]); }
  catch (std::exception& x) { printf("at(8) threw %s (expected)\n", x.what()); return 0; }
  return 1;
}

// after a failed segment allocation inside grow_by, later push_backs: throw, throw, throw, then HANG in allocate_long_table?
#include <oneapi/tbb/concurrent_vector.h>
#include <cstdio>
#include <csignal>
#include <unistd.h>
#include <new>
static int fail_at = -1, nalloc = 0;
template <typename T> struct A {
  using value_type = T; A() = default; template <typename U> A(const A<U>&) {}
  T* allocate(std::size_t n) { if (++nalloc == fail_at) throw std::bad_alloc(); return static_cast<T*>(::operator new(n * sizeof(T))); }
  void deallocate(T* p, std::size_t) { ::operator delete(p); }
  template <typename U> bool operator==(const A<U>&) const { return true; }
  template <typename U> bool operator!=(const A<U>&) const { return false; }
};
static void on_alarm(int) { const char m[] = "HANG: push_back never returns (allocate_long_table waits for a segment that was skipped by the failed grow_by)\n"; write(1, m, sizeof m - 1); _exit(2); }
int main() { setvbuf(stdout, nullptr, _IONBF, 0);
  tbb::concurrent_vector<int, A<int>> v;
  v.push_back(1);
  nalloc = 0; fail_at = 1;                         // the next segment allocation fails (the eagerly allocated last segment of grow_by)
  try { v.grow_by(4, 7); printf("grow_by returned\n"); } catch (std::bad_alloc&) { printf("grow_by threw bad_alloc, size()=%zu\n", v.size()); }
  fail_at = -1;                                    // allocator healthy again
  std::signal(SIGALRM, on_alarm); alarm(5);
  for (int i = 0; i < 5; i++) {
    try { v.push_back(9); printf("push_back %d ok, size()=%zu\n", i, v.size()); }
    catch (std::exception& e) { printf("push_back %d threw %s\n", i, e.what()); }
  }
  printf("done\n"); return 0;
}

// grow_to_at_least(n): "int delta = static_cast<int>(new_size) - static_cast<int>(old_size)" truncates to 32 bits
#include <oneapi/tbb/concurrent_vector.h>
#include <cstdio>
#include <csignal>
#include <unistd.h>
static void on_alarm(int) { const char m[] = "HANG: grow_to_at_least(2^31) on an empty vector never returns (waits for segments nobody allocates)\n"; write(1, m, sizeof m - 1); _exit(2); }
int main(int argc, char** argv) {
  const std::size_t n = std::size_t(1) << 31;
  if (argc > 1) {                       // variant A: no reserve -> spins forever
    std::signal(SIGALRM, on_alarm); alarm(10);
    tbb::concurrent_vector<char> v;
    v.grow_to_at_least(n, 'x');
    std::printf("returned, size=%zu v[0]=%d\n", v.size(), v[0]); return 0;
  }
  tbb::concurrent_vector<char> v;       // variant B: segments pre-allocated by reserve -> returns without constructing anything
  v.reserve(n);
  v.grow_to_at_least(n, 'x');
  std::printf("size=%zu v[0]=%d v[12345]=%d (expected %d)\n", v.size(), v[0], v[12345], 'x');
  return v[0] == 'x' && v[12345] == 'x' ? 0 : 1;
}

PROPERTY = 'C11'
def seg_of(i): return (i | 1).bit_length() - 1
def seg_size(k): return 2 if k == 0 else 1 << k
def seg_base(k): return (1 << k) & ~1
def caps(pre, pmode, maxgrow):
    """pool sizes (elements) for a scenario: PRECAP for the sequential pre-growth, ECAP per thread (upper bounds)"""
    if pre == 0: precap = 0
    elif pmode == 0: precap = 2 + sum(seg_size(k) for k in range(1, seg_of(pre - 1) + 1))
    else: precap = seg_size(seg_of(pre - 1) + 1)
    last = pre + maxgrow - 1
    ecap = sum(seg_size(k) for k in range(1, seg_of(last) + 1) if seg_base(k) >= pre)
    if pre == 0: ecap += seg_size(seg_of(last) + 1)      # first-block candidate
    return {'PRECAP': max(precap, 1), 'ECAP': max(ecap, 1), 'PAD': seg_base(seg_of(last))}
def sc2(pre, pmode, maxgrow, **kw):
    d = {'PRE': pre, 'PMODE': pmode}; d.update(caps(pre, pmode, maxgrow)); d.update(kw); return d
# cuts: spin_wait_while_eq (generic busy-wait utility of _utils.h) -> contract stub that parks the thread until the location
# differs (VP_BLOCK); in the "no table" units every index stays below the embedded-table limit (8), so
# extend_table_if_necessary (a no-op there by its first condition) and allocate_long_table are cut to stubs asserting that
SPIN_CUT = ['18spin_wait_while_eqIP']
NT_CUT = SPIN_CUT + ['allocate_long_table', '25extend_table_if_necessaryERPSt6atomicIPS3_Emm']
UNITS = {
  'seg': dict(wrapper='w_seg.cpp', mode='seq', selftest=True, cut=['13internal_growI']),
}
UNITS['fault'] = dict(wrapper='w_fault.cpp', mode='seq', exceptions=True, ptratomics=True, prune=True, ptrcmp=True, ptrtag=True, cut=['14atomic_backoff5pauseEv'])
KIND = {'gb': 0, 'pb': 1, 'gtal': 2, 'gtalw': 2}
def unit(kinds, table, K=None):
    """thread unit for a tuple of operation kinds; table=False: scenarios stay below index 8 (NT_CUT), True: real table extension"""
    name = '_'.join(kinds) + ('_lt' if table else '_nt') + ('_k%d' % K if K else '')
    if name not in UNITS:
        th = {}; sfx = 'abc'
        for i, k in enumerate(kinds): th.setdefault('vp_thr_' + k, []).append(sfx[i])
        UNITS[name] = dict(wrapper='w_grow.cpp', mode='lcs', unroll=(K or (4 if table else 1)), force_unroll=bool(table or K), threads=th, cut=(SPIN_CUT if table else NT_CUT) + (['13internal_growIJEEE', 'EE8capacityEv'] if 'gtalw' in kinds else []))
    return name
def grow(name, kinds, table, rounds, scen, tiers=('quick', 'thorough'), timeout=900, K=None, **kw):
    sfx = 'abc'
    d = {'NT': len(kinds), 'ROUNDS': rounds, 'memset': 'vp_memset'}
    for i, k in enumerate(kinds):
        d['T' + sfx[i].upper()] = 'vp_thr_%s_%s' % (k, sfx[i]); d['K' + sfx[i].upper()] = KIND[k]
    if not table: d['NOLONG'] = 1
    if 'gtalw' in kinds: d['GTALW_CUT'] = 1
    h = dict(name=name, unit=unit(kinds, table, K), harness='h_grow.c', defines=d, scenarios=scen, tiers=list(tiers), timeout=timeout,
             cbmc=['--unwind', '66', '--object-bits', '10'], mem_gb=8, native_cflags=['-fno-sanitize=null'],
             desc='%s on one vector, %d free round-robin rounds + 2 forced rounds; %s' % (' || '.join(kinds), rounds,
                  'indices stay below the embedded-table limit' if not table else 'crossing the embedded-table limit (real extend_table_if_necessary / allocate_long_table)'),
             bounds={'threads': len(kinds), 'free_rounds': rounds if 'scenarios_thorough' not in kw else '%d quick / 3 thorough' % rounds, 'forced_rounds': 2,
                     'llvm_unroll': K or (4 if table else 1), 'grow_by delta': ('1..3' if any(x.get('MIND') for x in scen) else '0..3') + ' symbolic' if 'gb' in kinds else 'n/a',
                     'grow_to_at_least n': 'max(PRE-1,0)..PRE+3 symbolic' if 'gtal' in kinds else 'n/a',
                     'pre-grown (size, mode 0=push_backs 1=one grow_by)': sorted(set((x['PRE'], x['PMODE']) for x in scen))})
    if len(kinds) == 1: h['desc'] = 'one thread alone (no interleaving): ' + kinds[0] + ' after a sequential pre-growth, real table extension; loops unrolled by LLVM, symbolic delta'
    h.update(kw)
    return h
HARNESSES = [
  dict(name='seg_arith', unit='seg', harness='h_seg.c', scenarios=[{'PART': k} for k in (1, 2, 3, 4)], cbmc=['--unwind', '4'], timeout=300,
       desc='segment_index_of/segment_base/segment_size/is_first_element_in_segment/number_of_elements_in_segment at full width: PART1 every index lies in its segment, k<64; PART2 segments tile [0,2^64) without gap/overlap, round trip, monotone; PART3 first-block and embedded-table formulas; PART4 elements per segment for every size',
       bounds={'index/size': 'all 2^64 values', 'segment': '0..63 (PART4: 0..62)', 'loops': 'none'}),
  dict(name='iter_step', unit='seg', harness='h_seg.c', scenarios=[{'PART': 6}], cbmc=['--unwind', '4'], timeout=300,
       desc='vector_iterator operator++/-- with a cached element pointer (as returned by push_back/grow_by): the cache survives a step only inside one segment',
       bounds={'index': 'all 2^64 values'}),
  dict(name='gtal_claim', unit='seg', harness='h_seg.c', scenarios=[{'PART': 5}], cbmc=['--unwind', '70'], timeout=900,
       desc='internal_grow_to_at_least from any claimed size: size<n => exactly one internal_grow(size,n) and size becomes n, else no claim (internal_grow cut to a recorder, pre-state with every segment < 63 allocated)',
       bounds={'size, n': 'every value 0..2^63', 'cut': 'internal_grow'}),
]
HARNESSES += [
  grow('single_gb', ('gb',), True, 0, [sc2(p, m, 3, MIND=1, TABW=8, PROBE=0) for p, m in ((6, 0), (7, 1))], K=3, tiers=('thorough',), timeout=3600),
  grow('single_pb', ('pb',), True, 0, [sc2(p, m, 1, TABW=8, PROBE=0) for p, m in ((7, 0), (7, 1), (8, 0), (8, 1))], K=4),
] + [grow('pb2_p%d' % p, ('pb', 'pb'), False, 2, [sc2(p, 0, 2, **({'PROBE': 0} if p else {}))], scenarios_thorough=[sc2(p, 0, 2, ROUNDS=3, **({'PROBE': 0} if p else {}))], timeout=1800,
          tiers=(('quick', 'thorough') if p in (0, 2) else ('thorough',))) for p in (0, 1, 2, 3)] + [   # quick keeps the two pb2 queries that catch M1/M6 (p0) and M4/M5 (p2)
  # first block of 2 segments being published by T0 (grow_by(3) on an empty vector) while T1's grow_to_at_least(n<=3) only waits
  grow('fb_wait', ('gb', 'gtalw'), False, 2, [sc2(0, 0, 4, MIND=3, MAXD=3, GTALN=3, FIRSTA=1)], scenarios_thorough=[sc2(0, 0, 4, MIND=3, MAXD=3, GTALN=n, FIRSTA=1) for n in (2, 3)],
       desc='first block of 2 segments being published by thread A (grow_by(3) on an empty vector: CAS of table[0], then the stores to table[1]) while thread B calls grow_to_at_least(n <= 3) and only waits (A claims first; B\'s growth branch and capacity() are cut): at B\'s return every segment below n is published and every element below n constructed or under construction by A', native_cflags=['-fno-sanitize=null,pointer-overflow']),
  grow('fb_extend', ('gb', 'gtal'), False, 2, [sc2(0, 0, 8, MIND=3, MAXD=4, GTALN=4)], tiers=('thorough',), timeout=3600, native_cflags=['-fno-sanitize=null,pointer-overflow']),
  grow('pb3', ('pb', 'pb', 'pb'), False, 1, [sc2(p, 0, 3, **({'PROBE': 0} if p else {})) for p in (0, 1, 2)], tiers=('thorough',), timeout=3600),
  grow('gb_gb', ('gb', 'gb'), False, 1, [sc2(p, 0, 6, **({'PROBE': 0} if p else {})) for p in (0, 2)], tiers=('thorough',), timeout=3600),
  grow('pb_gb', ('pb', 'gb'), False, 2, [sc2(p, m, 4, **({'PROBE': 0} if p else {})) for p, m in ((0, 0), (1, 0), (3, 0), (3, 1))], tiers=('thorough',), timeout=3600),
  grow('pb2_table', ('pb', 'pb'), True, 1, [sc2(7, 0, 2, PROBE=0, TABW=8), sc2(8, 0, 2, PROBE=0, TABW=8), sc2(7, 1, 2, PROBE=0, TABW=8)], tiers=('thorough',), timeout=3600),
  grow('gtal_pb', ('gtal', 'pb'), False, 1, [sc2(1, 0, 4, PROBE=0), sc2(0, 0, 4)], tiers=('thorough',), timeout=3600),
]
def fsc(pre, op1, a1, fk, k, op2='pb', a2=0, nfollow=9, cap=64, maxidx=26, **kw):
    d = dict(PRE=pre, OP1=KIND[op1], ARG1=a1, FK=fk, FAULTK=k, OP2=KIND[op2], ARG2=a2, NFOLLOW=nfollow, CAP=cap, MAXIDX=maxidx, TABW=64); d.update(kw); return d
# scenario groups. fault_seq: must pass on the current tree. fault_ctor_cleanup / fault_hang / fault_dtor: each fails on the current tree
# with exactly one stable "fault:" assertion text (three open defects of oneTBB, see NOTES.md) - separate harness NAMES so that the
# known-finding entries (matched by harness + text) can never mask a new failure of a scenario that passes today.
FAULT_PASS = (
  [fsc(1, 'gb', 6, 1, k) for k in (0, 2, 3, 4, 5, 6)] + [fsc(1, 'gb', 10, 1, k) for k in (4, 5, 8, 10)] + [fsc(0, 'gb', 3, 1, k) for k in (1, 2, 3)] +
  [fsc(p, 'pb', 0, 1, 1) for p in (0, 1, 2, 4, 8)] + [fsc(1, 'gtal', 6, 1, k) for k in (2, 4, 5)] + [fsc(3, 'gb', 6, 1, k, op2='gb', a2=2) for k in (2, 6)] +
  [fsc(0, 'gb', 3, 0, 1), fsc(0, 'pb', 0, 0, 1), fsc(2, 'pb', 0, 0, 1), fsc(4, 'pb', 0, 0, 1), fsc(8, 'pb', 0, 0, 1), fsc(8, 'pb', 0, 0, 2)] +
  [fsc(2, 'gb', 2, 0, 1), fsc(4, 'gb', 4, 0, 1), fsc(2, 'gb', 2, 0, 1, op2='gtal', a2=6), fsc(4, 'gb', 4, 0, 1, op2='gb', a2=3), fsc(2, 'gtal', 4, 0, 1)])
FAULT_F1 = [fsc(1, 'gb', 6, 1, 1)] + [fsc(1, 'gb', 10, 1, k) for k in (1, 2, 3)] + [fsc(1, 'gtal', 6, 1, 1), fsc(3, 'gb', 6, 1, 1, op2='gb', a2=2)]
FAULT_F2 = [fsc(1, 'gb', 4, 0, 1), fsc(1, 'gb', 4, 0, 1, op2='gtal', a2=3), fsc(1, 'gb', 4, 0, 1, op2='gb', a2=2), fsc(1, 'gtal', 5, 0, 1)]
FAULT_F3 = [fsc(1, 'gb', 4, 0, 2)] + [fsc(1, 'gb', 10, 0, k) for k in (1, 2, 3, 4)] + [fsc(1, 'gtal', 5, 0, 2), fsc(3, 'gb', 2, 0, 1, op2='gb', a2=6)]
# at() / size() / operator[] after the allocation of the LONG segment table failed, with a first block of >= 2 segments (pre-growth by one grow_by)
FAULT_AT = [fsc(4, 'gb', 8, 0, 1, PMODE=1), fsc(8, 'pb', 0, 0, 1, PMODE=1), fsc(4, 'gtal', 12, 0, 1, PMODE=1), fsc(8, 'gb', 4, 0, 1, PMODE=1)]
def fharness(name, scen, what):
    return dict(name=name, unit='fault', harness='h_fault.c', defines={'memset': 'vp_memset'}, scenarios=scen, timeout=300, native_cflags=['-fno-sanitize=null'],
                cbmc=['--unwind', '66', '--object-bits', '10', '--max-field-sensitivity-array-size', '256'],
                desc='single thread, unit compiled WITH exceptions: PRE healthy push_backs; one growth call in which the k-th allocation fails or the k-th element copy throws (operation, delta/n, k concrete per query; element values symbolic); checked reads of every claimed index; a healthy follow-up growth call + 9 push_backs; reads; destruction. ' + what,
                bounds={'operations': 'push_back / grow_by(2..10) / grow_to_at_least(4..6) after 0..8 elements', 'fault': 'every listed (kind, k) pair, one per query', 'indices': '< 26 (segments 0..4, long table included)'})
HARNESSES += [
  fharness('fault_seq', FAULT_PASS, 'Oracle: the injected exception reaches exactly the failing caller; every access stays inside storage handed out by the allocator stub; at(i) works or throws; follow-up calls work or throw and never wait; constructed elements keep value and address; each constructed element destroyed exactly once, every block freed exactly once.'),
  fharness('fault_at_table', FAULT_AT, 'Checked and unchecked element access after the allocation of the long segment table failed (table stays embedded, size claimed beyond it).'),
  fharness('fault_ctor_cleanup', FAULT_F1, 'KNOWN DEFECT scenarios: the clean-up guard of internal_loop_construct zero-fills slots of segments that were never allocated.'),
  fharness('fault_hang', FAULT_F2, 'KNOWN DEFECT scenarios: after a failed eager allocation of the last segment the skipped segments stay nullptr; later calls wait for them forever.'),
  fharness('fault_dtor', FAULT_F3, 'KNOWN DEFECT scenarios: after a failed allocation claimed slots are neither constructed nor zero-filled; the destructor destroys them.'),
]
MANIFEST = dict(
  level_text='Bounded symbolic execution of the real concurrent_vector / segment_table code. Full width (every 64-bit index / size, SAT-decided): segment_index_of/base/size tile the index space and round-trip, first-block and embedded-table formulas, number_of_elements_in_segment, iterator ++/-- cache validity, grow_to_at_least claims exactly [old size, n). Thread mode (Lazy-CSeq encoding, solver-owned schedules): 2-3 threads running real push_back / grow_by / grow_to_at_least on one pre-grown vector: returned ranges disjoint and tiling [old size, size), every element constructed exactly once with the requested value inside a live allocated segment, element addresses stable, no call waits forever. Fault injection (sequential, exceptions on): after a failed allocation or a throwing element constructor every access stays inside allocator storage, later calls work or throw, constructed elements keep value/address and are destroyed exactly once.',
  level_note='Bounds per harness in evidence (threads, rounds, deltas 0..3, pre-grown sizes <= 8, indices < 16). Cuts: spin_wait_while_eq -> contract stub (park until changed); units named *_nt stay below the embedded-table limit and cut the table extension to asserting stubs; *_lt units run the real extend_table_if_necessary/allocate_long_table. Allocation = stub with ghost size bookkeeping, never failing in the thread-mode units (compiled -fno-exceptions). Fault clause: single-threaded harnesses fault_* compiled WITH exceptions (failing k-th allocation / throwing k-th element copy, follow-up calls, reads, destruction); three open oneTBB defects in that area are isolated in the harnesses fault_ctor_cleanup / fault_hang / fault_dtor (known findings). Trusted: clang-14 IR, tools/ir2c.py (selftest differential for the sequential unit), cbmc.',
)
OUTSIDE = [
  'faults under concurrency (the fault harnesses are single-threaded; the thread-mode units are compiled with -fno-exceptions); fault positions and operation sizes other than the enumerated ones (k, delta, n are concrete per query: a symbolic k made symex explode); more than one fault per run; throwing move constructors / iterator-range grow_by / copy- and move-construction of whole vectors',
  'more than 3 threads, more than one growth call per thread, deltas > 3 (5 in the single-thread harness), pre-grown sizes > 8, indices >= 16 in thread mode',
  'concurrent growth with sizes >= 2^31 / 2^32 other than through the full-width arithmetic lemmas and the grow_to_at_least claim lemma',
  'segment 63 (indices >= 2^63): number_of_elements_in_segment overflows there; such a segment can never be allocated',
  'the literal property text "grow_to_at_least returns only when all elements below n are constructed": the code and its documentation only promise allocated; encoded is constructed-or-under-construction-by-a-running-call (see NOTES.md)',
  'reserve/shrink_to_fit/resize/clear/copy/move/swap; iterators other than ++/-- cache validity; non-TSO weak memory (sequential consistency assumed)',
  'interleavings inside spin_wait_while_eq back-off (cut to its contract)',
  'table extension racing with a still-unpublished embedded segment (allocate_long_table waiting for segment 2 while its owner allocates): needs a call spanning indices 5..8 from size 4; the *_lt thread units only run push_back from 7/8 pre-grown elements (mutation M8 in NOTES.md is therefore missed)',
]
STUBS = [
  'fb_wait: the waiting thread runs the value-less grow_to_at_least(n); its growth branch internal_grow<>() is cut (paths in which it would grow are dropped by assume, thread A claims first) and capacity() is a constant stub (feeds only the index of the returned iterator, not checked for that thread)',
  'fault_* harnesses: allocator stub that throws on the k-th allocation; Elem copy constructor observer that throws on the k-th construction; fresh blocks are poisoned so that never-constructed slots are recognisable; r1::throw_exception throws (contract); atomic_backoff::pause cut to a stub asserting that a single thread never has to wait; exceptions thrown from static objects (so that symex folds the pending-exception flag)',
  'vp_allocator<T>::allocate/deallocate -> vp_alloc_elem/vp_alloc_tab: fresh block of exactly the requested bytes from a static per-thread pool, never fails; deallocate checks pointer/size/double free',
  'spin_wait_while_eq(location, value): returns the content once it differs from value, parks the calling model thread (VP_BLOCK) while equal',
  '*_nt units: extend_table_if_necessary / allocate_long_table -> stubs asserting the call is unnecessary (end_index <= 8)',
  'gtal_claim: internal_grow(start,end) -> recorder returning iterator(start)',
  'memset (allocate_long_table zero fill via LLVM loop idiom) -> typed model clipped to the backed table entries',
  'sched_yield/pause: scheduling hints (no-op); r1::throw_exception: unreachable in the checked paths (no body => inconclusive if reached)',
]
ASSUMPTIONS = [
  'allocator never fails and returns distinct live blocks',
  'grow_to_at_least arithmetic lemma: size, n <= 2^63 (larger vectors are not addressable)',
  'a long table backed by TABW < 64 entries in scenarios whose indices stay below 2^TABW (any access beyond is reported by cbmc, not ignored)',
]

#include <oneapi/tbb/concurrent_vector.h>
#include <cstdio>
int main() {
  tbb::concurrent_vector<int> v;
  for (int i = 0; i < 4; i++) v.push_back(100 + i);
  auto it = v.push_back(104);          // iterator to index 4 (first element of segment 2), element pointer cached
  --it;                                 // should now refer to v[3]
  int* p = &*it;
  std::printf("&*it=%p &v[3]=%p  *it=%d v[3]=%d  -> %s\n", (void*)p, (void*)&v[3], *p, v[3], p == &v[3] ? "ok" : "WRONG ELEMENT ADDRESS");
  return p == &v[3] ? 0 : 1;
}

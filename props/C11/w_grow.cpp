// C11 thread-mode wrapper: real concurrent_vector<Elem> growth operations as thread bodies.
// Allocation goes through a trivial allocator type to the harness stub vp_alloc (malloc contract); Elem's constructors
// report every construction (address, value) to the harness observer vp_constructed.
#include <cstddef>
#include <type_traits>
struct Elem;
extern "C" void* vp_alloc_elem(unsigned long bytes);                    // element segments
extern "C" void vp_dealloc_elem(void* p, unsigned long bytes);
extern "C" void* vp_alloc_tab(unsigned long bytes);                     // long segment table
extern "C" void vp_dealloc_tab(void* p, unsigned long bytes);
extern "C" void vp_constructed(void* addr, int val);
extern "C" void vp_ret(int tid, unsigned long index, void* addr);      // a growth call returned iterator (index, &*it)
extern "C" void vp_gtal_done(int tid, unsigned long n);                 // grow_to_at_least(n) returned
extern "C" void vp_sample(int tid, unsigned long index, void* addr);    // address of an existing element seen by a thread
template <typename T> struct vp_allocator {
  using value_type = T;
  vp_allocator() = default;
  template <typename U> vp_allocator(const vp_allocator<U>&) {}
  T* allocate(std::size_t n) { return static_cast<T*>(std::is_same<T, Elem>::value ? vp_alloc_elem(n * sizeof(T)) : vp_alloc_tab(n * sizeof(T))); }
  void deallocate(T* p, std::size_t n) { if (std::is_same<T, Elem>::value) vp_dealloc_elem(p, n * sizeof(T)); else vp_dealloc_tab(p, n * sizeof(T)); }
  template <typename U> bool operator==(const vp_allocator<U>&) const { return true; }
  template <typename U> bool operator!=(const vp_allocator<U>&) const { return false; }
};
#include "oneapi/tbb/concurrent_vector.h"
struct Elem {
  int v;
  struct quiet {};
  Elem(int x, quiet) : v(x) {}                                   // prototype value, not an element of the vector
  Elem(const Elem& o) : v(o.v) { vp_constructed(this, v); }      // every element construction inside the vector
  Elem() : v(-1) { vp_constructed(this, -1); }
};
using V = tbb::concurrent_vector<Elem, vp_allocator<Elem>>;
using B = V::base_type;
extern "C" {
unsigned long vp_sizeof_vec() { return sizeof(V); }
void vp_vec_init(V* v) { new (v) V(); }
// sequential pre-growth: mode 0 = n push_backs (first block = 1 segment), mode 1 = one grow_by(n) (first block sized for n)
void vp_pregrow(V* v, unsigned long n, int mode, int val) {
  Elem proto(val, Elem::quiet{});
  if (mode == 0) { for (unsigned long i = 0; i < n; i++) v->push_back(proto); }
  else if (n) v->grow_by(n, proto);
}
unsigned long vp_vsize(V* v) { return v->size(); }
unsigned long vp_claimed(V* v) { return v->my_size.load(std::memory_order_relaxed); }
void* vp_at(V* v, unsigned long i) { return &(*v)[i]; }
int vp_val(V* v, unsigned long i) { return (*v)[i].v; }
unsigned vp_table_is_long(V* v) { return v->my_segment_table.load(std::memory_order_relaxed) != v->my_embedded_table; }
unsigned long vp_first_block(V* v) { return v->my_first_block.load(std::memory_order_relaxed); }
void vp_destroy(V* v) { v->~V(); }

// ---- thread bodies (all: vector, thread id, argument, index of an already existing element to sample or ~0)
void vp_thr_gb(V* v, int tid, unsigned long delta, unsigned long probe) {
  Elem proto(100 + tid, Elem::quiet{});
  auto it = v->grow_by(delta, proto);
  vp_ret(tid, it.my_index, delta ? (void*)&*it : nullptr);
  if (probe != ~0ul) vp_sample(tid, probe, &(*v)[probe]);
}
void vp_thr_pb(V* v, int tid, unsigned long unused, unsigned long probe) {
  Elem proto(100 + tid, Elem::quiet{});
  auto it = v->push_back(proto);
  vp_ret(tid, it.my_index, (void*)&*it);
  if (probe != ~0ul) vp_sample(tid, probe, &(*v)[probe]);
}
// wait-only variant: grow_to_at_least(n) WITHOUT a value (default construction) so that its internal_grow<> instantiation differs from
// grow_by(delta, value)'s and can be cut: the unit then contains only the "size >= n already: wait for the segments" path of this thread
void vp_thr_gtalw(V* v, int tid, unsigned long n, unsigned long probe) {
  auto it = v->grow_to_at_least(n);
  vp_gtal_done(tid, n);
  vp_ret(tid, it.my_index, nullptr);
  if (probe != ~0ul) vp_sample(tid, probe, &(*v)[probe]);
}
void vp_thr_gtal(V* v, int tid, unsigned long n, unsigned long probe) {
  Elem proto(100 + tid, Elem::quiet{});
  auto it = v->grow_to_at_least(n, proto);
  vp_gtal_done(tid, n);
  vp_ret(tid, it.my_index, nullptr);
  if (probe != ~0ul) vp_sample(tid, probe, &(*v)[probe]);
}
}
// ---- sequential operation (seq units): op t of a concrete operation sequence, same observers as the thread bodies
extern "C" void vp_seq_op(V* v, int t, int kind, unsigned long arg) {
  Elem proto(100 + t, Elem::quiet{});
  if (kind == 0) { auto it = v->grow_by(arg, proto); vp_ret(t, it.my_index, arg ? (void*)&*it : nullptr); }
  else if (kind == 1) { auto it = v->push_back(proto); vp_ret(t, it.my_index, (void*)&*it); }
  else { auto it = v->grow_to_at_least(arg, proto); vp_gtal_done(t, arg); vp_ret(t, it.my_index, nullptr); }
}
extern "C" unsigned vp_seg_allocated(V* v, unsigned long i) {   // is the segment holding index i published (non-null, not the failure tag)?
  auto table = v->my_segment_table.load(std::memory_order_relaxed);
  unsigned long k = B::segment_index_of(i);
  if (k >= v->number_of_segments(table)) return 0;
  return table[k].load(std::memory_order_relaxed) > v->segment_allocation_failure_tag;
}

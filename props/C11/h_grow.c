/* C11 growth under concurrency: NT threads run real concurrent_vector growth calls on one vector that was pre-grown
 * sequentially to PRE elements (PMODE 0: push_backs, 1: one grow_by). Kinds KA/KB/KC: 0 grow_by(delta in 0..3 symbolic),
 * 1 push_back, 2 grow_to_at_least(n symbolic). The solver owns the schedule (ROUNDS free round-robin rounds + 2 forced),
 * deltas / n.  Oracles: see the assertions. */
#include "w.h"
#include "vp.h"
#define VEC struct S_class_tbb__detail__d1__concurrent_vector
VEC vec;
#define CAT_(a, b) a##b
#define CAT(a, b) CAT_(a, b)
#define MAXPRE 8
#ifndef MAXD
#define MAXD 3                      /* largest delta of a grow_by */
#endif
#define MAXPER (MAXD + 1)
#define MAXSZ (PRE + MAXD * NT)
/* allocator contract: a fresh block of exactly n bytes, never fails here. Blocks are bump-allocated from small static
   typed pools, one per model thread (+1 for the sequential phase), sized per scenario by spec.py (ECAP/PRECAP elements,
   EPT blocks): cbmc's cost grows with the size of every object a stored-to pointer may address, and malloc'ed objects per
   call site and replayed step are intractable. The requested size is ghost state: the oracles check that every element
   lies inside the requested bytes of a live block. */
#define NSL (NT + 1)
#ifndef TABW
#define TABW 64
#endif
#ifndef EPT
#define EPT 2                       /* element blocks per slot */
#endif
#if PRECAP > ECAP
#define POOLW PRECAP
#else
#define POOLW ECAP
#endif
static int started;
/* pools are declared with the generated types of what the real code stores there, so that cbmc sees well-typed accesses */
#define ELEM struct S_struct_Elem
#define TENT struct S_struct_std__atomic_0      /* std::atomic<Elem*>: one segment-table entry */
/* PAD: the real code stores `segment - segment_base(k)` in the table; blocks start PAD elements into their pool object so
   that this shifted pointer stays inside the object (cbmc mixes integer and pointer arithmetic badly across objects) */
#ifndef PAD
#define PAD 0
#endif
static ELEM epool[NSL][PAD + POOLW]; static unsigned e_used[NSL];
static unsigned eb_off[NSL][EPT + 3]; static u64 eb_req[NSL][EPT + 3]; static u8 eb_freed[NSL][EPT + 3]; static unsigned n_eb[NSL];
#define NBLK(s) ((s) == NT ? EPT + 3 : EPT)
#ifdef SEQ
#define vp_cur_slot NT
#endif
#ifdef SEQ
static unsigned slot(void) { return NT; }
#else
static unsigned slot(void) { return started ? vp_cur : NT; }
#endif
u8* vp_alloc_elem(u64 n) {
  unsigned s = slot(), cap = (s == NT ? PRECAP : ECAP);
  VP_ASSERT(n >= 4 && n % 4 == 0 && n <= 4 * 16, "segment allocation of a size no bounded scenario should request");
  VP_ASSERT(n_eb[s] < NBLK(s) && e_used[s] + n / 4 <= cap, "HARNESS: element pool too small for this scenario");
  __CPROVER_assume(n_eb[s] < NBLK(s) && e_used[s] + n / 4 <= cap);
  unsigned b = n_eb[s]++, off = e_used[s];
  eb_off[s][b] = off; eb_req[s][b] = n; e_used[s] += n / 4;
  return (u8*)&epool[s][PAD + off];
}
void vp_dealloc_elem(u8* p, u64 n) {
  int found = 0;
  for (unsigned s = 0; s < NSL; s++) for (unsigned b = 0; b < EPT + 3; b++) if (b < n_eb[s] && p == (u8*)&epool[s][PAD + eb_off[s][b]]) {
    VP_ASSERT(!eb_freed[s][b], "segment deallocated twice"); VP_ASSERT(eb_req[s][b] == n, "segment deallocated with a size different from its allocation");
    eb_freed[s][b] = 1; found = 1;
  }
  VP_ASSERT(found, "deallocation of a pointer that is not the start of an allocated segment");
}
#ifndef NOLONG
/* A long table is 64 entries (512 bytes). Scenarios that provably touch only segments < TABW (indices < 2^TABW) may back
   only the first TABW entries by a cbmc object (default: all 64): any access beyond is then reported by cbmc's bounds
   check (never ignored), except allocate_long_table's zero fill, which the memset model clips. */
static TENT tpool[NT][TABW]; static u8 tb_used[NT], tb_freed[NT];
u8* vp_alloc_tab(u64 n) {
#ifdef SEQ
  unsigned s = 0;
#else
  unsigned s = slot();
#endif
  VP_ASSERT(s < NT && !tb_used[s], "HARNESS: long table allocated in the sequential phase or twice by one thread");
  VP_ASSERT(n == 64 * 8, "segment table allocation is not 64 pointers");
  __CPROVER_assume(s < NT && !tb_used[s]);
  tb_used[s] = 1;
  return (u8*)&tpool[s][0];
}
void vp_dealloc_tab(u8* p, u64 n) {
  int found = 0;
  for (unsigned s = 0; s < NT; s++) if (tb_used[s] && p == (u8*)&tpool[s][0]) { VP_ASSERT(!tb_freed[s], "table deallocated twice"); tb_freed[s] = 1; found = 1; }
  VP_ASSERT(found && n == 64 * 8, "deallocation of something that is not an allocated table");
}
#else
u8* vp_alloc_tab(u64 n) { VP_ASSERT(0, "segment table allocated although every index is below the embedded-table limit"); __CPROVER_assume(0); return 0; }
void vp_dealloc_tab(u8* p, u64 n) { VP_ASSERT(0, "segment table deallocated although none can exist"); }
#endif
/* contract stub of the cut tbb::detail::d0::spin_wait_while_eq(location, value): returns the first observed content that
   differs from value; while it is equal the calling model thread is parked and the call re-executed later (busy-wait) */
ELEM* _ZN3tbb6detail2d018spin_wait_while_eqIP4ElemS4_EET_RKSt6atomicIS5_ET0_St12memory_order(TENT* loc, ELEM* value, u32 order) {
  ELEM* cur = loc->f0.f0;
#ifdef SEQ
  VP_ASSERT(cur != value, "a single-threaded growth call would wait forever for a segment");
  __CPROVER_assume(cur != value);
#else
  if (cur == value) { VP_ASSERT(started, "sequential pre-growth would wait forever"); VP_BLOCK(); }
#endif
  return cur;
}
#ifdef NOLONG
/* units whose scenarios stay below index 8 cut extend_table_if_necessary (no-op unless end_index > embedded_table_size == 8)
   and allocate_long_table: neither may be needed there */
void _ZN3tbb6detail2d113segment_tableI4Elem12vp_allocatorIS3_ENS1_17concurrent_vectorIS3_S5_EELm3EE25extend_table_if_necessaryERPSt6atomicIPS3_Emm(struct S_class_tbb__detail__d1__segment_table* t, TENT** table, u64 start, u64 end) {
  VP_ASSERT(end <= 8, "HARNESS: scenario reaches the embedded-table limit in a unit that cuts the table extension");
  __CPROVER_assume(end <= 8);
}
TENT* _ZN3tbb6detail2d117concurrent_vectorI4Elem12vp_allocatorIS3_EE19allocate_long_tableEPKSt6atomicIPS3_Em(VEC* v, TENT* emb, u64 start) {
  VP_ASSERT(0, "segment table extended although every index is below the embedded-table limit");
  __CPROVER_assume(0);
  return 0;
}
#endif
#ifdef GTALW_CUT
/* unit with vp_thr_gtalw: internal_grow<>(start,end) (the growth branch of the value-less grow_to_at_least) is cut; schedules in which
   that thread would have to grow itself (it claimed a range) are outside this unit (covered by the gtal units): path dropped, no verdict */
void _ZN3tbb6detail2d117concurrent_vectorI4Elem12vp_allocatorIS3_EE13internal_growIJEEENS1_15vector_iteratorIS6_S3_EEmmDpRKT_(struct S_class_tbb__detail__d1__vector_iterator* ret, VEC* v, u64 s, u64 e) {
  __CPROVER_assume(0);
}
/* capacity() is cut in this unit as well: it only feeds the index of the iterator grow_to_at_least returns (size() = min(claimed, capacity())),
   which this harness does not check for the waiting thread; its 3/64-iteration table scan would cost the waiting thread three extra slices
   between the end of its wait loop and the observer, during which the forced rounds let the publisher finish (a seeded bug was missed that way) */
u64 _ZNK3tbb6detail2d117concurrent_vectorI4Elem12vp_allocatorIS3_EE8capacityEv(VEC* v) { return ~(u64)0; }
u64 _ZNK3tbb6detail2d113segment_tableI4Elem12vp_allocatorIS3_ENS1_17concurrent_vectorIS3_S5_EELm3EE8capacityEv(struct S_class_tbb__detail__d1__segment_table* t) { return ~(u64)0; }
#endif
/* no allocation failure is injected in these runs (and the units are compiled -fno-exceptions, where the real function aborts):
   any tbb::detail::r1::throw_exception (bad_alloc / out_of_range from the failure-tag checks) is a violation */
void _ZN3tbb6detail2r115throw_exceptionENS0_2d012exception_idE(u32 id) {
  VP_ASSERT(0, "growth call raised an exception (saw a failure tag / failed table) although no allocation failed");
  __CPROVER_assume(0);
}
static int in_live_block(u8* a) {
#ifdef NOLIVE
  return 1;
#endif
  /* the 4 bytes at a lie inside the requested part of a live element block */
  int r = 0;
  for (unsigned s = 0; s < NSL; s++) for (unsigned b = 0; b < EPT + 3; b++)
    if (b < n_eb[s] && !eb_freed[s][b] && (u64)a >= (u64)&epool[s][PAD + eb_off[s][b]] && (u64)a + 4 <= (u64)&epool[s][PAD + eb_off[s][b]] + eb_req[s][b]) r = 1;
  return r;
}
/* memset of the generated code is redirected here (-Dmemset=vp_memset, cbmc and native replay alike). The only large one is
   allocate_long_table's zero fill of table entries 3..63 (LLVM loop idiom): typed model, clipped to the backed entries */
#undef memset
void* vp_memset(void* d, int c, size_t n) {
  if (c == 0 && n == 61 * 8) { TENT* p = (TENT*)d; for (unsigned i = 0; i < 61 && i < TABW - 3; i++) p[i].f0.f0 = 0; }
  else { VP_ASSERT(n <= 64, "HARNESS: unexpected memset"); u8* p = (u8*)d; for (unsigned i = 0; i < n; i++) p[i] = (u8)c; }
  return d;
}
static u8* log_addr[3][MAXPER]; static unsigned log_n[3];
void vp_constructed(u8* a, u32 val) {
  VP_ASSERT(in_live_block(a), "element constructed outside the allocated segments");
  if (!started) return;                                          /* sequential pre-growth */
  unsigned t = val - 100;
  VP_ASSERT(t < NT, "element constructed with a value nobody asked for");
  VP_ASSERT(log_n[t] < MAXPER, "a call constructed more elements than it was asked to");
  log_addr[t][log_n[t]++] = a;
}
static u64 ret_idx[3]; static u8* ret_addr[3]; static int returned[3];
void vp_ret(u32 tid, u64 idx, u8* addr) { returned[tid] = 1; ret_idx[tid] = idx; ret_addr[tid] = addr; }
static u8* pre_addr[MAXPRE];
void vp_sample(u32 tid, u64 idx, u8* addr) { VP_ASSERT(addr == pre_addr[idx], "address of an existing element changed during growth"); }
static int constructed_somewhere(u8* a) {
  int c = 0;
  for (unsigned t = 0; t < NT; t++) for (unsigned k = 0; k < MAXPER; k++) if (k < log_n[t] && log_addr[t][k] == a) c++;
  return c;
}
static unsigned others_running(u32 tid);
void vp_gtal_done(u32 tid, u64 n) {
  VP_ASSERT(vp_claimed(&vec) >= n, "grow_to_at_least(n) returned with size < n");
  for (u64 i = 0; i < n; i++) {
    VP_ASSERT(vp_seg_allocated(&vec, i), "grow_to_at_least(n) returned while the segment of an index below n is not allocated");
    /* documented contract: elements below n are constructed unless they are under construction by another, still running call */
    if (i >= PRE && !constructed_somewhere(vp_at(&vec, i)))
      VP_ASSERT(others_running(tid), "grow_to_at_least(n) returned although an element below n is neither constructed nor under construction by a running call");
  }
}
#ifdef SEQ
static unsigned others_running(u32 tid) { return 0; }
#else
#define FIN(t) CAT(t, _fin)
static unsigned others_running(u32 tid) {
  unsigned r = 0;
  if (tid != 0) r |= !FIN(TA);
#if NT >= 2
  if (tid != 1) r |= !FIN(TB);
#endif
#if NT == 3
  if (tid != 2) r |= !FIN(TC);
#endif
  return r;
}
#endif
static u64 arg_of(int kind) {
#ifdef MIND
  if (kind == 0) return vp_nd_range(MIND, MAXD);
#endif
  if (kind == 0) return vp_nd_range(0, MAXD);
#ifdef GTALN
  if (kind == 2) return GTALN;                 /* concrete per query */
#endif
  if (kind == 2) return vp_nd_range(PRE > 1 ? PRE - 1 : 0, PRE + MAXD);
  return 0;
}
#ifndef PROBE
#define PROBE (~(u64)0)
#endif
int main(void) {
  vp_vec_init(&vec);
  vp_pregrow(&vec, PRE, PMODE, 7);
  for (unsigned i = 0; i < PRE; i++) pre_addr[i] = vp_at(&vec, i);
  started = 1;
  int kind[3] = { KA,
#if NT >= 2
    KB,
#else
    0,
#endif
#if NT == 3
    KC
#else
    0
#endif
  };
  u64 arg[3];
  for (int t = 0; t < NT; t++) arg[t] = arg_of(kind[t]);
#ifdef SEQ
  /* concrete operation sequence executed by one thread; after every operation all earlier element addresses must be unchanged */
  static u8* seen[MAXSZ + 1];
  for (int t = 0; t < NT; t++) {
    vp_seq_op(&vec, t, kind[t], arg[t]);
    u64 cur = vp_claimed(&vec);
    for (u64 i = 0; i < MAXSZ; i++) if (i < cur) {
      u8* a = vp_at(&vec, i);
      if (seen[i]) VP_ASSERT(seen[i] == a, "address of an element changed when the vector grew");
      seen[i] = a;
    }
  }
  int vp_deadlock = 0, vp_unfinished = 0;
#else
#if NT == 1
  /* one thread alone: bounded symbolic execution of a single call (loops unrolled by LLVM, no interleaving) */
  CAT(TA, _start)(&vec, 0, arg[0], PROBE);
  vp_cur = 0; VP_RUNMAX(TA) VP_RUNMAX(TA)
  int vp_unfinished = !FIN(TA), vp_deadlock = vp_unfinished && CAT(TA, _blocked);
#else
  CAT(TA, _start)(&vec, 0, arg[0], PROBE); CAT(TB, _start)(&vec, 1, arg[1], PROBE);
#if NT == 3
  CAT(TC, _start)(&vec, 2, arg[2], PROBE);
#endif
#ifdef FIRSTA
  /* wait-only scenarios: thread A's first slice reaches at least its size claim before any other thread starts */
  VP_RUNT(TA, 0)
  __CPROVER_assume(vp_claimed(&vec) == PRE + arg[0]);
#endif
  for (int r = 0; r < ROUNDS; r++) {
    VP_RUNT(TA, 0) VP_RUNT(TB, 1)
#if NT == 3
    VP_RUNT(TC, 2)
#endif
  }
#if NT == 3
  VP_QUIESCE3(TA, TB, TC)
#else
  VP_QUIESCE2(TA, TB)
#endif
#endif
#endif
  VP_ASSERT(!vp_deadlock, "growth calls wait forever (every unfinished thread is spinning and nothing changes)");
  __CPROVER_assume(!vp_unfinished);
#ifndef SKIP_FINAL
  /* ---- final state */
  u64 size = vp_claimed(&vec);
  u64 total = 0, lo = PRE;
  for (int t = 0; t < NT; t++) { VP_ASSERT(returned[t], "call did not return an iterator"); total += log_n[t]; }
  VP_ASSERT(size == PRE + total, "final size differs from pre-grown size + number of elements constructed");
  VP_ASSERT(size <= MAXSZ, "size beyond what was requested");
  for (int t = 0; t < NT; t++) {
    if (kind[t] == 0) VP_ASSERT(log_n[t] == arg[t], "grow_by(delta) did not construct exactly delta elements");
    if (kind[t] == 1) VP_ASSERT(log_n[t] == 1, "push_back did not construct exactly one element");
    if (kind[t] == 2) VP_ASSERT(size >= arg[t], "size below n after grow_to_at_least(n)");
    if (kind[t] != 2 && log_n[t]) {
      VP_ASSERT(ret_idx[t] >= PRE && ret_idx[t] + log_n[t] <= size, "returned range outside [old size, size)");
      VP_ASSERT(ret_addr[t] == vp_at(&vec, ret_idx[t]), "iterator returned by the growth call does not address element [index]");
    }
    if (kind[t] == 0 && arg[t] == 0) VP_ASSERT(ret_idx[t] <= size, "grow_by(0) returned an iterator beyond the end");
  }
  for (u64 i = 0; i < MAXSZ; i++) if (i < size) {
    u8* a = vp_at(&vec, i);
    VP_ASSERT(in_live_block(a), "element address outside the allocated segments");
    if (i < PRE) {
      VP_ASSERT(a == pre_addr[i], "address of a pre-existing element changed");
      VP_ASSERT(vp_val(&vec, i) == 7, "pre-existing element overwritten");
      VP_ASSERT(constructed_somewhere(a) == 0, "pre-existing element constructed again");
      continue;
    }
    VP_ASSERT(vp_seg_allocated(&vec, i), "segment of a claimed index not allocated after all calls returned");
    VP_ASSERT(constructed_somewhere(a) == 1, "element not constructed exactly once (lost, or two calls got overlapping ranges)");
    /* owner by returned ranges (grow_by / push_back): pairwise disjoint, and the constructing thread is the owner */
    int owners = 0, owner = -1, ctor = -1;
    for (int t = 0; t < NT; t++) {
      if (kind[t] != 2 && log_n[t] && ret_idx[t] <= i && i < ret_idx[t] + log_n[t]) { owners++; owner = t; }
      for (unsigned k = 0; k < MAXPER; k++) if (k < log_n[t] && log_addr[t][k] == a) ctor = t;
    }
    VP_ASSERT(owners <= 1, "two calls returned overlapping index ranges");
    if (ctor < 0) continue;
    if (kind[ctor] != 2) VP_ASSERT(owners == 1 && owner == ctor, "element constructed by a call whose returned range does not contain it");
    else VP_ASSERT(owners == 0, "element of a returned range constructed by another call");
    VP_ASSERT(vp_val(&vec, i) == 100 + ctor, "element does not hold the requested value");
  }
#if defined(SEQ) && !defined(NODESTROY)
  /* the vector stays destructible: every segment and table released exactly once */
  vp_destroy(&vec);
  for (unsigned s = 0; s < NSL; s++) for (unsigned b = 0; b < EPT + 3; b++) if (b < n_eb[s]) VP_ASSERT(eb_freed[s][b], "segment leaked by the destructor");
#ifndef NOLONG
  for (unsigned s = 0; s < NT; s++) if (tb_used[s]) VP_ASSERT(tb_freed[s], "long table leaked by the destructor");
#endif
#endif
#endif
  VP_REACHED();
  return 0;
}

// concurrent_vector: element copy constructor throws on the 2nd copy during a multi-segment grow_by on a non-empty vector
#include <oneapi/tbb/concurrent_vector.h>
#include <cstdio>
#include <stdexcept>
static int copies = 0, throw_at = -1;
struct T { int v; T(int x = 0) : v(x) {} T(const T& o) : v(o.v) { if (++copies == throw_at) throw std::runtime_error("copy"); } };
int main() {
  tbb::concurrent_vector<T> v;
  v.push_back(T(1));
  copies = 0; throw_at = 2;
  try { v.grow_by(100, T(7)); printf("grow_by returned\n"); }
  catch (std::exception& e) { printf("grow_by threw %s, size=%zu\n", e.what(), v.size()); }
  throw_at = -1;
  try { printf("v[0]=%d\n", v[0].v); v.push_back(T(3)); printf("push_back ok size=%zu\n", v.size()); } catch (std::exception& e) { printf("later op threw %s\n", e.what()); }
  return 0;
}

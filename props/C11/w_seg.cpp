// C11 sequential wrapper: index arithmetic of the real segment_table / concurrent_vector at full width,
// and the sequential part of grow_to_at_least (range claim) with internal_grow cut to a recording stub.
#include <cstddef>
extern "C" void* vp_alloc(unsigned long bytes);
extern "C" void vp_dealloc(void* p, unsigned long bytes);
extern "C" void vp_emit(unsigned long v);
template <typename T> struct vp_allocator {
  using value_type = T;
  vp_allocator() = default;
  template <typename U> vp_allocator(const vp_allocator<U>&) {}
  T* allocate(std::size_t n) { return static_cast<T*>(vp_alloc(n * sizeof(T))); }
  void deallocate(T* p, std::size_t n) { vp_dealloc(p, n * sizeof(T)); }
  template <typename U> bool operator==(const vp_allocator<U>&) const { return true; }
  template <typename U> bool operator!=(const vp_allocator<U>&) const { return false; }
};
#include "oneapi/tbb/concurrent_vector.h"
struct Elem { char c; Elem() {} };      // 1-byte element with a trivial constructor: max_size() is the full index space
using V = tbb::concurrent_vector<Elem, vp_allocator<Elem>>;
using B = V::base_type;
extern "C" {
unsigned long vp_index_of(unsigned long i) { return B::segment_index_of(i); }
unsigned long vp_base(unsigned long k) { return B::segment_base(k); }
unsigned long vp_size(unsigned long k) { return B::segment_size(k); }
unsigned vp_is_first(unsigned long i) { return V::is_first_element_in_segment(i); }
unsigned long vp_embedded_segments() { return B::pointers_per_embedded_table; }
unsigned long vp_embedded_size() { return B::embedded_table_size; }
unsigned long vp_long_segments() { return B::pointers_per_long_table; }
unsigned long vp_sizeof_vec() { return sizeof(V); }
void vp_vec_init(V* v) { new (v) V(); }
void vp_set_size(V* v, unsigned long n) { v->my_size.store(n, std::memory_order_relaxed); }
unsigned long vp_get_size(V* v) { return v->my_size.load(std::memory_order_relaxed); }
unsigned long vp_max_size(V* v) { return v->max_size(); }
unsigned long vp_nelem(V* v, unsigned long k) { return v->number_of_elements_in_segment(k); }
// pre-state "every segment below 63 is allocated": a long table whose entries 0..62 hold a non-null pointer that is never
// dereferenced (internal_grow is cut), so that grow_to_at_least's wait-for-segments loops terminate sequentially
void vp_fake_long_table(V* v) {
  static char cell[8];
  static void* table_cells[64];
  auto* t = (B::atomic_segment*)table_cells;
  for (int i = 0; i < 63; i++) t[i].store((Elem*)cell, std::memory_order_relaxed);
  t[63].store(nullptr, std::memory_order_relaxed);
  v->my_segment_table.store(t, std::memory_order_relaxed);
}
// grow_to_at_least(n) on a vector whose claimed size is whatever the harness put there; internal_grow is cut
unsigned long vp_gtal(V* v, unsigned long n) { auto it = v->grow_to_at_least(n); return it.my_index; }
// iterator stepping: the cached element pointer must be dropped exactly at segment starts
unsigned vp_iter_step_keeps_item(unsigned long i) {
  static char dummy[2];
  V::iterator it(*(V*)nullptr, i, (Elem*)&dummy[0]);
  ++it;
  return it.my_item != nullptr;
}
unsigned vp_iter_dec_keeps_item(unsigned long i) {   // precondition of operator--: i > 0
  static char dummy[2];
  V::iterator it(*(V*)nullptr, i, (Elem*)&dummy[1]);
  --it;
  return it.my_item != nullptr;
}
void vp_selftest() {
  unsigned long xs[] = {0, 1, 2, 3, 4, 5, 7, 8, 9, 15, 16, 17, 255, 256, 257, 65535, 65536, (1ul << 31) - 1, 1ul << 31, (1ul << 31) + 1,
                        (1ul << 32) - 1, 1ul << 32, (1ul << 32) + 1, (1ul << 62) + 5, (1ul << 63) - 1, 1ul << 63, (1ul << 63) + 1, ~0ul - 1, ~0ul};
  for (unsigned long x : xs) { vp_emit(vp_index_of(x)); vp_emit(vp_is_first(x)); vp_emit(vp_iter_step_keeps_item(x)); if (x) vp_emit(vp_iter_dec_keeps_item(x)); }
  for (unsigned long k = 0; k < 64; k++) { vp_emit(vp_base(k)); vp_emit(vp_size(k)); }
  alignas(16) static unsigned char buf[sizeof(V)];
  V* v = (V*)buf; vp_vec_init(v);
  for (unsigned long s : xs) { vp_set_size(v, s); for (unsigned long k = 0; k < 64; k += 1 + k / 8) vp_emit(vp_nelem(v, k)); }
  vp_set_size(v, 0);
}
}

// C17 "calloc_arith": the real scalable_calloc() and internalMalloc() (frontend.cpp); the allocator below them is cut at
// internalPoolMalloc (spec: cut=[internalPoolMalloc, doInitialization, getFromLLOCache, StartupBlock::allocate]);
// memset is observed by the harness (zero-fill extent).
#include "src/tbbmalloc/frontend.cpp"
using namespace rml::internal;
extern "C" void vp_emit(unsigned long v);
extern "C" {
void* vp_calloc(unsigned long nobj, unsigned long size) { return scalable_calloc(nobj, size); }
void* vp_default_pool() { return defaultMemPool; }
void vp_set_initialized() { mallocInitialized.store(2, std::memory_order_relaxed); }
int vp_ENOMEM() { return ENOMEM; }

// translator validation vectors (executed as real C++ and as generated C, outputs diffed): only requests whose product
// does not fit size_t, i.e. paths that must end before the cut allocator
void vp_selftest() {
  unsigned long v[] = {0, 1, 2, 3, 0x10000UL, 0x80000000UL, 0xffffffffUL, 0x100000000UL, 0x100000001UL, 0x200000000UL,
                       0x8000000000000000UL, 0xffffffffffffffffUL, 0xfffffffffffffffeUL, 0x5555555555555556UL, 0x7fffffffffffffffUL};
  for (unsigned long a : v) for (unsigned long b : v) {
    unsigned __int128 p = (unsigned __int128)a * b;
    if (p >> 64) { errno = 0; vp_emit((unsigned long)scalable_calloc(a, b)); vp_emit(errno); }
  }
}
}

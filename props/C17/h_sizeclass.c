#include "w.h"
#include "vp.h"
int main(void) {
  unsigned s = (unsigned)vp_nd(); __CPROVER_assume(s >= 1 && s <= 8128);
  unsigned os = vp_objsize(s), ix = vp_index(s);
#if PART == 1
  VP_ASSERT(os >= s, "size class smaller than the request");
  VP_ASSERT(os <= 8128, "small-object class beyond the slab classes");
  VP_ASSERT(s <= 8 ? os == 8 : os % 16 == 0, "class size not a multiple of 16 (8 for requests <= 8): natural alignment would be lost");
  VP_ASSERT(ix < vp_num_bins(), "bin index out of range");
  VP_ASSERT(vp_objsize(os) == os && vp_index(os) == ix, "size class not closed: class size maps to a different class");
  VP_ASSERT((16384 - vp_sizeof_block()) / os >= 1, "class does not fit a slab");
  VP_ASSERT(os <= 1024 || os % 64 == 0, "fitting size not a multiple of the 64-byte fitting alignment");
#elif PART == 3
  static const unsigned classes[] = { CLASSES };
  int found = 0;
  for (unsigned i = 0; i < sizeof(classes) / sizeof(classes[0]); i++) found |= (classes[i] == os);
  VP_ASSERT(found, "a size class exists that the per-class harnesses do not enumerate");
#else
  unsigned t = (unsigned)vp_nd(); __CPROVER_assume(t >= s && t <= 8128);
  VP_ASSERT(vp_objsize(t) >= os && vp_index(t) >= ix, "size classes not monotone");
  VP_ASSERT((vp_index(t) == ix) == (vp_objsize(t) == os), "index and class size disagree");
#endif
  VP_REACHED();
}

// C17 extension "pubfree": cross-thread free of slab objects (real frontend.cpp), thread mode.
//   foreign threads: Block::freePublicObject(obj)
//   owner thread:    Bin::getPrivatizedFreeListBlock() -> Block::privatizePublicFreeList() -> allocateFromFreeList()
//   adopter thread:  Block::privatizeOrphaned() (block was orphaned: publicFreeList/nextPrivatizable == UNUSABLE)
#include "src/tbbmalloc/frontend.cpp"
using namespace rml::internal;
extern "C" {
void vp_free_begin(void* obj); void vp_free_end(void* obj); void vp_got(unsigned who, void* obj); void vp_owner_block(void* blk);
// ---- state construction / observation (sequential, called by the harness before / after the threads run)
void vp_pub_setup(Block* b, Bin* bin, unsigned objSize, unsigned cnt, unsigned orphan) {
  b->next = nullptr; b->previous = nullptr; b->bumpPtr = nullptr; b->freeList = nullptr; b->tlsPtr.store(nullptr, std::memory_order_relaxed);
  b->allocatedCount = (uint16_t)cnt; b->objectSize = (uint16_t)objSize; b->isFull = true; b->poolPtr = nullptr;
  b->publicFreeList.store(orphan ? (FreeObject*)UNUSABLE : nullptr, std::memory_order_relaxed);
  b->nextPrivatizable.store(orphan ? (Block*)UNUSABLE : (Block*)bin, std::memory_order_relaxed);
  bin->activeBlk = orphan ? nullptr : b; bin->mailbox.store(nullptr, std::memory_order_relaxed);
}
void* vp_pub_public(Block* b) { return b->publicFreeList.load(std::memory_order_relaxed); }
void* vp_pub_nextpriv(Block* b) { return b->nextPrivatizable.load(std::memory_order_relaxed); }
void* vp_pub_freelist(Block* b) { return b->freeList; }
unsigned vp_pub_count(Block* b) { return b->allocatedCount; }
void* vp_pub_mailbox(Bin* bin) { return bin->mailbox.load(std::memory_order_relaxed); }
void* vp_obj_next(void* o) { return ((FreeObject*)o)->next; }
unsigned long vp_unusable() { return UNUSABLE; }
void* vp_tls_bin(TLSData* tls, unsigned idx) { return tls->bin + idx; }
unsigned vp_index_of(unsigned size) { return getIndex(size); }
void vp_seq_free(Block* b, void* obj) { b->freePublicObject((FreeObject*)obj); }   // sequential use: builds pre-states through the real code
// ---- thread bodies
void vp_thr_free(Block* b, void* obj) { vp_free_begin(obj); b->freePublicObject((FreeObject*)obj); vp_free_end(obj); }
void vp_thr_owner(Bin* bin) {
  Block* blk = bin->getPrivatizedFreeListBlock();
  vp_owner_block(blk);
  if (blk) { void* p = blk->allocateFromFreeList(); vp_got(0, p); }
}
void vp_thr_owner2(Bin* bin) {          // the owner looks twice (a block can be mailed again after the first privatisation)
  for (int i = 0; i < 2; i++) {
    Block* blk = bin->getPrivatizedFreeListBlock();
    vp_owner_block(blk);
    if (blk) { void* p = blk->allocateFromFreeList(); vp_got(i, p); }
  }
}
void vp_thr_adopt(Block* b, TLSData* tls, unsigned idx) {
  b->privatizeOrphaned(tls, idx);
  vp_owner_block(b);
  void* p = b->allocateFromFreeList(); vp_got(0, p);
}
}

/* C17: allocateAligned() strategy selection, real code, inner allocators cut at internalPoolMalloc / getFromLLOCache
 * and replaced by stubs that return ANY pointer satisfying the inner guarantee (established by h_block / backend):
 *   small request s' (< minLargeObjectSize): p = B + 16K - k*os, B 16K-aligned, os = class size of s', usable os bytes
 *   large: p aligned to the alignment passed to getFromLLOCache, usable >= size
 * Oracle: a non-null result is aligned to the requested alignment and [result, result+size) lies inside the usable area. */
#include "w.h"
#include "vp.h"
typedef struct S_class_rml__internal__MemoryPool pool_t;
typedef struct S_class_rml__internal__TLSData tls_t;
u64 inner_p, inner_usable; int inner_calls, inner_null, inner_large; unsigned inner_os;
u8* _ZN3rml8internalL18internalPoolMallocEPNS0_10MemoryPoolEm(pool_t* mp, u64 size) {
  inner_calls++;
  if (vp_nd_bool()) { inner_null = 1; return 0; }
  if (size == 0) size = 8;
  if (size >= vp_min_large()) {            /* large object path of internalPoolMalloc: 64-byte aligned */
    u64 p = vp_nd(); __CPROVER_assume(p % 64 == 0 && p != 0 && p < (1ull << 47));
    inner_p = p; inner_usable = size; inner_large = 1; return (u8*)p;
  }
  unsigned os = vp_objsize((unsigned)size);
  unsigned cap = (16384 - 128) / os;
  u64 b = vp_nd(); __CPROVER_assume(b >= 1 && b < (1ull << 33));
  u64 k = vp_nd(); __CPROVER_assume(k >= 1 && k <= cap);
  inner_p = b * 16384 + 16384 - k * os; inner_usable = os; inner_os = os;
  return (u8*)inner_p;
}
u8* _ZN3rml8internal10MemoryPool15getFromLLOCacheEPNS0_7TLSDataEmm(pool_t* mp, tls_t* tls, u64 size, u64 alignment) {
  inner_calls++;
  VP_ASSERT(alignment >= 64 && (alignment & (alignment - 1)) == 0, "getFromLLOCache called with a bad alignment");
  if (vp_nd_bool()) { inner_null = 1; return 0; }
  u64 q = vp_nd(); __CPROVER_assume(q != 0 && q < (1ull << 47) / alignment);
  inner_p = q * alignment; inner_usable = size; inner_large = 1; return (u8*)inner_p;
}
tls_t* _ZN3rml8internal10MemoryPool6getTLSEb(pool_t* mp, u8 create) { return (tls_t*)(vp_nd() & 0xfff0); }
u8 _ZN3rml8internalL16doInitializationEv(void) { VP_ASSERT(0, "doInitialization reached although initialised"); return 1; }
int main(void) {
  vp_set_initialized();
  u64 size = vp_nd(), lg = vp_nd();
  __CPROVER_assume(lg <= MAXLG);
  u64 alignment = 1ull << lg;
#if RANGE == 0
  __CPROVER_assume(size < 16384);            /* all small/fitting/boundary cases */
#else
  __CPROVER_assume(size >= 16384 && size < (1ull << 46));
#endif
  u64 r = (u64)vp_alloc_aligned(size, alignment);
  VP_ASSERT(inner_calls == 1, "allocateAligned must consult the inner allocator exactly once");
  if (r == 0) VP_ASSERT(inner_null, "allocateAligned returned NULL although the inner allocation succeeded");
  else {
    VP_ASSERT(!inner_null, "non-null result from a failed inner allocation");
    VP_ASSERT(r % alignment == 0, "aligned allocation is not aligned to the requested alignment");
    VP_ASSERT(r >= inner_p && r + size <= inner_p + inner_usable, "aligned block does not fit inside the object obtained from the inner allocator");
    VP_ASSERT(size <= 8 || alignment > 8 || r % 16 == 0 , "natural 16-byte alignment lost");
    /* the block must stay recognisable by free/msize/realloc: a large object is identified by the LargeObjectHdr directly in
       front of the user pointer, so it must be handed out unshifted; a pointer moved inside a slab object is only mapped back
       by findObjectToFree for fitting-size objects (> 1024 bytes) at 128-byte aligned addresses (h_block STEP 2 proves that) */
    if (inner_large) VP_ASSERT(r == inner_p, "pointer shifted inside a large object: its LargeObjectHdr is no longer in front of the user pointer (free/msize break)");
    else if (r != inner_p) VP_ASSERT(inner_os > 1024 && r % 128 == 0, "pointer shifted inside a slab object that findObjectToFree cannot map back");
  }
  VP_REACHED();
}

// C17 wrapper over the real tbbmalloc front end (src/tbbmalloc/frontend.cpp is included textually)
#include "src/tbbmalloc/frontend.cpp"
using namespace rml::internal;
extern "C" void vp_emit(unsigned long v);
extern "C" {
unsigned vp_objsize(unsigned s) { return getObjectSize(s); }
unsigned vp_index(unsigned s) { return getIndex(s); }
unsigned vp_sizeof_block() { return sizeof(Block); }
unsigned vp_slab_size() { return slabSize; }
unsigned vp_min_large() { return minLargeObjectSize; }
unsigned vp_num_bins() { return numBlockBins; }
void vp_block_setup(Block* b, unsigned short objSize, void* bump, void* fl, unsigned short cnt) {
  b->objectSize = objSize; b->bumpPtr = (FreeObject*)bump; b->freeList = (FreeObject*)fl; b->allocatedCount = cnt; b->isFull = false;
}
void vp_block_init(Block* b, unsigned size) { b->initEmptyBlock(nullptr, size); }
void* vp_block_alloc(Block* b) { return b->allocate(); }
void* vp_block_bump(Block* b) { return b->bumpPtr; }
void* vp_block_freelist(Block* b) { return b->freeList; }
unsigned vp_block_count(Block* b) { return b->allocatedCount; }
unsigned vp_block_objsize(Block* b) { return b->objectSize; }
unsigned vp_block_isfull(Block* b) { return b->isFull; }
void* vp_find_to_free(Block* b, void* p) { return b->findObjectToFree(p); }
unsigned long vp_find_size(Block* b, void* p) { return b->findObjectSize(p); }
void vp_restore_bump(Block* b) { b->restoreBumpPtr(); }
void* vp_alloc_aligned(unsigned long size, unsigned long alignment) { return allocateAligned(defaultMemPool, size, alignment); }
void vp_set_initialized() { mallocInitialized.store(2, std::memory_order_relaxed); }

// translator validation vectors: executed as real C++ and as generated C, outputs diffed
void vp_selftest() {
  for (unsigned s = 1; s <= 8128; s += (s < 1100 ? 1 : 13)) { vp_emit(getObjectSize(s)); vp_emit(getIndex(s)); }
  static unsigned char slab[2 * 16384];
  Block* b = (Block*)(((unsigned long)slab + 16383) & ~16383ul);
  unsigned sizes[] = {1, 8, 9, 16, 24, 64, 65, 80, 1024, 1025, 1792, 2688, 4032, 5376, 8128};
  for (unsigned s : sizes) {
    memset(b, 0, 128);
    vp_block_setup(b, (unsigned short)getObjectSize(s), (char*)b + 16384 - getObjectSize(s), nullptr, 0);
    for (int i = 0; i < 5; i++) { void* p = b->allocate(); vp_emit(p ? (unsigned long)((char*)p - (char*)b) : 99999); vp_emit(b->allocatedCount); }
    void* obj = (char*)b + 16384 - 2 * getObjectSize(s);
    vp_emit((unsigned long)((char*)b->findObjectToFree(obj) - (char*)b));
    if (s > 1024) vp_emit((unsigned long)((char*)b->findObjectToFree((void*)(((unsigned long)obj + 255) & ~255ul)) - (char*)b));
  }
}
}

/* C17 "calloc_arith": element-count arithmetic of the real scalable_calloc() (frontend.cpp): the mult_not_overflow heuristic
 * (either factor >= 2^32) + the exact test (arraySize / nobj != size), through the real internalMalloc() (0 -> sizeof(size_t)).
 * Cut: internalPoolMalloc (contract stub: records the byte count it is asked for; returns NULL or "a block of exactly that many
 * bytes" = a non-null address that is never dereferenced), doInitialization, and the nested-call path of internalMalloc
 * (StartupBlock::allocate / getFromLLOCache: unreachable, RecursiveMallocCallProtector is not active). memset is an observer
 * (records destination, fill byte and extent): the zero-fill clause is "exactly one memset(result, 0, nobj*size)".
 * Oracle, with the true product computed in 128 bits by the harness:
 *   result != NULL => the product fits 64 bits, the allocator was asked exactly once for exactly nobj*size bytes (8 for an empty
 *                     request: internalMalloc's minimum), result is that block, one memset(result, 0, nobj*size), errno untouched;
 *   result == NULL => errno == ENOMEM, nothing zero-filled; product does not fit => NULL (and the allocator is not reached);
 *   NOSPUR: product fits and the allocator succeeds => result != NULL (the overflow test never refuses a representable request).
 * Bound: one factor concrete (scenario F), the other fully symbolic (SYMBITS bits, default 64); ORDER 0: nobj = F (division by a
 * constant), ORDER 1: size = F (division by the symbolic value). */
#include "w.h"
#include "vp.h"
typedef struct S_class_rml__internal__MemoryPool pool_t;
typedef unsigned __int128 u128;
#ifndef SYMBITS
#define SYMBITS 64
#endif

u32 the_errno;                                   /* libc boundary */
u32* vpx___errno_location(void) { return &the_errno; }
u64 vpx_pthread_self(void) { return 1; }
#define ERRNO_INIT 4242u

int n_alloc, alloc_null, n_memset, ms_c, n_other; u64 a_size, ms_n; u8 *blk, *ms_p; pool_t* a_pool;
u8* _ZN3rml8internalL18internalPoolMallocEPNS0_10MemoryPoolEm(pool_t* mp, u64 size) {
  n_alloc++; a_size = size; a_pool = mp;
  if (vp_nd_bool()) { alloc_null = 1; return 0; }
  blk = (u8*)(0x100000ull + 64 * vp_nd_range(1, 1000));   /* a block of exactly `size` bytes: address only, never dereferenced here */
  return blk;
}
u8 _ZN3rml8internalL16doInitializationEv(void) { n_other++; return 1; }
/* nested-allocation path of internalMalloc (RecursiveMallocCallProtector active): not reachable in this harness */
u8* _ZN3rml8internal10MemoryPool15getFromLLOCacheEPNS0_7TLSDataEmm(pool_t* mp, struct S_class_rml__internal__TLSData* tls, u64 size, u64 alignment) { n_other++; return 0; }
struct S_struct_rml__internal__FreeObject* _ZN3rml8internal12StartupBlock8allocateEm(u64 size) { n_other++; return 0; }
/* memset: observer of the zero-fill (the block is an address, not an object) */
void* memset(void* p, int c, size_t n) {
  if (blk && p == (void*)blk) { n_memset++; ms_p = p; ms_c = c; ms_n = n; return p; }
  for (volatile size_t i = 0; i < n && i < 64; i++) ((volatile u8*)p)[i] = (u8)c;
  return p;
}

int main(void) {
  const u32 ENOMEM_ = (u32)vp_ENOMEM();
  u64 sym = vp_nd();
#if SYMBITS < 64
  __CPROVER_assume(sym < (1ull << SYMBITS));
#endif
#if ORDER == 0
  const u64 nobj = F, size = sym;
#else
  const u64 nobj = sym, size = F;
#endif
  const u128 prod = (u128)sym * (u128)(u64)F;
  const int fits = (u64)(prod >> 64) == 0;
  the_errno = ERRNO_INIT;
  vp_set_initialized();
  u8* r = vp_calloc(nobj, size);
  VP_ASSERT(n_other == 0, "calloc: initialisation / nested-allocation path reached although the allocator is initialised and no protector is active");
  if (r != 0) {
    VP_ASSERT(fits, "calloc: nobj*size does not fit size_t but a block was returned");
    VP_ASSERT(n_alloc == 1 && !alloc_null && r == blk && a_pool == (pool_t*)vp_default_pool(), "calloc: result must be the block of exactly one allocation from the default pool");
    VP_ASSERT((u128)a_size >= prod, "calloc: block smaller than nobj*size requested from the allocator");
    VP_ASSERT((u128)a_size == prod || (prod == 0 && a_size == 8), "calloc: allocator not asked for exactly nobj*size bytes");
    VP_ASSERT(n_memset == 1 && ms_p == r && ms_c == 0, "calloc: block must be cleared by exactly one zero fill starting at the block");
    VP_ASSERT((u128)ms_n == prod, "calloc: zero fill does not cover exactly nobj*size bytes");
    VP_ASSERT(the_errno == ERRNO_INIT, "calloc: errno touched on success");
    VP_REACHED();                                /* witness: success outcome */
  } else {
    VP_ASSERT(the_errno == ENOMEM_, "calloc: failure must set errno=ENOMEM");
    VP_ASSERT(n_memset == 0, "calloc: failed request must not fill anything");
    if (!fits) {
      VP_ASSERT(n_alloc == 0, "calloc: unrepresentable nobj*size must be refused before the allocator is reached");
#ifdef OVF
      VP_REACHED();                              /* witness: refused because the product does not fit (factor >= 2) */
#endif
    } else {
      VP_ASSERT(n_alloc <= 1, "calloc: more than one allocation attempt");
#ifdef NOSPUR
      VP_ASSERT(n_alloc == 1 && alloc_null, "calloc: representable request refused although the allocator did not fail");
#endif
      VP_REACHED();                              /* witness: allocator failure outcome */
    }
  }
  return 0;
}

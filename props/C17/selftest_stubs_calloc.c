/* selftest link stubs for unit `calloc`: the generated C references vpx_* externals; the real C++ object uses libc directly */
#ifndef VP_SELFTEST_REAL
#include <errno.h>
unsigned* vpx___errno_location(void) { return (unsigned*)&errno; }
unsigned long vpx_pthread_self(void) { return 1; }
#endif

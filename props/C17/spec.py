PROPERTY = 'C17'
MCXX = ['-D__TBBMALLOC_BUILD=1', '-fno-rtti', '-I{REPO}/src/tbbmalloc', '-I{REPO}/src']
CLASSES = [8, 16, 32, 48, 64, 80, 96, 112, 128, 160, 192, 224, 256, 320, 384, 448, 512, 640, 768, 896, 1024, 1792, 2688, 4032, 5376, 8128]
UNITS = {
  'front': dict(wrapper='w_front.cpp', mode='seq', cxxflags=MCXX, selftest=True,
                cut=['internalPoolMalloc', 'getFromLLOCache', 'getTLS', 'doInitialization']),
  # pubfree (thread mode): cross-thread free / privatisation / re-allocation on one slab block
  'pub2': dict(wrapper='w_pub.cpp', mode='lcs', unroll=2, cxxflags=MCXX, prune=True, cut=['adjustPositionInBin'],
              threads={'vp_thr_free': ['a', 'b'], 'vp_thr_owner': ['o'], 'vp_thr_owner2': ['o'], 'vp_thr_adopt': ['o']}),
  # reallocAligned real (frontend.cpp only: getBackRef / remap / getMaxBinnedSize are externals); inner allocator and free cut
  'realloc': dict(wrapper='w_realloc.cpp', mode='seq', cxxflags=MCXX, ptrhooks=True, prune=True, inline_threshold=200,
                  cut=['internalPoolMalloc', 'allocateAligned', 'internalPoolFree', 'doInitialization']),
  # scalable_calloc + internalMalloc real; allocator below cut at internalPoolMalloc; memset observed by the harness
  'calloc': dict(wrapper='w_calloc.cpp', mode='seq', cxxflags=MCXX, prune=True, selftest=True, selftest_stubs='selftest_stubs_calloc.c',
                 cut=['internalPoolMalloc', 'doInitialization', 'getFromLLOCache', 'StartupBlock8allocate']),
}
CALLOC_F = ['0', '1', '2', '3', '0x10000', '0x80000000', '0xffffffff', '0x100000000', '0x100000001', '0x200000000', '0x8000000000000000', '0xffffffffffffffff']
def calloc_sc(order, fs=CALLOC_F):
  return [dict({'ORDER': order, 'F': f + 'ULL'}, **({'OVF': None} if int(f, 16) >= 2 else {})) for f in fs]
HARNESSES = [
  dict(name='sizeclass', unit='front', harness='h_sizeclass.c', cbmc=['--unwind', '40'], scenarios=[{'PART': 1}, {'PART': 2}, {'PART': 3, 'CLASSES': ','.join(map(str, CLASSES))}],
       desc='getObjectSize/getIndex over every request size 1..8128 (symbolic): size fits, 16-byte classes (8 for <=8), class closed, monotone, index in range',
       bounds={'size': '1..8128 (all)', 'loops': 'none'}),
  dict(name='block_step', unit='front', harness='h_block.c', scenarios=[{'STEP': st, 'REQ': c} for st in (0, 1, 2, 3) for c in CLASSES],
       desc='one step of Block::initEmptyBlock / allocate (free list + bump pointer) / findObjectToFree+findObjectSize / restoreBumpPtr from an arbitrary slab state satisfying the representation invariant, any size class',
       bounds={'request': 'every size class, concrete per query (26 classes)', 'bump index': 'any', 'free list': '<=2 nodes', 'slab': '16 KB object'}, timeout=600),
  dict(name='alloc_aligned', unit='front', harness='h_aligned.c', defines={'MAXLG': 30},
       scenarios=[{'RANGE': 0}, {'RANGE': 1}], timeout=900,
       desc='allocateAligned strategy selection for symbolic (size, power-of-two alignment <= 2^30); inner allocator cut to a contract stub',
       bounds={'size': 'RANGE0: 0..16383, RANGE1: 16384..2^46', 'alignment': '2^0..2^30', 'cut': 'internalPoolMalloc, getFromLLOCache, getTLS'}),
  dict(name='pubfree', unit='pub2', harness='h_pub.c', defines={'ROUNDS': 2}, scenarios=[{'SC': 0}, {'SC': 3}, {'SC': 5}],
       scenarios_thorough=[{'SC': 0}, {'SC': 6}, {'SC': 3}, {'SC': 5}], timeout=1500, cbmc=['--unwind', '8', '--object-bits', '12'],
       thorough_override=dict(defines={'ROUNDS': 3}, timeout=3600),
       desc='cross-thread free on one slab block (thread mode): Block::freePublicObject || Bin::getPrivatizedFreeListBlock + privatizePublicFreeList + allocateFromFreeList (owner) or privatizeOrphaned (adopter of an orphaned block): every freed object ends in exactly one place, nothing handed out twice, allocatedCount consistent, block mailed exactly once while its public list is non-empty, UNUSABLE sentinel never dereferenced',
       bounds={'threads': 2, 'free_rounds': '2 (thorough 3)', 'forced_rounds': 2, 'unroll': 2, 'objects': '3 (1-2 freed concurrently)', 'cut': 'Block::adjustPositionInBin (owner-private state, float arithmetic)',
               'scenarios': 'SC0 free||owner, SC3 orphaned: free||adopter, SC5 free||free; thorough adds SC6 free onto a non-empty public list||owner'}),
  dict(name='pubfree_3t', unit='pub2', harness='h_pub.c', defines={'ROUNDS': 2}, scenarios=[{'SC': 1}, {'SC': 4}], tiers=['thorough'], timeout=3600, cbmc=['--unwind', '8', '--object-bits', '12'],
       desc='pubfree with three threads: free(o0) || free(o1) || owner, and on an orphaned block free || free || adopter; same oracle',
       bounds={'threads': 3, 'free_rounds': 2, 'forced_rounds': 2, 'unroll': 2, 'objects': 3}),
  dict(name='realloc_inplace', unit='realloc', harness='h_realloc.c', scenarios=[{'KIND': 1}, {'KIND': 0}], timeout=900, cbmc=['--unwind', '20', '--object-bits', '12'],
       desc='reallocAligned one step: in-place decision for large objects (room measured from the USER pointer to the end of the backend block, alignment, huge-object halving rule) and slab objects (findObjectSize): same pointer => new size fits, headers intact, msize consistent; new block => one allocation, exactly min(old usable,new) bytes copied from the old pointer, old block freed once after the copy; failure => NULL, old object untouched',
       bounds={'newSize': 'full 64 bit', 'alignment': '0 or 2^0..2^63', 'large': 'unalignedSize < 2^60, objectSize and cache-line shuffle offset symbolic, block address symbolic', 'slab': 'every size class (symbolic), every object position, interior 128-aligned pointers for fitting classes',
               'cut': 'internalPoolMalloc, allocateAligned, internalPoolFree; stubs: remap, getMaxBinnedSize, getBackRef; memcpy observer'}),
  dict(name='calloc_arith', unit='calloc', harness='h_calloc.c', defines={'NOSPUR': None}, scenarios=calloc_sc(0) + calloc_sc(1), timeout=600, cbmc=['--unwind', '4', '--external-sat-solver', 'kissat'],
       desc='scalable_calloc element-count arithmetic (mult_not_overflow heuristic + exact arraySize/nobj test) through the real internalMalloc, allocator cut at internalPoolMalloc, memset observed; true product computed in 128 bits by the harness: block returned => product fits size_t, allocator asked exactly once for exactly nobj*size bytes (8 for an empty request), one memset(result, 0, nobj*size), errno untouched; product does not fit => NULL + ENOMEM before the allocator is reached; representable request refused only if the allocator failed; NULL => ENOMEM',
       bounds={'concrete factor F': '0, 1, 2, 3, 2^16, 2^31, 2^32-1, 2^32, 2^32+1, 2^33, 2^63, 2^64-1 (one query each)', 'other factor': 'full 64 bit symbolic', 'orders': 'ORDER0 nobj=F/size symbolic, ORDER1 size=F/nobj symbolic',
               'division': 'clang -O1 folds the arraySize/nobj != size idiom into llvm.umul.with.overflow: the solver sees a 128-bit multiply (both orders cost the same); a source change that breaks the idiom leaves a real udiv/urem (symbolic-divisor queries may then time out = inconclusive, never a pass)',
               'back end': 'kissat (F=2^32-1: 25-40 s; all others < 3 s)', 'cut': 'internalPoolMalloc (records size; NULL or a fresh address), doInitialization, getFromLLOCache / StartupBlock::allocate (nested-call path, unreachable); memset observer'}),
]
MANIFEST = dict(
  level_text='Bounded symbolic execution of the real tbbmalloc front-end kernels: size-class functions for every request size; one inductive step of the slab (Block) operations from an arbitrary state satisfying the representation invariant, for every size class; allocateAligned strategy selection for symbolic size/alignment with the inner allocator cut to its contract; reallocAligned in-place / copy / free decision (large and slab objects) as one step; scalable_calloc element-count arithmetic (overflow heuristic + exact test) against a 128-bit product, one factor from a concrete list straddling 2^32, the other fully symbolic, both argument orders; cross-thread free of slab objects (freePublicObject || owner privatisation / orphan adoption) on one block under all bounded interleavings of 2-3 threads. Sequential call histories are covered by the inductive-step argument, not by exploration.',
  level_note='Cut points and stub contracts listed in evidence; calloc products with two general (non-listed) factors are outside; whole-allocator histories through scalable_malloc and the backend/large-object cache are outside; cross-thread frees are covered only within the bounds of pubfree (one block, 2-3 threads, 2 rounds). Trusted: clang-14 IR, tools/ir2c.py (validated per run against the real C++ by the selftest differential), cbmc.',
)
OUTSIDE = ['whole-allocator call histories through scalable_malloc (initialisation, backend regions)', 'large-object cache and backend coalescing', 'cross-thread frees beyond the pubfree bounds (one block, <=2 concurrent frees, 2 rounds)', 'thread-exit orphan adoption end to end',
           'scalable_calloc with both factors general: calloc_arith fixes one factor to {0,1,2,3,2^16,2^31,2^32-1,2^32,2^32+1,2^33,2^63,2^64-1} (symbolic x symbolic 64-bit products are beyond SAT); zero fill is checked as the extent of the memset call, not byte by byte']
STUBS = ['internalPoolMalloc/getFromLLOCache: any pointer satisfying the slab-grid / alignment guarantee, or NULL', 'getTLS: arbitrary pointer', 'pthread_self: constant', 'calloc_arith: internalPoolMalloc records the requested byte count and returns NULL or a fresh non-null address (never dereferenced); memset on that address is an observer (destination, fill byte, extent); errno location is a harness variable; kissat as SAT back end']
ASSUMPTIONS = ['slab objects are placed at end-(k+1)*objectSize (established by block_step STEP 0/1/3 as an inductive invariant)', 'alignment passed to allocateAligned is a power of two (checked by all public callers)']

/* C17 "realloc_inplace": one step of the real reallocAligned() (frontend.cpp) on a LARGE object (KIND=1) or a SLAB object (KIND=0).
 * Address model (unit built with ptrhooks): the block/slab header is a real object at address BASE, the 16 bytes in front of the
 * user pointer P (LargeObjectHdr, or neighbour bytes in a slab) are a second real object; everything else of the block is address
 * space only (reallocAligned never touches it itself: the copy goes through memcpy, which is an observer here).
 *  KIND=1: LargeMemoryBlock at BASE (64-byte aligned) with symbolic unalignedSize/objectSize; P = BASE+128+64*k (k symbolic: the
 *          cache-line shuffle of getFromLLOCache), header at P-16 as llo_place establishes it; P+objectSize <= BASE+unalignedSize.
 *  KIND=0: slab at BASE (16 KB aligned), object of a legal size class os at BASE+16384-(k+1)*os, user pointer = object (+ an interior
 *          128-byte aligned offset for the fitting classes, as allocateAligned produces); invariant from block_step.
 * Cut/stubs: internalPoolMalloc / allocateAligned (NULL or a fresh pointer), internalPoolFree (recorder), ExtMemoryPool::remap
 * (NULL or some moved pointer), Backend::getMaxBinnedSize (1 MB | 4 MB), getBackRef (registered header for its index, else any
 * pointer that is not the address of slab-interior bytes).
 * Oracle: same pointer returned => P+newSize stays inside the block / the slab object, alignment satisfied, headers intact, nothing
 * allocated, copied or freed, msize reports >= newSize and never beyond the block; new block => exactly one allocation with the
 * requested (size, alignment), exactly min(old usable, new) bytes copied from P, old pointer freed exactly once afterwards;
 * allocation failure => NULL and the old object untouched. */
#include "w.h"
#include "vp.h"
typedef struct S_class_rml__internal__MemoryPool pool_t;
typedef unsigned __int128 u128;
#define SLAB 16384
u8 H[128] __attribute__((aligned(128)));   /* block header (LargeMemoryBlock) / slab header (Block) */
#ifdef VP_NATIVE
u8 WB[64] __attribute__((aligned(16)));    /* native replay: padding so that the one-past pointer W+16 cannot alias another harness object */
#define W (WB + 16)
#else
u8 W[16] __attribute__((aligned(16)));     /* the 16 bytes in front of the user pointer */
#endif
#define PTR (W + 16)                        /* the user pointer: one past W in the real world, address P in the model */
u64 BASE, P;
u64 vpx_pthread_self(void) { return 1; }
#ifdef VP_NATIVE
u64 vp_p2i(u8* p) { return (p >= H && p < H + 128) ? BASE + (u64)(p - H) : (p >= W && p <= W + 16) ? P - 16 + (u64)(p - W) : (u64)p; }
#else
u64 vp_p2i(u8* p) { return __CPROVER_POINTER_OBJECT(p) == __CPROVER_POINTER_OBJECT(H) ? BASE + (u64)__CPROVER_POINTER_OFFSET(p) :
                           __CPROVER_POINTER_OBJECT(p) == __CPROVER_POINTER_OBJECT(W) ? P - 16 + (u64)__CPROVER_POINTER_OFFSET(p) : (u64)p; }
#endif
u8* vp_i2p(u64 x) { return (x >= BASE && x - BASE < 128) ? H + (x - BASE) : (x >= P - 16 && x - (P - 16) <= 16) ? W + (x - (P - 16)) : (u8*)x; }

int n_alloc, n_aalloc, n_free, n_copy, n_remap, alloc_null, order_bad; u64 a_size, a_align, c_n, true_idx; u8 *c_dst, *c_src, *f_ptr, *newblk, *remapped;
u8* _ZN3rml8internalL18internalPoolMallocEPNS0_10MemoryPoolEm(pool_t* mp, u64 size) {
  n_alloc++; a_size = size;
  if (vp_nd_bool()) { alloc_null = 1; return 0; }
  newblk = (u8*)(0x100000ull + 64 * vp_nd_range(1, 1000)); return newblk;
}
u8* _ZN3rml8internalL15allocateAlignedEPNS0_10MemoryPoolEmm(pool_t* mp, u64 size, u64 alignment) {
  n_aalloc++; a_size = size; a_align = alignment;
  if (vp_nd_bool()) { alloc_null = 1; return 0; }
  newblk = (u8*)(0x100000ull + 64 * vp_nd_range(1, 1000)); return newblk;
}
u8 _ZN3rml8internalL16internalPoolFreeEPNS0_10MemoryPoolEPvm(pool_t* mp, u8* obj) { if (n_copy == 0) order_bad = 1; n_free++; f_ptr = obj; return 1; }
u8* _ZN3rml8internal13ExtMemoryPool5remapEPvmmm(struct S_struct_rml__internal__ExtMemoryPool* e, u8* ptr, u64 oldSize, u64 newSize, u64 alignment) {
  n_remap++;
  if (vp_nd_bool()) return 0;
  remapped = (u8*)(0x200000ull + 64 * vp_nd_range(1, 1000)); return remapped;
}
u64 _ZNK3rml8internal7Backend16getMaxBinnedSizeEv(struct S_class_rml__internal__Backend* b) { return vp_nd_bool() ? 1024 * 1024 : 4 * 1024 * 1024; }
u8* _ZN3rml8internal10getBackRefENS0_10BackRefIdxE(u64 idx) {
#if KIND == 1
  if (idx == true_idx) return W;
#endif
  u8* q = (u8*)vp_nd(); __CPROVER_assume(q != W); return q;
}
u8 _ZN3rml8internalL16doInitializationEv(void) { return 1; }
/* memcpy: the user-data copy of reallocAligned is observed (destination = the new block), small struct copies are executed */
void* memcpy(void* d, const void* s, size_t n) {
  if (newblk && d == (void*)newblk) { n_copy++; c_dst = d; c_src = (u8*)s; c_n = n; return d; }
  for (size_t i = 0; i < n && i < 16; i++) ((u8*)d)[i] = ((const u8*)s)[i];
  return d;
}
int main(void) {
  u64 newSize = vp_nd(), lg = vp_nd(); int has_al = vp_nd_bool();
  __CPROVER_assume(newSize >= 1 && lg <= 63);
  u64 alignment = has_al ? 1ull << lg : 0;
  u64 room, old_usable;         /* bytes from P to the end of the block / object; bytes the old object is known to hold */
  for (int i = 0; i < 16; i++) W[i] = (u8)vp_nd();
#if KIND == 1
  BASE = vp_nd(); __CPROVER_assume(BASE % 64 == 0 && BASE >= (1ull << 62) && BASE < (1ull << 62) + (1ull << 60));
  u64 us = vp_nd(), os = vp_nd(), k = vp_nd();
  __CPROVER_assume(us >= 8192 && us < (1ull << 60) && us % 64 == 0 && k < (1ull << 50) && os >= 1);
  P = BASE + 128 + 64 * k;
  __CPROVER_assume((u128)P + os <= (u128)BASE + us);
  true_idx = vp_idx_make((u32)vp_nd_range(0, 1000), 1, (u32)vp_nd_range(0, 2000));
  vp_lmb_setup(H, us, os, true_idx);
  vp_hdr_set(W, H, true_idx);
  room = BASE + us - P; old_usable = os;
#else
  BASE = vp_nd(); __CPROVER_assume(BASE % SLAB == 0 && BASE >= (1ull << 62) && BASE < (1ull << 62) + (1ull << 60));
  u32 cls = vp_objsize((u32)vp_nd_range(1, 8128));
  u64 k = vp_nd(), d = vp_nd();
  __CPROVER_assume(k < (SLAB - 128) / cls && d < cls);
  u64 obj = BASE + SLAB - (k + 1) * cls;
  P = obj + d;
  __CPROVER_assume(d == 0 || (cls > 1024 && P % 128 == 0));
  vp_slab_setup(H, cls);
  room = cls - d; old_usable = cls - d;
#endif
  u8* r = vp_realloc_aligned(PTR, newSize, alignment);
  if (r == PTR) {
    VP_ASSERT(newSize <= room, "realloc granted in place although the new size does not fit between the user pointer and the end of the block / object");
    VP_ASSERT(alignment == 0 || P % alignment == 0, "realloc granted in place although the pointer does not satisfy the requested alignment");
    VP_ASSERT(n_alloc + n_aalloc + n_free + n_copy == 0, "in-place realloc must not allocate, copy or free");
#if KIND == 1
    VP_ASSERT(vp_lmb_objsize(H) == newSize, "in-place realloc must record the new object size");
    VP_ASSERT(vp_lmb_unaligned(H) == us && vp_lmb_idx(H) == true_idx && vp_hdr_block(W) == H && vp_hdr_idx(W) == true_idx, "in-place realloc damaged the block / object header");
    VP_ASSERT(vp_msize(PTR) == newSize, "msize after an in-place realloc does not report the new size");
#endif
  } else if (remapped && r == remapped) {
    VP_ASSERT(KIND == 1 && n_alloc + n_aalloc + n_free + n_copy == 0, "remapped object must not be allocated / copied / freed again");
  } else {
    VP_ASSERT(n_alloc + n_aalloc == 1 && (alignment ? n_aalloc == 1 && a_align == alignment : n_alloc == 1) && a_size == newSize, "exactly one allocation with the requested size / alignment expected");
    if (alloc_null) {
      VP_ASSERT(r == 0 && n_free == 0 && n_copy == 0, "failed realloc must return NULL and leave the old object alone");
#if KIND == 1
      VP_ASSERT(vp_lmb_objsize(H) == os && vp_hdr_block(W) == H && vp_hdr_idx(W) == true_idx, "failed realloc changed the old object");
#endif
    } else {
      VP_ASSERT(r == newblk, "realloc must return the newly allocated block");
      VP_ASSERT(n_copy == 1 && c_dst == newblk && c_src == PTR, "contents must be copied exactly once from the old user pointer to the new block");
      VP_ASSERT(c_n == (old_usable < newSize ? old_usable : newSize), "realloc must copy exactly min(old usable size, new size) bytes");
      VP_ASSERT(n_free == 1 && f_ptr == PTR && !order_bad, "old block must be freed exactly once, after the copy");
    }
  }
  VP_REACHED();
}

/* C17 extension "pubfree" (thread mode): cross-thread free on one slab block, real Block::freePublicObject,
 * Bin::addPublicFreeListBlock / getPrivatizedFreeListBlock, Block::privatizePublicFreeList / privatizeOrphaned / allocateFromFreeList.
 * Block header, bin and objects are separate typed objects (the code under test does no slab address arithmetic on these paths).
 * SC: 0 free(o0) || owner          1 free(o0) || free(o1) || owner       2 free(o0) || free(o1) || owner looking twice
 *     6 pre-state built by a real sequential free(o0) (o0 listed, block mailed): free(o1) || owner
 *     3 orphaned block: free(o0) || adopter      4 orphaned: free(o0) || free(o1) || adopter      5 free(o0) || free(o1)
 * Oracle at quiescence (every interleaving with <= ROUNDS slices per thread): every freed object is in exactly one place (public
 * list, private free list, or handed out again), the never-freed object o2 is in none; nothing is handed out that was not freed;
 * allocatedCount matches; a block with a non-empty public list is in the owner's mailbox exactly once (otherwise its objects are
 * lost for ever); the UNUSABLE sentinel is never dereferenced (cbmc pointer checks) and never left in a list that the owner walks. */
#include "w.h"
#include "vp.h"
typedef struct S_class_rml__internal__Block blk_t;
typedef struct S_class_rml__internal__Bin bin_t;
typedef struct S_class_rml__internal__TLSData tls_t;
blk_t B; bin_t BIN; tls_t TLS;
u64 objs[3][8];
#define O(k) ((u8*)objs[k])
#define CNT0 3
#if SC == 0 || SC == 3
#define NFREE 1
#else
#define NFREE 2
#endif
#if SC == 3 || SC == 4
#define ORPHAN 1
#else
#define ORPHAN 0
#endif
u64 vpx_pthread_self(void) { return 1; }
/* Block::adjustPositionInBin is cut: it touches only owner-private state (isFull, the bin's block list) and its float
   arithmetic dominates the formula; the slab-fullness logic is covered sequentially by block_step */
void _ZN3rml8internal5Block19adjustPositionInBinEPNS0_3BinE(blk_t* b, bin_t* bin) {}
int begun[3], ended[3], ngot; u8* got[2]; u8* owner_blk[2]; int nblk;
static int idx_of(u8* p) { return p == O(0) ? 0 : p == O(1) ? 1 : p == O(2) ? 2 : -1; }
void vp_free_begin(u8* o) { begun[idx_of(o)] = 1; }
void vp_free_end(u8* o) { ended[idx_of(o)] = 1; }
void vp_owner_block(u8* b) { VP_ASSERT(b == 0 || b == (u8*)&B, "owner obtained a block that is not the slab"); owner_blk[nblk++] = b; }
void vp_got(u32 i, u8* p) {
  if (p) { int k = idx_of(p); VP_ASSERT(k >= 0 && k < NFREE && begun[k], "object handed out again although nobody freed it (duplicate hand-out)"); got[ngot++] = p; }
}
static int solid(u8* p) { return ((u64)p | vp_unusable()) != vp_unusable(); }
int main(void) {
  bin_t* bin = ORPHAN ? (bin_t*)vp_tls_bin(&TLS, vp_index_of(64)) : &BIN;
  vp_pub_setup(&B, bin, 64, CNT0, ORPHAN);
#if SC == 6
  vp_seq_free(&B, O(0)); begun[0] = ended[0] = 1;
  vp_thr_free_b_start(&B, O(1));
#else
  vp_thr_free_a_start(&B, O(0));
#if NFREE == 2
  vp_thr_free_b_start(&B, O(1));
#endif
#endif
#if SC == 0 || SC == 1 || SC == 6
  vp_thr_owner_o_start(bin);
#define OWN vp_thr_owner_o
#elif SC == 2
  vp_thr_owner2_o_start(bin);
#define OWN vp_thr_owner2_o
#elif SC == 3 || SC == 4
  vp_thr_adopt_o_start(&B, &TLS, vp_index_of(64));
#define OWN vp_thr_adopt_o
#endif
  for (int r = 0; r < ROUNDS; r++) {
#if SC != 6
    VP_RUNT(vp_thr_free_a, 0)
#endif
#if NFREE == 2
    VP_RUNT(vp_thr_free_b, 1)
#endif
#ifdef OWN
    VP_RUNT(OWN, 2)
#endif
  }
#if SC == 0 || SC == 3
  VP_QUIESCE2(vp_thr_free_a, OWN)
#elif SC == 6
  VP_QUIESCE2(vp_thr_free_b, OWN)
#elif SC == 5
  VP_QUIESCE2(vp_thr_free_a, vp_thr_free_b)
#else
  VP_QUIESCE3(vp_thr_free_a, vp_thr_free_b, OWN)
#endif
  VP_ASSERT(!vp_deadlock, "threads stuck (lock never released / lost hand-off)");
  __CPROVER_assume(!vp_unfinished);
  /* ---- final state */
  int where[3] = {0, 0, 0};
  u8* p = vp_pub_public(&B); int npub = 0;
  for (int i = 0; i < 3 && solid(p); i++) { int k = idx_of(p); VP_ASSERT(k >= 0, "public free list holds a foreign pointer"); where[k]++; npub++; p = vp_obj_next(p); }
  VP_ASSERT(!solid(p), "public free list longer than the number of objects (cycle)");
  u8* q = vp_pub_freelist(&B); int nfree = 0;
  for (int i = 0; i < 3 && q; i++) { VP_ASSERT(solid(q), "UNUSABLE sentinel left inside the private free list"); int k = idx_of(q); VP_ASSERT(k >= 0, "private free list holds a foreign pointer"); where[k]++; nfree++; q = vp_obj_next(q); }
  VP_ASSERT(q == 0, "private free list longer than the number of objects (cycle)");
  for (int i = 0; i < ngot; i++) where[idx_of(got[i])]++;
  for (int k = 0; k < NFREE; k++) { VP_ASSERT(ended[k], "free did not finish"); VP_ASSERT(where[k] >= 1, "freed object lost"); VP_ASSERT(where[k] <= 1, "freed object duplicated (in two lists / handed out while still listed)"); }
  for (int k = NFREE; k < 3; k++) VP_ASSERT(where[k] == 0, "object that is still in use appeared in a free list");
  VP_ASSERT(vp_pub_count(&B) == CNT0 - nfree, "allocatedCount does not match the objects really in use");
  u8* mb = vp_pub_mailbox(bin); u8* np = vp_pub_nextpriv(&B);
#ifdef OWN
  if (npub) { VP_ASSERT(mb == (u8*)&B && np == 0, "block with publicly freed objects is not (exactly once) in the owner's mailbox: objects lost"); }
  else { VP_ASSERT(mb == 0 && np == (u8*)bin, "mailbox / nextPrivatizable inconsistent after privatisation"); VP_ASSERT(vp_pub_public(&B) == 0, "public list marker not reset by the owner"); }
#else
  VP_ASSERT(npub == NFREE && mb == (u8*)&B && np == 0, "both objects must be on the public list and the block mailed exactly once");
#endif
  VP_REACHED();
}

/* C17: one step of the real slab code from an arbitrary valid slab state (inductive step; see DESIGN 3.2).
 * Representation invariant INV(b): objectSize is a legal class size os; objects live at end-(k+1)*os, k<cap;
 * bumpPtr == end-(i+1)*os for some i<cap or NULL (i==cap); every free-list node is a distinct object with index < i;
 * allocatedCount == i - |freeList|. */
#include "w.h"
#include "vp.h"
#define SLAB 16384
typedef struct S_class_rml__internal__Block blk_t;
u8 slab[SLAB] __attribute__((aligned(16384)));
#define B ((blk_t*)slab)
u64 vpx_pthread_self(void) { return 1; }
static u8* obj(unsigned os, unsigned k) { return slab + SLAB - (u64)(k + 1) * os; }
static int is_obj(unsigned os, unsigned cap, u8* p) { u64 d = (u64)(slab + SLAB - p); return p > slab && d % os == 0 && d / os >= 1 && d / os <= cap; }
int main(void) {
  unsigned HS = vp_sizeof_block();
  VP_ASSERT(HS == 128 && vp_slab_size() == SLAB, "slab geometry changed: harness constants stale");
  /* the size class is concrete per query (REQ enumerated by the runner over every class, list proved complete by
     h_sizeclass PART 3); positions, counts and free-list shape stay symbolic */
  unsigned req = REQ;
  unsigned os = vp_objsize(req);
  unsigned cap = (SLAB - HS) / os;
#if STEP == 0   /* initEmptyBlock establishes INV with i == 0 */
  vp_block_init(B, req);
  VP_ASSERT(vp_block_objsize(B) == os, "init: object size");
  VP_ASSERT(vp_block_bump(B) == obj(os, 0) && vp_block_freelist(B) == 0 && vp_block_count(B) == 0, "init: invariant not established");
  VP_ASSERT(obj(os, 0) >= slab + HS, "init: first object overlaps the header");
#elif STEP == 1 /* allocate() from any INV state with <= 2 free-list nodes */
  unsigned i = (unsigned)vp_nd(); __CPROVER_assume(i <= cap);
  unsigned nf = (unsigned)vp_nd(); __CPROVER_assume(nf <= 2 && nf <= i);
  unsigned f0 = (unsigned)vp_nd(), f1 = (unsigned)vp_nd();
  __CPROVER_assume(f0 < i && f1 < i && f0 != f1);
  u8* bump = (i == cap) ? 0 : obj(os, i);
  u8* fl = 0;
  if (nf == 2) { *(u8**)obj(os, f1) = 0; *(u8**)obj(os, f0) = obj(os, f1); fl = obj(os, f0); }
  else if (nf == 1) { *(u8**)obj(os, f0) = 0; fl = obj(os, f0); }
  vp_block_setup(B, (u16)os, bump, fl, (u16)(i - nf));
  u8* r = (u8*)vp_block_alloc(B);
  if (nf > 0) VP_ASSERT(r == obj(os, f0), "allocate: free list head not used first");
  else if (i < cap) VP_ASSERT(r == bump, "allocate: bump pointer object expected");
  else { VP_ASSERT(r == 0, "allocate: full slab must return NULL"); VP_ASSERT(vp_block_isfull(B), "full slab not marked full"); }
  if (r) {
    VP_ASSERT(r >= slab + HS && r + os <= slab + SLAB, "allocate: object outside the slab payload / overlaps header");
    VP_ASSERT(is_obj(os, cap, r), "allocate: result is not on the object grid");
    VP_ASSERT(((u64)r % 16 == 0) || os == 8, "allocate: result not 16-byte aligned");
    VP_ASSERT(vp_block_count(B) == i - nf + 1, "allocate: allocatedCount not incremented");
    /* post-state keeps INV and r is no longer available: not the new bump object, not on the free list */
    u8* nb = (u8*)vp_block_bump(B); u8* nfl = (u8*)vp_block_freelist(B);
    VP_ASSERT(nb != r && nfl != r, "allocate: returned object still available (double hand-out)");
    if (nf == 0) VP_ASSERT(nb == (i + 1 == cap ? 0 : obj(os, i + 1)), "allocate: bump pointer not advanced by one object");
    else { VP_ASSERT(nb == bump, "allocate: bump moved although free list was used"); VP_ASSERT(nfl == (nf == 2 ? obj(os, f1) : 0), "allocate: free list not popped"); }
    if (nb) VP_ASSERT(nb >= slab + HS, "allocate: next bump object overlaps the header");
  }
#elif STEP == 2 /* interior (aligned) pointers map back to their object; msize covers the rest of the object */
  unsigned k = (unsigned)vp_nd(); __CPROVER_assume(k < cap);
  unsigned d = (unsigned)vp_nd(); __CPROVER_assume(d < os);
  u8* o = obj(os, k); u8* p = o + d;
  /* pointers handed to users: the object itself, or (fitting sizes only) an address aligned up to >=128 inside it */
  __CPROVER_assume(d == 0 || (os > 1024 && (u64)p % 128 == 0));
  vp_block_setup(B, (u16)os, 0, 0, (u16)cap);
  VP_ASSERT((u8*)vp_find_to_free(B, p) == o, "findObjectToFree: user pointer mapped to the wrong object");
  VP_ASSERT(vp_find_size(B, p) == os - d, "findObjectSize: usable size wrong for (aligned) pointer");
#elif STEP == 3 /* restoreBumpPtr on an empty slab re-establishes INV */
  vp_block_setup(B, (u16)os, 0, obj(os, 0), 0);
  vp_restore_bump(B);
  VP_ASSERT(vp_block_bump(B) == obj(os, 0) && vp_block_freelist(B) == 0 && !vp_block_isfull(B), "restoreBumpPtr: invariant not re-established");
#endif
  VP_REACHED();
}

// C17 "realloc_inplace": the real reallocAligned() (frontend.cpp) with isLargeObject / Block::findObjectSize / findObjectToFree;
// inner allocator and free are cut (spec: cut=[internalPoolMalloc, allocateAligned, internalPoolFree, doInitialization]);
// getBackRef, ExtMemoryPool::remap, Backend::getMaxBinnedSize are external to frontend.cpp (harness stubs).
#include "src/tbbmalloc/frontend.cpp"
using namespace rml::internal;
static inline unsigned long idx_bits(BackRefIdx i) { unsigned long b = 0; memcpy(&b, &i, sizeof(i)); return b; }
static inline BackRefIdx bits_idx(unsigned long b) { BackRefIdx i; memcpy(&i, &b, sizeof(i)); return i; }
extern "C" {
void* vp_realloc_aligned(void* ptr, unsigned long newSize, unsigned long alignment) { return reallocAligned(defaultMemPool, ptr, newSize, alignment); }
unsigned long vp_msize(void* ptr) { return internalMsize(ptr); }
void* vp_default_pool() { return defaultMemPool; }
unsigned vp_objsize(unsigned s) { return getObjectSize(s); }
unsigned long vp_sizeof_lmb() { return sizeof(LargeMemoryBlock); }
unsigned long vp_idx_make(unsigned main, unsigned large, unsigned offset) { BackRefIdx i; i.main = main; i.largeObj = large; i.offset = offset; return idx_bits(i); }
void vp_lmb_setup(void* p, unsigned long unalignedSize, unsigned long objectSize, unsigned long idxbits) { LargeMemoryBlock* l = (LargeMemoryBlock*)p; l->unalignedSize = unalignedSize; l->objectSize = objectSize; l->backRefIdx = bits_idx(idxbits); l->pool = defaultMemPool; }
unsigned long vp_lmb_objsize(void* p) { return ((LargeMemoryBlock*)p)->objectSize; }
unsigned long vp_lmb_unaligned(void* p) { return ((LargeMemoryBlock*)p)->unalignedSize; }
unsigned long vp_lmb_idx(void* p) { return idx_bits(((LargeMemoryBlock*)p)->backRefIdx); }
void vp_hdr_set(void* hdr, void* lmb, unsigned long idxbits) { LargeObjectHdr* h = (LargeObjectHdr*)hdr; h->memoryBlock = (LargeMemoryBlock*)lmb; h->backRefIdx = bits_idx(idxbits); }
void* vp_hdr_block(void* hdr) { return ((LargeObjectHdr*)hdr)->memoryBlock; }
unsigned long vp_hdr_idx(void* hdr) { return idx_bits(((LargeObjectHdr*)hdr)->backRefIdx); }
void vp_slab_setup(void* b, unsigned objSize) { Block* bl = (Block*)b; bl->objectSize = (uint16_t)objSize; bl->bumpPtr = nullptr; bl->freeList = nullptr; bl->allocatedCount = 1; bl->poolPtr = defaultMemPool; }
}

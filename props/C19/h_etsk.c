/* C19 ets_clear: the real enumerable_thread_specific<int> (FLAVOUR 1 = ets_key_per_instance: native TLS slot in front of the table;
 * FLAVOUR 0 = ets_no_key) driven by sequential steps of NT model threads (vp_cur = calling thread; no interleaving):
 *   T0 local, T1 local, [T2 local], T0 local again | T0 clear() | T1 local, T0 local, both again | iteration, size, combine.
 * Property clause: after clear() the container is empty, so EVERY thread's next local() is a first use again: exists == false, exactly
 * one new initialiser call for that thread, and the returned element is one of the container's elements (iteration / size / combine see
 * exactly the elements handed out after the clear) - for the threads that did not call clear() as well as for the one that did. */
#include "w.h"
#include "vp.h"
#ifndef FLAVOUR
#define FLAVOUR 1
#endif
#if FLAVOUR == 1
#define ETS_T struct S_class_tbb__detail__d1__enumerable_thread_specific
#define F(x) vp_k_##x
#else
#define ETS_T struct S_class_tbb__detail__d1__enumerable_thread_specific_9
#define F(x) vp_n_##x
#endif
ETS_T E;
#define KEY(t) (0x7f0000001000ull + 0x100ull * (t))
#ifdef HCOLL
#define HV(t) 5                           /* all thread ids collide in the table */
#endif
#ifndef HV
#define HV(t) (1 + 2 * (t))                 /* top-3-bit hash of thread t; scenario may redefine (collisions) */
#endif
int inits[3]; u32* visited[4]; int nvisited;

/* ---- pthread TLS keys: documented contract (POSIX pthread_key_create/delete/getspecific/setspecific): a created key is fresh, its
   value is NULL in every thread; delete invalidates it (a later create may hand out the same number again, as glibc does: lowest free
   slot); get/set on a key that is not valid is undefined behaviour -> reported */
#define NKEYS 3
int key_valid[NKEYS]; u8* key_val[3][NKEYS];
u32 vpx_pthread_key_create(u32* key, vp_fn dtor) {
  for (u32 k = 0; k < NKEYS; k++) if (!key_valid[k]) {
    key_valid[k] = 1;
    for (int t = 0; t < 3; t++) key_val[t][k] = 0;
    *key = k; return 0;
  }
  VP_ASSERT(0, "more live TLS keys than the scenario can need (key leak)"); return 11;
}
u32 vpx_pthread_key_delete(u32 k) { VP_ASSERT(k < NKEYS && key_valid[k], "pthread_key_delete of a key that is not valid"); if (k < NKEYS) key_valid[k] = 0; return 0; }
u8* vpx_pthread_getspecific(u32 k) { VP_ASSERT(k < NKEYS && key_valid[k], "pthread_getspecific on a deleted / never created key"); return k < NKEYS ? key_val[vp_cur][k] : 0; }
u32 vpx_pthread_setspecific(u32 k, u8* v) { VP_ASSERT(k < NKEYS && key_valid[k], "pthread_setspecific on a deleted / never created key"); if (k < NKEYS) key_val[vp_cur][k] = v; return 0; }
u64 vpx_pthread_self(void) { return KEY(vp_cur); }
u64 _ZSt11_Hash_bytesPKvmm(u8* p, u64 len, u64 seed) {
  u64 k = *(u64*)p;
  for (int t = 0; t < 3; t++) if (k == KEY(t)) return (u64)HV(t) << 61;
  VP_ASSERT(0, "hash requested for a key that is no thread id of the scenario"); return 0;
}
/* ---- allocation entry points of libtbb: fresh block per call (malloc contract) */
int nalloc, nfree;
u8* _ZN3tbb6detail2r115allocate_memoryEm(u64 n) { nalloc++; return vpx_malloc(n); }
void _ZN3tbb6detail2r117deallocate_memoryEPv(u8* p) { nfree++; vpx_free(p); }
u8* _ZN3tbb6detail2r122cache_aligned_allocateEm(u64 n) { nalloc++; return vpx_malloc(n); }
void _ZN3tbb6detail2r124cache_aligned_deallocateEPv(u8* p) { nfree++; vpx_free(p); }
void _ZN3tbb6detail2r115throw_exceptionENS0_2d012exception_idE(u32 id) { VP_ASSERT(0, "r1::throw_exception reached"); }
void vpx___cxa_pure_virtual(void) { VP_ASSERT(0, "pure virtual call"); }
void _ZdlPv(u8* p) { vpx_free(p); }
/* ---- observers */
u32 vp_init_value(void) { inits[vp_cur]++; return 100 + vp_cur; }
void vp_visit(u32* e) { VP_ASSERT(nvisited < 4, "iteration visits more elements than threads"); if (nvisited < 4) visited[nvisited++] = e; }

static u32* local_as(int t, int expect_exists, int expect_inits, const char* unused) {
  u32 ex = 2; vp_cur = t;
  u32* p = F(local)(&E, &ex);
  if (expect_exists) VP_ASSERT(ex == 1, "repeated access of a thread did not report its existing element");
  else VP_ASSERT(ex == 0, "first use (initially or after clear()) reported an existing element");
  VP_ASSERT(inits[t] == expect_inits, "initialiser call count of the thread is wrong (must be exactly one per first use)");
  VP_ASSERT(p != 0 && *p == 100u + t, "element does not hold the value its own initialiser produced");
  return p;
}
static void check_contents(u32** want, int n) {
  VP_ASSERT(F(size)(&E) == (u64)n, "size() differs from the number of threads that used the container");
  VP_ASSERT(F(empty)(&E) == (n == 0), "empty() wrong");
  nvisited = 0; F(visit)(&E);
  VP_ASSERT(nvisited == n, "iteration does not visit exactly one element per thread");
  for (int i = 0; i < n; i++) {
    int hits = 0;
    for (int j = 0; j < nvisited; j++) hits += visited[j] == want[i];
    VP_ASSERT(hits == 1, "an element returned by local() is not visited exactly once by iteration (not part of the container)");
  }
}
int main(void) {
  u32* p[3]; u32* q[3];
  F(init)((u8*)&E);
  VP_ASSERT(F(size)(&E) == 0 && F(empty)(&E), "fresh container not empty");
  for (int t = 0; t < NT; t++) p[t] = local_as(t, 0, 1, "");
  for (int t = 0; t < NT; t++) for (int u = 0; u < t; u++) VP_ASSERT(p[t] != p[u], "two threads share an element");
  for (int t = 0; t < NT; t++) VP_ASSERT(local_as(t, 1, 1, "") == p[t], "address of a thread's element changed");
  check_contents(p, NT);
  vp_cur = 0; F(clear)(&E);                                  /* T0 clears */
  VP_ASSERT(F(size)(&E) == 0 && F(empty)(&E), "container not empty after clear()");
  /* after the clear only T1 and T0 come back (in this order: the non-clearing thread first) */
  q[1] = local_as(1, 0, 2, "");
  q[0] = local_as(0, 0, 2, "");
  VP_ASSERT(q[0] != q[1], "two threads share an element after clear()");
  VP_ASSERT(local_as(1, 1, 2, "") == q[1] && local_as(0, 1, 2, "") == q[0], "address of a thread's element changed after clear()");
  check_contents(q, 2);
  VP_ASSERT(F(combine)(&E) == 100 + 101, "combine() does not fold exactly the two live elements");
#if NT == 3
  VP_ASSERT(inits[2] == 1, "initialiser ran for a thread that did not come back");
#endif
  VP_REACHED();
  return 0;
}

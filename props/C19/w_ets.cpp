// C19 `ets`: thread bodies over the real ets_base<ets_no_key> (enumerable_thread_specific.h): table_lookup / allocate / slot::claim.
// The three virtuals of ets_base (element storage and array storage; in enumerable_thread_specific they go to a
// concurrent_vector and the allocator) are the external boundary: harness stubs.
#include "oneapi/tbb/enumerable_thread_specific.h"
using namespace tbb::detail;
extern "C" void* vp_create_local(void);
extern "C" void* vp_create_array(unsigned long bytes);
extern "C" void  vp_free_array(void* p, unsigned long bytes);
extern "C" void  vp_local_result(int tid, void* p, int exists);
struct vp_ets final : d1::ets_base<d1::ets_no_key> {
  void* create_local() override { return vp_create_local(); }
  void* create_array(std::size_t n) override { return vp_create_array(n); }
  void free_array(void* p, std::size_t n) override { vp_free_array(p, n); }
};
typedef d1::ets_base<d1::ets_no_key> base_t;
// thread body: one access of the model thread with id `tid` (first access = insert, or a later access of an id that is already there)
extern "C" void vp_thr_ets(vp_ets* e, int tid) {
  bool exists = false;
  void* p = e->table_lookup(exists);
  vp_local_result(tid, p, exists);
}
// sequential entry points (run by the harness outside the concurrent phase)
extern "C" void vp_ets_init(vp_ets* e) { new (e) vp_ets(); }
extern "C" void* vp_ets_lookup(vp_ets* e, int* exists) { bool ex = false; void* p = e->table_lookup(ex); *exists = ex; return p; }
extern "C" unsigned long vp_ets_count(vp_ets* e) { return e->my_count.load(std::memory_order_relaxed); }
extern "C" unsigned long vp_ets_root_lg(vp_ets* e) { base_t::array* r = e->my_root.load(std::memory_order_relaxed); return r ? r->lg_size : 0; }
extern "C" void* vp_ets_root(vp_ets* e) { return e->my_root.load(std::memory_order_relaxed); }
// layout facts the harness' final table walk relies on
extern "C" int vp_ets_layout_ok(void) {
  return sizeof(base_t::array) == 16 && offsetof(base_t::array, next) == 0 && offsetof(base_t::array, lg_size) == 8 &&
         sizeof(base_t::slot) == 16 && offsetof(base_t::slot, key) == 0 && offsetof(base_t::slot, ptr) == 8 && sizeof(std::thread::id) == 8;
}

/* C19 ets: NT threads do their first access (and, TWICE, a second one) on one real ets_base table that already holds PRE elements
 * of other threads, so that the inserts cross a doubling of the slot array (4 -> 8 -> 16 slots) while others are probing it.
 * Symbolic: schedule, hash value of every thread id (top 4 bits: every collision pattern in arrays of up to 16 slots).
 * Oracle: one create_local() per thread id; first access returns exactly that element with exists==false; later accesses return the
 * same address with exists==true (also after the array was replaced); at the end every id is in the table (at most once per
 * array, always with its own element), my_count == number of ids, the root array is at most half full, freed arrays were never
 * published; a sequential re-lookup of every id (including the pre-existing ones) finds its element. */
#include "w.h"
#include "vp.h"
#define THR(s) vp_thr_ets_##s
#ifndef PRE
#define PRE 0
#endif
#ifndef NNEW
#define NNEW NT          /* ids 0..NNEW-1 have no element yet; ids NNEW..NNEW+PRE-1 are pre-existing */
#endif
#define NID (NNEW + PRE)
#ifndef FORCED
#define FORCED 2
#endif
#ifndef MAXLG
#define MAXLG 3            /* largest slot array of the scenario: 1<<MAXLG slots (NID <= 4 needs 8, NID == 5 needs 16) */
#endif
#define NPOOL (NNEW + (PRE > 0))   /* every insert allocates at most one array; the pre-existing ids share the first one */
#define KEY(t) (0x7f0000001000ull + 0x100ull * (t))      /* pthread_t-like, non-zero, distinct; ids NT.. are the pre-existing threads */
struct S_struct_vp_ets E;
u64 H[5];
#ifndef HV
#define HV(t) vp_nd_range(0, (1u << HBITS) - 1)
#endif
u32 elems[5]; int ncreated, created_by[5]; u8* elem_of[5];
u8* res[5]; int relooked[5];
/* array storage handed out by create_array: plain u64 arrays (header = 2 words, slot = 2 words), one root object each, so that cbmc
   turns the real code's u64 accesses at data-dependent slot indices into array indexing instead of byte extraction */
#define AWORDS (2 + 2 * (1 << MAXLG))
u64 pool0[AWORDS], pool1[AWORDS], pool2[AWORDS], pool3[AWORDS];
#define POOL(i) ((i) == 0 ? (u8*)pool0 : (i) == 1 ? (u8*)pool1 : (i) == 2 ? (u8*)pool2 : (u8*)pool3)
int npool, pool_state[4]; u64 pool_bytes[4];
u8* root_at_alloc[4];            /* ghost: my_root when create_array handed the array out */
int inchain[4], isroot[4];        /* filled by final_table_check */
/* atomic<array*> is accessed as i64 by clang: pointer<->integer casts go through these identity hooks (unit key ptrhooks) so that
   cbmc sees the finite candidate set = the arrays create_array handed out */
u64 vp_p2i(u8* p) { return (u64)p; }
#ifndef VP_NATIVE
/* cbmc's built-in memset over a data-dependent length is very expensive; same semantics, word-wise (all uses in this unit are
   8-byte multiples: slot arrays and the 24-byte ets_base object) */
void* memset(void* p, int v, size_t n) {
  VP_ASSERT(n % 8 == 0 && n <= 8 * AWORDS && v == 0, "memset outside the modelled shape");
  for (int k = 0; k < AWORDS; k++) if (8ull * k < n) ((u64*)p)[k] = 0;
  return p;
}
#endif
int i2p_bad;
u8* vp_i2p(u64 x) {
  for (int i = 0; i < NPOOL; i++) if (x == (u64)POOL(i)) return POOL(i);
  if (x) i2p_bad = 1;
  return 0;
}
u64 vpx_pthread_self(void) { return KEY(vp_cur); }
/* std::_Hash_bytes(ptr,len,seed): contract = deterministic function of the key bytes; the value per id is symbolic */
u64 _ZSt11_Hash_bytesPKvmm(u8* p, u64 len, u64 seed) {
  u64 k = *(u64*)p;
  for (int t = 0; t < NID; t++) if (k == KEY(t)) return H[t];
  VP_ASSERT(0, "hash requested for a key that is no thread id of the scenario"); return 0;
}
u8* vp_create_local(void) {
  VP_ASSERT(created_by[vp_cur] == 0, "second initialiser call (create_local) for the same thread");
  VP_ASSERT(ncreated < 5, "more elements than threads");
  created_by[vp_cur]++; elem_of[vp_cur] = (u8*)&elems[ncreated]; ncreated++;
  return elem_of[vp_cur];
}
u8* vp_create_array(u64 bytes) {
  VP_ASSERT(bytes >= 16 + 4 * 16 && bytes <= 8 * AWORDS, "array size outside the modelled range (4..1<<MAXLG slots)");
  VP_ASSERT(npool < NPOOL, "more arrays allocated than one per inserting thread");
  pool_state[npool] = 1; pool_bytes[npool] = bytes; root_at_alloc[npool] = vp_ets_root(&E);
  npool++; return POOL(npool - 1);
}
void vp_free_array(u8* p, u64 bytes) {
  for (int i = 0; i < NPOOL; i++) if (p == POOL(i)) {
    VP_ASSERT(pool_state[i] == 1 && pool_bytes[i] == bytes, "free_array of a dead array or with the wrong size");
    pool_state[i] = 2; return;
  }
  VP_ASSERT(0, "free_array of a pointer that create_array never returned");
}
/* observer: an access of thread id `id` returned element p */
void vp_local_result(u32 id, u8* p, u32 exists) {
  if (res[id] == 0) {
    VP_ASSERT(!exists, "first access of a thread reported an existing element");
    VP_ASSERT(created_by[id] == 1 && p == elem_of[id], "first access did not return the element created for this thread");
    res[id] = p;
  } else {
    VP_ASSERT(exists, "later access of a thread did not find its element");
    VP_ASSERT(p == res[id], "element address of a thread changed (or another thread's element returned)");
    VP_ASSERT(created_by[id] == 1, "later access created a second element for the same thread");
    relooked[id] = 1;
  }
}
#define PW(i) ((i) == 0 ? pool0 : (i) == 1 ? pool1 : (i) == 2 ? pool2 : pool3)
/* walks the real table through its memory words (layout {next, lg_size}{key, ptr}...: validated against the real types by
   vp_ets_layout_ok(), an assumption => a layout change makes the check inconclusive, not a false alarm) */
static void final_table_check(void) {
  VP_ASSERT(!i2p_bad, "array pointer word that is neither null nor an allocated array");
  VP_ASSERT(vp_ets_count(&E) == NID, "my_count differs from the number of thread ids");
  u8* r = vp_ets_root(&E);
  VP_ASSERT(r != 0, "no root array");
  int total[5] = {0, 0, 0, 0, 0};
  u64 prev_lg = 64;
  for (int d = 0; d < NPOOL; d++) {
    if (!r) break;
    int found = 0;
    for (int i = 0; i < NPOOL; i++) if (r == POOL(i) && !found) {
      found = 1;
      VP_ASSERT(pool_state[i] == 1, "array chain contains a freed array");
      VP_ASSERT(PW(i)[1] >= 2 && PW(i)[1] <= MAXLG && 16 + (16ull << PW(i)[1]) == pool_bytes[i], "lg_size of an array does not match its allocation");
      VP_ASSERT(PW(i)[1] < prev_lg, "array chain is not strictly decreasing in size");
      prev_lg = PW(i)[1]; inchain[i] = 1; isroot[i] = (d == 0);
      r = vp_i2p(PW(i)[0]);
    }
    VP_ASSERT(found, "array chain contains a foreign pointer");
  }
  VP_ASSERT(r == 0, "array chain longer than the number of allocated arrays");
  for (int i = 0; i < NPOOL; i++) if (inchain[i]) {
    int used = 0, cnt[5] = {0, 0, 0, 0, 0};
    for (int k = 0; k < (1 << MAXLG); k++) if (k < (1 << PW(i)[1])) {
      u64 key = PW(i)[2 + 2 * k];
      if (key) {
        used++;
        int known = 0;
        for (int t = 0; t < NID; t++) if (key == KEY(t)) {
          known = 1; cnt[t]++; total[t]++;
          VP_ASSERT(PW(i)[3 + 2 * k] == (u64)res[t], "slot of a thread id points to another element");
        }
        VP_ASSERT(known, "slot holds a key that is no thread id");
      }
    }
    for (int t = 0; t < NID; t++) VP_ASSERT(cnt[t] <= 1, "thread id occurs twice in one array");
    if (isroot[i]) VP_ASSERT(2 * used <= (1 << PW(i)[1]) && 2 * NID <= (1 << PW(i)[1]), "root array more than half full");
  }
  for (int t = 0; t < NID; t++) VP_ASSERT(total[t] >= 1, "thread id missing from the table");
}
/* scenario: thread a runs as id IDA, b as IDB (c as IDC); ids >= NNEW are the PRE pre-existing ones, so IDA >= NNEW means "a later access
   of a thread that already has its element" racing with the inserts of the others */
#ifndef IDA
#define IDA 0
#endif
#ifndef IDB
#define IDB 1
#endif
#ifndef IDC
#define IDC 2
#endif
int main(void) {
  __CPROVER_assume(vp_ets_layout_ok());
  vp_ets_init(&E);
  for (int t = 0; t < NID; t++) H[t] = (u64)HV(t) << (64 - HBITS);
  /* scenario may fix the hash of an id (H<id>=top bits): with concrete hashes the pre-existing part of the table is built by plain
     concrete execution of the real code */
#ifdef H0
  H[0] = (u64)H0 << (64 - HBITS);
#endif
#ifdef H1
  H[1] = (u64)H1 << (64 - HBITS);
#endif
#ifdef H2
  H[2] = (u64)H2 << (64 - HBITS);
#endif
#ifdef H3
  H[3] = (u64)H3 << (64 - HBITS);
#endif
#ifdef H4
  H[4] = (u64)H4 << (64 - HBITS);
#endif
  for (int t = NNEW; t < NID; t++) {           /* pre-existing elements: the real table_lookup run sequentially (plain translation of the same function) */
#ifndef PRE_SEQ
    THR(p_start)(&E, t); THR(p_fin) = 0; vp_cur = t;
    for (int k = 0; k < 3; k++) { VP_RUNMAX(THR(p)) }
    __CPROVER_assume(THR(p_fin));
#else
    u32 ex = 1; vp_cur = t; u8* p = vp_ets_lookup(&E, &ex); vp_local_result(t, p, ex);
#endif
    VP_ASSERT(res[t] != 0, "pre-existing element not created");
  }
  THR(a_start)(&E, IDA); THR(b_start)(&E, IDB);
#if NT == 3
  THR(c_start)(&E, IDC);
#endif
#ifdef SCHED_RETRY
  /* targeted schedule shape for the CAS-retry scenario (NT == 3): a* b* c* c* | A B C C  (free slices, then forced ones). Thread c is
     the one that can be preempted between create_array and its CAS on my_root; a and b need one preemption each. */
  VP_RUNT(THR(a), IDA) VP_RUNT(THR(b), IDB) VP_RUNT(THR(c), IDC) VP_RUNT(THR(c), IDC)
  vp_cur = IDA; VP_RUNMAX(THR(a)) vp_cur = IDB; VP_RUNMAX(THR(b)) vp_cur = IDC; VP_RUNMAX(THR(c)) VP_RUNMAX(THR(c))
#else
  for (int r = 0; r < ROUNDS; r++) {
    VP_RUNT(THR(a), IDA) VP_RUNT(THR(b), IDB)
#if NT == 3
    VP_RUNT(THR(c), IDC)
#endif
  }
  /* forced rounds (vp_cur must be the id, not the position) */
  for (int r = 0; r < FORCED; r++) {
    vp_cur = IDA; VP_RUNMAX(THR(a)) vp_cur = IDB; VP_RUNMAX(THR(b))
#if NT == 3
    vp_cur = IDC; VP_RUNMAX(THR(c))
#endif
  }
#endif
  int unfinished = !THR(a_fin) || !THR(b_fin);
#if NT == 3
  unfinished |= !THR(c_fin);
#endif
  __CPROVER_assume(!unfinished);
#ifndef NOFINAL
  final_table_check();
#endif
#ifdef RELOOK
  /* after quiescence every id looks itself up again (real table_lookup, model thread `p` run alone, RELOOK forced slices each):
     must find its own element (exists == true): an id whose slot is not reachable by probing from my_root would get a second one */
  for (int t = 0; t < NID; t++) {
    THR(p_start)(&E, t); THR(p_fin) = 0; vp_cur = t; relooked[t] = 0;
    for (int k = 0; k < RELOOK; k++) { VP_RUNMAX(THR(p)) }
    __CPROVER_assume(THR(p_fin));
    VP_ASSERT(relooked[t], "second lookup did not report");
  }
#endif
#ifdef COVER_RETRY
  /* witness: some array that is in the final chain was handed out while my_root had another value than the array's final `next`:
     its owner's CAS on my_root failed (root changed under it), the published array was smaller than the wanted one (otherwise the
     owner frees its array), it looped with r = new_r, the retried CAS succeeded, and the owner completed its insert (all finished) */
  { int hit = 0;
    for (int i = 0; i < NPOOL; i++) if (inchain[i] && PW(i)[0] != 0 && PW(i)[0] != (u64)root_at_alloc[i]) hit = 1;
    __CPROVER_assume(hit); }
#endif
  VP_REACHED();
  return 0;
}

/* C19 once: collaborative_call_once with NT callers on one flag. EXC=1: the user function throws on a symbolic subset of attempts.
 * Oracle: at most one successful run of the body, no two runs overlap, a caller returns normally only after the successful run
 * completed; an exception reaches exactly the caller whose own run threw, the flag is back to `uninitialized` after a failed run
 * (so that others retry) and `done` after the successful one; the runner storage (task_arena + wait_context in the winner's stack
 * frame) is used only between its construction and destruction and the runner is not written after its owner returned; the flag
 * word only ever holds 0, 1 or a runner address plus a small count; no lost wake-up in any wait loop (blocked-state oracle). */
#include "w.h"
#include "vp.h"
#define THR(s) vp_thr_once_##s
#if defined(VP_NATIVE) && defined(VP_TRACE)
#define TR(...) printf(__VA_ARGS__)
#else
#define TR(...)
#endif
#ifndef EXC
#define EXC 0
#endif
#ifndef PROBES
#define PROBES 2
#endif
#ifndef COVER
#define COVER 0
#endif
int assisted;
struct S_class_tbb__detail__d1__collaborative_once_flag F;
int running = -1, runs[3], completed, done[3], threw_in[3], nthrows;
u8* arena[3]; int arena_state[3], arena_inited[3], attached[3];    /* per constructing thread: 0 not constructed, 1 alive, 2 destroyed */
u8* runner[3]; int left[3];
#if EXC
u8 ti_user;
#endif

void vp_once_begin(u32 tid) {
  VP_ASSERT(running < 0, "two runs of the once-function overlap");
  VP_ASSERT(!completed, "once-function started again after a successful run");
  VP_ASSERT(runs[tid] == 0, "one call ran the function twice");
  running = (int)tid; runs[tid]++; TR("T%u begin\n", tid);
}
#if EXC
void vp_once_body(u32 tid) {
  if (nthrows < MAXTHROW && vp_nd_bool()) { nthrows++; threw_in[tid] = 1; running = -1; TR("T%u throws\n", tid); vp_throw_user(&ti_user); }
}
#endif
void vp_once_end(u32 tid) { VP_ASSERT(running == (int)tid, "observer order"); running = -1; completed++; TR("T%u end\n", tid); }
void vp_done(u32 tid, u32 threw) {
  TR("T%u done threw=%u flag=%lx\n", tid, threw, (unsigned long)vp_flag_word(&F));
  if (threw) VP_ASSERT(threw_in[tid], "exception delivered to a caller whose own run did not throw");
  else {
    VP_ASSERT(!threw_in[tid], "the caller whose run threw did not get the exception");
    VP_ASSERT(completed == 1, "caller returned normally before the once-function completed");
  }
  done[tid] = 1 + threw;
  if (runs[tid]) {
    VP_ASSERT(arena_state[tid] == 2, "winner returned without destroying its runner storage");
    VP_ASSERT(vp_runner_refs(runner[tid]) == 0, "winner returned while a helper still holds a reference to its runner");
    left[tid] = 1;
  }
}
/* r1::attach contract: returns whether the calling thread already has an arena (either is possible: symbolic) */
u32 vp_attach(u8* a) {
  VP_ASSERT(arena_state[vp_cur] == 0, "runner storage constructed twice by one caller");
  arena[vp_cur] = a; arena_state[vp_cur] = 1; runner[vp_cur] = vp_runner_of_arena(a);
  attached[vp_cur] = vp_nd_bool(); TR("T%u attach runner=%p\n", vp_cur, runner[vp_cur]); return attached[vp_cur];
}
static int owner_of(u8* a) { for (int t = 0; t < NT; t++) if (arena_state[t] && arena[t] == a) return t; return -1; }
void vp_arena_init(u8* a) {
  int o = owner_of(a);
  VP_ASSERT(o >= 0 && arena_state[o] == 1 && !attached[o] && !arena_inited[o], "task_arena initialised twice or outside its lifetime");
  if (o >= 0) arena_inited[o] = 1;
}
void vp_arena_use(u8* a) {
  int o = owner_of(a);
  VP_ASSERT(o >= 0 && arena_state[o] == 1, "runner's task_arena used outside its lifetime");
  VP_ASSERT(o < 0 || attached[o] || arena_inited[o], "execute on an arena that was never initialised");
}
void vp_wait_use(u8* w) {
  int o = owner_of(vp_arena_of_wctx(w));
  if (o >= 0 && o != (int)vp_cur) assisted = 1;
  VP_ASSERT(o >= 0 && arena_state[o] == 1, "runner's wait_context used outside its lifetime");
}
void vp_arena_dead(u8* a) {
  int o = owner_of(a);
  VP_ASSERT(o >= 0 && arena_state[o] == 1, "runner storage destroyed twice");
  if (o >= 0) arena_state[o] = 2;
  TR("T%u arena_dead owner=%d\n", vp_cur, o);
}
/* pointer<->integer casts of the real code (runner.to_bits() / from_bits()) go through these hooks (unit key ptrhooks): identity
   functions that tell cbmc the finite candidate set, i.e. the runner objects whose address was ever converted to an integer */
u8* cand[3]; int i2p_bad;
u64 vp_p2i(u8* p) { cand[vp_cur] = p; return (u64)p; }
u8* vp_i2p(u64 x) {
  if (cand[0] && x == (u64)cand[0]) return cand[0];
  if (cand[1] && x == (u64)cand[1]) return cand[1];
#if NT == 3
  if (cand[2] && x == (u64)cand[2]) return cand[2];
#endif
  if (x) i2p_bad = 1;
  return 0;
}
static void observe(void) {
  VP_ASSERT(!i2p_bad, "from_bits() of a word that is neither null nor the address of a runner");
  for (int t = 0; t < NT; t++) if (left[t]) VP_ASSERT(vp_runner_refs(runner[t]) == 0, "runner written after its owner left (dangling helper reference)");
  u64 w = vp_flag_word(&F);
  TR("  obs after T%u: flag=%lx cand=%p %p left=%d %d\n", vp_cur, (unsigned long)w, cand[0], cand[1], left[0], left[1]);
  if (w > 1) {
    int known = 0;
    for (int t = 0; t < NT; t++) if (cand[t] && (w & ~(u64)127) == (u64)cand[t] && !left[t]) known = 1;
    VP_ASSERT(known, "flag holds a pointer that is not the runner of a caller still inside the call");
    VP_ASSERT((w & 127) <= NT, "more helper references in the flag than callers");
  }
  if (completed && running < 0) VP_ASSERT(w != 0, "flag went back to uninitialized after a successful run");
}
int main(void) {
  THR(a_start)(&F, 0); THR(b_start)(&F, 1);
#if NT == 3
  THR(c_start)(&F, 2);
#endif
  for (int r = 0; r < ROUNDS; r++) {
    VP_RUNT(THR(a), 0) observe(); VP_RUNT(THR(b), 1) observe();
#if NT == 3
    VP_RUNT(THR(c), 2) observe();
#endif
  }
  /* blocked-state oracle, one settling round + TWO probe rounds: deadlock iff some caller is unfinished, every unfinished caller is
     parked after each of the three forced rounds, and neither probe round changed memory. Two probe rounds because the retry loop of
     do_collaborative_call_once carries `expected` as local state: a parked caller can spend one slice refreshing it (stale runner
     word -> uninitialized) without touching memory before its next slice does the CAS; with a single probe round that refresh looks
     like "blocked and nothing changes" (first seen with the throwing function; the solver idles the free rounds to get there).
     A caller has at most two consecutive memory-silent slices (helper CAS on a stale word fails -> parks at the inner back edge; next
     slice reloads, leaves the inner loop and parks at the outer back edge), after which it writes (CAS) or finishes; every other
     parking point is a genuine wait on memory. ir2c additionally counts a refreshed loop-carried value as a change, which covers the
     first of the two slices and (later) a changed resume point for the second, after which PROBES=1 passes as well; the two-probe form
     stays the default because it does not depend on those heuristics. */
#if NT == 3
#define FORCED_ALL() vp_cur = 0; VP_RUNMAX(THR(a)) vp_cur = 1; VP_RUNMAX(THR(b)) vp_cur = 2; VP_RUNMAX(THR(c))
#define ALL_STUCK() (VP_STUCK(THR(a)) && VP_STUCK(THR(b)) && VP_STUCK(THR(c)))
#define ANY_UNFIN() (!THR(a_fin) || !THR(b_fin) || !THR(c_fin))
#else
#define FORCED_ALL() vp_cur = 0; VP_RUNMAX(THR(a)) vp_cur = 1; VP_RUNMAX(THR(b))
#define ALL_STUCK() (VP_STUCK(THR(a)) && VP_STUCK(THR(b)))
#define ANY_UNFIN() (!THR(a_fin) || !THR(b_fin))
#endif
  FORCED_ALL() observe();
  int pb = ALL_STUCK(); vp_changed = 0;
  FORCED_ALL()
#if PROBES == 2
  pb = pb && ALL_STUCK();
  FORCED_ALL()
#endif
  int vp_unfinished = ANY_UNFIN();
  int vp_deadlock = vp_unfinished && pb && ALL_STUCK() && !vp_changed;
  observe();
  TR("end: a pc=%u fin=%u blocked=%u | b pc=%u fin=%u blocked=%u\n", THR(a_pc), THR(a_fin), THR(a_blocked), THR(b_pc), THR(b_fin), THR(b_blocked));
  VP_ASSERT(!vp_deadlock, "lost wake-up / deadlock: every unfinished caller is blocked and nothing changes");
  __CPROVER_assume(!vp_unfinished);
  int nexc = 0, nrun = 0;
  for (int t = 0; t < NT; t++) { VP_ASSERT(done[t], "caller did not return"); nexc += done[t] == 2; nrun += runs[t]; }
  VP_ASSERT(nexc == nthrows, "number of callers that saw an exception differs from the number of throwing runs");
  VP_ASSERT(nrun == nthrows + completed && completed <= 1, "runs do not add up to failed + one successful");
  if (completed) VP_ASSERT(vp_flag_word(&F) == 1, "flag not in the done state after the successful run");
  else {
    VP_ASSERT(nexc == NT, "no successful run although some caller returned normally");
    VP_ASSERT(vp_flag_word(&F) == 0, "flag not back to uninitialized after every run threw");
  }
  for (int t = 0; t < NT; t++) VP_ASSERT(arena_state[t] == (runs[t] ? 2 : 0), "runner storage leaked or built by a caller that never won");
#if EXC
  VP_ASSERT(vp_exc == 0, "pending exception left behind");
#endif
  /* COVER=k: additionally require that the witness is reachable in a particular situation (non-vacuity of the interesting paths
     within the round bound): 1 a helper assisted (used another caller's runner) and all returned; 2 one run threw, another caller
     retried successfully; 3 every run threw */
#if COVER == 1
  __CPROVER_assume(assisted);
#elif COVER == 2
  __CPROVER_assume(nthrows == 1 && completed == 1);
#elif COVER == 3
  __CPROVER_assume(nthrows == NT);
#endif
  VP_REACHED();
  return 0;
}

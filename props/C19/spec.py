PROPERTY = 'C19'
def thr(fn, n): return {fn: ['a', 'b', 'c'][:n]}
ONCE = dict(wrapper='w_once.cpp', mode='lcs', unroll=1, cxxflags=['-O2', '-fno-vectorize', '-fno-slp-vectorize'], ptrhooks=True)
UNITS = {
  'once2': dict(ONCE, threads=thr('vp_thr_once', 2)),
  'once2x': dict(ONCE, threads=thr('vp_thr_once', 2), exceptions=True, allow_atomic=['__clang_call_terminate']),
  'once3': dict(ONCE, threads=thr('vp_thr_once', 3)),
  'once3x': dict(ONCE, threads=thr('vp_thr_once', 3), exceptions=True, allow_atomic=['__clang_call_terminate']),
  'ets3': dict(wrapper='w_ets.cpp', mode='lcs', unroll=1, devirt=True, ptrhooks=True, threads={'vp_thr_ets': ['a', 'b', 'c', 'p']}),
  'ets2k2': dict(wrapper='w_ets.cpp', mode='lcs', unroll=2, devirt=True, ptrhooks=True, threads={'vp_thr_ets': ['a', 'b', 'p']}),
  'etsk': dict(wrapper='w_etsk.cpp', mode='seq', prune=True),
  'ets2': dict(wrapper='w_ets.cpp', mode='lcs', unroll=1, devirt=True, ptrhooks=True, threads={'vp_thr_ets': ['a', 'b', 'p']}),
}
ETS_SC = [
         {'PRE': 0},                                        # two first accesses race on creating the very first array
         {'PRE': 2, 'H2': 5, 'H3': 5},                      # two first accesses, each crossing the 4->8 doubling (c = 3, 4)
         {'PRE': 2, 'H1': 5, 'H2': 5, 'NNEW': 1, 'IDA': 2, 'IDB': 0},   # later access of an existing id that sits one probe step behind a colliding id (may find it in the old array and re-insert on top) vs a first access that doubles the array
       ]
B1 = {'threads': 2, 'free_rounds': 1, 'forced_rounds': 3, 'spin_unroll': 1}
HARNESSES = [
  # ---- quick (also part of thorough)
  dict(name='once_2t', unit='once2', harness='h_once.c', defines={'NT': 2, 'ROUNDS': 2}, timeout=900,
       desc='collaborative_call_once, 2 callers on one flag (winner / moonlighting helper / late caller), all schedules with <=2 free slices per caller + 3 forced rounds',
       bounds={'threads': 2, 'free_rounds': 2, 'forced_rounds': 3, 'spin_unroll': 1}),
  dict(name='once_exc_2t', unit='once2x', harness='h_once.c', defines={'NT': 2, 'ROUNDS': 1, 'EXC': 1, 'MAXTHROW': 2}, timeout=900,
       desc='collaborative_call_once compiled with exceptions, 2 callers, the function throws on a symbolic subset of its runs (retry by the other caller, exception to exactly the thrower)',
       bounds=dict(B1, throws='<=2')),
  dict(name='ets_2t', unit='ets2', harness='h_ets.c', defines={'NT': 2, 'ROUNDS': 1, 'HBITS': 3}, timeout=900, mem_gb=6, cbmc=['--unwind', '19'], scenarios=ETS_SC,
       desc='ets_base::table_lookup, 2 threads: first accesses / later access while the slot array is created or doubled; hash values of the racing ids symbolic (3 top bits)',
       bounds={'threads': 2, 'free_rounds': 1, 'forced_rounds': 2, 'unroll': 1, 'slots': '4->8', 'hash_bits': 3}),
  dict(name='ets_clear', unit='etsk', harness='h_etsk.c', defines={'NT': 2}, timeout=600, mem_gb=6, cbmc=['--unwind', '16', '--max-field-sensitivity-array-size', '4096'],
       scenarios=[{'FLAVOUR': 1}, {'FLAVOUR': 0}, {'FLAVOUR': 1, 'NT': 3, 'HCOLL': 1}, {'FLAVOUR': 0, 'NT': 3, 'HCOLL': 1}],
       desc='real enumerable_thread_specific<int> (FLAVOUR 1: ets_key_per_instance native TLS, 0: ets_no_key), sequential steps of 2 model threads: local() x2, clear() by T0, local() x2 again',
       bounds={'threads': '2-3', 'interleaving': 'none (sequential steps)', 'elements': '<=3', 'hash': 'concrete (distinct / all colliding)'}),
  # ---- thorough only
  dict(name='once_2t_r3', unit='once2', harness='h_once.c', defines={'NT': 2, 'ROUNDS': 3}, tiers=['thorough'], timeout=3000, scenarios=[{}, {'COVER': 1}],
       desc='collaborative_call_once, 2 callers, 3 free slices per caller (COVER1: a helper really assisted)', bounds={'threads': 2, 'free_rounds': 3, 'forced_rounds': 3, 'spin_unroll': 1}),
  dict(name='once_exc_2t_r2', unit='once2x', harness='h_once.c', defines={'NT': 2, 'ROUNDS': 2, 'EXC': 1, 'MAXTHROW': 2}, tiers=['thorough'], timeout=3000,
       scenarios=[{}, {'COVER': 1}, {'COVER': 2}, {'COVER': 3}],
       desc='throwing function, 2 callers, 2 free slices (COVER: helper assisted / one throw then successful retry / every run threw)',
       bounds={'threads': 2, 'free_rounds': 2, 'forced_rounds': 3, 'spin_unroll': 1, 'throws': '<=2'}),
  dict(name='once_3t', unit='once3', harness='h_once.c', defines={'NT': 3, 'ROUNDS': 1}, tiers=['thorough'], timeout=3000, mem_gb=8, scenarios=[{}, {'COVER': 1}],
       desc='collaborative_call_once, 3 callers (winner + two helpers / late callers)', bounds={'threads': 3, 'free_rounds': 1, 'forced_rounds': 3, 'spin_unroll': 1}),
  dict(name='once_exc_3t', unit='once3x', harness='h_once.c', defines={'NT': 3, 'ROUNDS': 1, 'EXC': 1, 'MAXTHROW': 2}, tiers=['thorough'], timeout=3000, mem_gb=8,
       scenarios=[{}, {'COVER': 2}],
       desc='throwing function, 3 callers', bounds={'threads': 3, 'free_rounds': 1, 'forced_rounds': 3, 'spin_unroll': 1, 'throws': '<=2'}),
  dict(name='ets_2t_r2', unit='ets2', harness='h_ets.c', defines={'NT': 2, 'ROUNDS': 2, 'HBITS': 3}, tiers=['thorough'], timeout=3000, mem_gb=8, cbmc=['--unwind', '19'], scenarios=ETS_SC,
       desc='as ets_2t with 2 free slices per thread', bounds={'threads': 2, 'free_rounds': 2, 'forced_rounds': 2, 'unroll': 1, 'slots': '4->8', 'hash_bits': 3}),
  dict(name='ets_2t_k2', unit='ets2k2', harness='h_ets.c', defines={'NT': 2, 'ROUNDS': 1, 'HBITS': 3}, tiers=['thorough'], timeout=3000, mem_gb=8, cbmc=['--unwind', '19'], scenarios=ETS_SC,
       desc='as ets_2t with every loop unrolled twice (two probe steps / two CAS retries inside one slice)', bounds={'threads': 2, 'free_rounds': 1, 'forced_rounds': 2, 'unroll': 2, 'slots': '4->8', 'hash_bits': 3}),
  dict(name='ets_retry_3t', unit='ets3', harness='h_ets.c', tiers=['thorough'], timeout=3600, mem_gb=8, cbmc=['--unwind', '19'],
       defines={'NT': 3, 'PRE': 0, 'HBITS': 3, 'MAXLG': 3, 'H0': 1, 'H1': 3, 'H2': 6, 'SCHED_RETRY': None, 'COVER_RETRY': None, 'RELOOK': 2},
       desc='empty table, three first accesses (counts 1,2,3): the grower that wants 8 slots loses its CAS on my_root to a 4-slot array (new_r->lg_size < s), loops with r = new_r, '
            'retries and completes its insert (witness assumption COVER_RETRY: reachable); final table walk + second lookup of every id after quiescence (exists must be true)',
       bounds={'threads': 3, 'schedule': 'a* b* c* c* | A B C C (free | forced slices)', 'relook_slices': 2, 'unroll': 1, 'slots': '4 vs 8', 'hash': 'concrete 1,3,6 (3 bits)'}),
  dict(name='ets_3t', unit='ets3', harness='h_ets.c', defines={'NT': 3, 'ROUNDS': 1, 'HBITS': 4, 'MAXLG': 4}, tiers=['thorough'], timeout=3000, mem_gb=8, cbmc=['--unwind', '35'],
       scenarios=[{'PRE': 2, 'H3': 9, 'H4': 9}],
       desc='ets_base::table_lookup, 3 first accesses on a table with 2 elements: inserts 3,4,5 cross 4->8 and 8->16 slots', bounds={'threads': 3, 'free_rounds': 1, 'forced_rounds': 2, 'unroll': 1, 'slots': '4->8->16', 'hash_bits': 4}),
]
MANIFEST = dict(
  level_text='Bounded model checking of the real collaborative_call_once.h and of ets_base::table_lookup (enumerable_thread_specific.h): for 2-3 threads every interleaving (single-IR-memory-operation granularity) within the stated scheduling rounds is decided by the SAT solver. once: exactly one successful run, callers return only after it, a throwing run (exceptions build, symbolic subset of runs) delivers its exception to exactly that caller and resets the flag so that another caller retries, runner storage on the winner\'s stack never used after destruction / runner never written after its owner returned, no lost wake-up in any wait loop (blocked-state oracle). ets: one element and one initialiser call per thread id, stable address, consistent table (every id present once per array with its own element, chain of arrays strictly shrinking, root at most half full) while first/later accesses race with the creation and doubling (4->8->16 slots) of the slot array, hash values symbolic. Sequentially (no interleaving) the real enumerable_thread_specific<int> in both key flavours (native TLS key / plain table): after clear() every thread\'s next local() is a first use again (one initialiser call, element part of size()/iteration/combine), also for threads that did not call clear().',
  level_note='Bounds per harness in evidence (threads, free/forced rounds, loop unroll, slots, hash bits). Sequential consistency. r1:: arena/dispatcher entry points are contract stubs running the delegate inline on the calling model thread; ets element/array storage (concurrent_vector, allocator) is stubbed at the three ets_base virtuals, so combine_each/iteration (concurrent_vector walk, C11) is not encoded. Trusted: clang-14 IR (-O2 for once), tools/ir2c.py, cbmc.',
)
OUTSIDE = [
  'more than 3 callers/threads (the quantifier says 2-8); more than one call per caller; several flags',
  'helper reference count reaching the alignment mask (127 concurrent helpers): the spin_wait_while_eq(m_state, max_value) bound is never reached with <= 3 callers',
  'real arena moonlighting: r1::execute / isolate_within_arena / execute_and_wait / wait are stubs (delegate inline, wait = spin until wait_context is zero); helpers never execute tasks of the winner, nested parallelism inside the once-function is not modelled',
  'the once-function body itself (observer calls only) and exceptions other than one user type caught by catch(...)',
  'enumerable_thread_specific::create_local / concurrent_vector my_locals / allocator (stubbed at the ets_base virtuals) and therefore combine_each, iteration, range(), clear(), copy/move of the container; combinable (thin wrapper over it)',
  'ets_key_per_instance (native TLS fast path) is covered only sequentially (ets_clear: local/clear/iteration by 2-3 threads, no interleaving); copy/move assignment and swap of the container (they reach table_clear/table_swap) are not driven; ets_suspend_aware key selector',
  'the CAS-retry path of the grow block is covered only by ets_retry_3t (thorough; empty table, 4 vs 8 slots, concrete hashes, targeted schedule shape); retries against two successive smaller arrays are not covered',
  'tables beyond 16 slots / more than 5 ids; more than 2 (quick) or 3 loop iterations per scheduling slice (paths needing more are cut by the round bound, silently: coverage witnesses COVER=k and the mutation table in NOTES.md show what is reached)',
  'non-SC memory models (the relaxed loads of slot keys and the plain store of slot::ptr are only checked under sequential consistency)',
]
STUBS = [
  'r1::attach(task_arena_base&): symbolic bool (thread may or may not already have an arena)',
  'r1::initialize/terminate(task_arena_base&): ghost lifecycle only (observers assert use between construction and destruction)',
  'r1::execute(arena, delegate), r1::isolate_within_arena(delegate, tag): call the delegate inline on the calling model thread',
  'd1::execute_and_wait(task, ctx, wait_ctx, ctx): caller executes the task itself, then spins until wait_ctx is zero; if execute() throws: task.cancel() (as task_dispatcher re-dispatches the throwing task through cancel()), wait, rethrow',
  'r1::wait(wait_ctx, ctx): spin until wait_ctx is zero; r1::notify_waiters, r1::initialize/destroy(task_group_context): no-op',
  'ets_base::create_local / create_array / free_array: harness storage (fresh element per call, fresh zero-filled-by-caller array per call, free only marks)',
  'pthread_key_create/delete/getspecific/setspecific (ets_clear): per-thread key table; create returns the lowest free key number with value NULL in every thread, delete invalidates it, get/set on an invalid key is reported (POSIX contract)',
  'r1::allocate_memory / cache_aligned_allocate / deallocate (ets_clear): malloc/free',
  'pthread_self: constant per model thread; std::_Hash_bytes: deterministic per key, value symbolic or fixed by the scenario (top HBITS bits)',
  'inttoptr/ptrtoint hooks vp_i2p/vp_p2i: identity on the runner objects / allocated arrays (anything else is reported)',
  'sched_yield/pause: scheduling hints; memset: word-wise model (8-byte multiples only, asserted)',
]
ASSUMPTIONS = [
  'each caller calls collaborative_call_once once; the flag outlives all callers (documented requirement)',
  'ets: layout of ets_base::array/slot as validated by vp_ets_layout_ok() (assumed; a change makes the check inconclusive)',
  'blocked-state oracle for `once`: one settling + two probe rounds (see NOTES.md: a parked retry loop may need one local-only slice)',
]

// C19 `etsk`: the REAL enumerable_thread_specific<int> (both key flavours) run sequentially: local() / clear() / size() / iteration,
// i.e. ets_base<ets_key_per_instance>::table_lookup / table_clear / create_key / destroy_key / get_tls / set_tls, ets_base<ets_no_key>::
// table_lookup / table_clear, create_local (concurrent_vector my_locals + construct callback). Steps are attributed to model threads by
// the harness (vp_cur -> pthread_self / pthread_getspecific stubs); no interleaving.
#include "oneapi/tbb/enumerable_thread_specific.h"
#include <new>
using namespace tbb;
extern "C" int  vp_init_value(void);      // the initialiser (observer: counts calls per model thread)
extern "C" void vp_visit(int* elem);      // iteration observer
struct finit_t { int operator()() const { return vp_init_value(); } };
typedef enumerable_thread_specific<int, cache_aligned_allocator<int>, ets_key_per_instance> ets_k;
typedef enumerable_thread_specific<int, cache_aligned_allocator<int>, ets_no_key> ets_n;
#define API(P, T) \
extern "C" unsigned long vp_##P##_sizeof(void) { return sizeof(T); } \
extern "C" void vp_##P##_init(void* mem) { new (mem) T(finit_t()); } \
extern "C" int* vp_##P##_local(T* e, int* exists) { bool ex = false; int& r = e->local(ex); *exists = ex; return &r; } \
extern "C" void vp_##P##_clear(T* e) { e->clear(); } \
extern "C" unsigned long vp_##P##_size(T* e) { return e->size(); } \
extern "C" int vp_##P##_empty(T* e) { return e->empty(); } \
extern "C" void vp_##P##_visit(T* e) { for (auto it = e->begin(); it != e->end(); ++it) vp_visit(&*it); } \
extern "C" int vp_##P##_combine(T* e) { return e->combine([](int a, int b) { return a + b; }); }
API(k, ets_k)
API(n, ets_n)

// C19 `once`: thread body over the real collaborative_call_once.h; the r1:: entry points it needs are contract stubs (below).
// Built twice: without exceptions (units once2/once3) and with exceptions (units once2x/once3x: the user function may throw).
#include "oneapi/tbb/task_arena.h"
#include "oneapi/tbb/task_group.h"
extern "C" void vp_spin_hint(void);
extern "C" void vp_wait_use(void* wctx);
namespace tbb { namespace detail { namespace d1 {
// Contract stub of d1::execute_and_wait(t, ctx, wait_ctx, ctx) -> r1::execute_and_wait: the calling thread runs t itself
// (task_dispatcher::local_wait_for_all executes the passed task first), then stays in the dispatch loop until the wait_context
// reaches zero. If t.execute() throws, the dispatcher captures the exception, cancels the group, re-dispatches the same task
// through t.cancel() (src/tbb/task_dispatcher.h, "Infinite exception loop"), keeps waiting, and rethrows at the end.
// A template (selected by the #define below) only so that the static type of the task is known: no virtual call in a thread body.
template <class T> void vp_execute_and_wait(T& t, task_group_context&, wait_context& w, task_group_context&) {
  execution_data ed{};
#if TBB_USE_EXCEPTIONS
  try { t.T::execute(ed); }
  catch (...) {
    t.T::cancel(ed);
    vp_wait_use(&w);
    while (w.m_ref_count.load(std::memory_order_acquire) != 0) vp_spin_hint();
    throw;
  }
#else
  t.T::execute(ed);
#endif
  vp_wait_use(&w);
  while (w.m_ref_count.load(std::memory_order_acquire) != 0) vp_spin_hint();
}
}}}
#define execute_and_wait vp_execute_and_wait
#include "oneapi/tbb/collaborative_call_once.h"
#undef execute_and_wait
using namespace tbb;
extern "C" void vp_once_begin(int tid);   // observer: the user function starts / ends (two visible steps: it has a duration)
extern "C" void vp_once_body(int tid);    // exceptions build: the harness may throw from here (symbolic fault schedule)
extern "C" void vp_once_end(int tid);
extern "C" void vp_done(int tid, int threw);
extern "C" int  vp_attach(void* arena);
extern "C" void vp_arena_init(void* arena);
extern "C" void vp_arena_use(void* arena);
extern "C" void vp_arena_dead(void* arena);
// Contract stubs of the r1:: entry points (libtbb): the delegate runs inline on the calling model thread (what r1::execute does when
// the caller can join the arena), isolation has no effect without stealing, contexts need no registration.
namespace tbb { namespace detail { namespace r1 {
bool attach(d1::task_arena_base& a) { return vp_attach(&a) != 0; }
void initialize(d1::task_arena_base& a) { vp_arena_init(&a); }
void terminate(d1::task_arena_base& a) { vp_arena_dead(&a); }
void execute(d1::task_arena_base& a, d1::delegate_base& d) { vp_arena_use(&a); d(); }
void isolate_within_arena(d1::delegate_base& d, std::intptr_t) { d(); }
void initialize(d1::task_group_context&) {}
void destroy(d1::task_group_context&) {}
void notify_waiters(std::uintptr_t) {}
// r1::wait(wait_context&, ctx): stay in the dispatch loop (no other work in the model) until the wait_context reaches zero
void wait(d1::wait_context& w, d1::task_group_context&) {
  vp_wait_use(&w);
  while (w.m_ref_count.load(std::memory_order_acquire) != 0) vp_spin_hint();
}
}}}
extern "C" void vp_thr_once(collaborative_once_flag* f, int tid){
#if TBB_USE_EXCEPTIONS
  int threw = 0;
  try { collaborative_call_once(*f, [&]{ vp_once_begin(tid); vp_once_body(tid); vp_once_end(tid); }); }
  catch (...) { threw = 1; }
  vp_done(tid, threw);
#else
  collaborative_call_once(*f, [&]{ vp_once_begin(tid); vp_once_end(tid); });
  vp_done(tid, 0);
#endif
}
// white-box accessors for the oracle
extern "C" void* vp_runner_of_arena(void* arena) { return (char*)arena - offsetof(detail::d1::collaborative_once_runner, m_storage); }
extern "C" void* vp_arena_of_wctx(void* w) { return (char*)w - offsetof(detail::d1::collaborative_once_runner::storage_t, m_wait_context); }
extern "C" long vp_runner_refs(void* r) { return ((detail::d1::collaborative_once_runner*)r)->m_ref_count.load(std::memory_order_relaxed); }
extern "C" unsigned long vp_flag_word(collaborative_once_flag* f) { return f->m_state.load(std::memory_order_relaxed); }

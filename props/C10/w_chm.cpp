// C10 wrapper: thread bodies and sequential helpers over the real tbb::concurrent_hash_map
// (include/oneapi/tbb/concurrent_hash_map.h, spin_rw_mutex.h, detail/_scoped_lock.h).
// HASHK selects the user hash function (compile-time, one unit per kind):
//   0 identity            h(k) = k
//   1 constant            h(k) = 2          (every key in one chain; bucket 0 before / bucket 2 after the first growth)
//   2 low bits collide    h(k) = (k<<8)|2   (all keys collide in the low 8 bits = same bucket up to mask 255, full hashes differ)
#include "oneapi/tbb/concurrent_hash_map.h"
using namespace tbb;

#ifndef HASHK
#define HASHK 0
#endif
struct hc_t {
  std::size_t hash(const int& k) const {
#if HASHK == 0
    return (std::size_t)(unsigned)k;
#elif HASHK == 1
    return 2;
#else
    return ((std::size_t)(unsigned)k << 8) | 2;
#endif
  }
  bool equal(const int& a, const int& b) const { return a == b; }
};
// mapped value: holder bookkeeping written by the harness observers (the memory of the real node)
struct val_t { int writers; int readers; int payload; };
typedef concurrent_hash_map<int, val_t, hc_t> map_t;

// observers (harness): each call is one atomic visible step of the calling model thread
extern "C" void vp_inv(int tid, int slot, int kind, int key);
extern "C" void vp_res(int tid, int slot, int ok);
extern "C" void vp_acc_enter(int tid, int writer, int key, val_t* v);   // accessor obtained: v points into the real node
extern "C" void vp_acc_leave(int tid, int writer, int key, val_t* v);   // about to release

enum { OP_NONE = 0, OP_INSERT = 1, OP_ERASE = 2, OP_FIND = 3, OP_FINDW = 4, OP_INSERT_NOACC = 5, OP_COUNT = 6, OP_ERASE_ACC = 7, OP_INSERT_R = 8 };

template <int OP>
static inline void do_op(map_t* m, int tid, int slot, int key) {
  if (OP == OP_INSERT) {                 // insert(accessor&, key): write lock on the element
    map_t::accessor acc;
    vp_inv(tid, slot, OP, key);
    bool r = m->insert(acc, key);
    vp_acc_enter(tid, 1, key, &acc->second);
    vp_acc_leave(tid, 1, key, &acc->second);
    acc.release();
    vp_res(tid, slot, r);
  } else if (OP == OP_INSERT_R) {        // insert(const_accessor&, key): read lock on the element
    map_t::const_accessor acc;
    vp_inv(tid, slot, OP, key);
    bool r = m->insert(acc, key);
    vp_acc_enter(tid, 0, key, const_cast<val_t*>(&acc->second));
    vp_acc_leave(tid, 0, key, const_cast<val_t*>(&acc->second));
    acc.release();
    vp_res(tid, slot, r);
  } else if (OP == OP_INSERT_NOACC) {    // insert(value_type): no element lock taken
    vp_inv(tid, slot, OP, key);
    map_t::value_type v(key, val_t{0, 0, key});
    bool r = m->insert(v);
    vp_res(tid, slot, r);
  } else if (OP == OP_ERASE) {
    vp_inv(tid, slot, OP, key);
    bool r = m->erase(key);
    vp_res(tid, slot, r);
  } else if (OP == OP_FIND) {            // find(const_accessor&)
    map_t::const_accessor acc;
    vp_inv(tid, slot, OP, key);
    bool r = m->find(acc, key);
    if (r) {
      vp_acc_enter(tid, 0, key, const_cast<val_t*>(&acc->second));
      vp_acc_leave(tid, 0, key, const_cast<val_t*>(&acc->second));
      acc.release();
    }
    vp_res(tid, slot, r);
  } else if (OP == OP_FINDW) {           // find(accessor&)
    map_t::accessor acc;
    vp_inv(tid, slot, OP, key);
    bool r = m->find(acc, key);
    if (r) {
      vp_acc_enter(tid, 1, key, &acc->second);
      vp_acc_leave(tid, 1, key, &acc->second);
      acc.release();
    }
    vp_res(tid, slot, r);
  } else if (OP == OP_COUNT) {
    vp_inv(tid, slot, OP, key);
    bool r = m->count(key) != 0;
    vp_res(tid, slot, r);
  } else if (OP == OP_ERASE_ACC) {       // find(accessor&) [history slot] then erase(accessor&) [history slot+1]
    map_t::accessor acc;
    vp_inv(tid, slot, OP_FINDW, key);
    bool r = m->find(acc, key);
    if (r) {
      vp_acc_enter(tid, 1, key, &acc->second);
      vp_acc_leave(tid, 1, key, &acc->second);
      vp_res(tid, slot, r);
      vp_inv(tid, slot + 1, OP_ERASE_ACC, key);
      r = m->erase(acc);
      vp_res(tid, slot + 1, r);
    } else vp_res(tid, slot, r);
  }
}

// thread bodies: one function per operation kind (keeps every body as small as the real code allows); key concrete per scenario
#define THR1(name, OP) extern "C" void vp_thr_##name(map_t* m, int tid, int key) { do_op<OP>(m, tid, 0, key); }
THR1(ins, OP_INSERT)
THR1(insr, OP_INSERT_R)
THR1(insn, OP_INSERT_NOACC)
THR1(era, OP_ERASE)
THR1(find, OP_FIND)
THR1(findw, OP_FINDW)
THR1(cnt, OP_COUNT)
THR1(eacc, OP_ERASE_ACC)
// two operations in sequence
#define THR2(name, OP0, OP1) extern "C" void vp_thr_##name(map_t* m, int tid, int key0, int key1) { do_op<OP0>(m, tid, 0, key0); do_op<OP1>(m, tid, 1, key1); }
THR2(ins_find, OP_INSERT, OP_FIND)
THR2(insn_find, OP_INSERT_NOACC, OP_FIND)
THR2(insn_cnt, OP_INSERT_NOACC, OP_COUNT)
THR2(ins_era, OP_INSERT, OP_ERASE)
THR2(era_ins, OP_ERASE, OP_INSERT)

// ---- sequential helpers (pre-state through the real operations, white-box inspection at quiescence)
extern "C" unsigned long vp_m_sizeof() { return sizeof(map_t); }
extern "C" void vp_m_ctor(map_t* m) { new (m) map_t(); }
extern "C" int vp_m_insert(map_t* m, int key) { map_t::value_type v(key, val_t{0, 0, key}); return m->insert(v); }
extern "C" int vp_m_erase(map_t* m, int key) { return m->erase(key); }
extern "C" int vp_m_count(map_t* m, int key) { return (int)m->count(key); }
extern "C" unsigned long vp_m_size(map_t* m) { return m->size(); }
extern "C" unsigned long vp_m_mask(map_t* m) { return m->my_mask.load(std::memory_order_relaxed); }
extern "C" unsigned long vp_hash(int key) { return hc_t().hash(key); }
extern "C" unsigned long vp_node_val_off() { return offsetof(map_t::node, my_value) + offsetof(map_t::value_type, second); }
// number of live bucket-segment allocations (segments 1..7 share one block)
extern "C" int vp_m_segments_allocated(map_t* m) {
  int c = map_t::base_type::is_valid(m->my_table[1].load(std::memory_order_relaxed)) ? 1 : 0;
  for (unsigned k = map_t::first_block; k < 12; ++k) if (map_t::base_type::is_valid(m->my_table[k].load(std::memory_order_relaxed))) ++c;
  return c;
}
// the bucket in which a node with hash h must live now: walk up from (h & mask) to the first ancestor that is already rehashed
static inline unsigned long home_of(map_t* m, unsigned long h, unsigned long mask) {
  h &= mask;
  for (int g = 0; g < 10; ++g) {
    if (!rehash_required(m->get_bucket(h)->node_list.load(std::memory_order_relaxed))) break;
    h &= (1ul << tbb::detail::log2(h)) - 1;
  }
  return h;
}
// white-box census over the given bucket indices (all buckets that have storage in the sparse model and are <= mask): per universe
// key the number of linked nodes carrying it, total linked nodes, locks still held (bucket or element), nodes outside their home
// bucket, nodes with a key outside the universe
extern "C" void vp_m_census(map_t* m, const unsigned long* idx, int nidx, const int* keys, int nkeys, int* cnt, int* total, int* locked, int* misplaced, int* foreign) {
  unsigned long mask = m->my_mask.load(std::memory_order_relaxed);
  for (int x = 0; x < nidx; ++x) {
    unsigned long i = idx[x];
    if (i > mask) continue;
    auto* b = m->get_bucket(i);
    if (b->mutex.m_state.load(std::memory_order_relaxed) != 0) ++*locked;
    auto* n = b->node_list.load(std::memory_order_relaxed);
    for (int g = 0; g < 6 && map_t::base_type::is_valid(n); ++g, n = n->next) {
      ++*total;
      if (n->mutex.m_state.load(std::memory_order_relaxed) != 0) ++*locked;
      int key = static_cast<map_t::node*>(n)->value().first;
      bool known = false;
      for (int j = 0; j < nkeys; ++j) if (keys[j] == key) { ++cnt[j]; known = true; }
      if (!known) ++*foreign;
      if (home_of(m, hc_t().hash(key), mask) != i) ++*misplaced;
    }
  }
}
// ---- sparse model of the bucket storage (solver-performance device, see NOTES.md)
// A table of 256 buckets indexed by a schedule-dependent (symbolic) masked hash makes every store a 254-way conditional update
// in the SAT encoding, and a bucket pointer with a symbolic offset into the map object turns every later access into a byte
// extraction over the whole object (no verdict / out of memory for the smallest scenario). The keys of a scenario are concrete,
// so only the buckets (h & mask) and their parent chain can be touched by a correct implementation. Therefore, in these units
//  * hash_map_base::get_bucket(h) is cut: the harness stub checks that the segment holding h is published in my_table (the real
//    acquire load, through vp_m_segment_published) and returns the storage of bucket h from the sparse store below (one separate
//    object per bucket, also for the two embedded buckets); a bucket number outside the scenario's reachable set is reported as
//    an assertion failure, never silently mapped;
//  * hash_map_base::init_buckets(ptr, sz, is_initial) is cut: the stub constructs the sparse buckets that stand for ptr[0..sz)
//    with the real bucket constructor (vp_sparse_construct);
//  * the real arithmetic of get_bucket and the real init_buckets loop are checked separately by the sequential harness h_seg.c.
// Not modelled as a consequence: code that relies on the buckets being contiguous (iterators, range, clear, rehash(), copy).
#define VP_SPB(k) [[clang::no_destroy]] static map_t::bucket vp_sp##k;
VP_SPB(0) VP_SPB(1) VP_SPB(2) VP_SPB(3) VP_SPB(4) VP_SPB(5) VP_SPB(6) VP_SPB(7) VP_SPB(8) VP_SPB(9) VP_SPB(10) VP_SPB(11)
extern "C" map_t::bucket* vp_sparse_bucket(int i) {
  switch (i) {
    case 0: return &vp_sp0; case 1: return &vp_sp1; case 2: return &vp_sp2; case 3: return &vp_sp3; case 4: return &vp_sp4; case 5: return &vp_sp5;
    case 6: return &vp_sp6; case 7: return &vp_sp7; case 8: return &vp_sp8; case 9: return &vp_sp9; case 10: return &vp_sp10; default: return &vp_sp11;
  }
}
extern "C" void vp_sparse_construct(int i, int rehash_flag) {
  if (rehash_flag) new (vp_sparse_bucket(i)) map_t::bucket(reinterpret_cast<map_t::node_base*>(tbb::detail::d2::rehash_req_flag));
  else new (vp_sparse_bucket(i)) map_t::bucket();
}
extern "C" int vp_m_segment_published(const map_t::base_type* m, unsigned long h) {
  return map_t::base_type::is_valid(m->my_table[map_t::base_type::segment_index_of(h)].load(std::memory_order_acquire));
}
// ---- helpers for h_seg.c (sequential unit without cuts: the real get_bucket / enable_segment / init_buckets)
extern "C" void vp_m_enable_segment(map_t* m, unsigned long k) { m->enable_segment(k); }
extern "C" void* vp_m_get_bucket(map_t* m, unsigned long h) { return m->get_bucket(h); }
extern "C" void* vp_m_embedded(map_t* m, unsigned long i) { return &m->my_embedded_segment[i]; }
extern "C" unsigned long vp_b_head(void* b) { return (unsigned long)static_cast<map_t::bucket*>(b)->node_list.load(std::memory_order_relaxed); }
extern "C" unsigned long vp_b_lock(void* b) { return (unsigned long)static_cast<map_t::bucket*>(b)->mutex.m_state.load(std::memory_order_relaxed); }
extern "C" unsigned long vp_bucket_sizeof() { return sizeof(map_t::bucket); }

PROPERTY = 'C10'
# one unit per (hash kind, thread-kind pair, unroll, rehash recursion depth); built on demand through unit_override
BASE = dict(wrapper='w_chm.cpp', mode='lcs', unroll=1, ptratomics=True, lvalpath=True, ptrcmp=True, prune=True, fallthrough=True, full_unroll=8,
            unrec={'rehash_bucket': 1},                 # lazy-rehash recursion followed 1 level deep (parent bucket must be rehashed or embedded)
            cut=['12init_bucketsE', '10get_bucketE'])    # sparse model of the bucket segments, see w_chm.cpp / NOTES.md
UNITS = {'chm': dict(BASE, cxxflags=['-DHASHK=0'], threads={'vp_thr_ins': ['a', 'b']}),
         # no cuts: the real get_bucket / enable_segment / init_buckets, sequential (validates the contracts of the sparse bucket model)
         'seg': dict(wrapper='w_chm.cpp', mode='seq', cxxflags=['-DHASHK=0'], ptratomics=True, lvalpath=True, ptrcmp=True, prune=True)}
# loops with a large concrete trip count (everything else: --unwind 8, unwinding assertions on)
# real-code loops of the sequential helpers (pre-state program): 4 iterations are ample for chains of <= 3 nodes and uncontended
# locks (unwinding assertions are on: a too small bound is reported as inconclusive, never as a pass); cbmc cannot fold
# `is_valid(p)` (= address comparison) at symex time, so a large bound there multiplies infeasible paths.
# harness loops and the 64-entry constructor loop get what they need.
UNWINDSET = ','.join(['vp_m_ctor.%d:66' % i for i in range(3)] + ['linearizable.%d:740' % i for i in range(12)] + ['%s.%d:4' % (f, i) for f in ('vp_m_count', 'vp_m_insert', 'vp_m_erase') for i in range(40)])
# thread kind (vp_thr_<kind> in w_chm.cpp) -> history slots (op kind, index of the key argument)
K_INSERT, K_ERASE, K_FIND, K_FINDW, K_INSERT_NOACC, K_COUNT, K_ERASE_ACC, K_INSERT_R = 1, 2, 3, 4, 5, 6, 7, 8
KINDS = {'ins': [(K_INSERT, 0)], 'insr': [(K_INSERT_R, 0)], 'insn': [(K_INSERT_NOACC, 0)], 'era': [(K_ERASE, 0)], 'find': [(K_FIND, 0)],
         'findw': [(K_FINDW, 0)], 'cnt': [(K_COUNT, 0)], 'eacc': [(K_FINDW, 0), (K_ERASE_ACC, 0)],
         'ins_find': [(K_INSERT, 0), (K_FIND, 1)], 'insn_find': [(K_INSERT_NOACC, 0), (K_FIND, 1)], 'insn_cnt': [(K_INSERT_NOACC, 0), (K_COUNT, 1)],
         'ins_era': [(K_INSERT, 0), (K_ERASE, 1)], 'era_ins': [(K_ERASE, 0), (K_INSERT, 1)]}
ARITY = dict((k, 1 + max(i for _, i in v)) for k, v in KINDS.items())
def I(k): return 1000 + k
def E(k): return 2000 + k
def C(k): return 6000 + k
def S(pre, ka, kb, kc=None, **kw):
    d = {'_keys': [ka, kb] + ([kc] if kc else [])}
    for i, p in enumerate(pre): d['PRE%d' % i] = p
    d.update(kw)
    return d
def finish(sc, kinds):
    """fill in the key arguments (KA0..) and the per-slot kind/key tables (OA0/QA0..) of a scenario"""
    sc = dict(sc); keys = sc.pop('_keys')
    for t, kind, ks in zip('ABC', kinds, keys):
        assert len(ks) == ARITY[kind], (kind, ks)
        for i, k in enumerate(ks): sc['K%s%d' % (t, i)] = k
        for j, (op, ki) in enumerate(KINDS[kind]): sc['O%s%d' % (t, j)] = op; sc['Q%s%d' % (t, j)] = ks[ki]
    return sc
ENABLE_SEGMENT = '_ZN3tbb6detail2d213hash_map_baseINS0_2d113tbb_allocatorISt4pairIKi5val_tEEENS3_13spin_rw_mutexEE14enable_segmentEmb'
def H(name, ta, tb, scen, tc=None, hashk=0, rounds=1, unroll=1, depth=1, grow=False, timeout=900, desc='', tiers=None, thorough=None, **kw):
    """grow=False: scenarios on a pre-grown table (256 buckets, <= 4 elements) that cannot reach the next growth threshold: enable_segment is
    kept out of line (smaller thread bodies; if it were reached it would run as one atomic step). grow=True: enable_segment is inlined
    into the thread bodies and interleaved at the granularity of its individual stores."""
    kinds = [ta, tb] + ([tc] if tc else [])
    thr = {}
    for k, sfx in zip(kinds, 'abc'): thr.setdefault('vp_thr_' + k, []).append(sfx)
    defs = {'TA': ta, 'TB': tb, 'NKA': ARITY[ta], 'NKB': ARITY[tb], 'NT': len(kinds), 'ROUNDS': rounds}
    if tc: defs.update({'TC': tc, 'NKC': ARITY[tc]})
    uo = {'threads': thr, 'cxxflags': ['-DHASHK=%d' % hashk], 'unroll': unroll, 'unrec': {'rehash_bucket': depth}}
    if not grow: uo.update(noinline=['14enable_segmentEmb'], allow_atomic=[ENABLE_SEGMENT])
    h = dict(name=name, unit='chm', harness='h_chm.c', defines=defs, scenarios=[finish(x, kinds) for x in scen], unit_override=uo,
             cbmc=['--unwind', '14', '--unwindset', UNWINDSET, '--object-bits', '11'], timeout=timeout, desc=desc,
             mem_gb=8, native_cflags=['-fno-sanitize=null'],   # replay build: thread-mode code forms &p->field from a not-yet-loaded (null) static temporary without accessing it

             bounds={'threads': len(kinds), 'ops_per_thread': max(len(KINDS[k]) for k in kinds), 'free_rounds': rounds, 'forced_rounds': 2, 'loop_unroll': unroll,
                     'rehash_recursion_depth': depth, 'hash': ['identity', 'constant', 'low-bits-collide'][hashk],
                     'table_growth': 'inside the threads (first growth 2 -> 256 buckets)' if grow else 'before the threads (pre-grown to 256 buckets)'})
    if tiers: h['tiers'] = tiers
    h.update(kw)
    out = [h]
    for sfx, tk in (thorough or {}).items():     # deeper variants of the same scenarios, thorough tier only, own entry (exact bounds in evidence)
        kw2 = dict(tc=tc, hashk=hashk, rounds=rounds, unroll=unroll, depth=depth, grow=grow, timeout=5400, desc=desc, tiers=['thorough']); kw2.update(tk); kw2.update(kw)
        out += H(name + '_' + sfx, ta, tb, scen, **kw2)
    return out
R2 = {'r2': dict(rounds=2)}                              # 2 free rounds (every schedule with <= 3 context switches before the forced rounds)
R2U2 = {'r2': dict(rounds=2), 'u2': dict(unroll=2, mem_gb=10)}      # + a variant with every loop unrolled twice (second chain node / second spin iteration inside one slice)
HARNESSES = sum([
  [dict(name='seg_contract', unit='seg', harness='h_seg.c', scenarios=[{'GROW2': 0}], scenarios_thorough=[{'GROW2': 0}, {'GROW2': 1}], cbmc=['--unwind', '300', '--object-bits', '10'], timeout=600,
       desc='real get_bucket/enable_segment/init_buckets: for every bucket number <= mask (symbolic) the bucket is the right slot of the right block, constructed unlocked with the rehash flag (contracts used by the sparse bucket model of the thread harnesses)',
       bounds={'bucket number': 'all 0..255 (GROW2: 0..511)', 'segments': 'embedded + first block (+ segment 8)'})],
  H('find_era', 'find', 'era', [S([I(2), C(2)], [2], [2])], thorough=R2U2, desc='find(const_accessor,k) || erase(k): accessor holder vs erase of the same element'),
  H('era_era', 'era', 'era', [S([I(2), C(2)], [2], [2])], thorough=R2, desc='erase(k) || erase(k): exactly one true, node freed once'),
  H('insn_insn', 'insn', 'insn', [S([I(3)], [2], [2], KX0=3), S([I(3), C(2)], [2], [2], KX0=3)],
    thorough=R2, desc='insert(k) || insert(k): exactly one true. Scenario 1: bucket of k still to be rehashed from its parent (contention on the try-acquired writer lock of the lazy rehash); scenario 2: bucket already rehashed (both start as bucket readers, both upgrade, the loser must re-search)'),
  H('split', 'insn', 'find', [S([I(4)], [2], [4])],
    thorough=R2, desc='insert(k) rehashing bucket 2 from parent bucket 0 || find(k2) rehashing bucket 4 from the same parent, k2=4 lives in the parent: two lazy splits of one chain'),
  H('eacc_era', 'eacc', 'era', [S([I(2), C(2)], [2], [2])],
    thorough=R2, desc='find(accessor,k) + erase(accessor) || erase(k): exactly one of the two erases returns true, the write accessor stays valid until erase(accessor) releases it'),
  H('findw_ins', 'findw', 'insr', [S([I(3), C(2)], [2], [2], KX0=3)],
    desc='find(accessor,k) || insert(const_accessor,k): reader/writer element lock exclusion on a freshly inserted element'),
  H('grow_race', 'insn', 'insn', [S([], [2], [3])], grow=True,
    thorough=R2, desc='insert(k) || insert(k2) on the EMPTY map: both cross the load-factor threshold, exactly one wins the segment CAS and grows 2 -> 256 buckets; enable_segment interleaved store by store'),
  H('grow_maskrace', 'insn_cnt', 'insn', [S([], [2, 2], [2])], grow=True, timeout=1800, thorough=R2,
    desc='insert(k); count(k) [grows the table, then rehashes k out of bucket 0]  ||  insert(k) that read the old mask: check_mask_race must restart it; exactly one insert true, k linked once'),
  H('chain_const', 'era', 'insn', [S([I(7), C(7)], [7], [5])], hashk=1,
    thorough=R2, desc='constant hash: erase(k) || insert(k2) in the same chain of the same bucket'),
  H('chain_low', 'find', 'era', [S([I(6), C(6), I(5)], [6], [5], KX0=6)], hashk=2,
    thorough=R2U2, desc='hashes collide in the low 8 bits: find(k) walking the 2-node chain || erase(k2) unlinking the head of that chain'),
  # chain of 3 keys 514 -> 258 -> 2 in bucket 2 (identity hash, equal low 8 bits); two erasers by key of neighbouring nodes: both take the bucket as
  # readers, one upgrade_to_writer() must release and re-acquire (OVERLAP_BUCKET witness) and re-search while the other unlinks+destroys its neighbour
  H('era_chain3', 'era', 'era', [S([I(2), C(2), I(258), I(514)], [258], [514], KX0=2, OVERLAP_BUCKET=2),      # erase(B) || erase(A): A is B's predecessor
                                  S([I(2), C(2), I(258), I(514)], [2], [258], KX0=514, OVERLAP_BUCKET=2)],     # erase(C) || erase(B)
    rounds=2, tiers=['thorough'], timeout=3600,
    desc='chain A->B->C in one bucket: erase(B) || erase(A), erase(C) || erase(B): contended reader->writer upgrade of the bucket lock (one upgrade_to_writer() must release and re-acquire: witness only accepted on such runs) with re-search from `search:` while the neighbour (predecessor) is unlinked and destroyed; each key erased exactly once, survivors still linked and found, every node freed once'),
  H('era_chain3_u2', 'era', 'era', [S([I(2), C(2), I(258), I(514)], [258], [514], KX0=2, OVERLAP_BUCKET=2),
                                     S([I(2), C(2), I(258), I(514)], [2], [258], KX0=514, OVERLAP_BUCKET=2),
                                     S([I(2), C(2), I(258), I(514)], [258], [258], KX0=514, KX1=2, OVERLAP_BUCKET=2)],   # erase(B) || erase(B): the loser re-walks the whole chain
    unroll=2, tiers=['thorough'], timeout=3600, mem_gb=10,
    desc='same chain, every loop unrolled twice (second chain node and the repeated search inside one slice), plus erase(B) || erase(B): exactly one true'),
  # ---- thorough only
  H('ins_ins', 'ins', 'ins', [S([I(3), C(2)], [2], [2], KX0=3)], tiers=['thorough'], timeout=3600,
    desc='insert(accessor,k) || insert(accessor,k), bucket of k already rehashed: exactly one true, the loser gets a write accessor to the winner\'s element after the winner released it'),
  H('find_maskrace', 'insn_find', 'insn_find', [S([], [4, 2], [2, 2])], grow=True, rounds=2, tiers=['thorough'], timeout=5400, mem_gb=10,
    desc='EMPTY map: A insert(k1) [wins the segment CAS, grows]; find(k)  ||  B insert(k); find(k): a find that read the old mask after insert(k) completed must restart (check_mask_race) when k has been rehashed out of bucket 0 meanwhile'),
  H('deep', 'insn', 'find', [S([I(4)], [6], [4])], depth=2, tiers=['thorough'], timeout=3600,
    desc='rehash recursion 2 deep: insert(6): bucket 6 <- parent 2 (unrehashed) <- grandparent 0 (holds key 4)  ||  find(4) splitting bucket 4 from bucket 0'),
  H('t3_ins_ins_era', 'ins', 'ins', [S([I(3), C(2)], [2], [2], [2], KX0=3)], tc='era', tiers=['thorough'], timeout=5400,
    desc='3 threads: insert(k) || insert(k) || erase(k)'),
  H('t3_find_era_ins', 'find', 'era', [S([I(2), C(2)], [2], [2], [2])], tc='insn', tiers=['thorough'], timeout=5400,
    desc='3 threads: find(const_accessor,k) || erase(k) || insert(k): erased element must not be destroyed under the accessor, re-insert creates a new element'),
  H('ins_ins_const', 'ins', 'ins', [S([I(3), C(2)], [2], [2], KX0=3), S([I(3), C(3)], [5], [7], KX0=3)], hashk=1, tiers=['thorough'],
    desc='constant hash: insert(k)||insert(k) and insert(k1)||insert(k2) into one chain'),
  H('ins_era_low', 'insn', 'era', [S([I(6), C(6), I(5)], [7], [6], KX0=5, KX1=6)], hashk=2, tiers=['thorough'],
    desc='colliding low bits: insert(k3) at the head of a 2-node chain || erase of the tail node'),
], [])
MANIFEST = dict(
  level_text='Bounded model checking of the real concurrent_hash_map code (lookup<insert/find/count>, bucket_accessor::acquire, lazy rehash_bucket, '
             'check_mask_race/check_rehashing_collision, insert_new_node, enable_segment, internal_erase, exclude, accessor release, spin_rw_mutex) in 2-3 model '
             'threads on tables prepared by real sequential operations: for concrete operation kinds and keys per scenario the SAT solver decides every interleaving '
             '(context switch before every memory operation of the real code, R round-robin rounds + 2 forced rounds) for: linearizability of the recorded history '
             'against a sequential map including the final content; exactly-one-winner of concurrent inserts/erases of one key; accessor/const_accessor exclusion and '
             'no destruction of an element under an accessor (holder counters inside the real node, really freeing allocator stub, cbmc pointer checks); no key lost, '
             'duplicated, misplaced or leaked at quiescence (white-box census); no lock left held; no thread spinning forever. Scenarios cover the first table growth '
             '(2 -> 256 buckets) racing with inserts that read the old mask, two lazy splits of one parent chain, contention on the try-acquired rehash lock, '
             'reader-to-writer bucket lock upgrades, erase by key vs erase by accessor, and identity / constant / low-bit-colliding user hashes.',
  level_note='Bounds per scenario in evidence (2 threads, 1-2 operations per thread, R=1 free round and loop unroll 1 in quick; R=2, unroll 2, 3 threads, rehash '
             'recursion depth 2 in thorough). Bucket storage is modelled sparsely: get_bucket/init_buckets are replaced by contract stubs (one object per reachable bucket '
             'number, segment publication still checked through the real my_table load) and the real functions are checked against exactly that contract by a '
             'sequential query for every bucket number <= mask. Sequential consistency only. Iterators/range/clear/rehash()/copy/swap, the second growth (256 -> 512), '
             'the bounded back-off restart of lookup, >3 threads are outside. Trusted: clang-14 IR, tools/ir2c.py (+unrec.py, ptratom.py), cbmc.',
)
OUTSIDE = [
  'more than 3 threads, more than 2 operations per thread, more than 4 distinct keys / 4 elements',
  'table growth beyond the first one (mask 255 -> 511 needs 255 elements); only the growth 2 -> 256 buckets happens inside threads',
  'lazy-rehash recursion deeper than 1 (quick) / 2 (thorough) unrehashed ancestors (deeper chains are cut by an assumption, keys are chosen so that none occurs)',
  'the restart path of lookup after the bounded back-off on a busy element lock (needs >= 5 failed try_acquire re-entries: beyond the round bounds)',
  'operations that rely on contiguous bucket storage: iterators, range(), clear(), rehash(), copy/move/swap, equal_range (sparse bucket model)',
  'emplace / move-insert / transparent-key overloads (same lookup<> underneath), allocation failure, exceptions (compiled with -fno-exceptions)',
  'weak memory (non-SC) behaviour, HTM-based mutexes (spin_rw_mutex only)',
  'second and later iterations of chain walks inside one scheduling slice at unroll=1 (they cost a scheduling round; thorough runs unroll=2)',
]
STUBS = [
  'r1::allocate_memory / r1::deallocate_memory: malloc / free of that size (nodes); bucket blocks get 8 bytes (never accessed in the sparse bucket model)',
  'hash_map_base::get_bucket(h) [cut]: asserts the segment of h is published in my_table (real acquire load), returns the storage object of bucket h; a bucket number outside the keys\' reachable set is an assertion failure. Contract checked against the real function by harness seg_contract',
  'hash_map_base::init_buckets(ptr,sz,is_initial) [cut]: constructs the sparse buckets standing for ptr[0..sz) with the real bucket constructor (lock free, chain = rehash_req_flag). Contract checked against the real function by harness seg_contract',
  'vp_rec_limit: assume(false) at rehash recursion depth D+1',
  'sched_yield / pause: scheduling hints (no-op)',
]
ASSUMPTIONS = [
  'user hash/equality are pure functions of the key (hc_t); keys and operation kinds are concrete per scenario, only the schedule is symbolic',
  'pre-states are produced by the real sequential insert/erase/count (results checked against a set model)',
  'erase-by-accessor is specified as "true iff the key is present"; scenarios do not combine it with a concurrent re-insert of the same key',
]

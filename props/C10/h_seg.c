/* C10, sequential: the contracts that the sparse bucket model of h_chm.c puts in place of hash_map_base::get_bucket and
 * hash_map_base::init_buckets are what the REAL functions do (unit 'seg': w_chm.cpp without cuts).
 * After the real enable_segment(1) [and enable_segment(8) if GROW2], for EVERY bucket number h <= mask (symbolic):
 *   - get_bucket(h) is &my_embedded_segment[h] for h < 2, else the (h - first)th bucket of the block allocated for its segment:
 *     inside the block, 16-byte stride => distinct numbers give distinct, non-overlapping buckets;
 *   - that bucket was constructed by init_buckets: lock word 0, chain == rehash_req_flag (3) (embedded: empty chain);
 *   - my_mask == 255 (511), the segment pointer of h is published. */
#include "w.h"
#include "vp.h"
#ifndef GROW2
#define GROW2 0
#endif
struct S_class_tbb__detail__d2__concurrent_hash_map M;
u8* blk[2]; u64 blksz[2]; int nblk;
u8* _ZN3tbb6detail2r115allocate_memoryEm(u64 n) {
  u8* p = malloc(n); __CPROVER_assume(p != 0);
  VP_ASSERT(nblk < 2, "more bucket blocks allocated than segments enabled");
  blk[nblk] = p; blksz[nblk] = n; nblk++; return p;
}
void _ZN3tbb6detail2r117deallocate_memoryEPv(u8* p) { VP_ASSERT(0, "unexpected deallocation"); }
void vp_rec_limit(void) { __CPROVER_assume(0); }
int main(void) {
  u64 bs = vp_bucket_sizeof();
  vp_m_ctor(&M);
  VP_ASSERT(vp_m_mask(&M) == 1, "fresh table: mask != 1");
  vp_m_enable_segment(&M, 1);
  VP_ASSERT(vp_m_mask(&M) == 255, "after enable_segment(1): mask != 255");
  VP_ASSERT(nblk == 1 && blksz[0] == 254 * bs, "first block is not 254 buckets");
#if GROW2
  vp_m_enable_segment(&M, 8);
  VP_ASSERT(vp_m_mask(&M) == 511, "after enable_segment(8): mask != 511");
  VP_ASSERT(nblk == 2 && blksz[1] == 256 * bs, "segment 8 is not 256 buckets");
#endif
  u64 h = vp_nd_range(0, GROW2 ? 511 : 255);
  u8* b = vp_m_get_bucket(&M, h);
  if (h < 2) {
    VP_ASSERT(b == vp_m_embedded(&M, h), "get_bucket(h<2) is not the embedded bucket");
    VP_ASSERT(vp_b_head(b) == 0 && vp_b_lock(b) == 0, "embedded bucket not empty/unlocked after construction");
  } else {
    u8* want = h < 256 ? blk[0] + (h - 2) * bs : blk[1] + (h - 256) * bs;
    VP_ASSERT(b == want, "get_bucket(h): not the (h - first)th bucket of the block of its segment");
    VP_ASSERT(vp_b_head(b) == 3, "init_buckets: chain of a new bucket is not rehash_req_flag");
    VP_ASSERT(vp_b_lock(b) == 0, "init_buckets: lock word of a new bucket is not free");
  }
  VP_ASSERT(vp_m_segment_published(&M, h), "segment pointer of a bucket <= mask not published");
  VP_REACHED();
  return 0;
}

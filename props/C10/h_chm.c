/* C10: tbb::concurrent_hash_map<int, val_t, hc_t> is a linearizable map with per-element reader/writer locks.
 * The real insert / find / count / erase code (w_chm.cpp) runs in 2-3 model threads on a map whose pre-state was produced by
 * real sequential operations; the SAT solver owns the schedule.
 * Scenario (-D):  TA,TB[,TC]  thread kinds (suffix of vp_thr_<kind> in w_chm.cpp), NKA,NKB[,NKC] number of key arguments (1|2),
 *                 KA0,KA1,KB0,KB1[,KC0,KC1] keys, PRE0..PRE5 sequential pre-state program (op*1000+key: 1 insert, 2 erase,
 *                 6 count = touch/rehash the bucket), ROUNDS free scheduling rounds, NT threads.
 * Oracles: (1) the recorded invocation/response history has a linearization (all program-order-respecting interleavings that
 *              respect real time) against a sequential map, whose final content equals the real final content;
 *          (2) accessor exclusivity / no destruction under an accessor: holder counters live in the mapped value of the real
 *              node (a freed node is a cbmc pointer-check / ASan failure), the deallocation stub checks no accessor points there;
 *          (3) structural census at quiescence: every key at most once, in its home bucket, no bucket/element lock left held,
 *              size() == number of linked nodes == live node allocations, real sequential count() agrees;
 *          (4) blocked-state oracle: no thread spins forever on a bucket/element lock nobody holds. */
#include "w.h"
#include "vp.h"
#ifndef NT
#define NT 2
#endif
#ifndef ROUNDS
#define ROUNDS 2
#endif
#define CAT3_(a, b, c) a##b##c
#define CAT3(a, b, c) CAT3_(a, b, c)
#define FA CAT3(vp_thr_, TA, _a)
#define FB CAT3(vp_thr_, TB, _b)
#define FC CAT3(vp_thr_, TC, _c)
#define START(f) CAT3(f, _, start)
#ifndef PRE0
#define PRE0 0
#endif
#ifndef PRE1
#define PRE1 0
#endif
#ifndef PRE2
#define PRE2 0
#endif
#ifndef PRE3
#define PRE3 0
#endif
#ifndef PRE4
#define PRE4 0
#endif
#ifndef PRE5
#define PRE5 0
#endif
#ifndef KA1
#define KA1 0
#endif
#ifndef KB1
#define KB1 0
#endif
#ifndef KC0
#define KC0 0
#endif
#ifndef KC1
#define KC1 0
#endif

struct S_class_tbb__detail__d2__concurrent_hash_map M;

/* ---- external boundary: r1::allocate_memory / deallocate_memory (tbb_allocator): contract = malloc / free of that size */
#define MAXTID 3
int live_allocs, total_allocs;
u8* held_ptr[MAXTID]; int held_w[MAXTID];     /* ghost: mapped value a thread's accessor points to */
u64 val_off;                                   /* offset of value().second inside a node (vp_node_val_off) */
/* bucket blocks (> 64 bytes) have no storage of their own in the sparse bucket model: their bytes are never accessed */
u8* _ZN3tbb6detail2r115allocate_memoryEm(u64 n) { total_allocs++; live_allocs++; u8* p = malloc(n > 64 ? 8 : n); __CPROVER_assume(p != 0); return p; }
void _ZN3tbb6detail2r117deallocate_memoryEPv(u8* p) {
  for (int t = 0; t < MAXTID; t++)
    VP_ASSERT(held_ptr[t] == 0 || held_ptr[t] != p + val_off, "element destroyed while an accessor points to it");
  live_allocs--; free(p);
}

/* ---- key universe of the scenario (concrete) */
#define NKEYS 8
#ifndef KX0
#define KX0 0      /* extra universe keys: keys used only by the pre-state program */
#endif
#ifndef KX1
#define KX1 0
#endif
static const int UK[NKEYS] = { KA0, KA1, KB0, KB1, KC0, KC1, KX0, KX1 };
static int present0[NKEYS];      /* content after the pre-state program */
static int final_[NKEYS];        /* real content at quiescence (census) */
static int uidx(int key) { for (int i = 0; i < NKEYS; i++) if (UK[i] == key) return i; return NKEYS - 1; }

/* ---- sparse model of the bucket segments (w_chm.cpp "sparse model", NOTES.md): get_bucket / init_buckets are cut from the units.
 * SP_IDX = the bucket numbers >= 2 that the scenario's keys can reach (masked hash under the largest mask + parent chain). */
#define BUCKET struct S_struct_tbb__detail__d2__hash_map_base_tbb__detail__d1__tbb_allocator_std__pair_const_int__val_t____tbb__detail__d1__spin_rw_mutex___bucket
#define MAPBASE struct S_class_tbb__detail__d2__hash_map_base
#ifndef MAXMASK
#define MAXMASK 255      /* largest mask the scenario can reach */
#endif
#define NSP 12
static u64 SP_IDX[NSP]; static int nsp;
static void sp_add(u64 i) {
  for (int k = 0; k < NSP; k++) if (k < nsp && SP_IDX[k] == i) return;
  __CPROVER_assume(nsp < NSP);     /* scenario construction error, not a property */
  SP_IDX[nsp++] = i;
}
static u64 topbit(u64 h) { u64 b = 1; for (int g = 0; g < 12; g++) if ((b << 1) <= h) b <<= 1; return b; }
static void sp_add_key(int key) { u64 h = vp_hash(key) & MAXMASK; for (int g = 0; g < 12 && h >= 2; g++) { sp_add(h); h &= topbit(h) - 1; } }
static void sp_init(void) {       /* the two embedded buckets first (constructed like hash_map_base's constructor leaves them) */
  sp_add(0); sp_add(1); vp_sparse_construct(0, 0); vp_sparse_construct(1, 0);
  for (int i = 0; i < NKEYS; i++) sp_add_key(UK[i]);
}
/* contract of get_bucket(h): the address of bucket number h; the segment holding h must already be published in my_table */
BUCKET* _ZNK3tbb6detail2d213hash_map_baseINS0_2d113tbb_allocatorISt4pairIKi5val_tEEENS3_13spin_rw_mutexEE10get_bucketEm(MAPBASE* self, u64 h) {
  VP_ASSERT(vp_m_segment_published(self, h), "get_bucket: the segment of this bucket is not published in my_table (mask visible before the segment pointer?)");
  for (int k = 0; k < nsp; k++) if (SP_IDX[k] == h) return vp_sparse_bucket(k);
  VP_ASSERT(0, "get_bucket: bucket number outside the set reachable from the scenario's keys (wrong bucket computed)");
  return vp_sparse_bucket(0);
}
/* contract of init_buckets(ptr, sz, is_initial): constructs sz buckets (mutex free, chain = rehash_req_flag unless is_initial).
   ptr[0..sz) stands for buckets [2,256) (first block, sz == 254) or [sz, 2*sz) (later segments) */
void _ZN3tbb6detail2d213hash_map_baseINS0_2d113tbb_allocatorISt4pairIKi5val_tEEENS3_13spin_rw_mutexEE12init_bucketsEPNSB_6bucketEmb(MAPBASE* self, BUCKET* ptr, u64 sz, u8 is_initial) {
  u64 lo = sz == 254 ? 2 : sz, hi = sz == 254 ? 256 : 2 * sz;
  for (int k = 0; k < nsp; k++) if (SP_IDX[k] >= lo && SP_IDX[k] < hi) vp_sparse_construct(k, !is_initial);
}
/* recursion bound of the lazy rehash (tools/unrec.py): deeper parent chains than the unit's depth are outside the claim */
void vp_rec_limit(void) { __CPROVER_assume(0); }

/* ---- history. Kind and key of every history slot are scenario constants (OA0.. = kind, QA0.. = key; 0 = slot unused);
 * symbolic per run: whether/when the operation was invoked and responded, and its result. */
enum { K_NONE = 0, K_INSERT = 1, K_ERASE = 2, K_FIND = 3, K_FINDW = 4, K_INSERT_NOACC = 5, K_COUNT = 6, K_ERASE_ACC = 7, K_INSERT_R = 8 };
#define MAXOPS (2 * MAXTID)
#ifndef OA1
#define OA1 0
#define QA1 0
#endif
#ifndef OB1
#define OB1 0
#define QB1 0
#endif
#ifndef OC0
#define OC0 0
#define QC0 0
#endif
#ifndef OC1
#define OC1 0
#define QC1 0
#endif
static const int HKIND[MAXOPS] = { OA0, OA1, OB0, OB1, OC0, OC1 };
static const int HKEY[MAXOPS] = { QA0, QA1, QB0, QB1, QC0, QC1 };
struct op { int used, done, ok; unsigned inv, res; } H[MAXOPS];   /* index = tid*2 + slot */
unsigned clk;
void vp_inv(u32 tid, u32 slot, u32 kind, u32 key) {
  struct op* o = &H[tid * 2 + slot];
  VP_ASSERT(HKIND[tid * 2 + slot] == (int)kind && HKEY[tid * 2 + slot] == (int)key, "harness: scenario table does not match the thread body");
  o->used = 1; o->inv = ++clk;
}
void vp_res(u32 tid, u32 slot, u32 ok) { struct op* o = &H[tid * 2 + slot]; o->done = 1; o->ok = ok; o->res = ++clk; }

/* ---- accessor observers: bookkeeping inside the real node */
/* val_t = { int writers; int readers; int payload; } (w_chm.cpp) */
#define WR(v) (((int*)(v))[0])
#define RD(v) (((int*)(v))[1])
void vp_acc_enter(u32 tid, u32 writer, u32 key, struct S_struct_val_t* v) {
  VP_ASSERT(WR(v) == 0, "accessor granted while another thread holds a (write) accessor to the element");
  if (writer) { VP_ASSERT(RD(v) == 0, "write accessor granted while a const_accessor is held"); WR(v)++; }
  else RD(v)++;
  held_ptr[tid] = (u8*)v; held_w[tid] = writer;
}
void vp_acc_leave(u32 tid, u32 writer, u32 key, struct S_struct_val_t* v) {
  if (writer) { VP_ASSERT(WR(v) == 1 && RD(v) == 0, "write accessor not exclusive at release"); WR(v)--; }
  else { VP_ASSERT(WR(v) == 0 && RD(v) >= 1, "const_accessor overlapped a write accessor"); RD(v)--; }
  held_ptr[tid] = 0;
}

static void pre_op(int code) {
  int op = code / 1000, key = code % 1000, i = uidx(key);
  if (op == 1) { int r = vp_m_insert(&M, key); VP_ASSERT(r == !present0[i], "sequential insert returned the wrong result (pre-state)"); present0[i] = 1; }
  else if (op == 2) { int r = vp_m_erase(&M, key); VP_ASSERT(r == present0[i], "sequential erase returned the wrong result (pre-state)"); present0[i] = 0; }
  else if (op == 6) { int r = vp_m_count(&M, key); VP_ASSERT(r == present0[i], "sequential count returned the wrong result (pre-state)"); }
}

/* sequential specification: apply history slot x to the abstract content, return whether its recorded result is the specified one.
   erase-by-accessor is specified as "true iff the key is present" (scenarios never combine it with a re-insert of the key) */
static int spec_step(int* content, int x) {
  int i = uidx(HKEY[x]), was = content[i];
  if (!H[x].used) return 1;            /* conditional second slot that was not executed (erase-by-accessor after a failed find) */
  switch (HKIND[x]) {
    case K_INSERT: case K_INSERT_NOACC: case K_INSERT_R: content[i] = 1; return H[x].ok == !was;
    case K_ERASE: case K_ERASE_ACC: content[i] = 0; return H[x].ok == was;
    default: return H[x].ok == was;      /* find / count */
  }
}
/* all interleavings of the per-thread slot sequences (program order kept); digit d of code (base NT) = thread taking step d */
static int linearizable(void) {
  int cnt[MAXTID], n = 0, found = 0;
  for (int t = 0; t < MAXTID; t++) { cnt[t] = (HKIND[2 * t] != 0) + (HKIND[2 * t + 1] != 0); n += cnt[t]; }
  unsigned ncodes = 1; for (int i = 0; i < n; i++) ncodes *= NT;
  for (unsigned code = 0; code < ncodes; code++) {
    int pos[MAXTID] = { 0, 0, 0 }, seq[MAXOPS], bad = 0; unsigned c = code;
    for (int s = 0; s < n; s++) { int t = c % NT; c /= NT; if (pos[t] >= cnt[t]) { bad = 1; break; } seq[s] = 2 * t + pos[t]; pos[t]++; }
    if (bad) continue;
    int ok = 1;
    for (int x = 0; x < n; x++) for (int y = x + 1; y < n; y++)
      if (H[seq[x]].used && H[seq[y]].used && H[seq[y]].res < H[seq[x]].inv) ok = 0;   /* real-time order */
    int content[NKEYS];
    for (int i = 0; i < NKEYS; i++) content[i] = present0[i];
    for (int s = 0; s < n; s++) ok &= spec_step(content, seq[s]);
    for (int i = 0; i < NKEYS; i++) if (uidx(UK[i]) == i) ok &= (content[i] == final_[i]);   /* first occurrence of each universe key */
    if (ok) found = 1;
  }
  return found;
}

/* OVERLAP_BUCKET=<bucket number> (scenario option): the lock word of that bucket is sampled after every free slice. Seeing two readers
   on it means both threads hold the bucket as readers at the same time; if both then need the writer lock (their keys are present), exactly
   one spin_rw_mutex::upgrade() succeeds in place and the other one MUST take the release-and-reacquire path (upgrade_to_writer() == false,
   re-search from `search:` in internal_erase). With this option the vacuity witness is only accepted on such a path. */
#ifdef OVERLAP_BUCKET
static int both_readers;
static void obs_overlap(void) {
  for (int k = 0; k < nsp; k++) if (SP_IDX[k] == OVERLAP_BUCKET) { if ((vp_b_lock(vp_sparse_bucket(k)) >> 2) == 2) both_readers = 1; }
}
#define OBS_OVERLAP() obs_overlap();
#else
#define OBS_OVERLAP()
#endif
#ifdef MINI
int main(void) { val_off = vp_node_val_off(); vp_m_ctor(&M); sp_init(); pre_op(PRE0); pre_op(PRE1); pre_op(PRE2); VP_REACHED(); return 0; }
#else
int main(void) {
  val_off = vp_node_val_off();
  vp_m_ctor(&M);
  sp_init();
  pre_op(PRE0); pre_op(PRE1); pre_op(PRE2); pre_op(PRE3); pre_op(PRE4); pre_op(PRE5);

#if NKA == 2
  START(FA)(&M, 0, KA0, KA1);
#else
  START(FA)(&M, 0, KA0);
#endif
#if NKB == 2
  START(FB)(&M, 1, KB0, KB1);
#else
  START(FB)(&M, 1, KB0);
#endif
#if NT == 3
#if NKC == 2
  START(FC)(&M, 2, KC0, KC1);
#else
  START(FC)(&M, 2, KC0);
#endif
#endif
  for (int r = 0; r < ROUNDS; r++) {
    VP_RUN(FA) OBS_OVERLAP() VP_RUN(FB) OBS_OVERLAP()
#if NT == 3
    VP_RUN(FC) OBS_OVERLAP()
#endif
  }
#if NT == 3
  VP_QUIESCE3(FA, FB, FC)
#else
  VP_QUIESCE2(FA, FB)
#endif
  VP_ASSERT(!vp_deadlock, "every unfinished thread spins on a bucket/element lock and nothing changes (lost release / deadlock)");
  __CPROVER_assume(!vp_unfinished);

  /* ---- quiescent state */
  for (int i = 0; i < MAXOPS; i++) if (HKIND[i]) VP_ASSERT(H[i].used == H[i].done, "operation never responded");
#if defined(STAGE) && STAGE == 1
  VP_REACHED(); return 0;
#endif
  /* census over every bucket that has storage (embedded + sparse set; no other bucket can have been touched: get_bucket stub) */
  int cnt[NKEYS] = { 0 }, total = 0, locked = 0, misplaced = 0, foreign = 0;
  vp_m_census(&M, SP_IDX, nsp, UK, NKEYS, cnt, &total, &locked, &misplaced, &foreign);
  VP_ASSERT(locked == 0, "a bucket or element lock is still held at quiescence");
  VP_ASSERT(foreign == 0, "a node with a key nobody inserted is linked in the table");
  for (int i = 0; i < NKEYS; i++) {
    int dup = 0; for (int j = 0; j < i; j++) if (UK[j] == UK[i]) dup = 1;
    if (dup) { final_[i] = final_[uidx(UK[i])]; continue; }
    VP_ASSERT(cnt[i] <= 1, "key duplicated: linked more than once in the table");
    final_[i] = cnt[i];
  }
  VP_ASSERT(misplaced == 0, "a node is linked in a bucket that is not the home bucket of its hash (lost for lookups)");
  VP_ASSERT(vp_m_size(&M) == (u64)total, "size() != number of linked nodes at quiescence");
  VP_ASSERT(live_allocs - vp_m_segments_allocated(&M) == total, "node leaked or freed twice: live node allocations != linked nodes");
  VP_ASSERT(linearizable(), "history not linearizable: no sequential order of the operations explains the results and the final content");
#ifdef FINAL_COUNT
  /* the real sequential count() agrees with the census for every universe key (erased keys are not found, the others are).
     NOT enabled by any scenario: the real lookup on the symbolic post-state makes symex explode (> 20 min); the census above is the traversal */
  for (int i = 0; i < NKEYS; i++) if (UK[i] != 0 && uidx(UK[i]) == i) VP_ASSERT(vp_m_count(&M, UK[i]) == final_[i], "sequential count() after quiescence disagrees with the linked nodes");
#endif
#ifdef OVERLAP_BUCKET
  if (both_readers) VP_REACHED();     /* witness: a complete run in which the non-atomic upgrade path was forced exists */
#else
  VP_REACHED();
#endif
  return 0;
}
#endif

// C14 wrapper: function_node<int,int,POLICY> (one policy per TU: -DPOL=0 queueing, 1 rejecting, 2 queueing_lightweight, 3 rejecting_lightweight)
// with a harness body, harness successors, an optional harness predecessor (pull mode of the rejecting policy), white-box graph.
#include "fg14_common.h"
#if POL == 0
typedef queueing policy_t;
#elif POL == 1
typedef rejecting policy_t;
#elif POL == 2
typedef queueing_lightweight policy_t;
#else
typedef rejecting_lightweight policy_t;
#endif
extern "C" int vp_body(int v);                   // harness: the node body (observer + output value)
extern "C" unsigned vp_src_get(int* v);          // harness predecessor: try_get
extern "C" void vp_src_regsucc();                // the node gave the edge back (predecessor_cache::get_item failed): push mode again
// NOTHROW: the body is noexcept, which is what enables the lightweight path (function_input_base::my_is_no_throw)
#ifndef NOTHROW
#define NOTHROW 1
#endif
struct vp_body_t { int operator()(const int& v) const noexcept(NOTHROW != 0) { return vp_body(v); } };
typedef function_node<int, int, policy_t> node_t;
typedef node_t::input_impl_type::base_type input_base_t;      // function_input_base<int, policy_t, A, function_input<...>>
typedef apply_body_task_bypass<input_base_t, int> body_task_t;
typedef forward_task_bypass<input_base_t> fwd_task_t;
VP_TASK_STORAGE(vp_bt, body_task_t)
VP_TASK_STORAGE(vp_ft, fwd_task_t)
VP_RUN_TASK()
#ifdef SEQAGG
VP_SEQ_AGGREGATOR(input_base_t::operation_type, input_base_t::handler_type)
#endif
struct vp_send : sender<int> {
  bool try_get(int& v) override { return vp_src_get(&v); }
  bool register_successor(successor_type&) override { vp_src_regsucc(); return true; }
  bool remove_successor(successor_type&) override { return true; }
};
static vp_raw<node_t> vp_node_mem;
// typed storage for the node's input queue object (`new input_queue_type()` in the function_input_base constructor): the harness's
// operator new stub hands it out (integer members must not live in pointer-typed pool cells: cbmc would not fold them)
static vp_raw<node_t::input_queue_type> vp_queue_obj;
extern "C" void* vp_queue_mem() { return &vp_queue_obj.x; }
extern "C" unsigned long vp_queue_objsize() { return sizeof(node_t::input_queue_type); }
static vp_raw<vp_send> vp_src_mem;
static node_t& N() { return vp_node_mem.x; }
extern "C" {
void vp_init(unsigned long concurrency, unsigned nsucc) {
  vp_graph_init();
  new (&vp_node_mem.x) node_t(vp_graph(), concurrency, vp_body_t());
  new (&vp_src_mem.x) vp_send();
  for (unsigned i = 0; i < nsucc; i++) { new (&vp_succ(i)) vp_recv(); vp_succ(i).id = i; N().register_successor(vp_succ(i)); }
}
unsigned vp_put(int v) { return N().try_put(v); }
void vp_add_pred() { N().register_predecessor(vp_src_mem.x); }
void vp_add_succ(unsigned i) { N().register_successor(vp_succ(i)); }
unsigned long vp_conc() { return N().my_concurrency; }
unsigned long vp_maxconc() { return N().my_max_concurrency; }
unsigned vp_fwd_busy() { return N().forwarder_busy; }
unsigned long vp_qsize() { return N().my_queue ? N().my_queue->size() : 0; }
unsigned long vp_npred() { return N().my_predecessors.my_q.size(); }
unsigned vp_is_nothrow() { return N().my_is_no_throw; }
}

// ---- translator validation (spec: selftest=True): a fixed scenario executed as real C++ and as generated C, emitted values diffed
extern "C" { void vp_emit(unsigned long v); unsigned vp_st_bag(); void vp_st_push(void*); void* vp_st_take(unsigned newest); void vp_st_reset(unsigned avail, unsigned accmask, unsigned flipmask); void vp_st_arena(unsigned); }
static void st_run(unsigned newest, unsigned cancel) {
  if (!vp_st_bag()) return;
  d1::task* t = static_cast<d1::task*>(vp_st_take(newest));
  vp_st_arena(1); void* b = vp_run_task(t, cancel); vp_st_arena(0);
  if (b) vp_st_push(b);
}
static void st_state() { vp_emit(vp_conc()); vp_emit(vp_qsize()); vp_emit(vp_graph_refs()); vp_emit(vp_fwd_busy()); vp_emit(vp_npred()); vp_emit(vp_st_bag()); vp_emit(vp_refv_count(0)); }
extern "C" void vp_selftest() {
  for (unsigned conc = 0; conc < 3; conc++) for (unsigned flip = 0; flip < 2; flip++) {
    vp_st_reset(3, 0x5b6d, flip * 3); vp_init(conc, 2); vp_refv_init(0); vp_refv_init(1);
    for (int i = 0; i < 4; i++) { vp_emit(vp_put(10 + i)); st_state(); }
    st_run(0, 0); st_state(); vp_add_pred(); st_state(); st_run(1, 0); st_state(); vp_emit(vp_put(20));
    vp_reserve_wait(); st_state();
    for (int i = 0; i < 4; i++) { st_run(i & 1, 0); st_state(); }
    vp_add_succ(0); vp_emit(vp_put(21)); vp_emit(vp_put(22)); st_run(0, 1); st_state(); vp_release_wait();
    for (int i = 0; i < 10; i++) st_run(0, 0);
    st_state();
  }
}

// C14 wrapper: push<->pull edge switching between a sender node and harness successors that reject, take over the edge
// (register_predecessor == true), later pull (try_get / try_reserve+consume|release) and give the edge back (register_successor).
// One sender type per TU: -DEK=0 broadcast_node<int> (broadcast_cache), -DEK=1 queue_node<int> (round_robin_cache + item buffer),
// -DEK=2 buffer_node<int>.
#include "fg14_common.h"
#if EK == 0
typedef broadcast_node<int> node_t;
#elif EK == 1
typedef queue_node<int> node_t;
#else
typedef buffer_node<int> node_t;
#endif
#if EK != 0
typedef forward_task_bypass<buffer_node<int>> fwd_task_t;
#else
struct vp_dummy_task : graph_task { vp_dummy_task(graph& g, d1::small_object_allocator& a) : graph_task(g, a) {} d1::task* execute(d1::execution_data&) override { return nullptr; } d1::task* cancel(d1::execution_data&) override { return nullptr; } };
typedef vp_dummy_task fwd_task_t;   // (a broadcast_node creates no tasks; storage only so that the common stubs link)
#endif
VP_TASK_STORAGE(vp_ft, fwd_task_t)
VP_RUN_TASK()
static vp_raw<node_t> vp_node_mem;
static node_t& N() { return vp_node_mem.x; }
extern "C" {
void vp_init(unsigned nsucc) {
  vp_graph_init();
  new (&vp_node_mem.x) node_t(vp_graph());
  for (unsigned i = 0; i < nsucc; i++) { new (&vp_succ(i)) vp_recv(); vp_succ(i).id = i; N().register_successor(vp_succ(i)); }
}
// construct the harness successors that are not registered at init (they may be registered later by the driver)
void vp_init_extra_succ(unsigned from) { for (unsigned i = from; i < 3; i++) { new (&vp_succ(i)) vp_recv(); vp_succ(i).id = i; } }
unsigned vp_put(int v) { return N().try_put(v); }
// what a successor in pull mode does (predecessor_cache::get_item / reservable_predecessor_cache): calls on the sender interface
unsigned vp_get(int* v) { return static_cast<sender<int>&>(N()).try_get(*v); }
unsigned vp_reserve(int* v) { return static_cast<sender<int>&>(N()).try_reserve(*v); }
unsigned vp_release() { return static_cast<sender<int>&>(N()).try_release(); }
unsigned vp_consume() { return static_cast<sender<int>&>(N()).try_consume(); }
void vp_add_succ(unsigned i) { register_successor(static_cast<sender<int>&>(N()), static_cast<receiver<int>&>(vp_succ(i))); }
void vp_remove_succ(unsigned i) { remove_successor(static_cast<sender<int>&>(N()), static_cast<receiver<int>&>(vp_succ(i))); }
#if EK != 0
unsigned long vp_size() { return N().my_tail - N().my_head; }
unsigned vp_fwd_busy() { return N().forwarder_busy; }
unsigned vp_reserved() { return N().my_reserved; }
#else
unsigned long vp_size() { return 0; }
unsigned vp_fwd_busy() { return 0; }
unsigned vp_reserved() { return 0; }
#endif
unsigned long vp_nsucc() { return N().my_successors.my_successors.size(); }
}

extern "C" { void vp_emit(unsigned long v); unsigned vp_st_bag(); void vp_st_push(void*); void* vp_st_take(unsigned newest); void vp_st_reset(unsigned avail, unsigned accmask, unsigned flipmask); void vp_st_arena(unsigned); }
static void st_run(unsigned newest) {
  if (!vp_st_bag()) return;
  d1::task* t = static_cast<d1::task*>(vp_st_take(newest));
  void* b = vp_run_task(t, 0);
  if (b) vp_st_push(b);
}
static void st_state() { vp_emit(vp_size()); vp_emit(vp_graph_refs()); vp_emit(vp_nsucc()); vp_emit(vp_fwd_busy()); vp_emit(vp_reserved()); vp_emit(vp_st_bag()); }
extern "C" void vp_selftest() {
  for (unsigned flip = 0; flip < 4; flip++) {
    vp_st_reset(0, 0x1a4, flip); vp_init(2); vp_refv_init(0);
    st_run(0); st_state();
    for (int i = 0; i < 3; i++) { vp_emit(vp_put(10 + i)); st_state(); st_run(0); st_state(); }
    int v = 0; vp_emit(vp_get(&v)); vp_emit(v); st_state();
    vp_emit(vp_reserve(&v)); vp_emit(v); st_state(); if (vp_reserved()) { vp_release(); st_state(); }
    vp_add_succ(0); st_state(); st_run(1); st_state(); vp_emit(vp_put(20)); st_run(0); st_state();
    vp_emit(vp_reserve(&v)); if (vp_reserved()) { vp_consume(); st_state(); }
    vp_remove_succ(1); st_state(); vp_emit(vp_put(21));
    for (int i = 0; i < 6; i++) st_run(0);
    st_state();
    for (int i = 0; i < 5; i++) { v = 0; vp_emit(vp_get(&v)); vp_emit(v); }
  }
}

PROPERTY = 'C16'
# -mrtm -mwaitpkg: the flags the real build passes (cmake/compilers/GNU.cmake); needed for _tpause in scheduler_common.h
CXX = ['-D__TBB_BUILD', '-mrtm', '-mwaitpkg']
# functions of arena.cpp that contain inline asm (FPU control word capture) and are not part of any encoded path
CUT_ARENA = ['arena7processERNS1_11thread_dataE', 'r17executeERNS0_2d115task_arena_baseE', 'task_arena_impl7executeE']
# cbmc keeps heap objects field-sensitive only up to 64 bytes by default; larger objects (market, proxy) would turn every
# vptr load into an unresolved byte_extract and every virtual call into a case split over all address-taken functions
FS = ['--max-field-sensitivity-array-size', '4096']
UNITS = {
  'mkt': dict(wrapper='w_market.cpp', mode='seq', cxxflags=CXX, cut=CUT_ARENA, selftest=True),
}
def thr(n): return {'vp_thr_visit': ['a', 'b', 'c'][:n]}
# free_arena / out_of_work: reachable from on_thread_leaving only for the last reference / an external reference; the model
# threads never drop the last reference (the harness stub of free_arena asserts that)
CUT_SLOTS = CUT_ARENA + ['arena10free_arenaEv', 'arena11out_of_workEv']
UNITS['slots2'] = dict(wrapper='w_slots.cpp', mode='lcs', unroll=3, cxxflags=CXX, cut=CUT_SLOTS, threads=thr(2))
UNITS['slots3'] = dict(wrapper='w_slots.cpp', mode='lcs', unroll=3, cxxflags=CXX, cut=CUT_SLOTS, threads=thr(3))
# virtual functions that are never called by the encoded paths but are address-taken: when a virtual call goes through a
# symbolic object pointer (which proxy was popped) cbmc explores every candidate; these heavy ones are made bodiless
CUT_VIRT = ['14delegated_task', '10sleep_nodeImE', '9wait_nodeImE', '21numa_binding_observer', '23task_scheduler_observer']
UNITS['iso'] = dict(wrapper='w_iso.cpp', mode='seq', cxxflags=CXX, cut=CUT_ARENA + ['advertise_new_work'] + CUT_VIRT, selftest=True)
HARNESSES = [
  dict(name='serializer_hist', unit='mkt', harness='h_serializer.c', defines={'MODE': 0},
       scenarios=[{'PART': 0}, {'PART': 1, 'NOPS': 3}], scenarios_thorough=[{'PART': 0}, {'PART': 1, 'NOPS': 5}],
       cbmc=['--unwind', '8'] + FS, timeout=600,
       desc='limit_delta lemma (full width) and NOPS symbolic operations (update/set limit/mandatory +-1) on a fresh thread_request_serializer_proxy: threads requested == min(total demand, effective limit)',
       bounds={'ops': '3 quick / 5 thorough, kind symbolic', 'soft limit': '0..INT_MAX', 'delta per update': 'any int keeping the total in 0..INT_MAX'}),
  dict(name='serializer_step', unit='mkt', harness='h_serializer.c', defines={'MODE': 1},
       scenarios=[{'OP': o} for o in range(4)], cbmc=['--unwind', '8'] + FS, timeout=600,
       desc='one operation from an arbitrary proxy state satisfying the invariant (total, limit, mandatory count: any non-negative int): invariant preserved, threads requested == min(total demand, effective limit)',
       bounds={'state': 'T, L, M in 0..INT_MAX', 'delta per update': 'any int keeping the total in 0..INT_MAX'}),
  dict(name='allot_step', unit='mkt', harness='h_allot.c', defines={'NC': 3, 'VMAX': 7, 'LMAX': 1 << 20, 'MODE': 1},
       scenarios=[{'P0': 0, 'P1': 0, 'P2': 1, 'FOP': 0}, {'P0': 0, 'P1': 1, 'P2': 0, 'FOP': 1, 'FCL': 1}], cbmc=['--unwind', '10'] + FS, timeout=900,
       desc='market::update_allotment through threading_control_impl::adjust_demand/set_active_num_workers', bounds={}),
]
HARNESSES += [
  dict(name='isolation', unit='iso', harness='h_iso.c', defines={'N': 3},
       scenarios=[{'SRC': k, 'H': 1, 'PRES': m} for k in (0, 1) for m in (7, 5, 6, 3)] + [{'SRC': 2}] + [{'SRC': 3, 'PH': ph, 'GH': gh} for ph in (0, 1) for gh in (0, 1)],
       cbmc=['--unwind', '12', '--object-bits', '10'] + FS, timeout=300,
       desc='isolation filtering', bounds={}),
  dict(name='slots_2t', unit='slots2', harness='h_slots.c', defines={'NT': 2, 'NSLOTS': 3, 'NRES': 1, 'ROUNDS': 2},
       scenarios=[{'ROLE0': 1, 'ROLE1': 0, 'NV0': 1, 'NV1': 1}], cbmc=['--unwind', '8', '--object-bits', '12'], timeout=600,
       desc='2 threads entering/leaving one arena', bounds={}),
  dict(name='slots_3t', unit='slots3', harness='h_slots.c', defines={'NT': 3, 'NSLOTS': 3, 'NRES': 1, 'ROUNDS': 1},
       scenarios=[{'ROLE0': 1, 'ROLE1': 1, 'ROLE2': 0, 'NV0': 1, 'NV1': 1, 'NV2': 1}], cbmc=['--unwind', '8', '--object-bits', '12'], timeout=1800,
       desc='3 threads entering/leaving one arena', bounds={}),
]
OUTSIDE = []
STUBS = []
ASSUMPTIONS = []

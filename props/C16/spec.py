PROPERTY = 'C16'
import itertools
# -mrtm -mwaitpkg: the flags the real build passes (cmake/compilers/GNU.cmake); needed for _tpause in scheduler_common.h
CXX = ['-D__TBB_BUILD', '-mrtm', '-mwaitpkg']
# functions of arena.cpp that contain inline asm (FPU control word capture) and are not part of any encoded path
CUT_ARENA = ['arena7processERNS1_11thread_dataE', 'r17executeERNS0_2d115task_arena_baseE', 'task_arena_impl7executeE']
# cbmc keeps heap objects field-sensitive only up to 64 bytes by default; larger objects (market, proxy) would turn every
# vptr load into an unresolved byte_extract and every virtual call into a case split over all address-taken functions
FS = ['--max-field-sensitivity-array-size', '4096']
# free_arena / out_of_work: reachable from on_thread_leaving only for the last reference / an external reference; the model
# threads never drop the last reference (the harness stubs assert that)
CUT_SLOTS = CUT_ARENA + ['arena10free_arenaEv', 'arena11out_of_workEv']
# virtual functions that are never called by the encoded paths but are address-taken: when a virtual call goes through a
# symbolic object pointer cbmc explores every candidate; these heavy ones are made bodiless
CUT_VIRT = ['14delegated_task', '10sleep_nodeImE', '9wait_nodeImE', '21numa_binding_observer', '23task_scheduler_observer']
def thr(n): return {'vp_thr_visit': ['a', 'b', 'c'][:n]}
UNITS = {
  'mkt': dict(wrapper='w_market.cpp', mode='seq', cxxflags=CXX, cut=CUT_ARENA, selftest=True),
  'slots2': dict(wrapper='w_slots.cpp', mode='lcs', unroll=3, cxxflags=CXX, cut=CUT_SLOTS, threads=thr(2)),
  'slots3': dict(wrapper='w_slots.cpp', mode='lcs', unroll=3, cxxflags=CXX, cut=CUT_SLOTS, threads=thr(3)),
  'execseq': dict(wrapper='w_exec.cpp', mode='seq', cxxflags=CXX, cut=CUT_SLOTS + CUT_VIRT + ['notify_one_relaxed']),
  'iso': dict(wrapper='w_iso.cpp', mode='seq', cxxflags=CXX, cut=CUT_ARENA + ['advertise_new_work'] + CUT_VIRT, selftest=True),
}

# ---- allot scenarios: priority level of the three clients (registration order matters: update_allotment serves the last
# registered client first) x final operation (FOP 0 = new soft limit, FOP 1 = adjust_demand on client FCL)
def allot(p, fop, fcl=None):
    d = {'P0': p[0], 'P1': p[1], 'P2': p[2], 'FOP': fop}
    if fop == 1: d['FCL'] = fcl
    return d
TWO_LEVEL = [(0, 0, 0), (0, 0, 1), (0, 1, 0), (1, 0, 0), (0, 1, 1), (1, 0, 1), (1, 1, 0)]
THREE_LEVEL = list(itertools.permutations((0, 1, 2)))
ALLOT_QUICK = [allot(p, 0) for p in [(0, 0, 0), (0, 0, 1), (0, 1, 0), (1, 0, 0), (0, 1, 1)]] + \
              [allot((0, 0, 1), 1, 0), allot((0, 1, 0), 1, 1), allot((1, 1, 0), 1, 2)]
ALLOT_ALL = [allot(p, 0) for p in TWO_LEVEL + THREE_LEVEL] + [allot(p, 1, c) for p in TWO_LEVEL + THREE_LEVEL for c in (0, 1, 2)]

# ---- slot scenarios: role per thread (1 worker, 0 external), visits per thread
def slots(roles, visits):
    d = {}
    for i, (r, v) in enumerate(zip(roles, visits)): d['ROLE%d' % i] = r; d['NV%d' % i] = v
    return d
SL2_QUICK = [slots(r, (1, 1)) for r in [(1, 0), (1, 1), (0, 0)]]
SL2_THOROUGH = SL2_QUICK + [slots(r, (2, 1)) for r in [(1, 0), (1, 1), (0, 0)]]
SL2_REVISIT = [slots(r, (2, 2)) for r in [(1, 0), (1, 1), (0, 0)]]
SL3 = [slots(r, (1, 1, 1)) for r in [(1, 1, 0), (1, 0, 0), (1, 1, 1), (0, 0, 0)]]

# ---- isolation scenarios: SRC 0 own pool / 1 victim pool: head position H, hole pattern PRES
ISO_QUICK = [{'SRC': k, 'H': 1, 'PRES': m} for k in (0, 1) for m in range(1, 8)]
ISO_THOROUGH = [{'SRC': k, 'H': h, 'PRES': m} for k in (0, 1) for h in (0, 1, 5) for m in range(1, 8)]

# ---- execute enter/leave: PRE (foreign-occupied slots), CK1 = boundary of T0 at which T1 enters, CK2 = first boundary at which T1 leaves
EXEC_ALL = [{'CPRE': p, 'CK1': a, 'CK2': b} for p in (0, 1, 2) for a in range(12) for b in range(a, 12)]
EXEC_QUICK = [{'CPRE': p, 'CK1': a, 'CK2': b} for p in (1, 2) for a in (0, 1, 3, 4, 5, 6, 7, 8, 10) for b in (a, 11)] + \
             [{'CPRE': 0, 'CK1': a, 'CK2': b} for a in (0, 3, 5, 7) for b in (a, 11)]
SER_BOUNDS = {'soft limit': '0..INT_MAX', 'total request': '0..INT_MAX', 'delta per update': 'any int keeping the total in 0..INT_MAX',
              'mandatory requests': 'any non-negative int', 'threads': 'sequential (the aggregating path of update(); concurrent aggregation is outside)'}
# ---- iso_dispatch (added by the C03 builder on the coordinator's request): the dispatcher's own isolation bookkeeping on the one-thread
# dispatcher world of props/C03 (w_world.h, h_stubs.h); path-wise symbolic execution as in C03
UNITS['isod'] = dict(wrapper='w_isod.cpp', mode='seq', cxxflags=CXX, exceptions=True, prune=True, inline_threshold=225,
                     devirt=['ITask', 'IsoDelegate', 'reference_vertex', 'wait_context_vertex'], m1ptr=True, ptratomics=True,
                     cut=['receive_or_steal_task', 'r15arena17get_critical_taskERj'])
HARNESSES = [
  dict(name='serializer_hist', unit='mkt', harness='h_serializer.c', defines={'MODE': 0},
       scenarios=[{'PART': 0}, {'PART': 1, 'NOPS': 3}], scenarios_thorough=[{'PART': 0}, {'PART': 1, 'NOPS': 5}],
       cbmc=['--unwind', '8', '--object-bits', '10'] + FS, timeout=1200,
       desc='limit_delta lemma (every int) and NOPS symbolic operations (update / set_active_num_workers / mandatory request +-1, kind symbolic) on a freshly constructed thread_request_serializer_proxy: threads requested from the dispatcher == min(total demand, effective soft limit); mandatory-concurrency flag == (limit 0 and enqueued work)',
       bounds=dict(SER_BOUNDS, ops='3 quick / 5 thorough')),
  dict(name='serializer_step', unit='mkt', harness='h_serializer.c', defines={'MODE': 1},
       scenarios=[{'OP': o} for o in range(4)], cbmc=['--unwind', '8', '--object-bits', '10'] + FS, timeout=1200,
       desc='one operation (OP 0 update, 1 set limit, 2/3 mandatory +-1) from an ARBITRARY proxy state satisfying the invariant (established by the constructor, preserved by every operation): same oracle, full int range',
       bounds=SER_BOUNDS),
  dict(name='allot_step', unit='mkt', harness='h_allot.c', defines={'NC': 3, 'VMAX': 7, 'LMAX': 1 << 20, 'MODE': 1},
       scenarios=ALLOT_QUICK, scenarios_thorough=ALLOT_ALL, cbmc=['--unwind', '10'] + FS, timeout=1800,
       desc='one real operation (threading_control_impl::set_active_num_workers or adjust_demand -> serializer proxy + market::adjust_demand -> arena::update_request -> market::update_allotment) from an arbitrary reachable market state of 3 arenas: sum of allotments == min(total demand, soft limit) (+ the single mandatory worker at limit 0), each <= its demand, higher priority saturated first, proportional split inside a level, top-priority flag, clamping of the arena request, threads requested from RML == workers granted',
       bounds={'arenas': 3, 'priority levels': '<= 2 quick, <= 3 thorough (concrete per query)', 'max workers per arena': '0..7 (symbolic)', 'soft limit': '0..2^20 (symbolic)',
               'pre-state': 'any per-arena request in -2..8 / mandatory flag, stale allotments arbitrary', 'queries': 'priority pattern x final operation'}),
  dict(name='allot_step15', unit='mkt', harness='h_allot.c', defines={'NC': 3, 'VMAX': 15, 'LMAX': 1 << 20, 'MODE': 1}, tiers=['thorough'],
       scenarios=[allot((0, 0, 0), 0), allot((0, 0, 1), 0), allot((0, 1, 1), 1, 1)], cbmc=['--unwind', '10'] + FS, timeout=3600,
       desc='allot_step with demands up to 15 per arena', bounds={'arenas': 3, 'max workers per arena': '0..15', 'soft limit': '0..2^20'}),
  dict(name='allot_hist', unit='mkt', harness='h_allot.c', defines={'NC': 3, 'VMAX': 7, 'LMAX': 1 << 20, 'MODE': 0}, tiers=['thorough'],
       scenarios=[allot((0, 0, 1), 0), allot((0, 1, 0), 1, 1), allot((0, 1, 2), 0)], cbmc=['--unwind', '10'] + FS, timeout=3600,
       desc='same oracle after every step of a history from the freshly constructed market: one adjust_demand per arena, then the final operation (4 real update_allotment runs; shows the pre-states of allot_step are reachable and consistent)',
       bounds={'arenas': 3, 'history': '3 adjust_demand + 1 final operation', 'max workers per arena': '0..7'}),
  dict(name='isolation', unit='iso', harness='h_iso.c', defines={'N': 3},
       scenarios=ISO_QUICK, scenarios_thorough=ISO_THOROUGH,
       # kissat: the UNSAT side of these queries (64-bit tag equalities) takes MiniSat > 20 min, kissat ~1 s
       cbmc=['--unwind', '12', '--object-bits', '10', '--external-sat-solver', 'kissat'], timeout=900,
       desc='arena_slot::get_task (own pool) / steal_task (victim pool) on a pool of 3 entries with symbolic 64-bit isolation tags and a symbolic waiter tag: the returned task carries the waiter tag (or the waiter is not isolated), it is the newest (owner) / oldest (thief) eligible one, every skipped task stays in the pool in order, skipped work is re-advertised',
       bounds={'pool entries': 3, 'tags / waiter tag': 'any 64-bit word (symbolic)', 'head position, hole pattern': 'concrete per query', 'proxies in the pool': 'none', 'threads': 'sequential'}),
  dict(name='slots_2t', unit='slots2', harness='h_slots.c', defines={'NT': 2, 'NSLOTS': 3, 'NRES': 1, 'ROUNDS': 1},
       scenarios=SL2_QUICK, scenarios_thorough=SL2_THOROUGH, cbmc=['--unwind', '8', '--object-bits', '12'], timeout=1200,
       thorough_override={'defines': {'NT': 2, 'NSLOTS': 3, 'NRES': 1, 'ROUNDS': 2}, 'timeout': 3600},
       desc='2 threads (worker: try_join + occupy_free_slot<true> + on_thread_leaving; external: occupy_free_slot<false>) entering and leaving a 3-slot arena with 1 reserved slot under every interleaving: slot indices distinct and < num_slots, workers never in the reserved slot, my_limit covers every occupied slot, truthful failure, reference word restored',
       bounds={'threads': 2, 'slots': 3, 'reserved': 1, 'free_rounds': '1 quick / 2 thorough', 'forced_rounds': 2, 'loop unroll': 3, 'visits per thread': '1 quick; thorough also (2,1)',
               'symbolic': 'schedule, slot hints, RNG state, allotment, foreign-occupied slots'}),
  dict(name='exec_leave', unit='execseq', harness='h_exec_seq.c', defines={'NSLOTS': 2, 'NRES': 1, 'NPOINTS': 16},
       scenarios=EXEC_QUICK, scenarios_thorough=EXEC_ALL, cbmc=['--unwind', '8', '--object-bits', '10'], timeout=600,
       desc='enter/leave path of task_arena::execute (occupy_free_slot<false>, nested_arena_context constructor and destructor) with the scheduler-observer callbacks as harness stubs; thread T1 runs its complete enter at boundary call CK1 of thread T0 and its complete leave at the first boundary >= CK2 (one query per placement): between on_scheduler_entry and the return of on_scheduler_exit no two threads hold the same index, the slot is still marked occupied and owned by the caller when on_scheduler_exit runs, at most max_concurrency threads inside, one exit per entry on the same thread with the same index, waiters woken only after release, thread restored to its home arena, demand deltas cancel',
       bounds={'threads': 2, 'slots': 2, 'reserved': 1, 'foreign-occupied slots PRE': '0, 1, 2 (1 and 2 = only one free slot), concrete per query',
               'interleaving': 'T1 enter / leave atomic, placed at the 11 boundary calls of T0 (before/after each observer callback body, adjust_demand, notify_one, wrapper observer points); concrete per query: quick 44 placements, thorough all 78 x 3',
               'symbolic': 'RNG state of both threads only - placements are enumerated, the solver decides little here (cbmc executes the real code per placement)'}),
  dict(name='slots_3t', unit='slots3', harness='h_slots.c', defines={'NT': 3, 'NSLOTS': 3, 'NRES': 1, 'ROUNDS': 1},
       scenarios=SL3[:1], scenarios_thorough=SL3, cbmc=['--unwind', '8', '--object-bits', '12'], timeout=1200,
       thorough_override={'timeout': 3600},
       desc='3 threads entering and leaving a 3-slot arena (1 reserved): same oracle as slots_2t',
       bounds={'threads': 3, 'slots': 3, 'reserved': 1, 'free_rounds': 1, 'forced_rounds': 2, 'loop unroll': 3, 'role combinations': '1 quick / 4 thorough'}),
  dict(name='slots_2t_revisit', unit='slots2', harness='h_slots.c', defines={'NT': 2, 'NSLOTS': 3, 'NRES': 1, 'ROUNDS': 1}, tiers=['thorough'],
       scenarios=SL2_REVISIT, cbmc=['--unwind', '8', '--object-bits', '12'], timeout=3600,
       desc='2 threads, each visiting the arena twice (second search starts from the slot hint left by the first visit)',
       bounds={'threads': 2, 'slots': 3, 'reserved': 1, 'visits per thread': 2, 'free_rounds': 1, 'forced_rounds': 2}),
  dict(name='slots_2res', unit='slots2', harness='h_slots.c', defines={'NT': 2, 'NSLOTS': 3, 'NRES': 2, 'ROUNDS': 2}, tiers=['thorough'],
       scenarios=SL2_QUICK + [slots((1, 0), (2, 1))], cbmc=['--unwind', '8', '--object-bits', '12'], timeout=3600,
       desc='2 threads, 3-slot arena with 2 reserved slots (one worker slot)', bounds={'threads': 2, 'slots': 3, 'reserved': 2, 'free_rounds': 2, 'forced_rounds': 2}),
  dict(name='slots_mand', unit='slots2', harness='h_slots.c', defines={'NT': 2, 'NSLOTS': 1, 'NRES': 1, 'ROUNDS': 2}, tiers=['thorough'],
       scenarios=SL2_QUICK, cbmc=['--unwind', '8', '--object-bits', '12'], timeout=3600,
       desc='one-thread arena task_arena(1, 1): 2 slots, the second one only for the mandatory (enqueue) worker: same oracle (at most max_concurrency + 1 threads, worker never in slot 0)',
       bounds={'threads': 2, 'slots': '1 reserved + 1 mandatory-worker slot', 'free_rounds': 2, 'forced_rounds': 2}),
]
HARNESSES += [
  dict(name='iso_dispatch', unit='isod', harness='h_isod.c', defines={'MODE': 0}, scenarios=[{'VTAG': '0x5151', 'QTAG': '0x7272'}, {'VTAG': '0x5151', 'QTAG': '0'}, {'VTAG': '0x8000000000000001', 'QTAG': '0x8000000000000001'}],
       cbmc=['--unwind', '12', '--object-bits', '12', '--paths', 'lifo'], timeout=600, native_cflags=['-fno-sanitize=null'],
       desc='isolation bookkeeping of the real dispatcher (task_dispatcher::local_wait_for_all, get_critical_task, r1::spawn, dispatch_loop_guard, real isolate_within_arena) in a one-thread world: '
            'a non-isolated waiter runs task A carrying tag X (as a stolen/mailed task), then a critical task C (tag Z, possibly 0) handed out in the bypass position (the bypass task P is re-spawned), '
            'then the pool tasks; task B (tag Y) opens isolate_within_arena(V) and waits inside for F while a foreign task H (tag Q) sits on top of the pool. Oracle: every executed task has '
            'ed.isolation == its own tag == the tag of the scope that spawned it, every spawned child carries its parent\'s tag (untagged critical task => untagged child), the isolated nested waiter '
            'executes only tasks tagged V, ed.isolation is restored after the nested level and after isolate returns, every task runs exactly once. Symbolic: the 64-bit tags X, Y, Z and which bodies spawn; concrete per query: the scope tag V and the foreign tag Q (different / untagged / equal)',
       bounds={'tasks': 10, 'threads': 1, 'tags': 'X, Y, Z any 64-bit words; V, Q concrete per query', 'spawning bodies': 'every subset of {P, C, F, B}', 'critical stream': 'cut to its pop/pop_specific contract'}),
]
MANIFEST = dict(
  level_text='Bounded symbolic execution / bounded model checking of the real arena and worker-budget code. (1) Worker budget: one real operation (threading_control_impl::adjust_demand or set_active_num_workers through the thread_request_serializer proxy, market::adjust_demand, arena::update_request and market::update_allotment) from an arbitrary reachable market state of 3 arenas over <=3 priority levels with symbolic demands <=7 (15 thorough) and any soft limit: allotments sum to min(total demand, limit) (exactly one mandatory worker at limit 0, to an arena with enqueued work), none exceeds its demand, higher priority is saturated first, split is proportional, and the number of threads requested from RML equals min(total, effective limit) for every int-valued total/limit/delta (inductive step over the serializer invariant). (2) Slots: for 2-3 threads entering and leaving one arena (workers via try_join/occupy_free_slot<true>/on_thread_leaving, externals via occupy_free_slot<false>) every interleaving within the round bound: slot indices pairwise distinct and below num_slots, workers never in reserved slots, my_limit covers occupied slots, reference word restored. (3) execute path: real occupy_free_slot<false> + nested_arena_context constructor/destructor with the observer callbacks as stubs, a second thread entering/leaving at every boundary call (enumerated placements): no two threads between on_scheduler_entry and on_scheduler_exit share an index, the slot is still owned when on_scheduler_exit runs, one exit per entry. (4) Isolation: arena_slot::get_task and steal_task on pools of 3 entries with symbolic 64-bit isolation tags only return tasks of the waiter\'s isolation scope and leave every skipped task in place.',
  level_note='Bounds per harness in evidence. Callers that contain the dispatch loop (arena::process, task_arena_impl::execute) are cut: thread bodies replay their call sequence around the slot window; arenas are white-box storage with the constructor\'s scalar fields (real allocate_arena too heavy). Outside the claim: isolation filtering of the affinity mailbox and the critical task stream (queries did not come under control), the dispatch loop, global_control, observer pairing outside the execute path, the end-to-end L-1 worker count, concurrent aggregation in thread_request_serializer::update, more than 3 arenas/threads/slots, non-SC memory. Trusted: clang-14 IR, tools/ir2c.py (selftest differential on the sequential units), cbmc.',
)
OUTSIDE = [
  'isolation filtering of the affinity mailbox (mail_outbox::internal_pop / get_mailbox_task) and of the critical task stream (task_stream::pop_specific): harness code exists (h_iso.c SRC 2/3) but the queries did not come under control (atomic pointers pass through integer casts in the IR; no verdict in 250 s even for 1-2 entries)',
  'the dispatch loop itself (local_wait_for_all / receive_or_steal_task): that a waiter passes its own isolation tag to these functions is read from the source, not checked',
  'global_control (std::set of controls lives in libstdc++), the end-to-end "at most L-1 workers execute user work" statement (needs RML + dispatcher)',
  'observer entry/exit pairing is checked only on the task_arena::execute path (nested_arena_context) with another thread preempting at boundary calls; the worker path (arena::process), the delegated-task path of a saturated arena and observer_proxy.cpp itself (do_notify_* walking the observer list) are outside; finer-than-boundary interleavings of the execute path did not come under control in thread mode (477 k SSA steps, out of memory)',
  'concurrent aggregation in thread_request_serializer::update (several threads adding to the packed pending counter at once): sequential path only; the packed 32-bit delta field holds any single int, sums of simultaneously pending deltas must stay inside it',
  'market with more than 3 arenas or demands above 15; tcm_adaptor (TCM permit manager)',
  'more than 3 threads / 3 slots in the slot harness; 3 threads with more than 1 free round, two visits per thread with 2 free rounds (1.4-1.6 M variables, 30-60 min each on the shared machine, one run killed) ; non-TSO weak memory',
]
STUBS = [
  'thread_dispatcher::adjust_job_count_estimate(delta): ghost counter J (what RML is asked for)',
  'r1::cache_aligned_allocate / allocate_memory: fresh storage, never NULL',
  'notify_by_address_one/all (mutex wake-ups): no-op (sequential) ',
  'tcm_adaptor::is_initialized: false (market is the permit manager)',
  'threading_control::prepare_client_destruction / try_destroy_client (slots): never asked to destroy (asserted)',
  'arena::advertise_new_work<wakeup> (isolation): cut, calls counted',
  'observer_list::do_notify_entry_observers / do_notify_exit_observers (exec_leave): the user callbacks; contract: entry sets `last` to the tail proxy',
  'concurrent_monitor::notify_one_relaxed on my_exit_monitors (exec_leave): cut, nobody waits; threading_control::adjust_demand: records the delta',
  'arena::process, task_arena_impl::execute (FPU inline asm, dispatch loop): cut; the thread bodies of w_slots.cpp replay their call sequence around the slot window',
]
ASSUMPTIONS = [
  'arena objects of the market harness are zeroed storage carrying the scalar fields the constructor stores (no slots / dispatchers); the slot harness uses the real storage layout with scalar fields set white-box (the real allocate_arena is too heavy for the thread encoding)',
  'per arena the mandatory request count is 0/1 (arena::my_mandatory_concurrency flag) and the accumulated worker request stays within -2..max_workers+1',
  'one-step market harness: proxy state characterised by the invariant proven inductive in serializer_step; stale allotments arbitrary',
  'task_stream / slot hints are below the number of lanes (init_task_streams(slot index) and masking lane selectors)',
  'try/catch/throw in task_dispatcher.h neutralised by macros (units are built with -fno-exceptions; no encoded function contains a try block)',
]
# ---- iso_dispatch additions
STUBS += ['iso_dispatch: arena::get_critical_task cut to the pop/pop_specific contract (hands out the prepared critical task once, to a non-isolated caller or one with the same tag); '
          'receive_or_steal_task cut (= would-spin-forever assertion); threading_control::adjust_demand no-op; the remaining world stubs are those of props/C03/h_stubs.h']
OUTSIDE += ['iso_dispatch: the ed.isolation assignments in receive_or_steal_task / steal_or_get_critical (need a second thread or a mailbox), isolate(d, 0) with the address-derived tag, '
            'the critical task_stream itself, more than one thread']

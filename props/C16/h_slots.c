/* C16 / slots: threads entering and leaving one arena concurrently (thread mode, every interleaving with <= ROUNDS slices
 * per thread + 2 forced rounds). Arena: white-box storage with the real layout (see w_slots.cpp), NSLOTS slots, NRES reserved.
 * Thread t performs NVt visits in role ROLEt (0 = external thread via occupy_free_slot<false>, 1 = worker via try_join +
 * occupy_free_slot<true> + on_thread_leaving). Symbolic: schedule, slot hint (thread_data::my_arena_index) and RNG state of
 * every thread, worker allotment, set of slots already occupied by threads outside the model (PRE).
 * Oracle:
 *   inside window: index < num_slots; a worker never sits in a reserved slot; no two threads inside hold the same index;
 *     the slot is marked occupied; my_limit > index; active-worker count >= number of model workers inside;
 *   a thread that ran undisturbed (whole search inside one slice) fails to find a slot only if no eligible slot was free;
 *   a worker is refused by try_join in an undisturbed slice only if active workers >= allotment;
 *   after everybody left: reference word back to its initial value, every slot free again (except PRE), my_limit <= slots. */
#include "w.h"
#include "vp.h"
typedef struct S_class_tbb__detail__r1__arena arena_t;
typedef struct S_class_tbb__detail__r1__thread_data td_t;
typedef struct S_class_tbb__detail__r1__threading_control tc_t;
#include "c16_stubs.h"
#include "c16_tc_stubs.h"

#define CAT_(a, b) a##b
#define THR(s) CAT_(vp_thr_visit_, s)
/* arena storage as one typed, zero-initialised object with the real layout: mailboxes | arena_base + slot 0 | other slots */
#define NSL (NSLOTS < 2 ? 2 : NSLOTS)
static struct { struct S_class_tbb__detail__r1__mail_outbox mb[NSL]; arena_t a; struct S_class_tbb__detail__r1__arena_slot more[NSL - 1]; } AMEM __attribute__((aligned(128)));
static arena_t* A;
static td_t TDS[3] __attribute__((aligned(128)));
static unsigned NS, NR, ALLOT, PRE;
static unsigned epoch; static int forced;
static int in[3], widx[3], isw[3];
static unsigned begin_epoch[3], visit_epoch[3]; static int free_at_begin[3], joinable_at_begin[3];
static unsigned max_seen;
static const int ROLE[3] = { ROLE0, ROLE1,
#if NT > 2
  ROLE2
#else
  0
#endif
};

void vp_visit_begin(u32 tid) { visit_epoch[tid] = epoch; joinable_at_begin[tid] = vp_arena_workers_active(A) < ALLOT; }
void vp_refused(u32 tid) {
  if (!forced && visit_epoch[tid] == epoch) VP_ASSERT(!joinable_at_begin[tid], "try_join refused a worker although active workers < allotment and nobody interfered");
}
void vp_scan_begin(u32 tid, u32 worker) {
  begin_epoch[tid] = epoch; free_at_begin[tid] = 0;
  for (unsigned i = worker ? NR : 0; i < NS; i++) if (!vp_slot_occupied(A, i)) free_at_begin[tid] = 1;
}
void vp_noslot(u32 tid, u32 worker) {
  if (!forced && begin_epoch[tid] == epoch) VP_ASSERT(!free_at_begin[tid], "no slot found although an eligible slot was free and nobody interfered");
}
void vp_inside(u32 tid, u64 idx, u32 worker) {
  VP_ASSERT(idx < NS, "slot index out of range (current_thread_index >= max_concurrency)");
  VP_ASSERT(!(worker && idx < NR), "worker thread occupies a reserved slot");
  VP_ASSERT(!((PRE >> idx) & 1), "slot already owned by a thread outside the model was handed out again");
  for (int t = 0; t < NT; t++) if (t != (int)tid && in[t]) VP_ASSERT(widx[t] != (int)idx, "two threads inside the arena hold the same slot index");
  VP_ASSERT(vp_slot_occupied(A, (u32)idx), "slot handed out but not marked occupied");
  VP_ASSERT(vp_arena_limit(A) > idx, "my_limit does not cover an occupied slot");
  in[tid] = 1; widx[tid] = (int)idx; isw[tid] = (int)worker;
  if (idx + 1 > max_seen) max_seen = (unsigned)idx + 1;
  unsigned nw = 0; for (int t = 0; t < NT; t++) if (in[t] && isw[t]) nw++;
  VP_ASSERT(vp_arena_workers_active(A) >= nw, "active-worker count below the number of workers inside");
}
void vp_outside(u32 tid, u64 idx, u32 worker) {
  VP_ASSERT(in[tid] && widx[tid] == (int)idx, "harness: leave without enter");
  VP_ASSERT(vp_slot_occupied(A, (u32)idx), "slot lost its occupied mark while its owner was still inside");
  in[tid] = 0;
}

/* slot hint (thread_data::my_arena_index left over from an earlier visit): symbolic unless the scenario fixes it */
#ifdef HINTS
static const u16 hints_[3] = { HINTS };
#define HINT(t) hints_[t]
#else
#define HINT(t) ((u16)vp_nd_range(0, NSLOTS + 1))
#endif
int main(void) {
  static u8 tc_dummy[64];
  VP_ASSERT(vp_sizeof_arena() == sizeof(arena_t) && vp_sizeof_slot() == sizeof(AMEM.more[0]) && vp_sizeof_outbox() == sizeof(AMEM.mb[0]) && vp_sizeof_td() == sizeof(td_t) && sizeof(AMEM) == NSL * vp_sizeof_outbox() + vp_sizeof_arena() + (NSL - 1) * vp_sizeof_slot(), "generated struct layout differs from the C++ one");
  A = vp_arena_make((u8*)&AMEM, (tc_t*)tc_dummy, NSLOTS, NRES);
  NS = vp_arena_num_slots(A); NR = vp_arena_reserved(A);
  VP_ASSERT(NS == (NSLOTS < 2 ? 2 : NSLOTS) && NR == NRES, "arena geometry");
  ALLOT = (unsigned)vp_nd_range(0, NT);
  vp_arena_set_allotment(A, ALLOT);
#ifdef PREV
  PRE = PREV;
#else
  PRE = (unsigned)vp_nd_range(0, (1u << NSLOTS) - 1);
#endif
  for (unsigned i = 0; i < NS; i++) if ((PRE >> i) & 1) vp_slot_force(A, i, 1);
  unsigned refs0 = vp_arena_refs(A);
  td_t* td0 = vp_td_make((u8*)&TDS[0], HINT(0), ROLE0, (u32)vp_nd(), (u32)vp_nd());
  td_t* td1 = vp_td_make((u8*)&TDS[1], HINT(1), ROLE1, (u32)vp_nd(), (u32)vp_nd());
  THR(a_start)(A, td0, 0, ROLE0, NV0); THR(b_start)(A, td1, 1, ROLE1, NV1);
#if NT > 2
  td_t* td2 = vp_td_make((u8*)&TDS[2], HINT(2), ROLE2, (u32)vp_nd(), (u32)vp_nd());
  THR(c_start)(A, td2, 2, ROLE2, NV2);
#endif
  for (int r = 0; r < ROUNDS; r++) {
    epoch++; VP_RUNT(THR(a), 0) epoch++; VP_RUNT(THR(b), 1)
#if NT > 2
    epoch++; VP_RUNT(THR(c), 2)
#endif
  }
  epoch++; forced = 1;   /* "undisturbed" claims are only made for free slices */
#if NT > 2
  VP_QUIESCE3(THR(a), THR(b), THR(c))
#else
  VP_QUIESCE2(THR(a), THR(b))
#endif
  VP_ASSERT(!vp_deadlock, "threads stuck although nothing blocks in slot acquisition");
  __CPROVER_assume(!vp_unfinished);
  VP_ASSERT(vp_arena_refs(A) == refs0, "arena reference word not restored after every thread left (worker count leaked)");
  for (unsigned i = 0; i < NS; i++) VP_ASSERT(vp_slot_occupied(A, i) == (int)((PRE >> i) & 1), "slot still occupied after its owner left / foreign slot freed");
  VP_ASSERT(vp_arena_limit(A) <= NS && vp_arena_limit(A) >= max_seen && vp_arena_limit(A) >= 1, "my_limit outside [highest occupied index + 1, num_slots]");
  VP_REACHED();
  return 0;
}

// C16 iso_dispatch: the isolation bookkeeping of the REAL dispatcher on the one-thread world of props/C03/w_world.h:
// task_dispatcher::local_wait_for_all (ed.isolation follows the task taken from the pool, dispatch_loop_guard restores the outer
// execution data), task_dispatcher::get_critical_task (ed.isolation follows a critical task that replaces the bypass task, the bypass
// task is re-spawned), r1::spawn (tags the spawned task with the current ed.isolation), arena_slot::get_task (tag filter) and the real
// r1::isolate_within_arena of arena.cpp (set_isolation + restoring guard).
#define VP_WORLD_WITH_ARENA_CPP 1
#include "src/tbb/arena.cpp"
#include "../C03/w_world.h"

extern "C" void vp_iso_exec(int id, unsigned long tag, unsigned long ed_iso);          // a task body starts
extern "C" int  vp_iso_spawns(int id);                                                   // symbolic: does this body spawn its child
extern "C" void vp_iso_spawned(int parent, int child, unsigned long child_tag, unsigned long parent_tag);
extern "C" void vp_iso_wait(int begin, unsigned long waiter_iso);                       // a wait level begins (1) / has returned (0)
extern "C" void vp_iso_level(int where, unsigned long ed_iso, unsigned long expected);  // ed.isolation sampled at a scope boundary
extern "C" unsigned long vp_iso_tag(int which);                                          // symbolic 64-bit tags

namespace {
static isolation_type cur_iso() { return vp_td->my_task_dispatcher->m_execute_data_ext.isolation; }
struct ITask;
struct World { d1::task_group_context* ctx; d1::wait_context* wc; ITask* t; };
enum { A = 0, P, P1, C, C1, B, B1, F, F1, H, NT };
// kind of body: plain (optionally spawns one child, optionally returns a bypass task) or "nested" (B: isolates and waits inside)
struct ITask : d1::task {
  int id; World* w; int child; int bypass; d1::wait_context* wc;
  ITask() : id(-1), w(nullptr), child(-1), bypass(-1), wc(nullptr) {}
  void spawn_child(isolation_type mine) {
    ITask& c = w->t[child];
    c.wc->reserve(1);
    r1::spawn(c, *w->ctx);                                         // REAL spawn: tags c with the current ed.isolation
    vp_iso_spawned(id, c.id, (unsigned long)task_accessor::isolation(c), (unsigned long)mine);
  }
  void nested(isolation_type mine);
  d1::task* execute(d1::execution_data& ed) override {
    isolation_type mine = task_accessor::isolation(*this);
    vp_iso_exec(id, (unsigned long)mine, (unsigned long)static_cast<execution_data_ext&>(ed).isolation);
    if (id == B) nested(mine);
    if (child >= 0 && vp_iso_spawns(id)) spawn_child(mine);
    d1::task* next = bypass >= 0 ? &w->t[bypass] : nullptr;
    wc->release(1);
    return next;
  }
  d1::task* cancel(d1::execution_data&) override { wc->release(1); return nullptr; }
};
// the callable passed to the real isolate_within_arena by task B: spawns F (tagged by the real spawn), plants a foreign task H on top
// of the pool, and waits for F (and F's child) on its own wait_context: the nested dispatch loop is an isolated waiter
struct IsoDelegate : d1::delegate_base {
  World* w; d1::wait_context* wc2; isolation_type v;
  IsoDelegate(World* w_, d1::wait_context* wc2_, isolation_type v_) : w(w_), wc2(wc2_), v(v_) {}
  bool operator()() const override {
    vp_iso_level(1, (unsigned long)cur_iso(), (unsigned long)v);                 // inside isolate: ed.isolation is the scope's tag
    ITask& f = w->t[F]; ITask& h = w->t[H];
    f.wc->reserve(1);
    r1::spawn(f, *w->ctx);
    vp_iso_spawned(B, F, (unsigned long)task_accessor::isolation(f), (unsigned long)v);
    h.wc->reserve(1);
    r1::spawn(h, *w->ctx);
    task_accessor::isolation(h) = (isolation_type)vp_iso_tag(4);                // a foreign task (as a mailed / stolen-back task would carry its tag)
    vp_iso_wait(1, (unsigned long)v);
    r1::wait(*wc2, *w->ctx);                                                      // REAL nested dispatch loop, isolated
    vp_iso_wait(0, (unsigned long)v);
    vp_iso_level(2, (unsigned long)cur_iso(), (unsigned long)v);                 // dispatch_loop_guard restored the execution data
    return true;
  }
};
void ITask::nested(isolation_type mine) {
  d1::wait_context wc2(0);
  w->t[F].wc = &wc2; w->t[F1].wc = &wc2;
  isolation_type v = (isolation_type)vp_iso_tag(3);
  IsoDelegate d(w, &wc2, v);
  r1::isolate_within_arena(d, v);                                                 // REAL (arena.cpp); v == 0: the scope's tag is &d
  vp_iso_level(3, (unsigned long)cur_iso(), (unsigned long)mine);                // the guard restored B's own tag
}
}

extern "C" {
static ITask* vp_crit; static int vp_crit_armed;
void* vp_iso_crit_task() { return vp_crit_armed ? (void*)vp_crit : nullptr; }
unsigned long vp_iso_task_tag(void* t) { return (unsigned long)task_accessor::isolation(*(d1::task*)t); }
void vp_iso_crit_taken() { vp_crit = nullptr; }
void vp_iso_arm() { vp_crit_armed = 1; }

// MODE 0: the waiting thread is not isolated.  Pool, bottom to top: B (tag Y), A (tag X; returns the bypass task P).  After A the critical
// task C (tag Z, possibly 0) is handed out by the arena's critical stream in the bypass position: P is re-spawned (keeps A's tag X), C runs
// and may spawn C1, then C1, P (may spawn P1), P1, then B: isolates (tag V or the delegate's address), inside F/F1 run while the
// foreign H stays in the pool; afterwards H and B1.
void vp_isod(int mode) {
  d1::task_group_context ctx(d1::task_group_context::isolated);
  d1::wait_context wc(0);
  ITask t[NT];
  World w{ &ctx, &wc, t };
  for (int i = 0; i < NT; i++) { t[i].id = i; t[i].w = &w; t[i].wc = &wc; }
  t[A].bypass = P; t[P].child = P1; t[C].child = C1; t[B].child = B1; t[F].child = F1;
  vp_iso_level(0, (unsigned long)cur_iso(), 0);
  wc.reserve(4);                                                                   // B, A, P (bypass), C (critical)
  r1::spawn(t[B], ctx); task_accessor::isolation(t[B]) = (isolation_type)vp_iso_tag(1);
  r1::spawn(t[A], ctx); task_accessor::isolation(t[A]) = (isolation_type)vp_iso_tag(0);
  task_accessor::context(t[C]) = &ctx; task_accessor::isolation(t[C]) = (isolation_type)vp_iso_tag(2);   // as r1::submit(as_critical) leaves it
  vp_crit = &t[C]; vp_crit_armed = 0;
  vp_iso_wait(1, 0);
  r1::wait(wc, ctx);
  vp_iso_wait(0, 0);
  vp_iso_level(4, (unsigned long)cur_iso(), 0);
}
}

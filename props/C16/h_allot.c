/* C16 / allot: worker budget split among arenas.
 * Real code driven end to end: threading_control_impl::adjust_demand / set_active_num_workers ->
 *   thread_request_serializer_proxy (mandatory concurrency, limit_delta, packed pending delta)  and
 *   market::adjust_demand / set_active_num_workers -> pm_client::update_request -> arena::update_request (clamping)
 *   -> market::update_allotment (per-priority proportional split with carry) -> arena::set_allotment / set_top_priority.
 * NC clients (concrete priority levels P0..P2 per scenario), each arena with symbolic max workers W_i <= VMAX.
 * MODE 0 (history): one adjust_demand per client from the freshly constructed market (symbolic mandatory/worker deltas), then a
 * final operation FOP (0: set_active_num_workers(new symbolic limit); 1: another adjust_demand on client FCL).
 * MODE 1 (one step): the pre-state (per-arena request/mandatory flag, stale allotments) is injected without running
 * update_allotment, then the same final operation runs: a single real update_allotment per query.
 * After EVERY operation the oracle is checked (all values read back from the real objects):
 *   - every client's demand D_i is the arena's accumulated request clamped to [0, W_i] (1 for a workerless arena with an
 *     enqueue (mandatory) request); market totals are the sums;
 *   - sum of allotments == min(total demand, soft limit); with soft limit 0 exactly one (mandatory) worker is granted iff
 *     some arena has enqueued work (mandatory request) and non-zero demand, and it goes to the highest-priority such arena;
 *   - allotment_i <= D_i; a lower-priority arena gets a worker only if every higher-priority arena is saturated;
 *   - within a level the split is proportional: |allot_i - D_i * level_share / level_demand| < 1;
 *   - top-priority flag == arena is on the first level that has demand;
 *   - threads requested from RML (ghost J fed by thread_dispatcher::adjust_job_count_estimate) == min(total, effective
 *     limit) == sum of allotments (one documented corner with a surplus request, see oracle()).
 * The proportionality check (two multiplications per client) is evaluated after the last history step and the final op. */
#include "w.h"
#include "vp.h"
typedef struct S_class_tbb__detail__r1__threading_control_impl tc_t;
typedef struct S_class_tbb__detail__r1__market market_t;
typedef struct S_class_tbb__detail__r1__arena arena_t;
typedef struct S_class_tbb__detail__r1__pm_client client_t;
typedef struct S_class_tbb__detail__r1__thread_dispatcher disp_t;
typedef struct S_class_tbb__detail__r1__thread_request_serializer_proxy proxy_t;

static long long J;
void _ZN3tbb6detail2r117thread_dispatcher25adjust_job_count_estimateEi(disp_t* d, u32 delta) { J += (int)delta; }
u8 _ZN3tbb6detail2r111tcm_adaptor14is_initializedEv(void) { return 0; }   /* no TCM library loaded: the market is the permit manager */
#include "c16_stubs.h"

#ifndef NC
#define NC 3
#endif
#ifndef VMAX
#define VMAX 7
#endif
#define NLEV 3
static const unsigned PR[3] = { P0, P1,
#if NC > 2
  P2
#else
  0
#endif
};
static tc_t* TC; static market_t* MK; static proxy_t* PX;
static arena_t* A[NC]; static client_t* C[NC];
static int W[NC], req[NC], mand[NC];     /* ghost: arena capacity, accumulated worker request, mandatory requests */
static int L;                            /* ghost: soft limit in force */

static void oracle(int full) {
  int D[NC], AL[NC], lev[NLEV] = {0, 0, 0}, got[NLEV] = {0, 0, 0}, total = 0, M = 0, sum = 0;
  for (int i = 0; i < NC; i++) {
    D[i] = (int)vp_client_max(C[i]); AL[i] = (int)vp_arena_allotted(A[i]);
    int cap = (mand[i] > 0 && W[i] == 0) ? 1 : W[i];
    int want = req[i] < 0 ? 0 : req[i] > cap ? cap : req[i];
    VP_ASSERT(D[i] == want, "client demand != arena request clamped to [0, max workers]");
    VP_ASSERT((int)vp_client_min(C[i]) == (mand[i] > 0), "client min workers != (mandatory request present)");
    total += D[i]; lev[PR[i]] += D[i]; got[PR[i]] += AL[i]; M += mand[i]; sum += AL[i];
  }
  VP_ASSERT((int)vp_market_total(MK) == total, "market total demand != sum of client demands");
  for (unsigned p = 0; p < NLEV; p++) VP_ASSERT((int)vp_market_level(MK, p) == lev[p], "market per-priority demand != sum over that level");
  VP_ASSERT((int)vp_market_nmand(MK) == M, "market mandatory counter wrong");
  VP_ASSERT((int)vp_market_limit(MK) == L, "market soft limit not the one set");
  /* expected number of granted workers. Soft limit > 0: min(total demand, limit). Soft limit 0: nobody gets a worker,
     except that ONE mandatory worker goes to an arena that has enqueued work (mandatory request) and a non-zero demand
     (it is the highest-priority such arena). */
  int eligible = 0, best = NLEV;
  for (int i = 0; i < NC; i++) if (mand[i] > 0 && D[i] > 0) { eligible = 1; if ((int)PR[i] < best) best = (int)PR[i]; }
  int expect = L != 0 ? (total < L ? total : L) : eligible;
  VP_ASSERT(sum == expect, "sum of allotments != min(total demand, soft limit) (+ the one mandatory worker when the limit is 0)");
  for (int i = 0; i < NC; i++) {
    VP_ASSERT(AL[i] >= 0 && AL[i] <= D[i], "arena allotted more workers than it requested");
    if (L == 0) {
      VP_ASSERT(AL[i] == 0 || (mand[i] > 0 && (int)PR[i] == best), "soft limit 0: the mandatory worker went to an arena without enqueued work / not to the highest-priority one");
    } else {
      for (int j = 0; j < NC; j++)
        if (PR[j] < PR[i]) VP_ASSERT(AL[i] == 0 || AL[j] == D[j], "lower-priority arena got a worker while a higher-priority arena is not saturated");
      if (full && lev[PR[i]] > 0) {
        long long lhs = (long long)AL[i] * lev[PR[i]], share = (long long)D[i] * got[PR[i]];
        VP_ASSERT(lhs > share - lev[PR[i]] && lhs < share + lev[PR[i]], "split inside a priority level not proportional (off by a whole worker or more)");
      }
    }
    if (D[i] > 0) {
      int first = 1; for (int j = 0; j < NC; j++) if (D[j] > 0 && PR[j] < PR[i]) first = 0;
      VP_ASSERT((vp_arena_top(A[i]) != 0) == first, "top-priority flag != (arena is on the first level with demand)");
    }
  }
  /* threads requested from RML: min(total demand, effective limit) with effective limit 1 when the soft limit is 0 and a
     mandatory request exists (the serializer's contract, see h_serializer.c). It equals the number of granted workers,
     except in one corner (OBSERVATION, see NOTES.md): soft limit 0, the arena holding the mandatory request currently has
     demand 0 (e.g. its worker slots are taken by external threads) while another arena has demand: one thread is requested
     although no arena can take it. The surplus thread executes no user work (no allotment), so C16 is not violated
     (debug builds abort there: __TBB_ASSERT(assigned == max_workers), see repro_mandatory_corner.cpp). */
  int eff = (M > 0 && L == 0) ? 1 : L;
  VP_ASSERT(J == (total < eff ? total : eff), "threads requested from RML != min(total demand, effective soft limit)");
  VP_ASSERT(J >= sum, "fewer threads requested from RML than workers granted to arenas");
  if (!(L == 0 && M > 0 && total > 0 && !eligible)) VP_ASSERT(J == sum, "threads requested from RML != sum of the allotments");
  else VP_ASSERT(sum == 0 && J <= 1, "mandatory corner: nobody may get a worker and at most the one mandatory thread may be requested");
}

static void adjust(int i, int last) {
  int md = (int)vp_nd(), wd = (int)vp_nd();
  /* arena protocol: the mandatory flag (atomic_flag my_mandatory_concurrency) makes +1/-1 alternate; worker deltas are
     +-max_workers (pool state flips), +-1 (workerless mandatory, external thread in a worker slot) */
  __CPROVER_assume(md >= -1 && md <= 1 && mand[i] + md >= 0 && mand[i] + md <= 1);
  __CPROVER_assume(wd >= -(VMAX + 1) && wd <= VMAX + 1 && req[i] + wd >= -2 && req[i] + wd <= VMAX + 1);
  vp_tc_adjust(TC, C[i], (u32)md, (u32)wd);
  mand[i] += md; req[i] += wd;
  oracle(last);
}

int main(void) {
  static u8 dispatcher_dummy[64];
  L = (int)vp_nd_range(0, LMAX);
  TC = vp_tc_make((disp_t*)dispatcher_dummy, (u32)L);
  MK = vp_tc_market(TC); PX = vp_tc_proxy(TC);
  for (int i = 0; i < NC; i++) {
    W[i] = (int)vp_nd_range(0, VMAX);
    A[i] = vp_arena_record((u32)W[i], 1, PR[i]);
    C[i] = vp_market_add(MK, A[i]);
  }
  oracle(0);
#if MODE == 0
  for (int i = 0; i < NC; i++) adjust(i, i == NC - 1);
#else
  /* arbitrary reachable pre-state (every such state is the end state of the MODE 0 history): per arena a mandatory flag,
     an accumulated worker request, a stale allotment and top-priority flag; market counters and proxy state consistent */
  int M0 = 0;
  for (int i = 0; i < NC; i++) {
    int md = (int)vp_nd_range(0, 1), wd = (int)vp_nd();
    __CPROVER_assume(wd >= -2 && wd <= VMAX + 1);
    vp_market_inject(MK, C[i], (u32)md, (u32)wd);
    vp_arena_stale(A[i], (u32)vp_nd_range(0, VMAX + 1), (u32)vp_nd_range(0, 1));
    mand[i] = md; req[i] = wd; M0 += md;
  }
  { int T0 = (int)vp_market_total(MK), eff0 = (M0 > 0 && L == 0) ? 1 : L;
    vp_proxy_inject2(PX, (u32)T0, (u32)M0, (u32)L);
    J = T0 < eff0 ? T0 : eff0; }
#endif
#if FOP == 0
  { int L1 = (int)vp_nd_range(0, LMAX);
#if MODE == 1
    /* an unchanged limit recomputes nothing (market::set_active_num_workers returns early): the injected stale allotment
       would simply stay; that no-op on a consistent state is covered by MODE 0 */
    __CPROVER_assume(L1 != L);
#endif
    L = L1; }
  vp_tc_set_limit(TC, (u32)L);
  oracle(1);
#elif FOP == 1
  adjust(FCL, 1);
#endif
  VP_REACHED();
  return 0;
}

/* C16 iso_dispatch: isolation bookkeeping of the real dispatcher loop (one model thread, world of props/C03).
 * Symbolic: the 64-bit tags X (task A), Y (task B), Z (critical task C, may be 0) and which of the bodies P, C, F, B spawn their child;
 * concrete per query: V (B's isolate scope, non-zero) and Q (foreign task H on top of the pool: different tag / untagged / same tag).  Scenario: see w_isod.cpp (vp_isod). */
#include "w.h"
#include "vp.h"
#define VP_REAL_ARENA_CPP 1
#include "../C03/h_stubs.h"
/* threading_control (not in the unit): demand changes have no effect, no worker exists; arena destruction is never reached */
void _ZN3tbb6detail2r117threading_control13adjust_demandENS1_24threading_control_clientEii(struct S_class_tbb__detail__r1__threading_control* tc, struct S_class_tbb__detail__r1__pm_client* c, struct S_class_tbb__detail__r1__thread_dispatcher_client* d, u32 m, u32 w) {}
void _ZN3tbb6detail2r117threading_control26prepare_client_destructionENS1_24threading_control_clientE(struct S_struct_tbb__detail__r1__threading_control_impl__client_snapshot* r, struct S_class_tbb__detail__r1__threading_control* tc, struct S_class_tbb__detail__r1__pm_client* c, struct S_class_tbb__detail__r1__thread_dispatcher_client* d) { VP_OUTSIDE("arena destruction"); }
u8 _ZN3tbb6detail2r117threading_control18try_destroy_clientENS1_22threading_control_impl15client_snapshotE(struct S_class_tbb__detail__r1__threading_control* tc, struct S_struct_tbb__detail__r1__threading_control_impl__client_snapshot* s) { VP_OUTSIDE("arena destruction"); return 0; }
void _ZN3tbb6detail2r113observer_list5clearEv(struct S_class_tbb__detail__r1__observer_list* l) { VP_OUTSIDE("arena destruction"); }
void _ZN3tbb6detail2r17observeERNS0_2d123task_scheduler_observerEb(struct S_class_tbb__detail__d1__task_scheduler_observer* o, u8 e) { VP_OUTSIDE("observers"); }
#define VP_CHECK(c, msg) do { VP_ASSERT(c, msg); __CPROVER_assume(c); } while (0)
enum { A = 0, P, P1, C, C1, B, B1, F, F1, H, NT };
u64 TAG[5]; u32 SP;                      /* tags X,Y,Z,V,Q; spawn mask (bit = id of the spawning task) */
int runs[NT], spawned[NT], order[NT], nexec, n_crit;
u64 wstack[4]; int wdepth;
u64 vp_iso_tag(u32 k) { return TAG[k]; }
static u64 expected_tag(int id) {        /* the isolation scope each task was created in */
  return id == A || id == P || id == P1 ? TAG[0] : id == B || id == B1 ? TAG[1] : id == C || id == C1 ? TAG[2] : id == F || id == F1 ? TAG[3] : TAG[4];
}
/* arena::get_critical_task is cut (the critical task_stream is not built): contract of task_stream::pop / pop_specific: hands out the
   prepared critical task once, to a non-isolated caller or to a caller whose isolation equals the task's tag */
struct S_class_tbb__detail__d1__task* _ZN3tbb6detail2r15arena17get_critical_taskERjl(struct S_class_tbb__detail__r1__arena* a, u32* hint, u64 iso) {
  u8* t = vp_iso_crit_task();
  if (!t) return 0;
  if (iso != 0 && vp_iso_task_tag(t) != iso) return 0;
  vp_iso_crit_taken(); n_crit++;
  return (struct S_class_tbb__detail__d1__task*)t;
}
void vp_iso_wait(u32 begin, u64 w) {
  if (begin) { VP_CHECK(wdepth < 4, "VP bound: wait depth"); wstack[wdepth++] = w; } else { VP_CHECK(wdepth > 0 && wstack[wdepth - 1] == w, "VP: wait nesting"); wdepth--; }
}
void vp_iso_exec(u32 id, u64 tag, u64 ed_iso) {
  VP_CHECK(id < NT, "VP: id"); VP_CHECK(runs[id] == 0, "a task ran twice"); runs[id]++;
  VP_CHECK(nexec < NT, "VP: exec count"); order[nexec++] = (int)id;
  VP_CHECK(wdepth > 0, "a task ran outside any wait");
  u64 w = wstack[wdepth - 1];
  VP_CHECK(w == 0 || tag == w, "a waiter inside an isolation scope executed a task that carries a different isolation tag");
  VP_CHECK(tag == expected_tag((int)id), "a task carries an isolation tag different from the scope it was spawned in");
  VP_CHECK(ed_iso == tag, "execution_data::isolation is not the tag of the task being executed (stale ed.isolation)");
  if (id == A) vp_iso_arm();               /* from now on the critical stream hands out C: right after A, in the bypass position */
}
u32 vp_iso_spawns(u32 id) { return (SP >> id) & 1; }
void vp_iso_spawned(u32 parent, u32 child, u64 ctag, u64 ptag) {
  VP_CHECK(child < NT && !spawned[child], "VP: child"); spawned[child] = 1;
  VP_CHECK(ctag == ptag, "a spawned task does not carry the isolation of the task (scope) that spawned it");
}
void vp_iso_level(u32 where, u64 ed_iso, u64 expected) {
  if (where == 0 || where == 4) VP_CHECK(ed_iso == 0, "ed.isolation of the non-isolated outermost level is not 0 before / after the wait");
  if (where == 1) VP_CHECK(ed_iso == expected, "inside isolate_within_arena ed.isolation is not the scope's tag");
  if (where == 2) VP_CHECK(ed_iso == expected, "ed.isolation not restored when the nested dispatch level returned");
  if (where == 3) VP_CHECK(ed_iso == expected, "isolate_within_arena did not restore the isolation of the running task");
}
/* unused observers of the shared world header */
void vp_body(u32 i) {} void vp_note(u32 a, u32 b) {} void vp_wait_result(u32 a, u32 b, u32 c, u32 d) {}
int main(void) {
  for (int k = 0; k < 3; k++) TAG[k] = vp_nd();     /* X, Y, Z: any 64-bit words (they are carried around, never compared by a non-isolated waiter) */
  TAG[3] = VTAG; TAG[4] = QTAG;                     /* the isolate scope's tag V (non-zero; isolate(d, 0) would use the delegate's address: outside) and the foreign
                                                       task's tag Q are concrete per query: the nested waiter compares them at every get_task, and with --paths every
                                                       repeated symbolic comparison doubles the paths.  Symbolic tags in the filter itself: harness `isolation`. */
  SP = (u32)vp_nd_range(0, 1023) & ((1u << P) | (1u << C) | (1u << F) | (1u << B));
  vp_world_setup();
  vp_isod(0);
  VP_ASSERT(wdepth == 0, "wait nesting");
  VP_ASSERT(runs[A] && runs[P] && runs[C] && runs[B] && runs[F] && runs[H], "a task was not executed");
  VP_ASSERT(runs[P1] == ((SP >> P) & 1) && runs[C1] == ((SP >> C) & 1) && runs[F1] == ((SP >> F) & 1) && runs[B1] == ((SP >> B) & 1), "a child runs iff it was spawned");
  VP_ASSERT(n_crit == 1 && order[0] == A && order[1] == C, "the critical task is taken right after A, in the bypass position");
  VP_REACHED();
  return 0;
}

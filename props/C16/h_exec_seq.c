/* C16 / exec_leave: enter and LEAVE path of task_arena::execute with scheduler observers (sequential driver with preemption at
 * boundary calls). Real: arena::occupy_free_slot<false>, nested_arena_context constructor and destructor (w_exec.cpp).
 * Thread T0 enters the arena and leaves it. At every boundary call T0 makes (observer entry/exit callbacks - before and after
 * the callback body -, threading_control::adjust_demand, concurrent_monitor::notify_one, the wrapper's observer points) the
 * solver may let thread T1 run its complete enter (occupy_free_slot + constructor incl. entry callback + functor) and, at the
 * same or a later boundary, its complete leave (destructor incl. exit callback): K1/K2 symbolic. Interleavings finer than
 * boundary calls are NOT covered here (the slot words themselves are covered at instruction granularity by slots_2t).
 * The scheduler-observer callbacks are the harness stubs of observer_list::do_notify_entry_observers /
 * do_notify_exit_observers; a thread counts as inside the arena from its entry callback until its exit callback returns.
 * Arena: NSLOTS slots, NRES reserved (externals may use all), symbolic set PRE of slots held by threads outside the model
 * (includes "only one free slot").
 * Oracle
 *   at every entry/exit callback: the caller is attached to the arena, its current_thread_index is < num_slots, that slot
 *     is marked occupied and was handed to this very thread (the slot must not have been given back before on_scheduler_exit
 *     ran, nor taken by somebody else);
 *   between entry and exit no two threads hold the same index; at most max_concurrency threads are inside;
 *   exactly one exit for every entry, by the same thread, with the same index, before execute returns;
 *   the functor runs between entry and exit on the slot's default dispatcher; waiters for a slot are only woken after release;
 *   after leaving the thread is back in its home arena/slot/dispatcher; worker-demand deltas cancel out; all slots free again. */
#include "w.h"
#include "vp.h"
typedef struct S_class_tbb__detail__r1__arena arena_t;
typedef struct S_class_tbb__detail__r1__thread_data td_t;
typedef struct S_class_tbb__detail__r1__task_dispatcher disp_t;
typedef struct S_class_tbb__detail__r1__threading_control tc_t;
typedef struct S_class_tbb__detail__r1__observer_list olist_t;
typedef struct S_class_tbb__detail__r1__observer_proxy oproxy_t;
#include "c16_stubs.h"
#if !defined(VP_NATIVE) && !defined(BUILTIN_MEMCPY)
/* the 16-byte struct copies of execution_data_ext in nested_arena_context go through dispatcher pointers that depend on the
   (symbolic) slot index; cbmc's built-in memcpy model works on whole objects and exhausted memory. Word-wise copy, same meaning. */
void* memcpy(void* d, const void* s, size_t n) {
  if (n % 8 == 0) for (size_t i = 0; i < n / 8; i++) ((u64*)d)[i] = ((const u64*)s)[i];
  else for (size_t i = 0; i < n; i++) ((u8*)d)[i] = ((const u8*)s)[i];
  return d;
}
#endif

#define NT 2
#define NSL (NSLOTS < 2 ? 2 : NSLOTS)
#define ARENA_MEM struct { struct S_class_tbb__detail__r1__mail_outbox mb[NSL]; arena_t a; struct S_class_tbb__detail__r1__arena_slot more[NSL - 1]; }
static ARENA_MEM AMEM __attribute__((aligned(128)));      /* the arena being entered (typed, zero-initialised) */
static arena_t HOMEA __attribute__((aligned(128)));       /* the threads' home arena: only its address and slot addresses are used (never dereferenced on this path) */
static disp_t DISP[NSL], OUTER[NT];
static u64 SCOPE[NT][16] __attribute__((aligned(16)));   /* storage of the two nested_arena_context objects (word arrays: tracked per element) */
static td_t TDS[NT] __attribute__((aligned(128)));
static u8 tail_dummy[64]; static u8 tc_dummy[64];
#define TAIL ((oproxy_t*)tail_dummy)
static arena_t *A, *HOME;
static unsigned NS, PRE;
static int entered[NT], eidx[NT], n_entry[NT], n_exit[NT], left_[NT], noslot[NT], body[NT];
static int owner[NSL];
static long demand;
static unsigned cur;                       /* model thread that is executing (0 = T0, 1 = T1) */
static unsigned K1, K2, bcount; static int t1;   /* T1: 0 not started, 1 inside (scope alive), 2 returned, 3 found no slot */
#define OUT_OF_ARENA (~(u64)0)
static unsigned phase;                     /* 0: T0 is in vp_enter, 1: T0 is in vp_leave (set by the driver) */
/* boundary call of T0 with a static identity (concrete at every call site, so that T1's code is placed exactly once):
   enter: 1 occupied, 2 adjust_demand, 3/4 before/after the entry callback body, 5 functor; 6 between enter and leave;
   leave: 7/8 before/after the exit callback body, 9 adjust_demand, 10 notify_one. 0 = before T0 starts. */
static void point(unsigned id) {
  if (cur != 0) return;
  bcount++;
  if (t1 == 0 && id == K1) { cur = 1; t1 = (vp_enter(A, &TDS[1], 1, (u8*)&SCOPE[1]) == OUT_OF_ARENA) ? 3 : 1; cur = 0; }
  if (t1 == 1 && id >= K2) { cur = 1; vp_leave(1, (u8*)&SCOPE[1]); t1 = 2; cur = 0; }
}

static void at_callback(unsigned tid, const char* unused) {
  VP_ASSERT(vp_td_arena(&TDS[tid]) == A, "observer callback while the thread is not attached to the arena");
  unsigned idx = vp_td_index(&TDS[tid]);
  VP_ASSERT(idx < NS, "current_thread_index >= max_concurrency inside an observer callback");
  if (idx < NS) {
    VP_ASSERT(vp_slot_occupied(A, idx), "observer callback runs while the thread's slot is not marked occupied (slot given back before on_scheduler_exit / taken after on_scheduler_entry)");
    VP_ASSERT(owner[idx] == (int)tid, "observer callback runs on a slot that was handed to another thread");
  }
}
/* user's on_scheduler_entry */
void _ZN3tbb6detail2r113observer_list25do_notify_entry_observersERPNS1_14observer_proxyEb(olist_t* l, oproxy_t** last, u8 worker) {
  unsigned tid = cur;
  point(3);
  VP_ASSERT(vp_obs_arena(l) == A && !worker, "entry notification for the wrong arena / role");
  at_callback(tid, "");
  unsigned idx = vp_td_index(&TDS[tid]);
  VP_ASSERT(!entered[tid], "second on_scheduler_entry without an exit");
  int inside = 0;
  for (unsigned t = 0; t < NT; t++) if (entered[t]) { inside++; VP_ASSERT(t == tid || eidx[t] != (int)idx, "two threads are between on_scheduler_entry and on_scheduler_exit with the same current_thread_index"); }
  for (unsigned i = 0; i < NS; i++) if ((PRE >> i) & 1) inside++;
  VP_ASSERT(inside + 1 <= (int)NS, "more threads inside the arena than max_concurrency");
  entered[tid] = 1; eidx[tid] = (int)idx; n_entry[tid]++;
  *last = TAIL;                        /* contract: `last` = last observer proxy that was notified */
  point(4);
}
/* user's on_scheduler_exit */
void _ZN3tbb6detail2r113observer_list24do_notify_exit_observersEPNS1_14observer_proxyEb(olist_t* l, oproxy_t* last, u8 worker) {
  unsigned tid = cur;
  point(7);
  VP_ASSERT(vp_obs_arena(l) == A && !worker && last == TAIL, "exit notification for the wrong arena / role / proxy");
  VP_ASSERT(entered[tid], "on_scheduler_exit without a preceding on_scheduler_entry on this thread");
  at_callback(tid, "");
  VP_ASSERT((int)vp_td_index(&TDS[tid]) == eidx[tid], "current_thread_index changed between entry and exit");
  entered[tid] = 0; n_exit[tid]++;
  point(8);
}
void _ZN3tbb6detail2r117threading_control13adjust_demandENS1_24threading_control_clientEii(tc_t* tc, struct S_class_tbb__detail__r1__pm_client* pc,
    struct S_class_tbb__detail__r1__thread_dispatcher_client* dc, u32 mandatory_delta, u32 workers_delta) {
  VP_ASSERT(mandatory_delta == 0 && ((int)workers_delta == 1 || (int)workers_delta == -1), "unexpected demand change from execute");
  demand += (int)workers_delta;
  point(phase ? 9 : 2);
}
/* concurrent_monitor::notify_one_relaxed on arena::my_exit_monitors (cut): wakes one thread waiting for a free slot; nobody
   waits in this model (a thread that finds no slot just records it). The call itself is counted: it must follow release(). */
static int notified;
void _ZN3tbb6detail2r123concurrent_monitor_baseImE18notify_one_relaxedEv(struct S_class_tbb__detail__r1__concurrent_monitor_base_56* m) {
  unsigned tid = cur;
  VP_ASSERT(!entered[tid] && !vp_slot_occupied(A, (u32)eidx[tid]) || owner[eidx[tid]] != (int)tid, "waiters for a free slot woken before the leaving thread released its slot");
  notified++;
  point(10);
}
void _ZN3tbb6detail2d115waitable_atomicIbE18notify_one_relaxedEv(struct S_class_tbb__detail__d1__waitable_atomic* w) {}
void vp_noslot(u32 tid) { noslot[tid] = 1; }
void vp_occupied(u32 tid, u64 idx) {
  VP_ASSERT(idx < NS && !((PRE >> idx) & 1), "occupy_free_slot returned a foreign / out-of-range slot");
  if (idx < NS) owner[idx] = (int)tid;
  point(1);
}
void vp_body(u32 tid, u64 idx) {
  VP_ASSERT(entered[tid] && eidx[tid] == (int)idx, "functor runs outside the entry/exit window of its thread");
  VP_ASSERT(vp_td_disp(&TDS[tid]) == &DISP[idx < NS ? idx : 0], "functor does not run on the slot's default task dispatcher");
  body[tid]++;
  point(5);
}
void vp_returned(u32 tid) {
  VP_ASSERT(!entered[tid] && n_entry[tid] == 1 && n_exit[tid] == 1, "execute returned without exactly one entry/exit observer pair");
  VP_ASSERT(vp_td_arena(&TDS[tid]) == HOME && vp_td_index(&TDS[tid]) == tid && vp_td_disp(&TDS[tid]) == &OUTER[tid], "thread not restored to its home arena / slot / dispatcher");
  left_[tid] = 1;
}

#define SEED ((u32)vp_nd())   /* RNG state of each thread: symbolic */
int main(void) {
  VP_ASSERT(vp_sizeof_scope() <= sizeof(SCOPE[0]), "nested_arena_context grew beyond the harness storage");
  VP_ASSERT(vp_sizeof_arena() == sizeof(arena_t) && vp_sizeof_slot() == sizeof(AMEM.more[0]) && vp_sizeof_outbox() == sizeof(AMEM.mb[0]) && vp_sizeof_td() == sizeof(td_t)
            && vp_sizeof_disp() == sizeof(disp_t) && sizeof(AMEM) == NSL * vp_sizeof_outbox() + vp_sizeof_arena() + (NSL - 1) * vp_sizeof_slot(), "generated struct layout differs from the C++ one");
  A = vp_arena_make((u8*)&AMEM, DISP, (tc_t*)tc_dummy, NSLOTS, NRES, TAIL);
  HOME = &HOMEA;
  NS = vp_arena_num_slots(A);
#ifdef CPRE
  PRE = CPRE;
#else
  PRE = (unsigned)vp_nd_range(0, (1u << NSL) - 1);
#endif
  for (unsigned i = 0; i < NS; i++) { owner[i] = -1; if ((PRE >> i) & 1) vp_slot_force(A, i, 1); }
  for (unsigned t = 0; t < NT; t++) { vp_td_setup(&TDS[t], &OUTER[t], HOME, (u16)t, SEED, SEED); }
  /* the slot hint used by occupy_free_slot is my_arena_index = the thread's index in its home arena (tid) */
#ifdef CK1   /* placement concrete per query (scenario) */
  K1 = CK1;
#ifdef CK2
  K2 = CK2;
#else
  K2 = (unsigned)vp_nd_range(CK1, 11);      /* where T1 leaves: solver's choice */
#endif
#else
  K1 = (unsigned)vp_nd_range(0, NPOINTS); K2 = (unsigned)vp_nd_range(0, NPOINTS);
  __CPROVER_assume(K1 <= K2);
#endif
  cur = 0;
  point(0);                                                     /* T1 may come first */
  phase = 0;
  u64 i0 = vp_enter(A, &TDS[0], 0, (u8*)&SCOPE[0]);
  point(6);
  phase = 1;
  if (i0 != OUT_OF_ARENA) vp_leave(0, (u8*)&SCOPE[0]);
  VP_ASSERT(bcount <= NPOINTS, "harness: more boundary calls than NPOINTS (raise it)");
#ifdef VP_NATIVE
  printf("bcount=%u\n", bcount);
#endif
  /* T1 runs / finishes after T0 if it has not done so */
  cur = 1;
  if (t1 == 0) t1 = (vp_enter(A, &TDS[1], 1, (u8*)&SCOPE[1]) == OUT_OF_ARENA) ? 3 : 1;
  if (t1 == 1) { vp_leave(1, (u8*)&SCOPE[1]); t1 = 2; }
  VP_ASSERT(noslot[1] == (t1 == 3) && noslot[0] == (i0 == OUT_OF_ARENA), "harness bookkeeping");
  for (unsigned t = 0; t < NT; t++) {
    VP_ASSERT(!entered[t], "thread finished execute but never got its on_scheduler_exit");
    if (noslot[t]) VP_ASSERT(n_entry[t] == 0 && n_exit[t] == 0 && !left_[t], "observer calls for a thread that did not enter");
    else VP_ASSERT(left_[t] && body[t] == 1 && n_entry[t] == 1 && n_exit[t] == 1, "entering thread: functor / entry / exit not exactly once");
  }
  VP_ASSERT(demand == 0, "worker-demand deltas sent on entry and exit do not cancel out");
  for (unsigned i = 0; i < NS; i++) VP_ASSERT(vp_slot_occupied(A, i) == (int)((PRE >> i) & 1), "slot still occupied after its owner left / foreign slot freed");
  VP_ASSERT(vp_arena_limit(A) <= NS, "my_limit above the number of slots");
  VP_REACHED();
  return 0;
}

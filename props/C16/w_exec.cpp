// C16 wrapper (thread-mode unit): the enter / LEAVE path of task_arena::execute.
// Real code: arena::occupy_free_slot<false> (+ occupy_free_slot_in_range, arena_slot::try_occupy, atomic_update(my_limit)),
// the constructor and the DESTRUCTOR of nested_arena_context (src/tbb/arena.cpp): thread_data::attach_arena /
// enter/leave/attach/detach_task_dispatcher, arena::request_workers, observer_list::notify_entry_observers /
// notify_exit_observers (inline front ends), arena_slot::release, concurrent_monitor::notify_one.
// Boundary: observer_list::do_notify_entry_observers / do_notify_exit_observers (observer_proxy.cpp) are harness stubs = the
// user's on_scheduler_entry / on_scheduler_exit callbacks; threading_control::adjust_demand is a harness stub.
// task_arena_impl::execute itself (FPU asm, delegate call) is cut: the thread body performs its statements around the scope.
#include "vp_std.h"
#define try if (true)
#define catch(...) else if (false)
#define throw
#include "src/tbb/arena.cpp"
#undef try
#undef catch
#undef throw
using namespace tbb::detail;
using namespace tbb::detail::r1;

extern "C" void vp_noslot(int tid);                         // observer: arena saturated (execute would enqueue a delegated task)
extern "C" void vp_occupied(int tid, unsigned long idx);    // observer: occupy_free_slot returned idx
extern "C" void vp_body(int tid, unsigned long idx);        // observer: the user functor runs (between ctor and dtor of the scope)
extern "C" void vp_returned(int tid);                           // observer: the scope's destructor returned

extern "C" {
// one model thread: task_arena_impl::execute for a thread that belongs to another arena (same_arena == false)
void vp_thr_exec(arena* a, thread_data* td, int tid) {
  std::size_t index1 = a->occupy_free_slot</*as_worker*/false>(*td);
  if (index1 == arena::out_of_arena) { vp_noslot(tid); return; }
  vp_occupied(tid, index1);
  {
    nested_arena_context scope(*td, *a, index1);
    vp_body(tid, td->my_arena_index);                       // d();
  }
  vp_returned(tid);
}

// the same statements with the scope object held in harness storage, so that a sequential driver can place another thread's
// complete enter / leave between any two boundary calls of this thread (h_exec_seq.c)
unsigned long vp_enter(arena* a, thread_data* td, int tid, void* scope_storage) {
  std::size_t index1 = a->occupy_free_slot</*as_worker*/false>(*td);
  if (index1 == arena::out_of_arena) { vp_noslot(tid); return index1; }
  vp_occupied(tid, index1);
  new (scope_storage) nested_arena_context(*td, *a, index1);
  vp_body(tid, td->my_arena_index);
  return index1;
}
void vp_leave(int tid, void* scope_storage) {
  static_cast<nested_arena_context*>(scope_storage)->~nested_arena_context();
  vp_returned(tid);
}
unsigned long vp_sizeof_scope() { return sizeof(nested_arena_context); }

// ---- sequential set-up / inspection
// arena storage (typed harness object): [n mail_outbox][arena_base + slot 0][n-1 arena_slot]; zero-initialised; the scalar
// fields the constructor stores; slot i gets the default task_dispatcher disp + i (typed harness array, zero-initialised:
// only m_thread_data / m_stealing_threshold / m_properties / m_execute_data_ext are touched by the encoded code)
arena* vp_arena_make(unsigned char* storage, task_dispatcher* disp, threading_control* tc, unsigned num_slots, unsigned reserved, observer_proxy* tail) {
  unsigned n_slots = arena::num_arena_slots(num_slots, reserved);
  arena* a = reinterpret_cast<arena*>(storage + n_slots * sizeof(mail_outbox));
  a->my_threading_control = tc;
  a->my_limit = 1;
  a->my_num_slots = n_slots;
  a->my_num_reserved_slots = reserved;
  a->my_max_num_workers = num_slots - reserved;
  a->my_priority_level = 1;
  a->my_references = arena::ref_external;
  a->my_observers.my_arena = a;
  a->my_observers.my_tail.store(tail, std::memory_order_relaxed);   // non-null: an observer is registered with this arena
  for (unsigned i = 0; i < n_slots; ++i) {
    a->mailbox(i).construct();
    a->my_slots[i].init_task_streams(i);
    a->my_slots[i].my_default_task_dispatcher = disp + i;
    a->my_slots[i].my_is_occupied.store(false, std::memory_order_relaxed);
  }
  return a;
}
// a thread that currently lives in arena `home` at slot `index` with its own (outer) task dispatcher
void vp_td_setup(thread_data* td, task_dispatcher* outer, arena* home, unsigned short index, unsigned seed_x, unsigned seed_c) {
  td->my_random.x = seed_x; td->my_random.c = seed_c | 1;
  td->attach_arena(*home, index);
  outer->m_execute_data_ext.task_disp = outer;
  outer->m_stealing_threshold = 4096;
  td->attach_task_dispatcher(*outer);
  td->my_is_registered = true;
}
unsigned long vp_sizeof_arena() { return sizeof(arena); }
unsigned long vp_sizeof_slot() { return sizeof(arena_slot); }
unsigned long vp_sizeof_outbox() { return sizeof(mail_outbox); }
unsigned long vp_sizeof_td() { return sizeof(thread_data); }
unsigned long vp_sizeof_disp() { return sizeof(task_dispatcher); }
unsigned vp_arena_num_slots(arena* a) { return a->my_num_slots; }
unsigned vp_arena_limit(arena* a) { return a->my_limit.load(std::memory_order_relaxed); }
int vp_slot_occupied(arena* a, unsigned i) { return a->my_slots[i].is_occupied(); }
void vp_slot_force(arena* a, unsigned i, int occ) { a->my_slots[i].my_is_occupied.store(occ != 0, std::memory_order_relaxed); }
unsigned vp_td_index(thread_data* td) { return td->my_arena_index; }
arena* vp_td_arena(thread_data* td) { return td->my_arena; }
task_dispatcher* vp_td_disp(thread_data* td) { return td->my_task_dispatcher; }
observer_proxy* vp_td_last_observer(thread_data* td) { return td->my_last_observer; }
arena* vp_obs_arena(observer_list* l) { return l->my_arena; }
}

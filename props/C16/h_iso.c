/* C16 / isolation: a thread whose dispatch loop runs with isolation tag ISO only receives tasks carrying the same tag
 * (any task when ISO == no_isolation); tasks it has to skip stay where they were, in order.
 * SRC 0: arena_slot::get_task (own pool, LIFO)            SRC 1: arena_slot::steal_task (victim pool, FIFO)
 * SRC 2: task_dispatcher::get_mailbox_task / mail_inbox::pop (affinity mailbox, FIFO)
 * SRC 3: arena::get_critical_task -> task_stream::pop_specific / pop (critical stream)
 * N (<= 3) entries, every tag and ISO a symbolic 64-bit word; already-claimed proxies symbolic; pool head / hole pattern
 * and stream lane hints are concrete per query (scenario). Sequential: the
 * concurrent behaviour of the same functions (exactly-once) is C01's subject. */
#include "w.h"
#include "vp.h"
typedef struct S_class_tbb__detail__r1__arena arena_t;
typedef struct S_class_tbb__detail__r1__arena_slot slot_t;
typedef struct S_class_tbb__detail__d1__task task_t;
typedef struct S_struct_tbb__detail__r1__task_proxy proxy_t;
typedef struct S_struct_tbb__detail__r1__execution_data_ext ed_t;
typedef struct S_class_tbb__detail__r1__mail_outbox outbox_t;
/* r1::cache_aligned_allocate: fresh storage, never NULL; 512-byte requests (task pool of 64 entries, deque node) and
   64-byte requests (deque map) are served from typed word arrays */
#define VP_OWN_CAA 1
static u64 chunk512[6][64] __attribute__((aligned(128))); static unsigned n512;
static u64 chunk64[6][8] __attribute__((aligned(128))); static unsigned n64;
static u64 chunk256[2][32] __attribute__((aligned(128))); static unsigned n256;      /* task_stream lanes (2 x 128 bytes) */
u8* _ZN3tbb6detail2r122cache_aligned_allocateEm(u64 n) {
  if (n == 512 && n512 < 6) return (u8*)chunk512[n512++];
  if (n == 64 && n64 < 6) return (u8*)chunk64[n64++];
  if (n == 256 && n256 < 2) return (u8*)chunk256[n256++];
  u8* p = malloc(n); __CPROVER_assume(p != 0); return p;
}
void _ZN3tbb6detail2r124cache_aligned_deallocateEPv(u8* p) {}
#include "c16_stubs.h"
static int advertised;
void _ZN3tbb6detail2r15arena18advertise_new_workILNS2_13new_work_typeE1EEEvv(arena_t* a) { advertised++; }   /* arena::advertise_new_work<wakeup>: cut, counted */
static int freed_proxies; static u8* freed[3];
void _ZN3tbb6detail2r110deallocateERNS0_2d117small_object_poolEPvmRKNS2_14execution_dataE(struct S_class_tbb__detail__d1__small_object_pool* pool, u8* p, u64 n, struct S_struct_tbb__detail__d1__execution_data* ed) { if (freed_proxies < 3) freed[freed_proxies] = p; freed_proxies++; }

#ifndef N
#define N 3
#endif
/* objects are typed globals / typed chunks (cbmc then tracks them per field; byte-array heap objects above 64 bytes are
   not constant-propagated and every loop bound in the real code would become symbolic) */
static task_t tbuf[N] __attribute__((aligned(64)));
static proxy_t pbuf[N] __attribute__((aligned(64)));
static slot_t SLOT __attribute__((aligned(128)));       /* the pool owner's / victim's slot */
static arena_t ARENA __attribute__((aligned(128)));     /* arena record (critical stream) */
static outbox_t BOX __attribute__((aligned(128)));      /* affinity mailbox of the waiting thread */
static ed_t EDX; static struct S_class_tbb__detail__r1__task_dispatcher DISP; static struct S_class_tbb__detail__r1__thread_data TD;
static task_t* T[N]; static u64 tag[N]; static int present[N];
static u64 ISO, NOISO;
static int match(int i) { return present[i] && (ISO == NOISO || tag[i] == ISO); }

int main(void) {
  VP_ASSERT(vp_sizeof_task() == sizeof(task_t) && vp_sizeof_proxy() == sizeof(proxy_t), "generated struct sizes differ from the C++ ones");
  NOISO = (u64)vp_no_isolation();
#ifdef CTAGS   /* concrete tag pattern (byte i of CTAGS = tag of entry i, CISO = waiter's tag) */
  ISO = CISO;
#else
  ISO = vp_nd();
#endif
  VP_ASSERT(vp_sizeof_arena() == sizeof(arena_t) && vp_sizeof_slot() == sizeof(slot_t) && vp_sizeof_outbox() == sizeof(outbox_t), "generated struct sizes differ from the C++ ones");
  arena_t* A = &ARENA; slot_t* S = &SLOT; ed_t* ED = &EDX;
  vp_ed_link(ED, &DISP, &TD, A, S, 0);
  for (int i = 0; i < N; i++) { T[i] = &tbuf[i]; present[i] = 1;
#ifdef CTAGS
    tag[i] = ((u64)CTAGS >> (8 * i)) & 0xff;
#else
    tag[i] = vp_nd();
#endif
    vp_task_init(T[i], tag[i]); }

#if SRC == 0 || SRC == 1
  /* pool entries h..h+N-1; an entry may be a hole (NULL) left by an earlier isolated pop / steal */
  /* head position H and hole pattern PRES (bit i = entry i holds a task) are concrete per query: with symbolic task
     pointers cbmc has to follow every address-taken virtual destructor at the proxy branch of get_task_impl */
  u64 h = H;
  vp_slot_init(S, h, N);
  for (int i = 0; i < N; i++) { present[i] = (PRES >> i) & 1; vp_slot_put(S, h + i, present[i] ? T[i] : 0); }
  int want = -1;
#if SRC == 0
  for (int i = 0; i < N; i++) if (match(i)) want = i;                   /* newest matching task */
  task_t* r = vp_get_task(S, ED, ISO);
#else
  for (int i = N - 1; i >= 0; i--) if (match(i)) want = i;              /* oldest matching task */
  task_t* r = vp_steal_task(S, A, ISO, 0);
#endif
  if (r) {
    int which = -1; for (int i = 0; i < N; i++) if (r == T[i]) which = i;
    VP_ASSERT(which >= 0 && present[which], "returned pointer is not a task of the pool");
    VP_ASSERT(ISO == NOISO || vp_task_iso(r) == ISO, "ISOLATION VIOLATED: task with a different isolation tag handed to an isolated thread");
  }
  VP_ASSERT(r == (want >= 0 ? T[want] : 0), "wrong task selected (not the newest/oldest eligible one, or an eligible task was not found)");
  /* what is left: [head, tail) of the pool if it is still published */
  int st = (int)vp_slot_state(S);
  VP_ASSERT(st == 0 || st == 1, "pool left locked");
  u64 nh = vp_slot_head(S), nt = vp_slot_tail(S);
  int left = 0;
  for (int i = 0; i < N; i++) if (present[i] && i != want) left++;
  if (st == 0) VP_ASSERT(left == 0, "pool unpublished although skipped tasks remain (tasks lost)");
  else {
    /* entries never move (no relocation in get_task / steal_task): position h+i still belongs to entry i. The published
       window [head, tail) must lie inside the original one, contain every remaining task and nothing else */
    VP_ASSERT(nh <= nt && nh >= h && nt <= h + N, "pool window [head, tail) left the original entries (stale slots exposed)");
    for (int i = 0; i < N; i++) {
      int inwin = (h + i >= nh && h + i < nt);
      task_t* e = vp_slot_entry(S, h + i);
      if (present[i] && i != want) { VP_ASSERT(inwin, "skipped task disappeared from the pool window"); VP_ASSERT(e == T[i], "pool content changed for a skipped task"); }
      else if (inwin) VP_ASSERT(e == 0, "the taken task (or a stale entry) is still visible in the pool");
    }
  }
  /* skipped tasks that stay behind must be re-advertised (arena snapshot may otherwise see an empty arena) */
  { int skipped = 0;
#if SRC == 0
    for (int i = 0; i < N; i++) if (present[i] && !match(i) && i > want) skipped = 1;
#else
    for (int i = 0; i < N; i++) if (present[i] && !match(i) && (want < 0 || i < want)) skipped = 1;
#endif
    if (skipped && left > 0) VP_ASSERT(advertised > 0, "tasks were skipped but the arena was not told that work remains");
  }

#elif SRC == 2
  outbox_t* box = &BOX; vp_outbox_init(box);
  int taken[N];
  for (int i = 0; i < N; i++) {
    taken[i] = vp_nd_bool();                   /* task already claimed through the sender's pool: empty shell */
    vp_proxy_init(&pbuf[i], T[i], tag[i], vp_nd_bool(), taken[i], box);
    vp_mail_push(box, &pbuf[i]);
  }
  /* expected: proxies are examined in FIFO order among those with a matching tag; empty shells are freed and skipped */
  int want = -1;
  for (int i = N - 1; i >= 0; i--) if (match(i) && !taken[i]) want = i;
  task_t* r = vp_mail_get(box, ED, ISO);
  if (r) VP_ASSERT(ISO == NOISO || vp_task_iso(r) == ISO, "ISOLATION VIOLATED: mailed task with a different isolation tag handed to an isolated thread");
  VP_ASSERT(r == (want >= 0 ? T[want] : 0), "wrong mailed task selected");
  if (r) VP_ASSERT(vp_ed_affinity(ED) == 0, "affinity slot of a mailed task not reported");
  /* empty shells with a matching tag in front of the taken one were consumed and freed; everything else stays, in order */
  int nfree = 0;
  for (int i = 0; i < N; i++) if (match(i) && taken[i] && (want < 0 || i < want)) { VP_ASSERT(nfree < freed_proxies && freed[nfree] == (u8*)&pbuf[i], "empty proxy not freed in order"); nfree++; }
  VP_ASSERT(freed_proxies == nfree, "a proxy that still carries a task (or a foreign one) was freed");
  for (int i = 0; i < N; i++) {
    int consumed = match(i) && ((taken[i] && (want < 0 || i < want)) || i == want);
    if (consumed) continue;
    proxy_t* p = vp_mail_pop_raw(box, NOISO);
    VP_ASSERT(p == &pbuf[i], "mailbox order / content changed for the skipped proxies");
  }
  VP_ASSERT(vp_mail_empty(box), "mailbox holds an entry that was already handed out");
  /* the queue tail pointer is still sound: a new proxy can be appended and found */
  vp_proxy_init(&pbuf[0], T[0], tag[0], 0, 0, box); vp_mail_push(box, &pbuf[0]);
  VP_ASSERT(vp_mail_pop_raw(box, NOISO) == &pbuf[0], "mailbox tail pointer corrupt after isolated pop");

#elif SRC == 3
  /* lane hints concrete per query (they select which deque object is touched); slot hints stay below the number of
     lanes: init_task_streams(slot index), lane selectors mask */
  u32 push_hint = PH, get_hint = GH;
  vp_arena_init(A, 2);
  for (int i = 0; i < N; i++) vp_crit_push(A, T[i], &push_hint);
  task_t* r = vp_crit_get(A, &get_hint, ISO);
  int any = 0; for (int i = 0; i < N; i++) if (match(i)) any = 1;
  int which = -1; for (int i = 0; i < N; i++) if (r == T[i]) which = i;
  if (r) {
    VP_ASSERT(which >= 0, "returned pointer is not a queued critical task");
    VP_ASSERT(ISO == NOISO || vp_task_iso(r) == ISO, "ISOLATION VIOLATED: critical task with a different isolation tag handed to an isolated thread");
  }
  VP_ASSERT((r != 0) == any, "eligible critical task not found / task invented");
  /* everything else is still there exactly once: drain without isolation */
  int seen[N]; for (int i = 0; i < N; i++) seen[i] = 0;
  for (int k = 0; k < N; k++) {
    u32 hh = 0; task_t* q = vp_crit_get(A, &hh, NOISO);
    if (!q) break;
    int w = -1; for (int i = 0; i < N; i++) if (q == T[i]) w = i;
    VP_ASSERT(w >= 0 && w != which && !seen[w], "critical stream returned a task twice / a foreign pointer");
    seen[w] = 1;
  }
  for (int i = 0; i < N; i++) VP_ASSERT(seen[i] == (i != which), "skipped critical task lost");
  VP_ASSERT(vp_crit_empty(A), "critical stream not empty after draining");
#endif
  VP_REACHED();
  return 0;
}

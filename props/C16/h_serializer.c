/* C16 / serializer: number of worker threads requested from the thread dispatcher.
 * Real code: thread_request_serializer_proxy::{update, set_active_num_workers, register_mandatory_request},
 * thread_request_serializer::{update (packed pending-delta counter), set_active_num_workers, limit_delta}.
 * External boundary: thread_dispatcher::adjust_job_count_estimate(delta) -> ghost counter J (what RML is asked for).
 * Oracle (after every operation): J == min(total demand, effective limit), effective limit = soft limit, except 1 when the
 * soft limit is 0 and a mandatory (enqueue) request is registered.
 *   MODE 0: PART 0 = pure limit_delta lemma at full width; PART 1 = NOPS symbolic operations from a freshly constructed proxy.
 *   MODE 1: one operation (OP concrete: 0 update, 1 set limit, 2 mandatory +1, 3 mandatory -1) from an arbitrary state
 *           satisfying the invariant INV (established by the constructor, preserved by every operation: asserted here). */
#include "w.h"
#include "vp.h"
typedef struct S_class_tbb__detail__r1__thread_request_serializer_proxy proxy_t;
typedef struct S_class_tbb__detail__r1__thread_dispatcher disp_t;

static long long J;                 /* ghost: sum of all adjust_job_count_estimate deltas */
static int n_adjust;
void _ZN3tbb6detail2r117thread_dispatcher25adjust_job_count_estimateEi(disp_t* d, u32 delta) { J += (int)delta; n_adjust++; }
#include "c16_stubs.h"

#define BIG 2147483647   /* INT_MAX: totals, limits and deltas range over every int for which the totals stay non-negative ints */
static long long min2(long long a, long long b) { return a < b ? a : b; }

/* user-level soft limit as the proxy sees it: while mandatory concurrency is enabled the serializer runs with limit 1
   on behalf of a user limit of 0 */
static proxy_t* P;
static void check(long long T, int L, int M, const char* unused) {
  long long eff = (L == 0 && M > 0) ? 1 : L;
  VP_ASSERT(vp_proxy_total(P) == T, "serializer: total request differs from the sum of the demand deltas");
  VP_ASSERT(J == min2(T, eff), "threads requested from the dispatcher != min(total demand, effective soft limit)");
  VP_ASSERT(vp_proxy_pending(P) == vp_pending_base(), "pending-delta counter not back at its base after the aggregation");
  VP_ASSERT(vp_proxy_nmand(P) == M, "mandatory request counter wrong");
  VP_ASSERT((vp_proxy_enabled(P) != 0) == (L == 0 && M > 0), "mandatory concurrency flag != (soft limit 0 and enqueued work registered)");
}

int main(void) {
  static u8 dispatcher_dummy[64];
  disp_t* D = (disp_t*)dispatcher_dummy;
#if MODE == 0 && PART == 0
  /* limit_delta(delta, limit, new): the clamped value moves from min(limit, new-delta) to min(limit, new) */
  int limit = (int)vp_nd(), nv = (int)vp_nd(), delta = (int)vp_nd();
  __CPROVER_assume(limit >= 0 && nv >= 0);            /* limits and totals are non-negative ints */
  __CPROVER_assume((long long)nv - delta >= 0 && (long long)nv - delta <= BIG);   /* so is the previous total (new - delta) */
  int r = (int)vp_limit_delta((u32)delta, (u32)limit, (u32)nv);
  VP_ASSERT((long long)r == min2(limit, nv) - min2(limit, (long long)nv - delta), "limit_delta: wrong clamped difference");
  if (nv >= limit && (long long)nv - delta >= limit) VP_ASSERT(r == 0, "limit_delta: change above the limit must not reach the dispatcher");
  if (nv <= limit && (long long)nv - delta <= limit) VP_ASSERT(r == delta, "limit_delta: change below the limit must pass unchanged");
#elif MODE == 0
  int L = (int)vp_nd_range(0, BIG), M = 0; long long T = 0;
  P = vp_proxy_make(D, (u32)L);
  check(T, L, M, "");
  for (int i = 0; i < NOPS; i++) {
    unsigned op = (unsigned)vp_nd_range(0, 3);
    if (op == 0) {
      int d = (int)vp_nd(); __CPROVER_assume(T + d >= 0 && T + d <= BIG);
      vp_proxy_update(P, (u32)d); T += d;
    } else if (op == 1) {
      L = (int)vp_nd_range(0, BIG); vp_proxy_set_limit(P, (u32)L);
    } else if (op == 2) { vp_proxy_mandatory(P, 1); M++; }
    else { __CPROVER_assume(M > 0); vp_proxy_mandatory(P, (u32)-1); M--; }
    check(T, L, M, "");
  }
#else
  /* arbitrary state satisfying INV: total T>=0, user limit L>=0, M>=0 mandatory requests, flag == (L==0 && M>0),
     serializer limit = effective limit, J == min(T, eff) */
  int L = (int)vp_nd_range(0, BIG), M = (int)vp_nd_range(0, BIG - 1); long long T = (long long)vp_nd_range(0, BIG);
  int en = (L == 0 && M > 0);
  P = vp_proxy_make(D, (u32)(en ? 1 : L));
  vp_proxy_inject(P, (u32)T, (u32)M, (u32)en);
  J = min2(T, en ? 1 : L);
  check(T, L, M, "");
#if OP == 0
  int d = (int)vp_nd(); __CPROVER_assume(T + d >= 0 && T + d <= BIG);
  vp_proxy_update(P, (u32)d); T += d;
#elif OP == 1
  L = (int)vp_nd_range(0, BIG); vp_proxy_set_limit(P, (u32)L);
#elif OP == 2
  vp_proxy_mandatory(P, 1); M++;
#else
  __CPROVER_assume(M > 0); vp_proxy_mandatory(P, (u32)-1); M--;
#endif
  check(T, L, M, "");
#endif
  VP_REACHED();
  return 0;
}

/* threading_control boundary of arena::on_thread_leaving (thread-mode units). The model threads never drop the arena's
   last reference (the task_arena object keeps its external reference), so destruction is never requested. */
#ifndef C16_TC_STUBS_H
#define C16_TC_STUBS_H
void _ZN3tbb6detail2r117threading_control26prepare_client_destructionENS1_24threading_control_clientE(
    struct S_struct_tbb__detail__r1__threading_control_impl__client_snapshot* out, struct S_class_tbb__detail__r1__threading_control* tc,
    struct S_class_tbb__detail__r1__pm_client* pc, struct S_class_tbb__detail__r1__thread_dispatcher_client* dc) { memset(out, 0, sizeof *out); }
u8 _ZN3tbb6detail2r117threading_control18try_destroy_clientENS1_22threading_control_impl15client_snapshotE(
    struct S_class_tbb__detail__r1__threading_control* tc, struct S_struct_tbb__detail__r1__threading_control_impl__client_snapshot* s) {
  VP_ASSERT(0, "arena reference count dropped to zero while the task_arena still holds its reference");
  return 0;
}
void _ZN3tbb6detail2r15arena10free_arenaEv(struct S_class_tbb__detail__r1__arena* a) { VP_ASSERT(0, "free_arena reached"); }
void _ZN3tbb6detail2r15arena11out_of_workEv(struct S_class_tbb__detail__r1__arena* a) { VP_ASSERT(0, "out_of_work reached from a worker leaving"); }
/* thread_data constructor: lazily initialised default context */
void _ZN3tbb6detail2r110initializeERNS0_2d118task_group_contextE(struct S_class_tbb__detail__d1__task_group_context* c) {}
#endif

// Observation found by the C16 allot harness (not a C16 violation in release builds; see NOTES.md):
// market::update_allotment(), soft limit 0 (global_control max_allowed_parallelism = 1):
//   effective_soft_limit = 1 as soon as ANY arena has a mandatory (enqueue) request, max_workers = min(total demand, 1),
//   but the worker is only handed to a client with min_workers() > 0 AND max_workers() > 0.
// If the arena that holds the mandatory request currently has demand 0 (its worker slot is taken by an external thread,
// which subtracts 1 from the arena's request) while ANOTHER arena has demand, nobody receives the worker:
//   assigned (0) != max_workers (1)  ->  __TBB_ASSERT(assigned == max_workers) fails in a debug build of oneTBB,
//   and in a release build one RML thread is requested (serializer: min(total, 1) = 1) that no arena can take.
//
// Scenario: arena A = task_arena(2, 1) (1 reserved + 1 worker slot). Thread X executes in A's reserved slot, thread Y
// executes in A's worker slot (request_workers(0, -1)); inside, Y enqueues a task into A (mandatory +1, workers +1 -> the
// arena's accumulated request is 0, demand 0, min_workers 1). Main thread then runs a parallel_for in its own (implicit)
// arena B -> adjust_demand(B, 0, +n) -> update_allotment with the state above.
//
// Build against a DEBUG libtbb to see the assertion:
//   g++ -std=c++17 -O1 -DTBB_USE_DEBUG=1 -I/repo/include repro_mandatory_corner.cpp -L<debug build dir> -ltbb_debug -lpthread
#include <oneapi/tbb/task_arena.h>
#include <oneapi/tbb/global_control.h>
#include <oneapi/tbb/parallel_for.h>
#include <atomic>
#include <thread>
#include <chrono>
#include <cstdio>

int main() {
  tbb::global_control gc(tbb::global_control::max_allowed_parallelism, 1);   // soft limit 0
  tbb::task_arena A(2, 1);
  A.initialize();
  std::atomic<int> stage{0};
  std::atomic<bool> ran{false};
  std::thread X([&] { A.execute([&] { stage++; while (stage < 4) std::this_thread::yield(); }); });
  while (stage < 1) std::this_thread::yield();            // X sits in slot 0 (reserved)
  std::thread Y([&] {
    A.execute([&] {                                        // Y takes slot 1 (worker slot): request -1
      A.enqueue([&] { ran = true; });                      // mandatory +1, workers +1  -> demand 0, min_workers 1
      stage = 2;
      while (stage < 4) std::this_thread::yield();
    });
  });
  while (stage < 2) std::this_thread::yield();
  // another arena (the main thread's implicit one) now asks for workers: update_allotment runs in the corner state
  std::atomic<long> sum{0};
  tbb::parallel_for(0, 1000, [&](int i) { sum += i; });
  std::printf("parallel_for in the second arena finished (sum=%ld); no debug assertion fired\n", sum.load());
  stage = 4;
  X.join(); Y.join();
  for (int i = 0; i < 300 && !ran; i++) std::this_thread::sleep_for(std::chrono::milliseconds(10));
  std::printf("enqueued task ran: %s\n", ran ? "yes" : "NO");
  return 0;
}

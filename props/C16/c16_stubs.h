/* external boundaries shared by the C16 harnesses (documented contracts) */
#ifndef C16_STUBS_H
#define C16_STUBS_H
/* r1::cache_aligned_allocate / allocate_memory: fresh storage, never NULL (allocation failure is C18's subject) */
#ifndef VP_OWN_CAA
u8* _ZN3tbb6detail2r122cache_aligned_allocateEm(u64 n) { u8* p = malloc(n); __CPROVER_assume(p != 0); return p; }
void _ZN3tbb6detail2r124cache_aligned_deallocateEPv(u8* p) { free(p); }
#endif
u8* _ZN3tbb6detail2r115allocate_memoryEm(u64 n) { u8* p = malloc(n); __CPROVER_assume(p != 0); return p; }
void _ZN3tbb6detail2r117deallocate_memoryEPv(u8* p) { free(p); }
/* futex-style wake-ups issued by d1::mutex / rw_mutex unlock: nobody sleeps in a sequential harness */
void _ZN3tbb6detail2r121notify_by_address_oneEPv(u8* a) {}
void _ZN3tbb6detail2r121notify_by_address_allEPv(u8* a) {}
#endif

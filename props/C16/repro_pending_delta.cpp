// Reproducer probe: task_arena with max_concurrency > 32768: packed pending-delta counter in
// thread_request_serializer::update truncates the demand delta to 16 bits.
#include <oneapi/tbb/task_arena.h>
#include <oneapi/tbb/parallel_for.h>
#include <oneapi/tbb/global_control.h>
#include <atomic>
#include <thread>
#include <chrono>
#include <cstdio>
#include <set>
#include <mutex>
int main(int argc, char** argv) {
  int conc = argc > 1 ? atoi(argv[1]) : 40000;
  tbb::task_arena a(conc);
  std::atomic<bool> ran{false};
  a.enqueue([&] { ran = true; });
  for (int i = 0; i < 300 && !ran; i++) std::this_thread::sleep_for(std::chrono::milliseconds(10));
  printf("concurrency=%d enqueued task ran within 3s: %s\n", conc, ran ? "yes" : "NO");
  return ran ? 0 : 1;
}

// C16 wrapper (thread-mode unit): threads entering / leaving one arena.
// Real code: arena::allocate_arena + arena::arena (sequential set-up), arena::try_join, arena::occupy_free_slot<as_worker>,
// arena::occupy_free_slot_in_range, arena_slot::try_occupy / release, atomic_update(my_limit), thread_data::attach_arena,
// arena::on_thread_leaving(ref_worker) (reference arithmetic; threading_control calls are external stubs).
// The callers of these functions (arena::process for workers, task_arena_impl::execute + nested_arena_context for
// external threads) contain the dispatch loop / FPU inline asm and are cut; the thread bodies below perform the same
// call sequence around the "thread is inside the arena" window.
#include "vp_std.h"
#define try if (true)
#define catch(...) else if (false)
#define throw
#include "src/tbb/arena.cpp"
#undef try
#undef catch
#undef throw
using namespace tbb::detail;
using namespace tbb::detail::r1;

extern "C" void vp_visit_begin(int tid);                        // observer: worker is about to ask for admission (try_join)
extern "C" void vp_scan_begin(int tid, int worker);             // observer: thread starts looking for a slot
extern "C" void vp_refused(int tid);                            // observer: worker not admitted by try_join
extern "C" void vp_noslot(int tid, int worker);                 // observer: no free slot found
extern "C" void vp_inside(int tid, unsigned long idx, int worker);   // observer: thread owns slot idx (current_thread_index)
extern "C" void vp_outside(int tid, unsigned long idx, int worker);  // observer: thread is about to give the slot back

static inline __attribute__((always_inline)) void visit(arena* a, thread_data* td, int tid, int worker) {
  if (worker) {
    // thread_dispatcher::client_in_need -> thread_dispatcher_client::try_join -> arena::try_join; then arena::process
    vp_visit_begin(tid);
    if (!a->try_join()) { vp_refused(tid); return; }
    vp_scan_begin(tid, 1);
    std::size_t idx = a->occupy_free_slot</*as_worker*/true>(*td);
    if (idx == arena::out_of_arena) { vp_noslot(tid, 1); a->on_thread_leaving(arena::ref_worker); return; }
    td->attach_arena(*a, idx);
    vp_inside(tid, idx, 1);
    vp_outside(tid, idx, 1);
    td->my_arena_slot->release();
    td->my_arena_slot = nullptr;
    a->on_thread_leaving(arena::ref_worker);
  } else {
    // task_arena_impl::execute: occupy_free_slot<false>, nested_arena_context (attach_arena ... release)
    vp_scan_begin(tid, 0);
    std::size_t idx = a->occupy_free_slot</*as_worker*/false>(*td);
    if (idx == arena::out_of_arena) { vp_noslot(tid, 0); return; }
    td->attach_arena(*a, idx);
    vp_inside(tid, idx, 0);
    vp_outside(tid, idx, 0);
    td->my_arena_slot->release();
  }
}

extern "C" {
// one model thread: nvisit (1 or 2) visits of the arena in the given role
void vp_thr_visit(arena* a, thread_data* td, int tid, int worker, int nvisit) {
  visit(a, td, tid, worker);
  if (nvisit > 1) visit(a, td, tid, worker);
}

// ---- sequential set-up / inspection
// White-box arena: the real arena::allocate_arena + constructor (task streams with std::deque lanes, one task_dispatcher and
// a task_group_context per slot) is too heavy for the thread-mode encoding, and none of it is touched by slot acquisition.
// Storage has the real layout (mailboxes below the arena, slots after arena_base), is zeroed like allocate_arena does,
// and gets exactly the scalar fields the constructor stores; mailboxes are constructed for real.
arena* vp_arena_make(unsigned char* storage, threading_control* tc, unsigned num_slots, unsigned reserved) {
  // storage: zero-initialised, laid out [n_slots mail_outbox][arena (base + slot 0)][n_slots-1 arena_slot], provided by the
  // harness as ONE typed object (cbmc then tracks it per field instead of per byte). The task_dispatcher area that
  // allocation_size() appends is not part of it: no encoded function touches a dispatcher.
  unsigned n_slots = arena::num_arena_slots(num_slots, reserved);
  arena* a = reinterpret_cast<arena*>(storage + n_slots * sizeof(mail_outbox));
  a->my_threading_control = tc;
  a->my_limit = 1;
  a->my_num_slots = n_slots;
  a->my_num_reserved_slots = reserved;
  a->my_max_num_workers = num_slots - reserved;
  a->my_priority_level = 1;
  a->my_references = arena::ref_external;
  a->my_mandatory_requests = 0;
  for (unsigned i = 0; i < n_slots; ++i) {
    a->mailbox(i).construct();
    a->my_slots[i].init_task_streams(i);
    a->my_slots[i].my_is_occupied.store(false, std::memory_order_relaxed);
  }
  return a;
}
unsigned long vp_sizeof_arena() { return sizeof(arena); }
unsigned long vp_sizeof_slot() { return sizeof(arena_slot); }
unsigned long vp_sizeof_outbox() { return sizeof(mail_outbox); }
unsigned long vp_sizeof_td() { return sizeof(thread_data); }
thread_data* vp_td_make(void* storage, unsigned short index, int worker, unsigned seed_x, unsigned seed_c) {
  thread_data* td = new (storage) thread_data{index, worker != 0};      // real constructor on typed harness storage
  td->my_random.x = seed_x; td->my_random.c = seed_c | 1;      // any generator state (c is kept odd by FastRandom::init)
  return td;
}
void vp_arena_set_allotment(arena* a, unsigned n) { a->set_allotment(n); }
unsigned vp_arena_num_slots(arena* a) { return a->my_num_slots; }
unsigned vp_arena_reserved(arena* a) { return a->my_num_reserved_slots; }
unsigned vp_arena_limit(arena* a) { return a->my_limit.load(std::memory_order_relaxed); }
unsigned vp_arena_refs(arena* a) { return a->my_references.load(std::memory_order_relaxed); }
unsigned vp_arena_workers_active(arena* a) { return a->num_workers_active(); }
unsigned vp_ref_external() { return arena::ref_external; }
unsigned vp_ref_worker() { return arena::ref_worker; }
int vp_slot_occupied(arena* a, unsigned i) { return a->my_slots[i].is_occupied(); }
void vp_slot_force(arena* a, unsigned i, int occ) { a->my_slots[i].my_is_occupied.store(occ != 0, std::memory_order_relaxed); }
unsigned vp_td_index(thread_data* td) { return td->my_arena_index; }
}

/* link-time stubs for the translator selftest (real C++ object and generated C use the same mangled names) */
#include <stdint.h>
#include <stdlib.h>
void* _ZN3tbb6detail2r122cache_aligned_allocateEm(uint64_t n) { return aligned_alloc(128, (n + 127) & ~127ull); }
void _ZN3tbb6detail2r124cache_aligned_deallocateEPv(void* p) { free(p); }
void* _ZN3tbb6detail2r115allocate_memoryEm(uint64_t n) { return malloc(n); }
void _ZN3tbb6detail2r117deallocate_memoryEPv(void* p) { free(p); }
void _ZN3tbb6detail2r121notify_by_address_oneEPv(void* a) {}
void _ZN3tbb6detail2r121notify_by_address_allEPv(void* a) {}
uint32_t vpx_sched_yield(void) { return 0; }
void __CPROVER_fence(const char* a, ...) {}   /* generated C emits it for seq_cst fences; cbmc builtin, no-op natively */
/* iso unit */
void _ZN3tbb6detail2r15arena18advertise_new_workILNS2_13new_work_typeE1EEEvv(void* a) {}
void _ZN3tbb6detail2r15arena18advertise_new_workILNS2_13new_work_typeE2EEEvv(void* a) {}
void _ZN3tbb6detail2r110deallocateERNS0_2d117small_object_poolEPvmRKNS2_14execution_dataE(void* pool, void* p, uint64_t n, void* ed) {}

// C16 wrapper (sequential unit): worker-budget arithmetic.
//   real market.cpp (update_allotment, adjust_demand, set_active_num_workers, register_client),
//   real thread_request_serializer.cpp (limit_delta, update, proxy / mandatory concurrency),
//   real arena.cpp (arena::update_request clamping, set_allotment, set_top_priority).
// task_dispatcher.h (pulled in by arena.cpp) contains a raw try/catch that does not compile with -fno-exceptions;
// the three keywords are neutralised by macros AFTER the standard headers have been seen. None of the functions
// encoded by the harnesses contains a try block (the dispatch loop itself is not part of this unit).
#include "vp_std.h"
#define try if (true)
#define catch(...) else if (false)
#define throw
#include "src/tbb/market.cpp"
#include "src/tbb/thread_request_serializer.cpp"
#include "src/tbb/arena.cpp"
#include "src/tbb/threading_control.cpp"
#undef try
#undef catch
#undef throw
using namespace tbb::detail;
using namespace tbb::detail::r1;

extern "C" void vp_emit(unsigned long v);

extern "C" {
// ---------------- thread_request_serializer(_proxy)
int vp_limit_delta(int delta, int limit, int new_value) { return thread_request_serializer::limit_delta(delta, limit, new_value); }
thread_request_serializer_proxy* vp_proxy_make(thread_dispatcher* td, int soft_limit) {
  return new (cache_aligned_allocate(sizeof(thread_request_serializer_proxy))) thread_request_serializer_proxy(*td, soft_limit);
}
void vp_proxy_update(thread_request_serializer_proxy* p, int delta) { p->update(delta); }
void vp_proxy_set_limit(thread_request_serializer_proxy* p, int soft_limit) { p->set_active_num_workers(soft_limit); }
void vp_proxy_mandatory(thread_request_serializer_proxy* p, int d) { p->register_mandatory_request(d); }
int vp_proxy_total(thread_request_serializer_proxy* p) { return p->num_workers_requested(); }
int vp_proxy_limit(thread_request_serializer_proxy* p) { return p->my_serializer.my_soft_limit; }
int vp_proxy_enabled(thread_request_serializer_proxy* p) { return p->my_is_mandatory_concurrency_enabled; }
int vp_proxy_nmand(thread_request_serializer_proxy* p) { return p->my_num_mandatory_requests.load(std::memory_order_relaxed); }
unsigned long vp_proxy_pending(thread_request_serializer_proxy* p) { return p->my_serializer.my_pending_delta.load(std::memory_order_relaxed); }
// white-box state injection for the inductive-step harness (total request, number of mandatory requests, proxy flag)
void vp_proxy_inject(thread_request_serializer_proxy* p, int total, int nmand, int enabled) {
  p->my_serializer.my_total_request.store(total, std::memory_order_relaxed);
  p->my_num_mandatory_requests.store(nmand, std::memory_order_relaxed);
  p->my_is_mandatory_concurrency_enabled = enabled != 0;
}
unsigned long vp_pending_base() { return thread_request_serializer::pending_delta_base; }

// ---------------- market + clients
// The arena behind a permit-manager client is used by the market only as a record of six scalar fields
// (my_max_num_workers, my_num_reserved_slots, my_priority_level, my_total_num_workers_requested, my_mandatory_requests,
// my_num_workers_allotted / my_is_top_priority): it is created here as zeroed arena storage with exactly the values the
// arena constructor would store for (num_slots = max_workers + reserved, reserved) -- white-box, no slots/dispatchers.
arena* vp_arena_record(unsigned max_workers, unsigned reserved, unsigned prio) {
  void* mem = cache_aligned_allocate(sizeof(arena));
  std::memset(mem, 0, sizeof(arena));
  arena* a = static_cast<arena*>(mem);
  a->my_num_slots = arena::num_arena_slots(max_workers + reserved, reserved);
  a->my_num_reserved_slots = reserved;
  a->my_max_num_workers = max_workers;
  a->my_priority_level = prio;
  a->my_references = arena::ref_external;
  a->my_mandatory_requests = 0;
  return a;
}
market* vp_market_make(unsigned soft_limit) { return new (cache_aligned_allocate(sizeof(market))) market(soft_limit); }
void vp_market_observer(market* m, thread_request_serializer_proxy* p) { m->set_thread_request_observer(*p); }
pm_client* vp_market_add(market* m, arena* a) {
  pm_client* c = m->create_client(*a);
  d1::constraints cs;
  m->register_client(c, cs);
  return c;
}
void vp_market_remove(market* m, pm_client* c) { m->unregister_and_destroy_client(*c); }
void vp_market_adjust(market* m, pm_client* c, int mandatory_delta, int workers_delta) { m->adjust_demand(*c, mandatory_delta, workers_delta); }
void vp_market_set_limit(market* m, int soft_limit) { m->set_active_num_workers(soft_limit); }
// State injection for the one-step harness: the client's request is changed through the real pm_client::update_request
// (-> real arena::update_request clamping); the market's three counters are moved the way market::adjust_demand moves
// them, but update_allotment is NOT run (the allotment left behind is arbitrary: stale values are injected separately).
void vp_market_inject(market* m, pm_client* c, int mandatory_delta, int workers_delta) {
  int delta = c->update_request(mandatory_delta, workers_delta);
  m->my_total_demand += delta;
  m->my_priority_level_demand[c->priority_level()] += delta;
  m->my_mandatory_num_requested += mandatory_delta;
}
void vp_arena_stale(arena* a, unsigned allotted, int top) {
  a->my_num_workers_allotted.store(allotted, std::memory_order_relaxed);
  a->my_is_top_priority.store(top != 0, std::memory_order_relaxed);
}
// proxy state for (total request, mandatory requests, user soft limit) as characterised by the invariant that
// h_serializer.c MODE 1 shows to be established by the constructor and preserved by every operation
void vp_proxy_inject2(thread_request_serializer_proxy* p, int total, int nmand, int soft_limit) {
  bool en = soft_limit == 0 && nmand > 0;
  p->my_serializer.my_total_request.store(total, std::memory_order_relaxed);
  p->my_serializer.my_soft_limit = en ? 1 : soft_limit;
  p->my_num_mandatory_requests.store(nmand, std::memory_order_relaxed);
  p->my_is_mandatory_concurrency_enabled = en;
}
int vp_market_total(market* m) { return m->my_total_demand; }
int vp_market_level(market* m, unsigned p) { return m->my_priority_level_demand[p]; }
int vp_market_limit(market* m) { return m->my_num_workers_soft_limit; }
int vp_market_nmand(market* m) { return m->my_mandatory_num_requested; }
unsigned vp_num_levels() { return market::num_priority_levels; }
int vp_client_max(pm_client* c) { return c->max_workers(); }
int vp_client_min(pm_client* c) { return c->min_workers(); }
unsigned vp_arena_allotted(arena* a) { return a->my_num_workers_allotted.load(std::memory_order_relaxed); }
int vp_arena_top(arena* a) { return a->is_top_priority(); }
int vp_arena_requested(arena* a) { return a->my_total_num_workers_requested; }
int vp_arena_mandatory(arena* a) { return a->my_mandatory_requests; }

// ---------------- threading_control_impl glue (real adjust_demand / set_active_num_workers over market + serializer proxy)
// Built like threading_control_impl's constructor, minus the RML server (thread_dispatcher: external boundary, a dummy
// object whose only used entry point adjust_job_count_estimate is a harness stub), the cancellation disseminator and the
// waiting-threads monitor (not touched by the encoded functions).
threading_control_impl* vp_tc_make(thread_dispatcher* td, unsigned soft_limit) {
  void* mem = cache_aligned_allocate(sizeof(threading_control_impl));
  std::memset(mem, 0, sizeof(threading_control_impl));
  threading_control_impl* tc = static_cast<threading_control_impl*>(mem);
  new (&tc->my_permit_manager) cache_aligned_unique_ptr<permit_manager>(threading_control_impl::make_permit_manager(soft_limit));
  new (&tc->my_thread_dispatcher) cache_aligned_unique_ptr<thread_dispatcher>(td);
  new (&tc->my_thread_request_serializer) cache_aligned_unique_ptr<thread_request_serializer_proxy>(
      make_cache_aligned_unique<thread_request_serializer_proxy>(*td, soft_limit));
  tc->my_permit_manager->set_thread_request_observer(*tc->my_thread_request_serializer);
  return tc;
}
market* vp_tc_market(threading_control_impl* tc) { return static_cast<market*>(tc->my_permit_manager.get()); }
thread_request_serializer_proxy* vp_tc_proxy(threading_control_impl* tc) { return tc->my_thread_request_serializer.get(); }
void vp_tc_adjust(threading_control_impl* tc, pm_client* c, int mandatory_delta, int workers_delta) {
  tc->adjust_demand(threading_control_client{c, reinterpret_cast<thread_dispatcher_client*>(c)}, mandatory_delta, workers_delta);
}
void vp_tc_set_limit(threading_control_impl* tc, unsigned soft_limit) { tc->set_active_num_workers(soft_limit); }

// ---------------- translator validation vectors (real C++ vs generated C)
void vp_selftest() {
  int v[] = {0, 1, -1, 2, 7, -7, 100, 32767, -32768, 65536, 1 << 20, -(1 << 20)};
  for (int d : v) for (int l : v) for (int n : v) vp_emit((unsigned)thread_request_serializer::limit_delta(d, l, n));
  for (unsigned limit = 0; limit < 6; limit++) {
    market* m = vp_market_make(limit);
    arena* a[3]; pm_client* c[3];
    unsigned mw[3] = {3, 0, 5}, pr[3] = {1, 0, 1};
    for (int i = 0; i < 3; i++) { a[i] = vp_arena_record(mw[i], 1, pr[i]); c[i] = vp_market_add(m, a[i]); }
    // demand changes are applied without the observer (notify is a no-op for delta 0 only): use update_request + fields
    int dm[3] = {0, 1, 0}, dw[3] = {3, 1, 4};
    for (int i = 0; i < 3; i++) {
      int delta = c[i]->update_request(dm[i], dw[i]);
      m->my_total_demand += delta; m->my_priority_level_demand[pr[i]] += delta; m->my_mandatory_num_requested += dm[i];
      m->update_allotment();
      for (int k = 0; k < 3; k++) { vp_emit(vp_arena_allotted(a[k])); vp_emit(vp_arena_top(a[k])); vp_emit(vp_client_max(c[k])); }
    }
  }
}
}

// C16 wrapper (sequential unit): isolation filtering at every place a waiting thread takes a task from.
//   arena_slot::get_task / get_task_impl (own pool), arena_slot::steal_task (victim pool),
//   mail_inbox::pop / mail_outbox::internal_pop + task_dispatcher::get_mailbox_task (affinity mailbox),
//   arena::get_critical_task -> task_stream<back_nonnull_accessor>::pop_specific / look_specific / pop (critical stream).
#include "vp_std.h"
#define try if (true)
#define catch(...) else if (false)
#define throw
#include "src/tbb/arena.cpp"
#include "src/tbb/arena_slot.cpp"
#undef try
#undef catch
#undef throw
using namespace tbb::detail;
using namespace tbb::detail::r1;
extern "C" void vp_emit(unsigned long v);

extern "C" {
unsigned long vp_sizeof_task() { return sizeof(d1::task); }
unsigned long vp_sizeof_proxy() { return sizeof(task_proxy); }
long vp_no_isolation() { return (long)no_isolation; }
// tasks are plain (zero-initialised, typed) storage owned by the harness: only the reserved words the dispatcher
// interprets are set (no task vtable is ever used by the encoded functions)
void vp_task_init(d1::task* t, long iso) { t->m_version_and_traits = 0; task_accessor::isolation(*t) = iso; }
long vp_task_iso(d1::task* t) { return task_accessor::isolation(*t); }

// ---- execution context: dispatcher -> thread_data -> arena / slot. The three objects are zero-initialised typed globals
// of the harness; only the links the encoded functions follow are set (white-box).
void vp_ed_link(execution_data_ext* ed, task_dispatcher* d, thread_data* td, arena* a, arena_slot* s, unsigned short index) {
  d->m_thread_data = td; td->my_arena = a; td->my_arena_slot = s; td->my_arena_index = index; td->my_task_dispatcher = d;
  ed->task_disp = d; ed->original_slot = index; ed->affinity_slot = d1::no_slot; ed->isolation = no_isolation;
  d->m_execute_data_ext.task_disp = d;
}
unsigned vp_ed_affinity(execution_data_ext* ed) { return ed->affinity_slot; }
unsigned vp_ed_original(execution_data_ext* ed) { return ed->original_slot; }
unsigned long vp_sizeof_arena() { return sizeof(arena); }
unsigned long vp_sizeof_slot() { return sizeof(arena_slot); }
unsigned long vp_sizeof_outbox() { return sizeof(mail_outbox); }

// ---- white-box arena record (zero-initialised typed global of the harness, one slot): the scalar fields the constructor
// stores + the critical task stream initialised by the real task_stream::initialize
void vp_arena_init(arena* a, unsigned n_slots) {
  a->my_limit = n_slots; a->my_num_slots = n_slots; a->my_num_reserved_slots = 1; a->my_max_num_workers = n_slots - 1;
  a->my_references = arena::ref_external;
  a->my_slots[0].init_task_streams(0);
  a->my_critical_task_stream.initialize(n_slots);
}
void vp_outbox_init(mail_outbox* b) { b->construct(); }

// ---- own / victim task pool: allocated by the real prepare_task_pool, n entries at [h, h+n), published iff n > 0
void vp_slot_init(arena_slot* s, unsigned long h, unsigned long n) {
  s->my_is_occupied.store(true, std::memory_order_relaxed);
  s->task_pool_ptr = nullptr; s->my_task_pool_size = 0;
  s->tail.store(0, std::memory_order_relaxed); s->head.store(0, std::memory_order_relaxed);
  s->task_pool.store(EmptyTaskPool, std::memory_order_relaxed);
  (void)s->prepare_task_pool(1);
  s->head.store(h, std::memory_order_relaxed); s->tail.store(h + n, std::memory_order_relaxed);
  if (n) s->task_pool.store(s->task_pool_ptr, std::memory_order_relaxed);
}
void vp_slot_put(arena_slot* s, unsigned long i, d1::task* t) { s->task_pool_ptr[i] = t; }
d1::task* vp_slot_entry(arena_slot* s, unsigned long i) { return s->task_pool_ptr[i]; }
unsigned long vp_slot_head(arena_slot* s) { return s->head.load(std::memory_order_relaxed); }
unsigned long vp_slot_tail(arena_slot* s) { return s->tail.load(std::memory_order_relaxed); }
int vp_slot_state(arena_slot* s) { d1::task** p = s->task_pool.load(std::memory_order_relaxed); return p == EmptyTaskPool ? 0 : p == LockedTaskPool ? 2 : p == s->task_pool_ptr ? 1 : 3; }
// entry guards as in task_dispatcher::local_wait_for_all (get_task only on a published pool) and arena::steal_task
d1::task* vp_get_task(arena_slot* s, execution_data_ext* ed, long iso) { return s->is_task_pool_published() ? s->get_task(*ed, iso) : nullptr; }
d1::task* vp_steal_task(arena_slot* victim, arena* a, long iso, unsigned long victim_index) {
  if (victim->task_pool.load(std::memory_order_relaxed) == EmptyTaskPool) return nullptr;
  return victim->steal_task(*a, iso, victim_index);
}

// ---- affinity mailbox
void vp_proxy_init(task_proxy* p, d1::task* t, long iso, int shared_with_pool, int already_taken, mail_outbox* box) {
  // p is zero-initialised typed storage of the harness. No constructor / memset on it (a byte-wise fill makes cbmc lose
  // the per-field view of the object); the vtable pointer is copied from a real task_proxy because
  // small_object_allocator::delete_object runs the virtual destructor.
  task_proxy proto;                              // automatic object: no guarded static initialisation
  *reinterpret_cast<void**>(p) = *reinterpret_cast<void**>(&proto);
  p->m_version_and_traits = 0;
  p->next_in_mailbox.store(nullptr, std::memory_order_relaxed);
  task_accessor::set_proxy_trait(*p);
  task_accessor::isolation(*p) = iso;       // task_dispatcher copies the task's tag to its proxy when it mails it
  p->outbox = box; p->slot = 1;
  // a mailed proxy is referenced from the mailbox and (normally) from the sender's pool; the pool side may already have
  // taken the task (then only the mailbox bit is left and the proxy is an empty shell the receiver must free)
  std::intptr_t tat = already_taken ? task_proxy::mailbox_bit
                    : (std::intptr_t)t | task_proxy::mailbox_bit | (shared_with_pool ? task_proxy::pool_bit : 0);
  p->task_and_tag.store(tat, std::memory_order_relaxed);
}
void vp_mail_push(mail_outbox* b, task_proxy* p) { b->push(p); }
int vp_mail_empty(mail_outbox* b) { return b->empty(); }
d1::task* vp_mail_get(mail_outbox* b, execution_data_ext* ed, long iso) {
  mail_inbox& in = ed->task_disp->m_thread_data->my_inbox;
  in.attach(*b);
  return ed->task_disp->get_mailbox_task(in, *ed, iso);
}
task_proxy* vp_mail_pop_raw(mail_outbox* b, long iso) { mail_inbox in; in.attach(*b); return in.pop(iso); }
long vp_proxy_tat(task_proxy* p) { return p->task_and_tag.load(std::memory_order_relaxed); }

// ---- critical task stream
void vp_crit_push(arena* a, d1::task* t, unsigned* lane_hint) { a->my_critical_task_stream.push(t, subsequent_lane_selector(*lane_hint)); }
d1::task* vp_crit_get(arena* a, unsigned* hint, long iso) { return a->get_critical_task(*hint, iso); }
int vp_crit_empty(arena* a) { return a->my_critical_task_stream.empty(); }

// ---- translator validation
void vp_selftest() {
  static d1::task* T[4]; alignas(64) static unsigned char tb[4][sizeof(d1::task)];
  long tags[4] = {0, 5, 7, 5};
  for (int i = 0; i < 4; i++) { T[i] = (d1::task*)tb[i]; }
  long isos[3] = {0, 5, 9};
  for (long iso : isos) {
    alignas(128) static unsigned char ab[sizeof(arena)], sb[sizeof(arena_slot)], db[sizeof(task_dispatcher)], tdb[sizeof(thread_data)], eb[sizeof(execution_data_ext)];
    std::memset(ab, 0, sizeof ab); std::memset(sb, 0, sizeof sb); std::memset(db, 0, sizeof db); std::memset(tdb, 0, sizeof tdb); std::memset(eb, 0, sizeof eb);
    arena* a = (arena*)ab; arena_slot* s = (arena_slot*)sb; execution_data_ext* ed = (execution_data_ext*)eb;
    vp_arena_init(a, 2);
    a->my_pool_state.test_and_set();   // real build of the selftest: advertise_new_work<wakeup> then finds the flag set and stops (no threading_control)
    vp_ed_link(ed, (task_dispatcher*)db, (thread_data*)tdb, a, s, 0);
    for (int i = 0; i < 4; i++) vp_task_init(T[i], tags[i]);
    vp_slot_init(s, 1, 4);
    for (int i = 0; i < 4; i++) vp_slot_put(s, 1 + i, T[i]);
    for (int k = 0; k < 5; k++) {
      d1::task* r = vp_get_task(s, ed, iso);
      int which = -1; for (int i = 0; i < 4; i++) if (r == T[i]) which = i;
      vp_emit(which + 1); vp_emit(vp_slot_head(s)); vp_emit(vp_slot_tail(s)); vp_emit(vp_slot_state(s));
    }
    vp_slot_init(s, 0, 4);
    for (int i = 0; i < 4; i++) vp_slot_put(s, i, T[i]);
    for (int k = 0; k < 5; k++) {
      d1::task* r = vp_steal_task(s, a, iso, 0);
      int which = -1; for (int i = 0; i < 4; i++) if (r == T[i]) which = i;
      vp_emit(which + 1); vp_emit(vp_slot_head(s)); vp_emit(vp_slot_tail(s)); vp_emit(vp_slot_state(s));
    }
    unsigned hint = 0, gh = 1;
    for (int i = 0; i < 4; i++) vp_crit_push(a, T[i], &hint);
    for (int k = 0; k < 5; k++) {
      d1::task* r = vp_crit_get(a, &gh, iso);
      int which = -1; for (int i = 0; i < 4; i++) if (r == T[i]) which = i;
      vp_emit(which + 1); vp_emit(vp_crit_empty(a));
    }
  }
}
}

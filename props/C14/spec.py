PROPERTY = 'C14'
FG = dict(mode='seq', looporder=True, cut=['prioritize_task'], devirt=True, prune=True, inline_threshold=300, m1ptr=True)
UNITS = {
  'fq': dict(FG, wrapper='w_fnode.cpp', cxxflags=['-DPOL=0']),
  'fr': dict(FG, wrapper='w_fnode.cpp', cxxflags=['-DPOL=1']),
  'fql': dict(FG, wrapper='w_fnode.cpp', cxxflags=['-DPOL=2']),
  'frl': dict(FG, wrapper='w_fnode.cpp', cxxflags=['-DPOL=3']),
}
FS = ['--max-field-sensitivity-array-size', '600', '--object-bits', '12', '--no-sat-preprocessor']
HARNESSES = [
  dict(name='fnode_queueing', unit='fq', harness='h_fnode.c', cbmc=['--unwind', '16'] + FS, defines={'memset': 'vp_memset', 'REJ': 0},
       scenarios=[{'CONC': 1, 'OPS': '1,1,2,1,2', 'ACCS': '5', 'FIFO': 1}],
       desc='function_node queueing', bounds={}, timeout=600),
]
OUTSIDE = []
STUBS = []
ASSUMPTIONS = []

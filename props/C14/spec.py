PROPERTY = 'C14'
import itertools
# Flow-graph nodes are compiled the way props/C15 does it (white-box graph object without scheduler, harness receivers/senders,
# r1::allocate / submit / execution_slot ... stubbed in the harness, prioritize_task cut); unlike C15 the real aggregator
# (d1::aggregator_generic::execute / start_handle_operations) is kept: with one caller it runs the handler inline.
FG = dict(mode='seq', selftest=True, looporder=True, cut=['prioritize_task'], devirt=True, prune=True, inline_threshold=300, m1ptr=True)
UNITS = {
  'fq': dict(FG, wrapper='w_fnode.cpp', cxxflags=['-DPOL=0']),                      # function_node<int,int,queueing>
  'fr': dict(FG, wrapper='w_fnode.cpp', cxxflags=['-DPOL=1']),                      # ... rejecting
  'fql': dict(FG, wrapper='w_fnode.cpp', cxxflags=['-DPOL=2']),                     # ... queueing_lightweight, noexcept body
  'frl': dict(FG, wrapper='w_fnode.cpp', cxxflags=['-DPOL=3']),                     # ... rejecting_lightweight, noexcept body
  'fql_t': dict(FG, wrapper='w_fnode.cpp', cxxflags=['-DPOL=2', '-DNOTHROW=0']),    # lightweight policy, body may throw => task path
  'ebc': dict(FG, wrapper='w_edge.cpp', cxxflags=['-DEK=0']),                       # broadcast_node<int>
  'eq': dict(FG, wrapper='w_edge.cpp', cxxflags=['-DEK=1']),                        # queue_node<int>
  'inode': dict(FG, wrapper='w_inode.cpp'),                                         # input_node<int>
  'chain': dict(FG, wrapper='w_chain.cpp'),                                         # queue_node<int> -> function_node<int,int,rejecting>
}
FS = ['--max-field-sensitivity-array-size', '600', '--object-bits', '12', '--sat-solver', 'cadical']   # minisat2 (default) is heavy-tailed on these instances: 0.1 s .. > 15 min for 30k clauses
COMMON = dict(fail_over_unwind=True, cbmc=['--unwind', '40'] + FS, native_cflags=['-fno-sanitize=null'], timeout=900, thorough_override={'timeout': 3600})

# ---------------------------------------------------------------- function_node (h_fnode.c)
def S(conc, ops, **kw):          # successors answer symbolically (no edge flip: the successor list stays concrete)
    d = {'CONC': conc, 'OPS': ops, 'ACCS': 0, 'SYMACC': 1}
    d.update(kw); return d
def C(conc, ops, accs, **kw):    # concrete accept patterns (needed when successors flip their edge)
    d = {'CONC': conc, 'OPS': ops, 'ACCS': accs}
    d.update(kw); return d
def fifo(sc): return dict(sc, FIFO=1) if sc['CONC'] == 1 else sc
def seqs18(n, lo, hi):
    """operation lists of length n over {1 = try_put, 8 = run a solver-chosen task}, first op a put, lo..hi puts"""
    return [','.join(('1',) + q) for q in itertools.product('18', repeat=n - 1) if lo <= 1 + q.count('1') <= hi]
def seqs123(n, lo, hi):
    """the same with concrete picks (2 = oldest, 3 = newest): used where two symbolic picks among several live tasks get too expensive (concurrency 2)"""
    return [','.join(('1',) + q) for q in itertools.product('123', repeat=n - 1) if lo <= 1 + q.count('1') <= hi]
FQ_QUICK = [
  S(1, '1,1,8,1,8', FIFO=1), S(1, '1,1,1,8,8', FIFO=1, NESTB=1), S(2, '1,1,1,8,8,1'), S(0, '1,1,1,8,8,1'), S(2, '1,1,8,1,1,8'),
  S(1, '1,1,1,2,5,8', FIFO=1), S(2, '6,1,1,8,7,1'), C(1, '1,2,1,9,1,2', '0,1,2', NSUCC=2, FLIPS='1,2', FIFO=1), S(1, '1,1,8,1,8', EXTIN=1, FIFO=1),
]
FQ_THOROUGH = FQ_QUICK + [fifo(S(c, o)) for c in (1, 0) for o in seqs18(6, 3, 4)] + [S(2, o) for o in seqs123(6, 3, 4)] + [S(2, o) for o in seqs18(6, 3, 4)] + \
  [fifo(S(c, o, NESTB=b, NESTS=s)) for c, o in ((1, '1,1,8,1,8'), (1, '1,8,1,8'), (2, '1,1,2,1,3'), (2, '1,8,1,8')) for b, s in ((1, 0), (0, 1), (2, 2), (3, 1))] + \
  [fifo(S(c, o, EXTIN=1)) for c, o in ((1, '1,1,1,8,8,8'), (1, '1,8,1,1,8'), (2, '1,1,1,2,3,2'), (2, '1,8,1,1,8'))] + \
  [fifo(S(c, o)) for c in (1, 2) for o in ('1,1,1,2,5,3,1', '1,1,5,1,2,3', '6,1,6,2,7,1,7,3', '6,1,1,3,7,2')] + \
  [fifo(C(c, o, '0,1,2,5,6', NSUCC=2, FLIPS='1,2,3')) for c in (1, 2) for o in ('1,2,1,9,1,2', '1,1,2,9,2,1,2', '1,2,9,1,2,9,1,2')]
FR_QUICK = [
  S(1, '1,1,8,1,1,8'), S(2, '1,1,1,8,1,8'), S(2, '1,1,8,1,1,8'), S(1, '4,8,8,8', AVAIL=2), S(1, '1,4,1,2,2,2', AVAIL=2), S(1, '1,4,1,3,2,2', AVAIL=2), S(2, '4,8,8,8,8', AVAIL=3), S(1, '1,4,5,8,8', AVAIL=2),
  S(1, '1,1,8', NESTB=1, NESTS=1),
]
FR_THOROUGH = FR_QUICK + [S(1, o) for o in seqs18(6, 3, 4)] + [S(2, o) for o in seqs123(6, 3, 4)] + [S(2, o) for o in seqs18(6, 3, 4)] + \
  [S(c, o, NESTB=b, NESTS=s) for c, o in ((1, '1,1,8,1,8'), (1, '1,8,1,8'), (2, '1,1,2,1,3'), (2, '1,8,1,8')) for b, s in ((1, 0), (0, 1), (2, 2), (3, 1))] + \
  [S(c, o, AVAIL=a) for c, a in ((1, 2), (1, 3), (2, 3)) for o in ('4,2,2,2,2', '1,4,2,2,2,2', '1,4,3,2,2,2', '4,1,2,2,2', '4,2,1,2,2,2', '1,1,4,2,3,2,2', '4,2,2,5,2,2')]
# reset_reuse family: drive the node into a mid-protocol state, cancel (5), wait_for_all + graph::reset() (12 default flags, 13 RESETFLAGS), reuse
FQ_RESET = [S(1, '1,1,1,5,12,1,1,2,2', FIFO=1), S(2, '1,1,1,5,12,1,1,1,2,3,2'), S(1, '1,1,2,5,13,9,1,1,2,2', FIFO=1, RESETFLAGS=3), S(2, '6,1,1,8,5,12,1,8', EXTIN=1)]
FR_RESET = [S(1, '4,5,12,4,2,2,2', AVAIL=2), S(1, '1,4,1,5,12,1,4,2,2,2', AVAIL=2), S(2, '1,4,2,5,12,4,2,3,2,2', AVAIL=3), S(2, '1,1,1,5,12,1,1,1,2,2'),
            S(1, '1,4,5,13,9,4,1,2,2,2', AVAIL=2, RESETFLAGS=2), S(1, '1,4,2,5,13,1,2,4,2,2', AVAIL=3, RESETFLAGS=1)]
FL_QUICK = [S(1, '1,1,8,1', NESTB=1), S(2, '1,1,8,1', NESTB=3), S(0, '1,1', NESTB=1)]
FL_THOROUGH = FL_QUICK + [fifo(S(c, o, NESTB=b)) for c in (1, 0) for o in ('1,1,8,1,8', '1,8,1,1,8,8', '1,1,1,8,8') for b in (0, 1, 2, 5)] + \
  [S(2, o, NESTB=b) for o in ('1,1,2,1,3', '1,3,1,1,2,2', '1,1,1,8,8', '1,1,1,3,2') for b in (0, 1, 2, 5)]
FNODE_ORACLE = ('conservation ledger per message (try_put true or pulled <=> body exactly once <=> output offered exactly once to every push-mode successor; '
  'rejected => never processed; payload intact), bodies running at once and live body tasks + inline bodies <= concurrency at every body start / task creation, '
  'truthful try_put (queueing: always true; rejecting: true iff a slot is free), graph wait count == live tasks (direct and through the worker\'s '
  'd1::reference_vertex) + reserve_wait calls at every observation point and 0 iff nothing pending, every live task spawned, cancelled tasks start no body '
  'and still release the wait count, at quiescence everything accepted is processed, queue empty, slot count 0; after graph::reset() concurrency count, input queue, '
  'forwarder_busy and cached predecessors are initial again (cached predecessor edge handed back, or dropped with rf_clear_edges) and the reused node passes the same oracles')
FNODE_BOUNDS = {'messages': 'quick <= 4 external try_puts (+ nested / pulled ones), thorough <= 5', 'concurrency': '1, 2, unlimited (concrete per query)',
  'task order': 'each "8" picks oldest or newest symbolically; 2/3 concrete', 'successors': '1-2; answers symbolic (no flip) or concrete patterns (flip)',
  'values': 'symbolic 32-bit, pairwise distinct', 'threads': 'one at a time (tasks and calls atomic); overlap only as re-entrant puts inside body / successor'}
def FN(name, unit, rej, quick, thorough, what):
    return dict(COMMON, name=name, unit=unit, harness='h_fnode.c', defines={'memset': 'vp_memset', 'REJ': rej}, scenarios_quick=quick, scenarios_thorough=thorough,
                desc=what + ': driven by a concrete list of external try_puts, task executions (oldest / newest / solver-chosen), predecessor registration, '
                'cancel, reserve_wait/release_wait, re-entrant puts during a body or a successor offer, and cancel + wait_for_all + real graph::reset() (default flags, rf_reset_bodies, rf_clear_edges) followed by reuse. Oracle: ' + FNODE_ORACLE, bounds=FNODE_BOUNDS)
HARNESSES = [
  FN('fnode_queueing', 'fq', 0, FQ_QUICK + FQ_RESET, FQ_THOROUGH + FQ_RESET, 'function_node<int,int,queueing> (input queue, apply_body_task_bypass, broadcast_cache, edge flip of a rejecting successor)'),
  FN('fnode_rejecting', 'fr', 1, FR_QUICK + FR_RESET, FR_THOROUGH + FR_RESET, 'function_node<int,int,rejecting> (rejection when no slot is free; pull mode: predecessor_cache, forward_task_bypass, edge handed back when the predecessor is empty)'),
  FN('fnode_queueing_lw', 'fql', 0, FL_QUICK + [S(1, '1,1,1,8,8', FIFO=1)], FL_THOROUGH, 'function_node<int,int,queueing_lightweight> with a noexcept body (occupy_concurrency + body inline in try_put)'),
  FN('fnode_rejecting_lw', 'frl', 1, FL_QUICK + [S(1, '4,8,8,8', AVAIL=2)], FL_THOROUGH + [S(c, o, AVAIL=2) for c in (1, 2) for o in ('4,8,8,8', '1,4,2,2,2')], 'function_node<int,int,rejecting_lightweight> with a noexcept body'),
  FN('fnode_lw_throwing_body', 'fql_t', 0, [S(1, '1,1,8,1,8', FIFO=1)], [fifo(S(c, o)) for c in (1, 2) for o in ('1,1,8,1,8', '1,1,1,8,8,8')], 'function_node<int,int,queueing_lightweight> whose body is not noexcept (must take the task path)'),
]

# ---------------------------------------------------------------- edge switching (h_edge.c), input_node (h_inode.c)
def E(ops, accs, flips, nsucc=2, **kw):
    d = {'OPS': ops, 'ACCS': accs, 'FLIPS': flips, 'NSUCC': nsucc}
    d.update(kw); return d
def words(alpha, n, pred=lambda q: True): return [','.join(q) for q in itertools.product(alpha, repeat=n) if pred(q)]
EQ_QUICK = [
  E('1,2,10,1,11,10,1,2,2', '0,1,2', '3'), E('1,2,20,1,30,2,20,31,20,2,1,2', '0', '1', nsucc=1), E('1,1,2,11,1,10,10,2,11,1,2', '0,2', '3,1'),
  E('1,2,1,40,2,10,41,1,2', '0,1', '1', MINFLIP=0), E('1,2,20,11,31,1,2,10', '0', '3'), E('1,2,2,40,50,2,2', '0,1', '0', MINFLIP=0), E('1,2,2,51,2,2', '0,2', '0', nsucc=1, MINFLIP=0),
]
EQ_RESET = [E('1,2,20,60,1,2,10,1,2,2', '0,6', '1', nsucc=1), E('1,1,60,1,2,2,10,11', '0,1,4', '3', MINFLIP=0), E('1,2,1,60,1,2,1,2', '0,2', '1,0', MINFLIP=0)]
EQ_THOROUGH = EQ_QUICK + [E('1,2,' + w, '0,1,2', '3,1', MINFLIP=0) for w in words(['1', '2', '10', '11'], 4)] + \
  [E('1,2,' + w, '0,2', '1', nsucc=1, MINFLIP=0) for w in words(['1', '2', '20', '30', '31'], 4, lambda q: '20' in q)]
EBC_QUICK = [E('1,1,10,1,11,1', '0,5,2', '3,1,2'), E('1,10,1,11,10,1', '0,7', '7,5', nsucc=3), E('1,40,1,10,1', '0,1', '3,2', MINFLIP=0)]
EBC_THOROUGH = EBC_QUICK + [E('1,' + w, '0,1,2,7', '3,1,2', MINFLIP=0) for w in words(['1', '10', '11'], 5)] + \
  [E('1,' + w, '0,5,3', '7,5', nsucc=3, MINFLIP=0) for w in words(['1', '10', '12', '41'], 4)]
IN_QUICK = [
  E('1,2,2,2', '3,1,0', '1', nsucc=1, NPROD=2, MINFLIP=0), E('1,2,10,2,10,10,2,2', '0,2', '1', nsucc=1, NPROD=2), E('1,2,20,30,2,20,31,2,20', '0', '1', nsucc=1, NPROD=2),
  E('2,40,1,2,2,10,2', '1,2,0', '3', nsucc=0, NPROD=2, MINFLIP=0), E('1,2,41,2,2,11,2', '0,2,1', '3', nsucc=1, NPROD=2, MINFLIP=0), E('1,2,2,10,11,2,2', '1,2,0,3', '3', nsucc=2, NPROD=3, MINFLIP=0),
  E('1,2,20,11,31,2,2', '0', '3', nsucc=2, NPROD=2),
]
IN_RESET = [E('1,2,20,60,1,2,2,2', '14,30', '1', nsucc=1, NPROD=2, NPROD2=2, EXPECTALL=1, MINFLIP=0), E('1,60,1,2,2,2', '15', '1', nsucc=1, NPROD=2, NPROD2=2, EXPECTALL=1, MINFLIP=0),
            E('1,2,60,1,2,2,2', '14,15', '1', nsucc=1, NPROD=2, NPROD2=2, EXPECTALL=1, MINFLIP=0), E('1,2,2,20,11,60,1,2,2,2', '1020,1023', '3', nsucc=2, NPROD=3, NPROD2=2, EXPECTALL=1, MINFLIP=0)]
IN_THOROUGH = IN_QUICK + [E('1,2,' + w, '0,1,2', '1', nsucc=1, NPROD=3, MINFLIP=0) for w in words(['2', '10', '20', '31'], 4)] + [E('1,2,20,30,' + w, '0', '1', nsucc=1, NPROD=2, MINFLIP=0) for w in words(['2', '10', '20', '30', '31'], 2)] + \
  [E(w + ',2,2', '1,0', '3', nsucc=0, NPROD=2, MINFLIP=0) for w in words(['1', '2', '40', '41', '10'], 4, lambda q: '1' in q and ('40' in q or '41' in q))]
HARNESSES += [
  dict(COMMON, name='edge_queue_node', unit='eq', harness='h_edge.c', defines={'memset': 'vp_memset', 'EK': 1}, scenarios_quick=EQ_QUICK + EQ_RESET, scenarios_thorough=EQ_THOROUGH + EQ_RESET,
       desc='queue_node<int> (round_robin_cache, item buffer, forward_task_bypass, aggregator handler) with 1-3 harness successors following the receiver protocol: reject / accept, '
            'take the edge over on rejection (register_predecessor true), pull later with try_get or try_reserve + try_consume|try_release, hand the edge back when a pull fails '
            '(register_successor), remove_successor, late registration while messages are buffered, cancel + graph::reset() + reuse. Oracle: nothing pushed along a pull-mode / removed edge; every delivery (accepted offer, successful try_get, consumed reservation) is the '
            'oldest undelivered message => each message delivered exactly once to exactly one successor in FIFO order; nothing offered or handed out while reserved; failed pull leaves the '
            'buffer unchanged; after the edge is handed back and the tasks ran, the front message has been offered to every push-mode successor (no stuck message / lost hand-off); final '
            'drain returns exactly the undelivered messages; graph wait count == pending tasks',
       bounds={'operations': 'quick: 7 hand-picked lists of 5-12 ops; thorough: all 4-op continuations of "put, run" over {put, run, pull s0, pull s1} and over {put, run, reserve, release, consume}',
               'accept / flip patterns': 'concrete, 1-4 x 1-2 per query (all combinations run)', 'successors': '1-2', 'values': 'symbolic, pairwise distinct'}),
  dict(COMMON, name='edge_broadcast_node', unit='ebc', harness='h_edge.c', defines={'memset': 'vp_memset', 'EK': 0}, scenarios_quick=EBC_QUICK, scenarios_thorough=EBC_THOROUGH,
       desc='broadcast_node<int> (broadcast_cache::try_put_task_impl) with 2-3 harness successors (same protocol). Oracle: every put is offered exactly once to every push-mode successor in '
            'registration order and to nobody else (not to flipped / removed ones), a rejecting successor that takes the edge over leaves the list, one that hands it back is served again, '
            'try_put always true, try_get / try_reserve never hand anything out',
       bounds={'operations': 'quick: 3 lists of 5-6 ops; thorough: all 5-op continuations over {put, pull s0, pull s1} (2 successors) and 4-op over {put, pull s0, pull s2, remove s1} (3 successors)',
               'accept / flip patterns': 'concrete, 2-4 x 2-3 per query', 'values': 'symbolic'}),
  dict(COMMON, name='input_node', unit='inode', harness='h_inode.c', defines={'memset': 'vp_memset'}, scenarios_quick=IN_QUICK + IN_RESET, scenarios_thorough=IN_THOROUGH + IN_RESET,
       desc='input_node<int> (activate, input_node_task_bypass, try_reserve_apply_body, cached item, broadcast_cache push with rejection / edge flip, try_get / try_reserve / try_release / '
            'try_consume, late register_successor, cancel + graph::reset() + activate again) with a harness body producing NPROD items then stopping. Oracle: body never invoked before activate(), nor while an unconsumed item is cached '
            '(no overwrite = no loss), nor under a reservation; every offer / hand-out is the outstanding item; offered only to push-mode successors, at most once each per attempt; consumed '
            'exactly when accepted / got / reservation consumed, never twice; a rejected or released item stays cached; production order kept; produced == consumed + cached at the end; '
            'graph wait count == pending tasks',
       bounds={'items': '2-3', 'operations': 'quick: 5 lists of 4-9 ops; thorough: all 4-op continuations of "activate, run" over {run, try_get, try_reserve, release, consume} and 4-op prefixes over '
               '{activate, run, register s0, register s1, try_get}', 'accept / flip patterns': 'concrete', 'successors': '0-2'}),
]

# ---------------------------------------------------------------- two real nodes (h_chain.c)
CH_QUICK = [
  {'CONC': 1, 'OPS': '1,2,1,2,2', 'FIFO': 1}, {'CONC': 1, 'OPS': '1,2,1,1,3,3,1,2', 'FIFO': 1, 'EXPECTFLIP': 2}, {'CONC': 1, 'OPS': '1,1,1,2,2,3,2,3', 'FIFO': 1, 'EXPECTFLIP': 2},
  {'CONC': 2, 'OPS': '1,1,1,1,2,3,3,2', 'EXPECTFLIP': 2}, {'CONC': 2, 'OPS': '1,2,1,2,1,3,1,3,3', 'EXPECTFLIP': 2}, {'CONC': 1, 'OPS': '1,1,2,2,5,1,2', 'FIFO': 1}, {'CONC': 0, 'OPS': '1,1,2,3,1'},
  {'CONC': 1, 'OPS': '1,1,2,9,2,2', 'FIFO': 1, 'LATEEDGE': 1}, {'CONC': 2, 'OPS': '1,2,1,1,9,3,2', 'LATEEDGE': 1},
]
CH_RESET = [{'CONC': 1, 'OPS': '1,2,1,3,5,12,1,2,1,3,2,2,2', 'FIFO': 1, 'EXPECTFLIP': 2}, {'CONC': 2, 'OPS': '1,1,1,2,5,12,1,1,2,3,1,2,2,2', 'EXPECTFLIP': 1},
            {'CONC': 1, 'OPS': '1,2,1,1,3,12,1,2,2,1,2,2', 'FIFO': 1, 'EXPECTFLIP': 1}, {'CONC': 2, 'OPS': '1,1,1,12,1,1,1,2,2,3,2,2'}]
def chain_words(n): return ['1,' + w for w in words('123', n, lambda q: 1 + q.count('1') >= 2 and 1 + q.count('1') <= 4)]
CH_THOROUGH = CH_QUICK + [{'CONC': 1, 'OPS': o, 'FIFO': 1} for o in chain_words(5) + chain_words(6)] + \
  [{'CONC': 2, 'OPS': o} for o in chain_words(5) + [w for w in chain_words(6) if w.count('1') == 4]] + [{'CONC': 0, 'OPS': o} for o in chain_words(5)] + \
  [{'CONC': c, 'OPS': o} for c in (1, 2) for o in ('1,1,2,5,2,3,1', '1,2,1,1,3,5,2,2')] + \
  [{'CONC': c, 'OPS': o, 'LATEEDGE': 1} for c in (1, 2) for o in ('1,9,2,2,1,2', '1,1,1,9,2,3,2', '1,2,9,1,2,2', '1,1,9,2,1,3,2,2')]
HARNESSES += [
  dict(COMMON, name='chain_queue_function', unit='chain', harness='h_chain.c', defines={'memset': 'vp_memset'}, scenarios_quick=CH_QUICK + CH_RESET, scenarios_thorough=CH_THOROUGH + CH_RESET,
       desc='two real nodes and the real edge between them: queue_node<int> -> function_node<int,int,rejecting> -> harness sink (symbolic answers). The function_node rejects while its slots '
            'are taken, the queue_node\'s round_robin_cache hands the edge over (register_predecessor), the function_node pulls through its predecessor_cache when a body finishes and gives the '
            'edge back when the queue is empty (register_successor -> forwarder). Oracle: every message put to the queue reaches the body exactly once, payload intact, in put order when serial; '
            'live body tasks + running bodies <= concurrency; every output offered exactly once; the edge is held by exactly one side between operations; graph wait count == live tasks (worker '
            'reference vertex); every live task spawned; at quiescence queue empty, everything processed, slot count 0, wait count 0; after cancel no body starts and the count still drains; after cancel + wait_for_all + graph::reset() '
            'both nodes are in their initial protocol state, the edge is back in push mode and the reused chain conserves the new messages',
       bounds={'messages': 'quick <= 4, thorough <= 4', 'concurrency': '1, 2, unlimited', 'operations': 'quick: 7 hand-picked lists; thorough: every list "put" + 5 ops over {put, run oldest task, run newest task} with 2-4 puts '
               '(serial, concurrency 2, unlimited), every such list with 6 more ops (serial; concurrency 2: those with 4 puts), late make_edge lists', 'task order': 'concrete (oldest / newest) per op', 'values': 'symbolic, pairwise distinct'}),
]

MANIFEST = dict(
  level_text='Bounded symbolic execution of the real flow-graph node code, one node type per unit (function_node<int,int> in all four buffer policies x concurrency serial / 2 / unlimited, '
             'queue_node, broadcast_node, input_node, and the two-node chain queue_node -> rejecting function_node with its real push<->pull edge protocol): concrete lists of <= ~10 '
             'operations (external try_put, execution of a spawned graph task chosen oldest / newest - symbolically where affordable -, predecessor / successor registration, pulls by a '
             'successor, cancel, reserve_wait / release_wait, re-entrant puts during a body) with symbolic message values and symbolic successor answers; the SAT solver decides a conservation '
             'ledger (accepted <=> processed exactly once <=> offered exactly once per push-mode successor; rejected / flipped => never pushed), the concurrency limit at every body start and '
             'task creation, truthful try_put, and that the graph\'s wait count equals live tasks + reservations at every observation point (so wait_for_all returns exactly at idle). '
             'A reset_reuse family drives each node into a mid-protocol state (forwarder / body task pending, message queued or rejected, item reserved, edge in pull mode), cancels, lets every '
             'pending task go through cancel(), calls the real graph::reset() and re-runs the same oracles on the reused node.',
  level_note='Sequential task-bag model: graph tasks and external calls are atomic and run one at a time (the real aggregator runs its handler inline, its concurrent protocol is C13\'s subject); '
             'overlap of a put with a running body or with the forwarding step appears only as a re-entrant call. Not covered: true multi-thread interleavings at one node, async_node, '
             'multifunction/continue/join/limiter/indexer nodes here (node-local contracts: C15), cycles, priorities (prioritize_task cut), try_put_and_wait, exceptions in bodies, '
             'the scheduler side of wait_for_all / cancellation (r1::wait, task_group_context: stubbed to their documented contract).')
OUTSIDE = [
  'true concurrency at a node: two threads inside one node at once (aggregator hand-off, spin_rw_mutex of the successor caches, spin_mutex of input_node); only sequential images (re-entrant puts) are explored',
  'async_node / gateways, multifunction_node, continue_node, join / limiter / indexer / sequencer / priority_queue / overwrite nodes (node contracts are C15), composite_node, cycles and limiter feedback loops',
  'node priorities (prioritize_task is cut and asserted unused), try_put_and_wait / message_metainfo (preview macro off), exceptions thrown by bodies (units compiled with -fno-exceptions), node destruction; graph::reset only after all tasks were cancelled and finalized (its documented precondition), '
  'rf_reset_bodies / rf_clear_edges only for function_node',
  'the scheduler: r1::wait / r1::submit / arena attachment / task_group_context cancellation are stubs with their documented contract (wait returns iff the wait context count is 0; cancelled tasks get cancel() instead of execute())',
  'topologies other than one node with harness neighbours and the chain queue_node -> function_node; message types other than int; more than 5 messages / 16 tasks per run',
]
STUBS = [
  'r1::allocate / r1::deallocate (small_object_allocator): typed static task storage, never reused; balance checked',
  'r1::submit: the task enters the harness bag; the harness later calls execute() (or cancel() after the cancel op) on a task chosen oldest / newest',
  'r1::execution_slot(arena): slot 0 for the worker that runs tasks (and for the external thread when EXTIN), slot_id(-1) otherwise',
  'r1::get_thread_reference_vertex: one real d1::reference_vertex per model thread with the graph wait vertex as parent (what src/tbb/task.cpp creates on first use)',
  'r1::notify_waiters: no-op (wake-up only); r1::cache_aligned_allocate: malloc; operator new: typed pools; std::list hook/unhook: documented semantics',
  'r1::reset(task_group_context&): counted no-op (the harness keeps the cancellation state); r1::attach / initialize / terminate(task_arena_base&) in graph::prepare_task_arena: no arena in the model',
  'd2::prioritize_task: identity for tasks without priority (asserted); graph object built white-box (no arena / context objects; my_is_active = true)',
  'harness receivers / senders: accept or reject by pattern, answer register_predecessor by pattern, pull with try_get / try_reserve and hand the edge back when a pull fails (documented protocol of predecessor_cache)',
]
ASSUMPTIONS = [
  'message values pairwise distinct (identification of messages by value in the ledger)',
  'a worker thread of the graph arena executes every task; external try_puts come from a thread outside the arena unless the scenario says EXTIN',
  'tasks are executed atomically, one at a time',
]

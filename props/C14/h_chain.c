/* C14 / conservation across two real nodes and the real push<->pull edge between them:
 *   queue_node<int> Q --> function_node<int,int,rejecting> F (concurrency CONC) --> harness sink (answers symbolic)
 * F rejects Q's push while its slots are taken; Q's round_robin_cache then hands the edge over (F.register_predecessor(Q): F's
 * predecessor_cache, F's forwarder task); when a body finishes F pulls the next message from Q (try_get) and, when Q is empty, gives the
 * edge back (Q.register_successor(F): Q's forwarder task). Concrete operation list OPS:
 *   1 external try_put(v) to Q     2 / 3 a worker runs the oldest / newest spawned task    8 ... a solver-chosen one (oldest or newest)
 *   12 recovery after op 5: wait_for_all (every pending task gets cancel()), then the real graph::reset() (default flags): Q's buffer and both nodes'
 *      protocol state must be initial again, the edge back in push mode; messages not yet processed are discarded by design; then reuse
 *   5 graph cancelled (workers call cancel() from now on)      9 make_edge(Q, F) (scenarios with LATEEDGE: the edge is made while messages are already buffered)
 * Oracle: every message put to Q reaches F's body exactly once (no loss, no duplicate, payload intact), in put order when F is serial;
 * never more live body tasks / running bodies than CONC; every body output is offered exactly once to the sink; the edge is in exactly
 * one mode between operations (Q's successor list + F's predecessor cache hold it exactly once); graph wait count == live tasks
 * (with the worker's reference vertex) at every observation point; all live tasks are spawned; at quiescence Q is empty, all messages
 * are processed, F's slot count is 0, wait count 0. */
#include "w.h"
#include "vp.h"
static u8* task_mem(unsigned kind, unsigned i) { return vp_ft_mem(i); }
static unsigned task_size(unsigned kind) { return vp_ft_size(); }
static void on_alloc(unsigned kind, unsigned idx); static void on_free(u8* p);
#define VP_ON_ALLOC(k, i) on_alloc(k, i)
#define VP_ON_FREE(p) on_free(p)
static unsigned queue_given;
static u8* typed_new(u64 n) { if (n == vp_queue_objsize() && !queue_given) { queue_given = 1; return vp_queue_mem(); } return 0; }
#define VP_TYPED_NEW(n) typed_new(n)
#ifndef TASKMAX
#define TASKMAX 16
#endif
#ifndef BAGMAX
#define BAGMAX 8
#endif
#include "fg14_stubs.h"
#ifndef BAGRUNS
#define BAGRUNS 8
#endif
#ifndef WIN
#define WIN 1
#endif
static const int ops[] = { OPS };
#define NOPS ((int)(sizeof ops / sizeof ops[0]))
#define MAXM 6
enum { ST_NONE = 0, ST_ACCEPTED, ST_RUNNING, ST_DONE, ST_DROPPED };
static int msg_v[MAXM]; static int msg_st[MAXM]; static unsigned nmsg, off[MAXM];
static unsigned outc, running, nbody, cancelled, in_task, fifo_next;
static unsigned live_ext; static u8 owner_arena[TASKMAX];
static unsigned have_edge, ndropped, fifo_reset;
static unsigned pull_seen, back_seen;   /* vacuity guards: the edge was seen in pull mode / handed back to push mode afterwards */
struct S_class_tbb__detail__d1__wait_tree_vertex_interface* _ZN3tbb6detail2r127get_thread_reference_vertexEPNS0_2d126wait_tree_vertex_interfaceE(struct S_class_tbb__detail__d1__wait_tree_vertex_interface* top) {
  if ((u8*)top != vp_graph_vertex()) return top;   /* (the sample task of vp_init_sample: second graph, not under test) */
  return (struct S_class_tbb__detail__d1__wait_tree_vertex_interface*)vp_refv(0); }
static int find_v(int v) { int k = -1; for (unsigned i = nmsg; i > 0; i--) k = (msg_v[i - 1] == v) ? (int)(i - 1) : k; return k; }
static unsigned refs_expected(void) { unsigned a0 = 0; for (unsigned i = 0; i < n_alloc[0]; i++) if (owner_arena[i] == 1) a0 = 1; return live_ext + a0; }
static void on_alloc(unsigned kind, unsigned idx) { if (in_arena) owner_arena[idx] = 1; else { owner_arena[idx] = 0; live_ext++; } }
static void on_free(u8* p) { for (unsigned i = 0; i < TASKMAX; i++) if (p == task_mem(0, i)) { VP_ASSERT(owner_arena[i] != 0xff, "task freed twice"); if (owner_arena[i] == 0) live_ext--; owner_arena[i] = 0xff; } }
static unsigned live_body_tasks(void) { unsigned c = 0; for (unsigned i = 0; i < BAGMAX; i++) if (i < bag_n && vp_task_is_body(bag[i])) c++; return c; }
u32 vp_body(u32 uv) {
  int v = (int)uv; int k = find_v(v);
  VP_ASSERT(k >= 0, "body invoked with a value that was never put (payload changed / invented message)");
  VP_ASSERT(msg_st[k] == ST_ACCEPTED, "body invoked twice for the same message");
  VP_ASSERT(!(cancelled && in_task), "a body started in a task after the graph was cancelled");
  running++;
  VP_ASSERT(CONC == 0 || running + live_body_tasks() <= CONC, "running bodies + pending body tasks exceed the concurrency limit");
#ifdef FIFO
  if (fifo_reset) { fifo_reset = 0; for (fifo_next = 0; fifo_next < nmsg && msg_st[fifo_next] != ST_ACCEPTED; fifo_next++) ; }   /* first message put after the reset */
  VP_ASSERT((unsigned)k == fifo_next, "serial function_node behind a queue_node: bodies not started in put order"); fifo_next++;
#endif
  VP_ASSERT(vp_graph_refs() == refs_expected() && vp_graph_refs() >= 1, "graph wait count wrong while a body runs");
  msg_st[k] = ST_DONE; nbody++; running--;
  return (u32)v ^ outc;
}
u32 vp_sink(u32 id, u32 o) {
  int k = find_v((int)(o ^ outc));
  VP_ASSERT(id == 0 && k >= 0 && msg_st[k] == ST_DONE, "sink offered something that is not the output of a finished body");
  VP_ASSERT(off[k] == 0, "output offered twice to the successor"); off[k]++;
  VP_ASSERT(vp_graph_refs() >= 1, "graph wait count is 0 while a message is in transit");
  return vp_nd_bool();
}
u32 vp_sink_regpred(u32 id) { return 0; }
static void run_one(int newest) {
  if (!bag_n) return;
  void* t = bag_take(newest);
  in_task = 1; in_arena = WIN;
  u8* b = vp_run_task((struct S_class_tbb__detail__d1__task*)t, cancelled);
  in_task = 0; in_arena = 0;
  if (b) { VP_ASSERT(bag_n < BAGMAX, "VP bound: bag"); bag[bag_n++] = b; }
}
static void settled(void) {
  VP_ASSERT(running == 0, "harness: body still marked running");
  VP_ASSERT(n_live[0] == bag_n, "a live task is neither spawned nor returned for execution (wait_for_all would never return) / a spawned task was destroyed");
  VP_ASSERT(vp_graph_refs() == refs_expected(), "graph wait count differs from live tasks (wait_for_all would return early or hang)");
  VP_ASSERT((vp_graph_refs() == 0) == (bag_n == 0), "graph wait count is 0 iff no task is pending");
  if (!cancelled) {
    if (CONC != 0) { VP_ASSERT(live_body_tasks() <= CONC, "more live body tasks than the concurrency limit");
      VP_ASSERT(vp_conc() == live_body_tasks(), "F's concurrency count differs from the number of live body tasks (slot leaked / released twice)"); }
    if (vp_f_npred() == 1) pull_seen = 1; else if (pull_seen) back_seen = 1;
    VP_ASSERT(vp_q_nsucc() + vp_f_npred() == have_edge, "the edge Q->F is held by neither side (messages would be stuck) or by both");
    for (unsigned k = 0; k < nmsg; k++) if (msg_st[k] == ST_DONE) VP_ASSERT(off[k] == 1, "a body output was not offered to the successor (lost)");
  }
}
static void run(void) {
  fg_reset(); queue_given = 0;
  nmsg = 0; running = nbody = cancelled = in_task = fifo_next = 0; live_ext = 0; ndropped = fifo_reset = 0;
  for (unsigned i = 0; i < MAXM; i++) { msg_st[i] = ST_NONE; off[i] = 0; }
  for (unsigned i = 0; i < TASKMAX; i++) owner_arena[i] = 0xff;
  outc = 0x40000000u;   /* concrete: with a symbolic mask the solver has to re-derive (v ^ c) ^ c == v bit by bit inside every message identification */
#ifdef LATEEDGE
  vp_init(CONC, 0); have_edge = 0;
#else
  vp_init(CONC, 1); have_edge = 1;
#endif
  vp_refv_init(0); vp_init_sample();
  for (int i = 0; i < 2; i++) run_one(0);      /* forwarder spawned by make_edge */
  settled();
  for (int s = 0; s < NOPS; s++) {
    int op = ops[s];
    if (op == 1) {
      VP_ASSERT(nmsg < MAXM, "VP bound: messages");
      int x = (int)vp_nd(); for (unsigned i = 0; i < nmsg; i++) __CPROVER_assume(msg_v[i] != x);
      msg_v[nmsg] = x; msg_st[nmsg] = ST_ACCEPTED; nmsg++;
      VP_ASSERT(vp_put(x), "queue_node rejected a message"); }
    else if (op == 2) run_one(0);
    else if (op == 3) run_one(1);
    else if (op == 8) run_one(vp_nd_bool());
    else if (op == 5) cancelled = 1;
    else if (op == 12) {
      cancelled = 1;
      for (int i = 0; i < BAGRUNS; i++) run_one(0);             /* wait_for_all: every pending task is cancelled */
      VP_ASSERT(bag_n == 0, "VP bound: tasks still pending after BAGRUNS cancellations");
      VP_ASSERT(vp_graph_refs() == 0, "graph wait count not 0 after every pending task was cancelled (wait_for_all would hang)");
      unsigned ctx0 = n_ctx_reset;
      vp_graph_reset(0);
      VP_ASSERT(n_ctx_reset == ctx0 + 1 && vp_graph_active(), "graph::reset did not reset the context once / left the graph inactive");
      VP_ASSERT(bag_n == 0 && vp_graph_refs() == 0, "reset() spawned a task / touched the wait count");
      /* WB: every piece of per-node protocol state is back to its initial value, the edge is in push mode */
      VP_ASSERT(vp_qsize() == 0 && vp_conc() == 0 && vp_q_fwd_busy() == 0 && vp_f_fwd_busy() == 0, "reset() left protocol state behind (buffered messages / concurrency count / forwarder_busy)");
      VP_ASSERT(vp_q_nsucc() == have_edge && vp_f_npred() == 0, "reset() did not put the edge Q->F back into push mode");
      for (unsigned k = 0; k < nmsg; k++) if (msg_st[k] == ST_ACCEPTED) { msg_st[k] = ST_DROPPED; ndropped++; }
      cancelled = 0; fifo_reset = 1;
    }
    else if (op == 9) { if (!have_edge) { vp_make_edge(); have_edge = 1; } }
    settled();
  }
  for (int i = 0; i < BAGRUNS; i++) { run_one(0); settled(); }
  VP_ASSERT(bag_n == 0, "VP bound: tasks still pending after BAGRUNS executions");
  VP_ASSERT(vp_graph_refs() == 0, "graph wait count not back to 0 although nothing is pending");
  VP_ASSERT(n_alloc[0] == n_free, "a finished task was not deallocated / deallocated twice");
  if (!cancelled && have_edge) {
    for (unsigned k = 0; k < nmsg; k++) VP_ASSERT(msg_st[k] == ST_DONE || msg_st[k] == ST_DROPPED, "a message put to the queue_node was never processed by the function_node (lost / stuck at the edge)");
    VP_ASSERT(vp_qsize() == 0, "queue_node not empty at quiescence");
    VP_ASSERT(CONC == 0 || vp_conc() == 0, "concurrency count not back to 0 at quiescence");
    VP_ASSERT(vp_q_fwd_busy() == 0 && vp_f_fwd_busy() == 0, "forwarder_busy left set with no forwarder task alive");
    VP_ASSERT(nbody + ndropped == nmsg, "body invocations != messages");
  }
}
int main(void) { run();
#ifdef EXPECTFLIP
  VP_ASSERT(pull_seen && (EXPECTFLIP < 2 || back_seen), "scenario: the edge never switched to pull mode (and back)");
#endif
  VP_REACHED(); }

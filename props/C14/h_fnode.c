/* C14 / function_node<int,int,Policy>: the real node (function_input_base aggregator handler, input queue / predecessor cache,
 * apply_body_task_bypass / forward_task_bypass, broadcast_cache of successors, graph_task ctor/finalize, graph wait vertex)
 * driven by a concrete operation list OPS; values, outputs (and with SYMACC the successors' answers) symbolic.
 *   1  external try_put(v)                         2 / 3  a worker runs the oldest / newest spawned task (execute; cancel() after op 5)
 *   4  register the harness predecessor (it holds AVAIL items; pull mode of the rejecting policy)
 *   5  graph cancelled (the scheduler calls cancel() instead of execute() from now on)
 *   6 / 7  graph.reserve_wait() / release_wait()    8  a worker runs a solver-chosen task (oldest or newest)
 *   9  successor 0 re-registers (what a rejecting successor does after a failed pull)
 *   12 / 13  recovery after op 5: wait_for_all (every pending task gets cancel()), reserve_waits released, then the real graph::reset()
 *            with default flags (12) / with RESETFLAGS (13: rf_reset_bodies = 1, rf_clear_edges = 2); afterwards the node must behave
 *            like a fresh one (the reset_reuse family): messages accepted before and not yet processed are discarded by design
 * NESTB / NESTS: bit k set = during the k-th body invocation / k-th offer to a successor another try_put arrives (sequential image
 * of a put that overlaps a running body / the forwarding step).
 * Oracle (see NOTES.md): conservation ledger per message (accepted <=> body exactly once <=> output offered exactly once to every
 * successor registered in push mode; rejected => never processed), concurrency limit (bodies on the stack and live body tasks +
 * inline bodies <= limit, at every body start and every task creation), truthful try_put (queueing: always accepted; rejecting:
 * accepted iff a slot is free), graph wait count == live tasks + reservations at every observation point, every live task is
 * in the bag between operations, after cancellation no body starts, at the end everything accepted was processed. */
#include "w.h"
#include "vp.h"
static u8* task_mem(unsigned kind, unsigned i) { return kind == 0 ? vp_bt_mem(i) : vp_ft_mem(i); }
static unsigned task_size(unsigned kind) { return kind == 0 ? vp_bt_size() : vp_ft_size(); }
static void on_alloc(unsigned kind, unsigned idx);
static void on_free(u8* p);
#define VP_ON_ALLOC(k, i) on_alloc(k, i)
#define VP_ON_FREE(p) on_free(p)
static unsigned queue_given;
static u8* typed_new(u64 n) { if (n == vp_queue_objsize() && !queue_given) { queue_given = 1; return vp_queue_mem(); } return 0; }
#define VP_TYPED_NEW(n) typed_new(n)
#include "fg14_stubs.h"
#ifndef NSUCC
#define NSUCC 1
#endif
#ifndef AVAIL
#define AVAIL 0
#endif
#ifndef NESTB
#define NESTB 0
#endif
#ifndef NESTS
#define NESTS 0
#endif
#ifndef BAGRUNS
#define BAGRUNS 8
#endif
#ifndef WIN            /* do the workers that run tasks use a per-thread reference vertex (threads of the graph's arena)? always, in real life */
#define WIN 1
#endif
#ifndef EXTIN          /* is the external putter thread attached to the graph's arena (e.g. the thread that will call wait_for_all) */
#define EXTIN 0
#endif
static const int ops[] = { OPS };
#define NOPS ((int)(sizeof ops / sizeof ops[0]))
#define MAXM 8
enum { ST_NONE = 0, ST_INPUT, ST_ACCEPTED, ST_RUNNING, ST_DONE, ST_REJECTED, ST_DROPPED };
static int msg_v[MAXM]; static int msg_st[MAXM]; static unsigned nmsg;
static unsigned off[MAXM][3], want[MAXM][3];
static unsigned succ_push[3];        /* edge to successor s is in push mode (registered in the node's successor cache) */
static unsigned outc;                /* body output = input ^ outc (a symbolic bijection that is trivial for the SAT solver, unlike + / -) */
static unsigned running, inline_running, body_tasks_created, task_bodies_finished, nbody, nsinkcall, noffer, acc_bits, flip_bits;
static unsigned cancelled, nreserved, task_body_pending, in_task;
static unsigned live_ext, live_arena; static u8 owner_arena[2][TASKMAX];
static unsigned src_left, src_given, n_regsucc, pred_added;
static unsigned fifo_next;           /* serial queueing: index of the next message whose body must start */
static unsigned nput_true, ndropped, in_reset;
#ifndef RESETFLAGS
#define RESETFLAGS 3
#endif

/* r1::get_thread_reference_vertex(top): the calling arena thread's reference vertex for that wait context (src/tbb/task.cpp:
   found or created with count 0 in the thread's map). One worker thread (vertex 0); the attached external thread has vertex 1. */
struct S_class_tbb__detail__d1__wait_tree_vertex_interface* _ZN3tbb6detail2r127get_thread_reference_vertexEPNS0_2d126wait_tree_vertex_interfaceE(struct S_class_tbb__detail__d1__wait_tree_vertex_interface* top) {
  VP_ASSERT((u8*)top == vp_graph_vertex(), "reference vertex requested for a foreign wait context");
  return (struct S_class_tbb__detail__d1__wait_tree_vertex_interface*)vp_refv(in_task ? 0 : 1); }

static int find_v(int v) { int k = -1; for (unsigned i = nmsg; i > 0; i--) k = (msg_v[i - 1] == v) ? (int)(i - 1) : k; return k; }
static unsigned inflight(void) { return body_tasks_created - task_bodies_finished + inline_running; }
static unsigned refs_expected(void) {
  /* tasks created by a thread of the arena share that thread's reference vertex, which holds one reference on the graph while non-empty */
  unsigned a0 = 0, a1 = 0;
  for (unsigned k = 0; k < 2; k++) for (unsigned i = 0; i < n_alloc[k]; i++) { if (owner_arena[k][i] == 1) a0 = 1; if (owner_arena[k][i] == 2) a1 = 1; }
  return live_ext + a0 + a1 + nreserved; }
static void check_refs(const char* dummy) {
  VP_ASSERT(vp_graph_refs() == refs_expected(), "graph wait count differs from live tasks + reservations (wait_for_all would return early or hang)"); }
static void on_alloc(unsigned kind, unsigned idx) {
  if (in_arena) owner_arena[kind][idx] = in_task ? 1 : 2; else { owner_arena[kind][idx] = 0; live_ext++; }
  if (kind == 0) { body_tasks_created++;
    if (CONC != 0 && !cancelled) VP_ASSERT(inflight() <= CONC, "a body task was created beyond the concurrency limit"); } }
/* deallocation observer: called by the stub through n_free bookkeeping below */
static void on_free(u8* p) {
  for (unsigned k = 0; k < 2; k++) for (unsigned i = 0; i < TASKMAX; i++) if (p == task_mem(k, i)) {
    VP_ASSERT(owner_arena[k][i] != 0xff, "task freed twice");
    if (owner_arena[k][i] == 0) live_ext--;
    owner_arena[k][i] = 0xff; } }
static unsigned do_put(void);
u32 vp_body(u32 uv) {
  int v = (int)uv; int k = find_v(v);
  VP_ASSERT(k >= 0, "body invoked with a value that was never put (payload changed / invented message)");
  VP_ASSERT(msg_st[k] == ST_INPUT || msg_st[k] == ST_ACCEPTED, "body invoked twice for a message, or for a message reported as rejected");
  VP_ASSERT(!(cancelled && in_task), "a body started in a task after the graph was cancelled");
  int mine_is_task = 0;
  if (task_body_pending) { task_body_pending = 0; mine_is_task = 1; } else inline_running++;
  running++;
  if (CONC != 0) { VP_ASSERT(running <= CONC, "more bodies running at once than the concurrency limit");
    VP_ASSERT(inflight() <= CONC, "running bodies + pending body tasks exceed the concurrency limit"); }
#if defined(FIFO)
  /* serial node: bodies start in the order the messages were offered (rejected ones are skipped; with "everything accepted is
     processed" at the end this is exact FIFO for the queueing policies) */
  VP_ASSERT((unsigned)k >= fifo_next, "serial node: bodies not started in acceptance order"); fifo_next = (unsigned)k + 1;
#endif
  VP_ASSERT(vp_graph_refs() == refs_expected(), "graph wait count wrong while a body runs");
  if (in_task) VP_ASSERT(vp_graph_refs() >= 1, "graph wait count is 0 while a task's body is running (wait_for_all could return)");
  msg_st[k] = ST_RUNNING;
  unsigned me = nbody++;
  if ((NESTB >> me) & 1) do_put();
  running--; if (mine_is_task) task_bodies_finished++; else inline_running--;
  msg_st[k] = ST_DONE;
  for (unsigned s = 0; s < NSUCC; s++) want[k][s] = succ_push[s];
  return (u32)v ^ outc;
}
u32 vp_sink(u32 id, u32 o) {
  VP_ASSERT(id < NSUCC, "offer to an unknown successor");
  int k = find_v((int)(o ^ outc));
  VP_ASSERT(k >= 0 && msg_st[k] == ST_DONE, "successor offered something that is not the output of a finished body");
  VP_ASSERT(succ_push[id], "message pushed along an edge that is in pull mode");
  VP_ASSERT(off[k][id] == 0, "output offered twice to the same successor");
  off[k][id]++;
  if (in_task) VP_ASSERT(vp_graph_refs() >= 1, "graph wait count is 0 while a message is in transit");
  unsigned me = nsinkcall++;
  if ((NESTS >> me) & 1) do_put();
#ifdef SYMACC
  unsigned acc = vp_nd_bool();
#else
  unsigned acc = (acc_bits >> noffer) & 1;
#endif
  noffer++;
  return acc;
}
u32 vp_sink_regpred(u32 id) {   /* the rejecting successor is asked to become a predecessor-side edge (pull mode) */
  VP_ASSERT(id < NSUCC && succ_push[id], "register_predecessor on an edge that is not in push mode");
  unsigned f = (flip_bits >> id) & 1;
  if (f) succ_push[id] = 0;
  return f;
}
u32 vp_src_get(u32* v) {
  VP_ASSERT(pred_added && n_regsucc == 0, "pull from a predecessor whose edge is in push mode");
  if (src_left == 0) return 0;
  VP_ASSERT(nmsg < MAXM, "VP bound: messages");
  int x = (int)vp_nd(); for (unsigned i = 0; i < nmsg; i++) __CPROVER_assume(msg_v[i] != x);
  msg_v[nmsg] = x; msg_st[nmsg] = ST_ACCEPTED; nmsg++; src_left--; src_given++;
  *v = (u32)x; return 1;
}
void vp_src_regsucc(void) {
  if (in_reset) { VP_ASSERT(pred_added && n_regsucc == 0, "reset handed back an edge that was not in pull mode"); n_regsucc++; return; }   /* predecessor_cache::reset() */
  n_regsucc++; VP_ASSERT(n_regsucc == 1 && src_left == 0, "node gave the edge back although the predecessor still has items / twice"); }

static unsigned do_put(void) {
  VP_ASSERT(nmsg < MAXM, "VP bound: messages");
  int x = (int)vp_nd(); for (unsigned i = 0; i < nmsg; i++) __CPROVER_assume(msg_v[i] != x);
  unsigned k = nmsg++; msg_v[k] = x; msg_st[k] = ST_INPUT;
  unsigned free_slot = (CONC == 0) || inflight() < CONC;
  unsigned save_arena = in_arena; if (!in_task) in_arena = EXTIN;
  unsigned r = vp_put(x);
  in_arena = save_arena;
  if (!cancelled) {
#if REJ
    VP_ASSERT(r == free_slot, "rejecting node: try_put must succeed iff a concurrency slot is free");
#else
    VP_ASSERT(r, "queueing node rejected a message");
#endif
  }
  if (r) { nput_true++; VP_ASSERT(msg_st[k] != ST_RUNNING, "try_put returned while its body is still running");
    if (msg_st[k] == ST_INPUT) msg_st[k] = ST_ACCEPTED; }
  else { VP_ASSERT(msg_st[k] == ST_INPUT, "try_put reported a rejection although the message was processed"); msg_st[k] = ST_REJECTED; }
  return r;
}
static void run_one(int newest) {
  if (!bag_n) return;
  void* t = bag_take(newest);
  int kind = task_kind_of(t);
  /* (kind = the typed pool the task lives in = alloc_kind_hint at its creation; a wrong hint cannot go unnoticed: a forward task in the
     body pool trips "finished without invoking the body", a body task in the forward pool trips the concurrency accounting) */
  in_task = 1; in_arena = WIN; task_body_pending = (kind == 0 && !cancelled);
  u8* b = vp_run_task((struct S_class_tbb__detail__d1__task*)t, cancelled);
  VP_ASSERT(!task_body_pending, "a body task finished without invoking the body");
  task_body_pending = 0; in_task = 0; in_arena = 0;
  if (b) { VP_ASSERT(bag_n < BAGMAX, "VP bound: bag"); bag[bag_n++] = b; }   /* bypass task: runnable next */
}
/* between operations: no call in flight */
static void settled(void) {
  VP_ASSERT(running == 0 && inline_running == 0, "harness: body still marked running");
  VP_ASSERT(n_live[0] + n_live[1] == bag_n, "a live task is neither spawned nor returned for execution (wait_for_all would never return) / a spawned task was destroyed");
  check_refs(0);
  VP_ASSERT((vp_graph_refs() == 0) == (bag_n == 0 && nreserved == 0), "graph wait count is 0 iff no task is pending and no reservation is held");
  if (!cancelled && CONC != 0) {
    VP_ASSERT(n_live[0] <= CONC, "more live body tasks than the concurrency limit");
    VP_ASSERT(vp_conc() == n_live[0], "node's concurrency count differs from the number of live body tasks (slot leaked / released twice)"); }
  /* every finished message was offered exactly once to each successor that was in push mode when its body finished */
  for (unsigned k = 0; k < nmsg; k++) if (msg_st[k] == ST_DONE)
    for (unsigned s = 0; s < NSUCC; s++) VP_ASSERT(off[k][s] == want[k][s], "a body output was not offered to a registered successor (lost)");
}
static void run(unsigned accpat, unsigned flippat) {
  fg_reset(); queue_given = 0;
  nmsg = 0; running = inline_running = body_tasks_created = task_bodies_finished = nbody = nsinkcall = noffer = 0; acc_bits = accpat; flip_bits = flippat;
  cancelled = nreserved = task_body_pending = in_task = 0; live_ext = live_arena = 0; src_left = AVAIL; src_given = n_regsucc = pred_added = 0; fifo_next = 0; nput_true = 0; ndropped = 0; in_reset = 0;
  for (unsigned i = 0; i < MAXM; i++) { msg_st[i] = ST_NONE; for (unsigned s = 0; s < 3; s++) off[i][s] = want[i][s] = 0; }
  for (unsigned k = 0; k < 2; k++) for (unsigned i = 0; i < TASKMAX; i++) owner_arena[k][i] = 0xff;
  for (unsigned s = 0; s < 3; s++) succ_push[s] = s < NSUCC;
  outc = 0x40000000u;   /* concrete: with a symbolic mask the solver has to re-derive (v ^ c) ^ c == v bit by bit inside every message identification */
  vp_init(CONC, NSUCC);
  vp_refv_init(0); vp_refv_init(1);
  for (int s = 0; s < NOPS; s++) {
    int op = ops[s];
    if (op == 1) do_put();
    else if (op == 2) run_one(0);
    else if (op == 3) run_one(1);
    else if (op == 8) run_one(vp_nd_bool());
    else if (op == 4) { pred_added = 1; alloc_kind_hint = 1; vp_add_pred(); alloc_kind_hint = 0; }   /* reg_pred is the only operation that creates a forward task */
    else if (op == 5) cancelled = 1;
    else if (op == 6) { vp_reserve_wait(); nreserved++; }
    else if (op == 7) { if (nreserved) { vp_release_wait(); nreserved--; } }
    else if (op == 9) { if (!succ_push[0]) { vp_add_succ(0); succ_push[0] = 1; } }
    else if (op == 12 || op == 13) {
      unsigned flags = op == 12 ? 0 : RESETFLAGS;
      cancelled = 1;                                           /* g.cancel(); g.wait_for_all(): */
      for (int i = 0; i < BAGRUNS; i++) run_one(0);
      VP_ASSERT(bag_n == 0, "VP bound: tasks still pending after BAGRUNS cancellations");
      while (nreserved) { vp_release_wait(); nreserved--; }
      VP_ASSERT(vp_graph_refs() == 0, "graph wait count not 0 after every pending task was cancelled (wait_for_all would hang)");
      unsigned had_pull_edge = pred_added && n_regsucc == 0;
      unsigned ctx0 = n_ctx_reset;
      in_reset = 1; vp_graph_reset(flags); in_reset = 0;    /* g.reset(flags) */
      VP_ASSERT(n_ctx_reset == ctx0 + 1, "graph::reset did not reset the task_group_context exactly once");
      VP_ASSERT(vp_graph_active(), "graph left inactive by reset()");
      /* WB: every piece of per-node protocol state is back to its initial value */
      VP_ASSERT(vp_conc() == 0 && vp_qsize() == 0 && vp_fwd_busy() == 0 && vp_npred() == 0, "reset() left protocol state behind (concurrency count / input queue / forwarder_busy / cached predecessor)");
      VP_ASSERT(bag_n == 0 && vp_graph_refs() == 0, "reset() spawned a task / touched the wait count");
      if (!(flags & 2)) VP_ASSERT(!had_pull_edge || n_regsucc == 1, "reset() (edges kept) did not hand a cached predecessor edge back to push mode");
      else { VP_ASSERT(n_regsucc == 0 || !had_pull_edge, "reset(rf_clear_edges) re-registered with a predecessor"); for (unsigned s2 = 0; s2 < 3; s2++) succ_push[s2] = 0; }
      /* a fresh epoch: what was accepted and not processed is discarded (documented effect of cancel + reset) */
      for (unsigned k = 0; k < nmsg; k++) if (msg_st[k] == ST_ACCEPTED || msg_st[k] == ST_INPUT) { msg_st[k] = ST_DROPPED; ndropped++; }
      cancelled = 0; body_tasks_created = task_bodies_finished = inline_running = 0; fifo_next = nmsg; pred_added = 0; n_regsucc = 0;
    }
    settled();
  }
  /* quiescence: what wait_for_all does - run every task (and what they spawn) */
  for (int i = 0; i < BAGRUNS; i++) { run_one(0); settled(); }
  VP_ASSERT(bag_n == 0, "VP bound: tasks still pending after BAGRUNS executions");
  while (nreserved) { vp_release_wait(); nreserved--; }
  VP_ASSERT(vp_graph_refs() == 0, "graph wait count not back to 0 although nothing is pending");
  VP_ASSERT(n_alloc[0] + n_alloc[1] == n_free, "a finished task was not deallocated / deallocated twice");
  if (!cancelled) {
    for (unsigned k = 0; k < nmsg; k++) VP_ASSERT(msg_st[k] == ST_DONE || msg_st[k] == ST_REJECTED || msg_st[k] == ST_DROPPED, "an accepted message was never processed (lost)");
    VP_ASSERT(vp_qsize() == 0, "input queue not empty at quiescence");
    if (CONC != 0) VP_ASSERT(vp_conc() == 0, "concurrency count not back to 0 at quiescence");
    if (pred_added) VP_ASSERT(src_left == 0 && n_regsucc == 1 && vp_npred() == 0 && vp_fwd_busy() == 0, "items left at the predecessor / edge not handed back at quiescence");
  }
  unsigned ndone = 0; for (unsigned k = 0; k < nmsg; k++) ndone += msg_st[k] == ST_DONE;
  VP_ASSERT(ndone == nbody, "number of body invocations differs from the number of processed messages");
  if (!cancelled) VP_ASSERT(nbody + ndropped == nput_true + src_given, "body invocations != accepted messages");
}
static const unsigned accs[] = { ACCS };
#ifndef FLIPS
#define FLIPS 0
#endif
static const unsigned flips[] = { FLIPS };
int main(void) {
  for (unsigned a = 0; a < sizeof accs / sizeof accs[0]; a++)
    for (unsigned f = 0; f < sizeof flips / sizeof flips[0]; f++) run(accs[a], flips[f]);
  VP_REACHED();
}

/* C14 / push<->pull edge switching: the real broadcast_node<int> (EK 0: broadcast_cache) or queue_node<int> (EK 1: round_robin_cache,
 * item buffer, forwarder task, aggregator handler) with NSUCC harness successors that follow the documented receiver protocol:
 * a successor rejects or accepts an offer (k-th offer <-> bit k of the accept pattern), a rejecting successor s whose FLIP bit s is set
 * answers register_predecessor() with true (takes the edge over: pull mode), later pulls with try_get / try_reserve + try_consume |
 * try_release and, when a pull fails, gives the edge back with register_successor() (what predecessor_cache::get_item does).
 * Concrete operation list OPS (message values symbolic and pairwise distinct):
 *   1 try_put(v)      2 / 3 run the oldest / newest spawned task     10+s successor s pulls with try_get     20+s successor s pulls with try_reserve
 *   30 the reserving successor releases   31 ... consumes            40+s successor s is removed by remove_successor (from push mode)
 *   60 recovery: graph cancelled, wait_for_all (pending tasks get cancel()), the real graph::reset() (default flags): buffer, reservation and forwarder flag must be
 *      initial again (buffered messages are discarded by design), successors holding the edge in pull mode give it back (their own reset); then reuse
 *   50+s successor s (removed or, with NSUCC < 3, never registered) is registered, possibly while messages are buffered
 * Oracle: nothing is pushed along an edge that is in pull mode or removed; broadcast_node: every put is offered exactly once to every
 * push-mode successor, in registration order, and to nobody else; queue_node: every delivery (accepted offer, successful try_get,
 * consumed reservation) is the oldest undelivered message (=> each message delivered exactly once, to exactly one successor, FIFO),
 * nothing is offered or handed out while reserved, a failed pull leaves the buffer unchanged, after the edge is handed back and the
 * tasks have run the front message has been offered to every push-mode successor (no stuck message), the final drain returns exactly
 * the undelivered messages, graph wait count == spawned tasks. */
#include "w.h"
#include "vp.h"
static u8* task_mem(unsigned kind, unsigned i) { return vp_ft_mem(i); }
static unsigned task_size(unsigned kind) { return vp_ft_size(); }
#include "fg14_stubs.h"
#ifndef NSUCC
#define NSUCC 2
#endif
#ifndef BAGRUNS
#define BAGRUNS 4
#endif
static const int ops[] = { OPS };
#define NOPS ((int)(sizeof ops / sizeof ops[0]))
#define MAXM 6
enum { M_PUSH = 1, M_PULL = 2, M_REMOVED = 3 };
static int m[MAXM]; static unsigned n;            /* abstract FIFO of undelivered messages (queue_node) */
static unsigned nput, ndelivered, noffer, acc_bits, flip_bits;
static unsigned mode[3]; static unsigned order[3], norder;   /* push-mode successors in registration order */
static unsigned reserved, res_holder; static int res_val;
static unsigned frontseq;                         /* sequence number of the current front = number of deliveries so far */
static unsigned offered_front[3];                 /* frontseq+1 if successor s has been offered the current front since it became front / s registered */
static unsigned stale;                            /* the front changed through a pull (which does not trigger forwarding) */
static int in_put, cur_val; static unsigned put_off[3], put_pos;
static unsigned ncomplete, nflip_total, npull_total, cancelled, ndropped;   /* vacuity guards over all runs of the query */
static unsigned last_rejected;                    /* successor whose offer was just rejected (register_predecessor must follow for it) + 1 */

static void order_remove(unsigned s) { unsigned j = 0; for (unsigned i = 0; i < 3; i++) if (i < norder && order[i] != s) order[j++] = order[i]; norder = j; }
static void delivered(int v) {
  VP_ASSERT(n > 0, "a message was handed out although nothing is buffered (duplicated)");
  if (n == 0) return;   /* (keep the harness state sane after a reported violation) */
  VP_ASSERT(m[0] == v, "handed-out message is not the oldest undelivered one (lost / duplicated / reordered / payload changed)");
  for (unsigned i = 0; i + 1 < MAXM; i++) m[i] = m[i + 1];
  n--; ndelivered++; frontseq++;
}
u32 vp_sink(u32 id, u32 v) {
  VP_ASSERT(id < 3, "offer to an unknown successor");
  VP_ASSERT(mode[id] == M_PUSH, "message pushed along an edge that is in pull mode / was removed");
  last_rejected = 0;
  unsigned acc = (acc_bits >> noffer) & 1; noffer++;
#if EK == 0
  VP_ASSERT(in_put && (int)v == cur_val, "broadcast_node offered something else than the message being put");
  VP_ASSERT(put_off[id] == 0, "message offered twice to the same successor");
  put_off[id]++;
  VP_ASSERT(put_pos < norder && order[put_pos] == id, "broadcast: successors not served in registration order / a successor skipped");
  if (acc) put_pos++;   /* a rejecting successor either leaves the list (flip) or stays at this position; see vp_sink_regpred */
#else
  VP_ASSERT(!reserved, "message offered to a successor while the node holds a reservation");
  VP_ASSERT(n > 0 && m[0] == (int)v, "offered message is not the oldest undelivered one");
  offered_front[id] = frontseq + 1;
  if (acc) delivered((int)v);
#endif
  if (!acc) last_rejected = id + 1;
  return acc;
}
u32 vp_sink_regpred(u32 id) {
  VP_ASSERT(last_rejected == id + 1, "register_predecessor on a successor that did not just reject");
  last_rejected = 0;
  unsigned f = (flip_bits >> id) & 1;
  if (f) { mode[id] = M_PULL; order_remove(id); nflip_total++; }
#if EK == 0
  else put_pos++;
#endif
  return f;
}
static void run_one(int newest) {
  if (!bag_n) return;
  void* t = bag_take(newest);
  u8* b = vp_run_task((struct S_class_tbb__detail__d1__task*)t, cancelled);
  if (b) { VP_ASSERT(bag_n < BAGMAX, "VP bound: bag"); bag[bag_n++] = b; }
}
static void give_back(unsigned s) { vp_add_succ(s); mode[s] = M_PUSH; order[norder++] = s; offered_front[s] = 0; stale = 0; }
static void settled(void) {
  VP_ASSERT(n_live[0] == bag_n, "a live task is neither spawned nor returned for execution / a spawned task was destroyed");
  VP_ASSERT(vp_graph_refs() == bag_n, "graph wait count differs from the number of pending tasks");
  VP_ASSERT(vp_nsucc() == norder, "number of push-mode edges in the node's successor cache differs from the protocol state");
#if EK != 0
  VP_ASSERT(vp_size() == n, "node buffers a different number of messages than were put and not delivered");
  VP_ASSERT((vp_reserved() != 0) == (reserved != 0), "node reservation flag differs from the protocol state");
#endif
}
static void quiescent(void) {   /* no task pending */
#if EK != 0
  VP_ASSERT(vp_fwd_busy() == 0, "forwarder_busy left set with no forwarder task alive (the node would never forward again)");
  if (n > 0 && !reserved && !stale)
    for (unsigned s = 0; s < 3; s++) if (mode[s] == M_PUSH)
      VP_ASSERT(offered_front[s] == frontseq + 1, "buffered front message never offered to a push-mode successor (stuck message / lost hand-off)");
#endif
}
#ifndef MINFLIP
#define MINFLIP 1
#endif
static void run(unsigned accpat, unsigned flippat) {
  fg_reset(); n = 0; nput = ndelivered = noffer = 0; cancelled = 0; ndropped = 0; acc_bits = accpat; flip_bits = flippat; reserved = 0; frontseq = 0; stale = 0; in_put = 0; last_rejected = 0;
  norder = 0; for (unsigned s = 0; s < 3; s++) { mode[s] = s < NSUCC ? M_PUSH : M_REMOVED; if (s < NSUCC) order[norder++] = s; offered_front[s] = 0; }
  vp_init(NSUCC); vp_init_extra_succ(NSUCC);
  for (int i = 0; i < BAGRUNS; i++) run_one(0);   /* forwarders spawned by the registrations */
  settled();
  for (int k = 0; k < NOPS; k++) {
    int op = ops[k];
    if (op == 1) {
      VP_ASSERT(nput < MAXM, "VP bound: messages");
      int v = (int)vp_nd(); for (unsigned i = 0; i < n; i++) __CPROVER_assume(m[i] != v);
      cur_val = v; in_put = 1; put_pos = 0; for (unsigned s = 0; s < 3; s++) put_off[s] = 0;
#if EK != 0
      m[n++] = v; stale = 0;
#endif
      nput++;
      unsigned r = vp_put(v);
      in_put = 0;
      VP_ASSERT(r, "try_put on a buffering / broadcasting node returned false");
#if EK == 0
      VP_ASSERT(put_pos == norder, "broadcast: a push-mode successor was not offered the message");
#endif
    }
    else if (op == 2) run_one(0);
    else if (op == 3) run_one(1);
    else if (op >= 10 && op < 13) { unsigned s = op - 10; if (mode[s] != M_PULL) continue;   /* not applicable: no-op */
      npull_total++; int out = (int)vp_nd(), out0 = out; unsigned r = vp_get((u32*)&out);
#if EK == 0
      VP_ASSERT(!r, "broadcast_node handed out a message on try_get");
#else
      VP_ASSERT(r == (n > 0 && !reserved), "queue_node try_get: success iff a message is buffered and none is reserved");
#endif
      if (r) { delivered(out); stale = 1; } else { VP_ASSERT(out == out0, "failed try_get wrote its output"); give_back(s); } }
    else if (op >= 20 && op < 23) { unsigned s = op - 20; if (mode[s] != M_PULL || reserved) continue;
      npull_total++; int out = (int)vp_nd(); unsigned r = vp_reserve((u32*)&out);
#if EK == 0
      VP_ASSERT(!r, "broadcast_node reserved a message");
#else
      VP_ASSERT(r == (n > 0), "queue_node try_reserve: success iff a message is buffered");
#endif
      if (r) { VP_ASSERT(out == m[0], "reserved message is not the oldest one"); reserved = 1; res_holder = s; res_val = out; } else give_back(s); }
    else if (op == 60) {
      cancelled = 1;
      for (int i = 0; i < BAGRUNS; i++) run_one(0);
      VP_ASSERT(bag_n == 0 && vp_graph_refs() == 0, "graph wait count not 0 after every pending task was cancelled (wait_for_all would hang)");
      unsigned ctx0 = n_ctx_reset;
      vp_graph_reset(0);
      VP_ASSERT(n_ctx_reset == ctx0 + 1 && vp_graph_active(), "graph::reset did not reset the context once / left the graph inactive");
      VP_ASSERT(bag_n == 0 && vp_graph_refs() == 0, "reset() spawned a task / touched the wait count");
      VP_ASSERT(vp_size() == 0 && vp_fwd_busy() == 0 && vp_reserved() == 0 && vp_nsucc() == norder, "reset() left protocol state behind (buffered messages / forwarder_busy / reservation) or dropped an edge");   /* WB */
      cancelled = 0; ndropped += n; n = 0; reserved = 0; stale = 0;
      for (unsigned s = 0; s < 3; s++) if (mode[s] == M_PULL) give_back(s);    /* the pulling successors' own reset: predecessor_cache::reset() */
    }
    else if (op == 30) { if (!reserved) continue; vp_release(); reserved = 0; stale = 0; }
    else if (op == 31) { if (!reserved) continue; vp_consume(); reserved = 0; delivered(res_val); stale = 0; }
    else if (op >= 40 && op < 43) { unsigned s = op - 40; if (mode[s] != M_PUSH) continue; vp_remove_succ(s); mode[s] = M_REMOVED; order_remove(s); }
    else if (op >= 50 && op < 53) { unsigned s = op - 50; if (mode[s] != M_REMOVED) continue; give_back(s); }   /* (late) registration, possibly while messages are buffered */
    settled();
    if (bag_n == 0) quiescent();
  }
  for (int i = 0; i < BAGRUNS; i++) { run_one(0); settled(); }
  VP_ASSERT(bag_n == 0, "VP bound: tasks still pending after BAGRUNS executions");
  quiescent();
  VP_ASSERT(n_alloc[0] == n_free, "a finished task was not deallocated / deallocated twice");
#if EK != 0
  if (reserved) { vp_release(); reserved = 0; acc_bits = 0; noffer = 0; for (int i = 0; i < BAGRUNS; i++) run_one(0); }
  VP_ASSERT(nput == ndelivered + n + ndropped, "conservation: put != delivered + buffered (+ discarded by reset)");
  for (unsigned i = 0; i < MAXM; i++) { int out = 0; unsigned r = vp_get((u32*)&out);
    VP_ASSERT(r == (n > 0), "drain: message lost or duplicated"); if (r) delivered(out); }
  VP_ASSERT(nput == ndelivered + ndropped, "conservation: every message put is delivered exactly once");
#endif
  ncomplete++;
}
static const unsigned accs[] = { ACCS };
static const unsigned flips[] = { FLIPS };
int main(void) {
  for (unsigned a = 0; a < sizeof accs / sizeof accs[0]; a++)
    for (unsigned f = 0; f < sizeof flips / sizeof flips[0]; f++) run(accs[a], flips[f]);
  VP_ASSERT(nflip_total >= MINFLIP && npull_total >= MINFLIP, "scenario: no edge flip / pull happened in any run of this query");
  VP_REACHED();
}

// C14 wrapper: two real nodes and the real edge protocol between them: queue_node<int> Q --> function_node<int,int,rejecting> F
// (F rejects while its concurrency slots are taken, Q's round_robin_cache hands the edge over with register_predecessor, F pulls from Q
// through its predecessor_cache (try_get) when a slot becomes free and gives the edge back when Q is empty), F --> harness sink.
#include "fg14_common.h"
extern "C" int vp_body(int v);
struct vp_body_t { int operator()(const int& v) const { return vp_body(v); } };
#ifndef FPOL
#define FPOL rejecting
#endif
typedef queue_node<int> qnode_t;
typedef function_node<int, int, FPOL> fnode_t;
typedef fnode_t::input_impl_type::base_type input_base_t;
typedef apply_body_task_bypass<input_base_t, int> body_task_t;
typedef forward_task_bypass<input_base_t> ffwd_task_t;
typedef forward_task_bypass<buffer_node<int>> qfwd_task_t;
// the three task types have the same size, so the allocation stub cannot tell them apart: one storage type for all of them
union vp_anytask { body_task_t b; ffwd_task_t f; qfwd_task_t q; vp_anytask() {} ~vp_anytask() {} };
static_assert(sizeof(body_task_t) == sizeof(vp_anytask), "");
VP_TASK_STORAGE(vp_ft, vp_anytask)
VP_RUN_TASK()
static vp_raw<qnode_t> vp_q_mem;
static vp_raw<fnode_t> vp_f_mem;
static vp_raw<fnode_t::input_queue_type> vp_queue_obj;
extern "C" void* vp_queue_mem() { return &vp_queue_obj.x; }
extern "C" unsigned long vp_queue_objsize() { return sizeof(fnode_t::input_queue_type); }
static qnode_t& Q() { return vp_q_mem.x; }
static fnode_t& F() { return vp_f_mem.x; }
extern "C" {
void vp_make_edge() { make_edge(Q(), F()); }
void vp_init(unsigned long concurrency, unsigned with_edge) {
  vp_graph_init();
  new (&vp_q_mem.x) qnode_t(vp_graph());
  new (&vp_f_mem.x) fnode_t(vp_graph(), concurrency, vp_body_t());
  new (&vp_succ(0)) vp_recv(); vp_succ(0).id = 0; F().register_successor(vp_succ(0));
  if (with_edge) make_edge(Q(), F());
}
unsigned vp_put(int v) { return Q().try_put(v); }
unsigned long vp_conc() { return F().my_concurrency; }
unsigned long vp_qsize() { return Q().my_tail - Q().my_head; }
unsigned long vp_q_nsucc() { return Q().my_successors.my_successors.size(); }
unsigned long vp_f_npred() { return F().my_predecessors.my_q.size(); }
unsigned vp_q_fwd_busy() { return Q().forwarder_busy; }
unsigned vp_f_fwd_busy() { return F().forwarder_busy; }
// is this task a body task of F? (compared with the vtable pointer of a sample body task constructed at init against a second,
// unused graph object, so that its constructor's reserve() does not touch the graph under test)
static vp_raw<graph> vp_graph2_mem;
static vp_raw<body_task_t> vp_sample_body;
static void* vp_body_vptr;
void vp_init_sample() {
  graph& g = vp_graph2_mem.x;
  new (&g.my_wait_context_vertex) d1::wait_context_vertex();
  g.my_task_arena = &vp_arena_tok.x; g.my_is_active = true;
  d1::small_object_allocator a{};
  new (&vp_sample_body.x) body_task_t(g, a, static_cast<input_base_t&>(F()), 0);
  vp_body_vptr = *reinterpret_cast<void**>(&vp_sample_body.x);
}
unsigned vp_task_is_body(void* t) { return *reinterpret_cast<void**>(t) == vp_body_vptr; }
}

extern "C" { void vp_emit(unsigned long v); unsigned vp_st_bag(); void vp_st_push(void*); void* vp_st_take(unsigned newest); void vp_st_reset(unsigned avail, unsigned accmask, unsigned flipmask); void vp_st_arena(unsigned); }
static void st_run(unsigned newest, unsigned cancel) {
  if (!vp_st_bag()) return;
  d1::task* t = static_cast<d1::task*>(vp_st_take(newest));
  vp_st_arena(1); void* b = vp_run_task(t, cancel); vp_st_arena(0);
  if (b) vp_st_push(b);
}
static void st_state() { vp_emit(vp_conc()); vp_emit(vp_qsize()); vp_emit(vp_graph_refs()); vp_emit(vp_q_nsucc()); vp_emit(vp_f_npred()); vp_emit(vp_q_fwd_busy()); vp_emit(vp_f_fwd_busy()); vp_emit(vp_st_bag()); }
extern "C" void vp_selftest() {
  for (unsigned conc = 0; conc < 3; conc++) {
    vp_st_reset(0, 0x2d, 0); vp_init(conc, 1); vp_refv_init(0);
    st_run(0, 0); st_state();
    for (int i = 0; i < 3; i++) { vp_emit(vp_put(10 + i)); st_state(); }
    for (int i = 0; i < 3; i++) { st_run(i & 1, 0); st_state(); }
    for (int i = 0; i < 3; i++) { vp_emit(vp_put(20 + i)); st_run(1, 0); st_state(); }
    for (int i = 0; i < 12; i++) st_run(0, 0);
    st_state();
    vp_emit(vp_put(30)); vp_emit(vp_put(31)); st_run(0, 0); st_run(0, 1); st_run(0, 1); st_run(0, 1); st_state();
  }
}
